//! C02: well-formed PDFs from any producer load to their content.  An independent reference writer renders a small
//! abstract document under every combination of a set of syntactic choices (enumerated, not sampled); the real loader
//! must return exactly the abstract document.
//!
//! Two further dimensions are enumerated on top of the style product:
//!  * where the integer of an indirect /Length lives (`len_home`): a file-body object after the stream, a file-body object
//!    before the stream, or a compressed object inside the object stream (ISO 32000-1 7.3.8.2 allows an indirect Length,
//!    7.5.7 only forbids compressing the Length of an object stream itself) -- every one of them crossed with the whole
//!    style product;
//!  * how many digits a real number is spelled with (`nums` >= 100, the "reals" family): a PDF real is a decimal of any
//!    length (7.3.3), the object it defines is the f32 nearest to the number written.  For abstract reals at the edges of
//!    every binade the writer spells each one as a decimal just inside either edge of its f32 rounding interval, at every
//!    number of decimal places, and as its exact binary value.  The oracle is exact decimal arithmetic on dyadic rationals
//!    (no floating-point parser takes part): a spelling that lies strictly between the two midpoints that bound the
//!    rounding interval of v defines v and nothing else.
//!  * how the filter pipeline of the structural streams (cross-reference stream, object stream) is written (`Ext`): the
//!    filter {FlateDecode, LZWDecode} x the spelling of /Filter and /DecodeParms that ISO 32000-1 Table 5 allows {name +
//!    dictionary, array of one name + dictionary, array of one name + array of one dictionary (or null), chain
//!    [/ASCII85Decode /<filter>] + array [null dictionary]} x a PNG predictor on the object stream {no, yes} -- crossed with
//!    the whole style product wherever the file has a filtered structural stream;
//!  * which end-of-line marker {LF, CR LF, CR} stands inside a literal string, as a line continuation after a REVERSE
//!    SOLIDUS (not part of the string, 7.3.4.2) at every position of the string, or unescaped (read as one LF whatever
//!    the marker): the "strings" family, independent of the end-of-line marker of the rest of the file.
#![allow(dead_code)]
use crate::common::*;
use crate::gen::*;
use lopdf::{Dictionary, Document, Object, Stream};
use serde_json::{json, Value};
use std::collections::BTreeMap;
use std::io::Write as _;

/// the dimensions of the family that are not part of `Style` (other modules build `Style` values)
#[derive(Clone, Copy, Debug, Default, PartialEq)]
pub struct Ext {
    pub len_home: usize, // see render_ext
    pub filt: usize,     // the filter of every filtered structural stream: 0 FlateDecode, 1 LZWDecode
    pub fspell: usize,   // how its /Filter and /DecodeParms are written: 0 name + dictionary, 1 [name] + dictionary, 2 [name] + [dictionary] ([null] without parameters), 3 [/ASCII85Decode name] + [null dictionary] (no DecodeParms without parameters)
    pub opred: bool,     // the object stream is PNG-predicted (Predictor 15, Columns 7) before it is compressed
}

#[derive(Clone, Debug)]
pub struct Style {
    pub eol: usize,        // 0 \n, 1 \r\n, 2 \r
    pub ws: usize,         // 0 single space, 1 extra mixed white-space (incl. NUL, FF, tab), 2 comments between tokens
    pub strs: usize,       // 0 literal plain escapes, 1 octal escapes + line continuation, 2 hex with white-space / odd digit count;
                           // strings family only: 3 / 4 as 1 with CR LF / CR as the marker of the continuation (continuations after the first byte, two in a row before the fifth, one before the closing parenthesis),
                           // 5 / 6 / 7 raw: LF written as an unescaped LF / CR LF / CR, balanced parentheses unescaped, superfluous REVERSE SOLIDUS before ordinary letters,
                           // 100 + 10 p + m: plain escapes and one line continuation with marker m (0 LF, 1 CR LF, 2 CR) before byte p of the string (before the closing parenthesis if the string is shorter)
    pub names: usize,      // 0 plain, 1 #XX for ordinary letters
    pub nums: usize,       // 0 plain, 1 "+7" "-.5" "1." "007"; reals only (integers stay plain): 100+z exact binary expansion with z more zeros,
                           // 1000+d largest decimal with d places below the upper edge of the real's f32 rounding interval, 2000+d smallest decimal with d places above its lower edge
    pub order: usize,      // 0 ascending, 1 descending objects in the body
    pub xref: usize,       // 0 one table section, 1 many sections, 2 xref stream W[1 2 1], 3 W[1 3 0]+Index, 4 W[2 4 2] Flate, 5 W[1 2 1] Flate+Predictor 12, 6 W [0 2 0], 7 W[1 2 1] and 8 W[2 4 2] Flate with rows of reserved types (3, 4, 255) for the unused object numbers
    pub objstm: bool,      // non-stream objects 2.. go into an object stream (needs an xref stream)
    pub indirect_len: bool, // render(): the stream's Length is an indirect object written after the stream (render_ext takes the full `len_home` dimension instead)
    pub junk: bool,
}

fn eol(s: &Style) -> &'static [u8] { [b"\n".as_slice(), b"\r\n", b"\r"][s.eol] }
fn sp(s: &Style, k: usize) -> Vec<u8> {
    match s.ws {
        0 => b" ".to_vec(),
        1 => [b" ".as_slice(), b"\x00 ", b"\t\x0c", b"  \n "][k % 4].to_vec(),
        _ => { let mut v = b" % a comment (with <junk> [ ".to_vec(); v.extend_from_slice(eol(s)); v }
    }
}

fn wstr(b: &[u8], s: &Style, out: &mut Vec<u8>) {
    match s.strs {
        0 => { out.push(b'('); for &c in b { match c { b'(' | b')' | b'\\' => { out.push(b'\\'); out.push(c) } b'\r' => out.extend_from_slice(b"\\r"), b'\n' => out.extend_from_slice(b"\\n"), _ => out.push(c) } } out.push(b')'); }
        1 => { out.push(b'('); for (i, &c) in b.iter().enumerate() { if i == 1 { out.extend_from_slice(b"\\\n"); } if c.is_ascii_alphanumeric() && i % 2 == 0 { out.push(c) } else { out.extend_from_slice(format!("\\{:03o}", c).as_bytes()) } } out.push(b')'); }
        3 | 4 => {
            let m = string_eol(s.strs - 2);
            out.push(b'(');
            for (i, &c) in b.iter().enumerate() {
                if i == 1 { out.push(b'\\'); out.extend_from_slice(m); }
                if i == 4 { out.push(b'\\'); out.extend_from_slice(m); out.push(b'\\'); out.extend_from_slice(m); }
                if c.is_ascii_alphanumeric() && i % 2 == 0 { out.push(c) } else { out.extend_from_slice(format!("\\{:03o}", c).as_bytes()) }
            }
            out.push(b'\\'); out.extend_from_slice(m);
            out.push(b')');
        }
        5 | 6 | 7 => {
            // an unescaped end-of-line marker in a literal string is read as one LF whatever the marker (7.3.4.2); CR itself must be escaped
            let m = string_eol(s.strs - 5);
            let mut depth = 0i64; let mut balanced = true;
            for &c in b { if c == b'(' { depth += 1 } else if c == b')' { depth -= 1; if depth < 0 { balanced = false } } }
            if depth != 0 { balanced = false }
            out.push(b'(');
            for (i, &c) in b.iter().enumerate() {
                match c {
                    b'(' | b')' => { if !balanced { out.push(b'\\') } out.push(c) }
                    b'\\' => out.extend_from_slice(b"\\\\"),
                    b'\r' => out.extend_from_slice(b"\\r"),
                    b'\n' => out.extend_from_slice(m),
                    _ => { if i % 5 == 2 && c.is_ascii_alphabetic() && !b"nrtbf".contains(&c) { out.push(b'\\') } out.push(c) }   // Table 3: a REVERSE SOLIDUS before any other character is ignored
                }
            }
            out.push(b')');
        }
        100..=999 => {
            let (p, m) = ((s.strs - 100) / 10, string_eol((s.strs - 100) % 10));
            out.push(b'(');
            for (i, &c) in b.iter().enumerate() {
                if i == p { out.push(b'\\'); out.extend_from_slice(m); }
                match c { b'(' | b')' | b'\\' => { out.push(b'\\'); out.push(c) } b'\r' => out.extend_from_slice(b"\\r"), b'\n' => out.extend_from_slice(b"\\n"), _ => out.push(c) }
            }
            if p >= b.len() { out.push(b'\\'); out.extend_from_slice(m); }
            out.push(b')');
        }
        _ => { out.push(b'<'); let h: String = b.iter().map(|c| format!("{:02X}", c)).collect(); let mut h = h.into_bytes(); if h.ends_with(b"0") { h.pop(); } for (i, c) in h.iter().enumerate() { out.push(*c); if i % 3 == 2 { out.push(b' '); } } out.push(b'>'); }
    }
}
fn string_eol(m: usize) -> &'static [u8] { [b"\n".as_slice(), b"\r\n", b"\r"][m % 3] }
fn strs_class(strs: usize) -> String {
    let mk = |m: usize| ["LF", "CR LF", "CR"][m % 3];
    match strs {
        0 => "plain escapes".into(), 1 => "octal escapes, line continuation with LF".into(), 2 => "hexadecimal".into(),
        3 | 4 => format!("octal escapes, line continuations (REVERSE SOLIDUS + {}) after the first byte, twice before the fifth and before the closing parenthesis", mk(strs - 2)),
        5..=7 => format!("raw: every LF of the string written as an unescaped {}, balanced parentheses unescaped, superfluous REVERSE SOLIDUS before letters", mk(strs - 5)),
        100..=999 => format!("plain escapes and one line continuation (REVERSE SOLIDUS + {}) before byte {} of the string or before its closing parenthesis", mk((strs - 100) % 10), (strs - 100) / 10),
        _ => format!("strs {}", strs),
    }
}
fn wname(n: &[u8], s: &Style, out: &mut Vec<u8>) {
    out.push(b'/');
    for (i, &c) in n.iter().enumerate() {
        let regular = c > 32 && c < 127 && !b"()<>[]{}/%#".contains(&c);
        if !regular || (s.names == 1 && i % 2 == 0) { out.extend_from_slice(format!("#{:02x}", c).as_bytes()) } else { out.push(c) }
    }
}
fn wnum_i(v: i64, s: &Style, out: &mut Vec<u8>) {
    if s.nums == 1 && v >= 0 { out.extend_from_slice(format!("+{:03}", v).as_bytes()) } else { out.extend_from_slice(v.to_string().as_bytes()) }
}
fn wnum_r(v: f32, s: &Style, out: &mut Vec<u8>) {
    if s.nums >= 100 {
        if let Some((text, _)) = real_spelling(v, s.nums) { out.extend_from_slice(text.as_bytes()); return; }
    }
    let t = format!("{}", v);
    if s.nums == 1 {
        if v.fract() == 0.0 { out.extend_from_slice(format!("{}.", v as i64).as_bytes()) }
        else if v.abs() < 1.0 { out.extend_from_slice(t.replacen("0.", ".", 1).as_bytes()) }
        else { out.extend_from_slice(t.as_bytes()) }
    } else if v.fract() == 0.0 { out.extend_from_slice(format!("{:.1}", v).as_bytes()) } else { out.extend_from_slice(t.as_bytes()) }
}

// ---- exact decimal arithmetic on dyadic rationals: the oracle for the spellings of real numbers ----

/// a non-negative decimal number: `digits` (values 0..=9, most significant first) with `places` of them after the point;
/// digits.len() > places always
#[derive(Clone, Debug)]
pub struct Dec { digits: Vec<u8>, places: usize }

impl Dec {
    fn mul_small(&mut self, k: u32) {
        let mut carry = 0u32;
        for d in self.digits.iter_mut().rev() { let x = *d as u32 * k + carry; *d = (x % 10) as u8; carry = x / 10; }
        while carry > 0 { self.digits.insert(0, (carry % 10) as u8); carry /= 10; }
    }
    /// exactly n * 2^e
    pub fn dyadic(n: u64, e: i32) -> Dec {
        let mut r = Dec { digits: n.to_string().bytes().map(|b| b - b'0').collect(), places: 0 };
        if e >= 0 { for _ in 0..e { r.mul_small(2); } } else { for _ in 0..-e { r.mul_small(5); } r.places = (-e) as usize; }
        while r.digits.len() <= r.places { r.digits.insert(0, 0); }
        r
    }
    /// the number a decimal spelling (digits with at most one point, no sign) denotes
    pub fn parse(text: &str) -> Option<Dec> {
        let (i, f) = match text.find('.') { Some(p) => (&text[..p], &text[p + 1..]), None => (text, "") };
        if (i.is_empty() && f.is_empty()) || !i.bytes().chain(f.bytes()).all(|b| b.is_ascii_digit()) { return None; }
        let mut digits: Vec<u8> = i.bytes().chain(f.bytes()).map(|b| b - b'0').collect();
        if i.is_empty() { digits.insert(0, 0); }
        Some(Dec { digits, places: f.len() })
    }
    /// rounded down to d places; true if nothing was cut off
    fn floor_to(&self, d: usize) -> (Dec, bool) {
        let mut r = self.clone();
        if d >= r.places { r.digits.extend(std::iter::repeat(0).take(d - r.places)); r.places = d; return (r, true); }
        let cut = r.places - d;
        let exact = r.digits[r.digits.len() - cut..].iter().all(|x| *x == 0);
        r.digits.truncate(r.digits.len() - cut); r.places = d;
        (r, exact)
    }
    /// one unit in the last place more
    fn succ(&self) -> Dec {
        let mut r = self.clone();
        for d in r.digits.iter_mut().rev() { if *d == 9 { *d = 0; } else { *d += 1; return r; } }
        r.digits.insert(0, 1);
        r
    }
    /// one unit in the last place less (None below zero)
    fn pred(&self) -> Option<Dec> {
        if self.digits.iter().all(|x| *x == 0) { return None; }
        let mut r = self.clone();
        for d in r.digits.iter_mut().rev() { if *d == 0 { *d = 9; } else { *d -= 1; break; } }
        Some(r)
    }
    pub fn cmp(&self, o: &Dec) -> std::cmp::Ordering {
        let p = self.places.max(o.places);
        let norm = |x: &Dec| -> Vec<u8> { let mut v = x.digits.clone(); v.extend(std::iter::repeat(0).take(p - x.places)); let z = v.iter().take_while(|d| **d == 0).count(); v.split_off(z) };
        let (a, b) = (norm(self), norm(o));
        a.len().cmp(&b.len()).then_with(|| a.cmp(&b))
    }
    pub fn text(&self) -> String {
        let n = self.digits.len() - self.places;
        let z = self.digits[..n].iter().take_while(|d| **d == 0).count().min(n - 1);
        let mut t: String = self.digits[z..n].iter().map(|d| (b'0' + d) as char).collect();
        t.push('.');
        t.extend(self.digits[n..].iter().map(|d| (b'0' + d) as char));
        t
    }
}

/// (lower edge, exact value, upper edge) of the f32 rounding interval of |v|: the edges are the midpoints between |v| and its
/// two f32 neighbours, so every number strictly between them is nearer to |v| than to any other f32.  None for zero,
/// subnormals, the smallest and the largest binade, infinities and NaN (no PDF number needs them here).
pub fn rounding_interval(v: f32) -> Option<(Dec, Dec, Dec)> {
    let bits = v.to_bits() & 0x7fff_ffff;
    let be = (bits >> 23) as i32;
    if be < 2 || be >= 254 { return None; }
    let m = ((bits & 0x7f_ffff) | 0x80_0000) as u64;
    let ex = be - 150; // |v| = m * 2^ex
    let lo = if m == 0x80_0000 { Dec::dyadic(4 * m - 1, ex - 2) } else { Dec::dyadic(2 * m - 1, ex - 1) }; // the binade below is twice as fine
    Some((lo, Dec::dyadic(m, ex), Dec::dyadic(2 * m + 1, ex - 1)))
}

/// true if the decimal spelling `text` (optional sign, digits, optional point) denotes a number whose nearest f32 is v and
/// only v: the sign agrees and the magnitude lies strictly inside the rounding interval of |v|
pub fn spelling_defines(text: &str, v: f32) -> bool {
    let (neg, mag) = match text.as_bytes().first() { Some(b'-') => (true, &text[1..]), Some(b'+') => (false, &text[1..]), _ => (false, text) };
    let (Some(d), Some((lo, _, hi))) = (Dec::parse(mag), rounding_interval(v)) else { return false };
    neg == (v < 0.0) && d.cmp(&lo) == std::cmp::Ordering::Greater && d.cmp(&hi) == std::cmp::Ordering::Less
}

/// the spelling of v in class `nums` (>= 100) and whether it is a proper member of the class; when the class has no
/// member inside the rounding interval of v (too few places to tell v from its neighbours) v is spelled as its exact
/// binary value instead.  Every spelling returned has passed `spelling_defines`.  None if v has no rounding interval here.
pub fn real_spelling(v: f32, nums: usize) -> Option<(String, bool)> {
    let (lo, exact, hi) = rounding_interval(v)?;
    let cand = match nums {
        100..=999 => Some(exact.floor_to(exact.places.max(1) + (nums - 100)).0),
        1000..=1999 if nums > 1000 => { let (t, whole) = hi.floor_to(nums - 1000); if whole { t.pred() } else { Some(t) } }
        2000..=2999 if nums > 2000 => Some(lo.floor_to(nums - 2000).0.succ()),
        _ => None,
    };
    let sign = if v < 0.0 { "-" } else { "" };
    if let Some(c) = cand { let t = format!("{}{}", sign, c.text()); if spelling_defines(&t, v) { return Some((t, true)); } }
    let t = format!("{}{}", sign, exact.floor_to(exact.places.max(1)).0.text());
    if spelling_defines(&t, v) { Some((t, false)) } else { None }
}

fn nums_class(nums: usize) -> String {
    match nums {
        0 => "shortest spelling".into(), 1 => "+7 / -.5 / 1. spellings".into(),
        100..=999 => format!("exact binary value with {} more zeros", nums - 100),
        1000..=1999 => format!("largest decimal with {} places below the upper edge of the rounding interval", nums - 1000),
        2000..=2999 => format!("smallest decimal with {} places above the lower edge of the rounding interval", nums - 2000),
        _ => format!("nums {}", nums),
    }
}

fn wobj(o: &Object, s: &Style, out: &mut Vec<u8>, k: &mut usize) {
    *k += 1;
    match o {
        Object::Null => out.extend_from_slice(b"null"),
        Object::Boolean(b) => out.extend_from_slice(if *b { b"true" } else { b"false" }),
        Object::Integer(i) => wnum_i(*i, s, out),
        Object::Real(r) => wnum_r(*r, s, out),
        Object::Name(n) => wname(n, s, out),
        Object::String(b, _) => wstr(b, s, out),
        Object::Array(a) => { out.push(b'['); for x in a { out.extend_from_slice(&sp(s, *k)); wobj(x, s, out, k); } out.extend_from_slice(&sp(s, *k)); out.push(b']'); }
        Object::Dictionary(d) => wdict(d, s, out, k),
        Object::Reference(id) => { out.extend_from_slice(format!("{}", id.0).as_bytes()); out.extend_from_slice(&sp(s, *k)); out.extend_from_slice(format!("{}", id.1).as_bytes()); out.extend_from_slice(&sp(s, *k + 1)); out.push(b'R'); }
        Object::Stream(_) => unreachable!(),
    }
}
fn wdict(d: &Dictionary, s: &Style, out: &mut Vec<u8>, k: &mut usize) {
    out.extend_from_slice(b"<<");
    for (key, v) in d.iter() { out.extend_from_slice(&sp(s, *k)); wname(key, s, out); out.extend_from_slice(&sp(s, *k + 1)); wobj(v, s, out, k); }
    out.extend_from_slice(&sp(s, *k));
    out.extend_from_slice(b">>");
}

fn zlib(data: &[u8]) -> Vec<u8> {
    let mut e = flate2::write::ZlibEncoder::new(Vec::new(), flate2::Compression::default());
    e.write_all(data).unwrap();
    e.finish().unwrap()
}
/// LZW (7.4.4) without compression: a clear-table code, then every byte as its own 9-bit code with the table cleared again
/// after every 200 codes (the decoder's table never reaches 510 entries, so the code length stays 9 bits under either value of
/// EarlyChange), then the end-of-data code; codes are packed high-order bit first
fn lzw_literal(data: &[u8]) -> Vec<u8> {
    let mut codes: Vec<u16> = vec![256];
    for (i, b) in data.iter().enumerate() { if i > 0 && i % 200 == 0 { codes.push(256); } codes.push(*b as u16); }
    codes.push(257);
    let (mut out, mut acc, mut nbits) = (Vec::new(), 0u32, 0u32);
    for c in codes { acc = (acc << 9) | c as u32; nbits += 9; while nbits >= 8 { out.push((acc >> (nbits - 8)) as u8); nbits -= 8; acc &= (1 << nbits) - 1; } }
    if nbits > 0 { out.push((acc << (8 - nbits)) as u8); }
    out
}
/// ASCII base-85 (7.4.3): groups of four bytes as five digits, z for four zero bytes, a final group of n bytes as n + 1 digits,
/// a line break after every 15 groups, the end-of-data marker ~>
fn ascii85(data: &[u8]) -> Vec<u8> {
    let mut out = Vec::new();
    for (gi, ch) in data.chunks(4).enumerate() {
        if gi > 0 && gi % 15 == 0 { out.push(b'\n'); }
        if ch.len() == 4 && ch.iter().all(|b| *b == 0) { out.push(b'z'); continue; }
        let mut g = [0u8; 4]; g[..ch.len()].copy_from_slice(ch);
        let mut v = u32::from_be_bytes(g);
        let mut d = [0u8; 5];
        for i in (0..5).rev() { d[i] = b'!' + (v % 85) as u8; v /= 85; }
        out.extend_from_slice(&d[..ch.len() + 1]);
    }
    out.extend_from_slice(b"~>");
    out
}
fn filter_name(x: &Ext) -> &'static str { if x.filt == 1 { "LZWDecode" } else { "FlateDecode" } }
/// the stored data and the /Filter /DecodeParms entries of a filtered structural stream whose decoded data is `payload`
/// (already predicted if `parms` names a predictor), under the filter and the spelling `x` asks for (ISO 32000-1 Table 5: with
/// one filter DecodeParms is that filter's dictionary, whether Filter is a name or an array; with an array of filters it is an
/// array with one entry per filter, null for a filter that takes its defaults)
fn encode_structural(payload: &[u8], parms: Option<&str>, x: &Ext) -> (Vec<u8>, String) {
    let f = filter_name(x);
    let data = if x.filt == 1 { lzw_literal(payload) } else { zlib(payload) };
    let lone = parms.map(|p| format!("/DecodeParms<<{}>>", p)).unwrap_or_default();
    match x.fspell {
        0 => (data, format!("/Filter/{}{}", f, lone)),
        1 => (data, format!("/Filter[/{}]{}", f, lone)),
        2 => (data, format!("/Filter [ /{} ]/DecodeParms[{}]", f, parms.map(|p| format!("<<{}>>", p)).unwrap_or_else(|| "null".into()))),
        _ => (ascii85(&data), format!("/Filter[/ASCII85Decode/{}]{}", f, parms.map(|p| format!("/DecodeParms[null<<{}>>]", p)).unwrap_or_default())),
    }
}
fn ext_note(x: &Ext, has_objstm: bool, xref: usize) -> String {
    if x.filt == 0 && x.fspell == 0 && !x.opred { return String::new(); }
    let f = filter_name(x);
    let spell = match x.fspell { 0 => format!("/Filter /{} with a DecodeParms dictionary where a predictor is used", f), 1 => format!("/Filter [/{}] (array of one name) with a lone DecodeParms dictionary where a predictor is used", f), 2 => format!("/Filter [/{}] with /DecodeParms [<<..>>] ([null] without predictor)", f), _ => format!("/Filter [/ASCII85Decode /{}] with /DecodeParms [null <<..>>] where a predictor is used", f) };
    format!(" [the filtered structural streams of this file are written with {}; cross-reference stream {}; object stream {}]", spell,
        match xref { 5 => "PNG-predicted (Predictor 12)", 4 | 8 => "filtered, no predictor", 0 | 1 => "absent (table)", _ => "not filtered" },
        if !has_objstm { "absent" } else if x.opred { "PNG-predicted (Predictor 15, Columns 7)" } else { "filtered, no predictor" })
}
/// PNG prediction with one byte per pixel, cycling through the row filters Up, Sub, Average, Paeth, None
fn png_up(data: &[u8], cols: usize) -> Vec<u8> {
    let paeth = |a: u8, b: u8, c: u8| -> u8 { let (a1, b1, c1) = (a as i32, b as i32, c as i32); let p = a1 + b1 - c1; let (pa, pb, pc) = ((p - a1).abs(), (p - b1).abs(), (p - c1).abs()); if pa <= pb && pa <= pc { a } else if pb <= pc { b } else { c } };
    let mut out = vec![];
    let mut prev = vec![0u8; cols];
    for (r, row) in data.chunks(cols).enumerate() {
        let f = [2u8, 1, 3, 4, 0][r % 5];
        out.push(f);
        for (i, b) in row.iter().enumerate() {
            let a = if i >= 1 { row[i - 1] } else { 0 };
            let up = prev[i];
            let ul = if i >= 1 { prev[i - 1] } else { 0 };
            let pred = match f { 0 => 0, 1 => a, 2 => up, 3 => ((a as u16 + up as u16) / 2) as u8, _ => paeth(a, up, ul) };
            out.push(b.wrapping_sub(pred));
        }
        prev = row.to_vec();
        prev.resize(cols, 0);
    }
    out
}

/// the abstract document: object number -> (generation, value); streams carry their decoded content
pub fn abstract_doc(variant: usize) -> BTreeMap<u32, (u16, Object)> {
    let mut m = BTreeMap::new();
    m.insert(1, (0, Object::Dictionary(dict(vec![(b"Type", name(b"Catalog")), (b"Pages", Object::Reference((2, 0))), (b"Lang", lit(b"en-US (x) \\ \r\n end"))]))));
    m.insert(2, (0, Object::Dictionary(dict(vec![(b"Type", name(b"Pages")), (b"Kids", Object::Array(vec![Object::Reference((4, 0))])), (b"Count", Object::Integer(1)), (b"Box", Object::Array(vec![Object::Integer(0), Object::Real(-0.5), Object::Real(612.0), Object::Real(7.25)]))]))));
    m.insert(4, (if variant == 1 { 3 } else { 0 }, Object::Dictionary(dict(vec![(b"Type", name(b"Page")), (b"Parent", Object::Reference((2, 0))), (b"Contents", Object::Reference((7, 0))), (b"A B", Object::Array(vec![Object::Null, Object::Boolean(true), Object::Boolean(false), hexs(b"\x00\xff\x10"), name(b"Na#me")]))]))));
    let mut st = Stream::new(dict(vec![(b"K", Object::Integer(7))]), b"BT /F1 12 Tf (endstream) Tj ET\nendstream \x00\xff".to_vec());
    st.dict.remove(b"Length");
    m.insert(7, (0, Object::Stream(st)));
    if variant >= 1 { m.insert(12, (0, Object::Array(vec![Object::Integer(i64::MAX), Object::Integer(-1), lit(b""), name(b"")]))); }
    m
}

/// the Length objects an indirect-Length rendering adds: stream object number -> (number of its Length object, the integer);
/// they are numbered after the largest object number of the document, in ascending stream order
pub fn len_objects(doc: &BTreeMap<u32, (u16, Object)>, len_home: usize) -> BTreeMap<u32, (u32, i64)> {
    let mut m = BTreeMap::new();
    if len_home == 0 { return m; }
    let mut next = doc.keys().max().copied().unwrap_or(0) + 1;
    for (id, (_, o)) in doc { if let Object::Stream(st) = o { m.insert(*id, (next, st.content.len() as i64)); next += 1; } }
    m
}

pub fn render(doc: &BTreeMap<u32, (u16, Object)>, s: &Style) -> Vec<u8> { render_ext(doc, s, if s.indirect_len { 1 } else { 0 }) }

/// len_home: 0 direct Length; otherwise every stream of the document gives its Length as a reference to an integer object that
/// is 1 written in the file body after all other objects, 2 written in the file body before all other objects, 3 a compressed
/// object in the object stream (needs s.objstm and an xref stream that can express type-2 entries; otherwise as 1)
pub fn render_ext(doc: &BTreeMap<u32, (u16, Object)>, s: &Style, len_home: usize) -> Vec<u8> { render_full(doc, s, &Ext { len_home, ..Ext::default() }) }

/// render_ext plus the filter pipeline of the structural streams (see `Ext`); with the default pipeline the bytes are those of render_ext
pub fn render_full(doc: &BTreeMap<u32, (u16, Object)>, s: &Style, x: &Ext) -> Vec<u8> {
    let len_home = x.len_home;
    let e = eol(s);
    let mut f = Vec::new();
    if s.junk { f.extend_from_slice(b"junk before the header\n\x00\x01"); }
    let base = f.len();
    f.extend_from_slice(b"%PDF-1.6"); f.extend_from_slice(e);
    f.extend_from_slice(b"%\xe2\xe3\xcf\xd3"); f.extend_from_slice(e);
    let mut k = 0usize;
    let mut entries: BTreeMap<u32, (u8, u64, u64)> = BTreeMap::new();
    let use_stream_xref = s.xref >= 2;
    let mut ids: Vec<u32> = doc.keys().copied().collect();
    if s.order == 1 { ids.reverse(); }
    let mut next_id = doc.keys().max().copied().unwrap_or(0) + 1;
    let in_objstm = |id: u32, o: &Object, g: u16| s.objstm && use_stream_xref && id != 1 && g == 0 && !matches!(o, Object::Stream(_));
    let lens = len_objects(doc, len_home);
    next_id += lens.len() as u32;
    let compress_len = len_home == 3 && s.objstm && use_stream_xref && s.xref != 6;
    let put_lens = |f: &mut Vec<u8>, entries: &mut BTreeMap<u32, (u8, u64, u64)>| {
        for (l, n) in lens.values() {
            entries.insert(*l, (1, (f.len() - base) as u64, 0));
            f.extend_from_slice(format!("{} 0 obj{}{}{}endobj{}", l, String::from_utf8_lossy(e), n, String::from_utf8_lossy(e), String::from_utf8_lossy(e)).as_bytes());
        }
    };
    if len_home == 2 { put_lens(&mut f, &mut entries); }
    for id in &ids {
        let (g, o) = &doc[id];
        if in_objstm(*id, o, *g) { continue; }
        entries.insert(*id, (1, (f.len() - base) as u64, *g as u64));
        f.extend_from_slice(format!("{}", id).as_bytes()); f.extend_from_slice(&sp(s, k)); f.extend_from_slice(format!("{}", g).as_bytes()); f.extend_from_slice(&sp(s, k + 1)); f.extend_from_slice(b"obj"); f.extend_from_slice(e);
        match o {
            Object::Stream(st) => {
                let mut d = st.dict.clone();
                if let Some((l, _)) = lens.get(id) { d.set("Length", Object::Reference((*l, 0))); } else { d.set("Length", st.content.len() as i64); }
                wdict(&d, s, &mut f, &mut k);
                f.extend_from_slice(e); f.extend_from_slice(b"stream"); f.extend_from_slice(if s.eol == 2 { b"\r\n" } else { e });
                f.extend_from_slice(&st.content);
                f.extend_from_slice(e); f.extend_from_slice(b"endstream");
            }
            _ => wobj(o, s, &mut f, &mut k),
        }
        f.extend_from_slice(e); f.extend_from_slice(b"endobj"); f.extend_from_slice(e);
    }
    if len_home != 0 && len_home != 2 && !compress_len { put_lens(&mut f, &mut entries); }
    // object stream
    let mut packed: Vec<(u32, Object)> = doc.iter().filter(|(id, (g, o))| in_objstm(**id, o, *g)).map(|(id, (_, o))| (*id, o.clone())).collect();
    if compress_len { for (l, n) in lens.values() { packed.push((*l, Object::Integer(*n))); } }
    if !packed.is_empty() {
        let cid = next_id; next_id += 1;
        let mut index = Vec::new(); let mut body = Vec::new();
        for (i, (id, o)) in packed.iter().enumerate() {
            index.extend_from_slice(format!("{} {}", id, body.len()).as_bytes()); index.extend_from_slice(if i % 2 == 0 { b" " } else { b"\n" });
            wobj(o, s, &mut body, &mut k); body.extend_from_slice(&sp(s, k));
            entries.insert(*id, (2, cid as u64, i as u64));
        }
        let mut content = index.clone(); content.extend_from_slice(&body);
        let (z, extra) = if x.opred {
            // white-space after the last object fills the last row of the predictor
            while content.len() % 7 != 0 { content.push(b' '); }
            encode_structural(&png_up(&content, 7), Some("/Predictor 15/Columns 7"), x)
        } else { encode_structural(&content, None, x) };
        entries.insert(cid, (1, (f.len() - base) as u64, 0));
        f.extend_from_slice(format!("{} 0 obj\n<</Type/ObjStm/N {}/First {}{}/Length {}>>stream\n", cid, packed.len(), index.len(), extra, z.len()).as_bytes());
        f.extend_from_slice(&z); f.extend_from_slice(b"\nendstream\nendobj\n");
    }
    let xref_pos = f.len() - base;
    let size = next_id + if use_stream_xref { 1 } else { 0 };
    if !use_stream_xref {
        f.extend_from_slice(b"xref"); f.extend_from_slice(e);
        let line_end: &[u8] = if s.eol == 0 { b" \n" } else if s.eol == 2 { b" \r" } else { b"\r\n" };
        let mut all: BTreeMap<u32, (u64, u64, u8)> = BTreeMap::new();
        all.insert(0, (0, 65535, b'f'));
        for (id, (_, off, g)) in &entries { all.insert(*id, (*off, *g, b'n')); }
        if s.xref == 0 {
            // one section covering 0..size with free entries in the gaps
            f.extend_from_slice(format!("0 {}", size).as_bytes()); f.extend_from_slice(e);
            for id in 0..size { let (off, g, t) = all.get(&id).copied().unwrap_or((0, 0, b'f')); f.extend_from_slice(format!("{:010} {:05} ", off, g).as_bytes()); f.push(t); f.extend_from_slice(line_end); }
        } else {
            let keys: Vec<u32> = all.keys().copied().collect();
            let mut i = 0;
            while i < keys.len() {
                let mut j = i; while j + 1 < keys.len() && keys[j + 1] == keys[j] + 1 { j += 1; }
                f.extend_from_slice(format!("{} {}", keys[i], j - i + 1).as_bytes()); f.extend_from_slice(e);
                for id in &keys[i..=j] { let (off, g, t) = all[id]; f.extend_from_slice(format!("{:010} {:05} ", off, g).as_bytes()); f.push(t); f.extend_from_slice(line_end); }
                i = j + 1;
            }
        }
        f.extend_from_slice(b"trailer"); f.extend_from_slice(e);
        f.extend_from_slice(format!("<</Size {}/Root 1 0 R>>", size).as_bytes()); f.extend_from_slice(e);
    } else {
        let xid = next_id;
        entries.insert(xid, (1, xref_pos as u64, 0));
        let w: [usize; 3] = match s.xref { 2 | 5 | 7 => [1, 2, 1], 3 => [1, 3, 0], 4 | 8 => [2, 4, 2], _ => [0, 2, 0] };
        let only_type1 = w[0] == 0;
        let mut rows = Vec::new(); let mut index = String::new();
        let mut list: Vec<(u32, (u8, u64, u64))> = entries.iter().map(|(a, b)| (*a, *b)).collect();
        if s.xref != 3 { list.insert(0, (0, (0, 0, if w[2] == 1 { 255 } else { 65535 }))); }
        if only_type1 { list.retain(|(_, (t, _, _))| *t == 1); }
        if s.xref >= 7 {
            // ISO 32000-1 7.5.8.3: an entry of any type other than 0, 1, 2 is a reference to the null object (types reserved for
            // future use); it still is a row of the stream. One such row for every unused object number below Size.
            let used: std::collections::BTreeSet<u32> = list.iter().map(|x| x.0).collect();
            let mut k = 0u64;
            for id in 1..size { if !used.contains(&id) && id != xid { let t = [3u8, 4, 255][(k % 3) as usize]; list.push((id, (t, 0x0102 + k, 1 + k))); k += 1; } }
            list.sort_by_key(|x| x.0);
        }
        let mut i = 0;
        while i < list.len() { let mut j = i; while j + 1 < list.len() && list[j + 1].0 == list[j].0 + 1 { j += 1; } index.push_str(&format!("{} {} ", list[i].0, j - i + 1)); i = j + 1; }
        for (_, (t, a, b)) in &list {
            if w[0] > 0 { rows.extend_from_slice(&(*t as u64).to_be_bytes()[8 - w[0]..]); }
            rows.extend_from_slice(&a.to_be_bytes()[8 - w[1]..]);
            if w[2] > 0 { rows.extend_from_slice(&b.to_be_bytes()[8 - w[2]..]); }
        }
        let rl = w[0] + w[1] + w[2];
        let (data, extra) = match s.xref { 4 | 8 => encode_structural(&rows, None, x), 5 => encode_structural(&png_up(&rows, rl), Some(&format!("/Predictor 12/Columns {}", rl)), x), _ => (rows.clone(), String::new()) };
        let idx = if s.xref == 2 && list.len() as u32 == size && list.first().map(|x| x.0) == Some(0) { String::new() } else { format!("/Index[{}]", index.trim()) };
        f.extend_from_slice(format!("{} 0 obj\n<</Type/XRef/Size {}/Root 1 0 R/W[{} {} {}]{}{}/Length {}>>stream\n", xid, size, w[0], w[1], w[2], idx, extra, data.len()).as_bytes());
        f.extend_from_slice(&data); f.extend_from_slice(b"\nendstream\nendobj\n");
    }
    f.extend_from_slice(b"startxref"); f.extend_from_slice(e);
    f.extend_from_slice(format!("{}", xref_pos).as_bytes()); f.extend_from_slice(e);
    f.extend_from_slice(b"%%EOF");
    if s.ws == 1 { f.extend_from_slice(e); }
    f
}

pub fn check(variant: usize, s: &Style, len_home: usize) -> Result<(), (String, String)> { check_full(variant, s, &Ext { len_home, ..Ext::default() }) }

pub fn check_full(variant: usize, s: &Style, x: &Ext) -> Result<(), (String, String)> {
    // a W [0 n 0] stream can only express type-1 entries; W [1 3 0] defaults generation 0: restrict the abstract document accordingly
    let mut doc = abstract_doc(variant);
    if s.xref == 3 || s.xref == 6 { for (_, (g, _)) in doc.iter_mut() { *g = 0; } }
    let mut st = s.clone();
    if s.xref == 6 { st.objstm = false; }
    let has_objstm = st.objstm && st.xref >= 2;
    check_bytes(&doc, &st, x.len_home, &render_full(&doc, &st, x)).map_err(|(o, d)| (o, format!("{}{}", d, ext_note(x, has_objstm, st.xref))))
}

/// the first real of `want` that `got` does not hold bit for bit at the same place: (the real the file defines, what was loaded there)
fn real_mismatch(want: &Object, got: &Object) -> Option<(f32, String)> {
    match (want, got) {
        (Object::Real(a), Object::Real(b)) => if a.to_bits() == b.to_bits() { None } else { Some((*a, format!("Real({:?}) = bits {:#010x}", b, b.to_bits()))) },
        (Object::Real(a), other) => Some((*a, format!("{:?}", other))),
        (Object::Array(x), Object::Array(y)) => x.iter().zip(y.iter()).find_map(|(p, q)| real_mismatch(p, q)),
        (Object::Dictionary(x), Object::Dictionary(y)) => x.iter().find_map(|(k, p)| y.get(k).ok().and_then(|q| real_mismatch(p, q))),
        _ => None,
    }
}

/// the first string of `want` that `got` does not hold byte for byte at the same place: (the string the file defines, what was loaded there)
fn string_mismatch(want: &Object, got: &Object) -> Option<(Vec<u8>, String)> {
    match (want, got) {
        (Object::String(a, _), Object::String(b, _)) => if a == b { None } else { Some((a.clone(), format!("the {} bytes \"{}\"", b.len(), b.escape_ascii()))) },
        (Object::String(a, _), other) => Some((a.clone(), format!("{:?}", other))),
        (Object::Array(x), Object::Array(y)) => x.iter().zip(y.iter()).find_map(|(p, q)| string_mismatch(p, q)),
        (Object::Dictionary(x), Object::Dictionary(y)) => x.iter().find_map(|(k, p)| y.get(k).ok().and_then(|q| string_mismatch(p, q))),
        _ => None,
    }
}

static PANIC_AT: std::sync::Mutex<String> = std::sync::Mutex::new(String::new());

/// run `f` (which may check cases on several threads) with a panic hook that only records where a panic happened
fn with_quiet_panics<T>(f: impl FnOnce() -> T) -> T {
    let prev = std::panic::take_hook();
    std::panic::set_hook(Box::new(|info| { if let (Some(l), Ok(mut g)) = (info.location(), PANIC_AT.lock()) { *g = format!("{}:{}", l.file(), l.line()); } }));
    let r = f();
    std::panic::set_hook(prev);
    r
}
/// load a file, turning a panic into Err; does not touch the panic hook, so that cases can run side by side
fn load_guarded(file: &[u8]) -> Result<lopdf::Result<Document>, String> {
    std::panic::catch_unwind(|| Document::load_mem(file)).map_err(|e| {
        let msg = if let Some(s) = e.downcast_ref::<String>() { s.clone() } else if let Some(s) = e.downcast_ref::<&str>() { s.to_string() } else { "panic".to_string() };
        format!("{} at {}", msg, PANIC_AT.lock().map(|g| g.clone()).unwrap_or_default())
    })
}

fn len_home_name(len_home: usize, compressed: bool) -> &'static str {
    match len_home { 0 => "direct", 2 => "an indirect object in the file body before the stream", 3 if compressed => "an indirect object compressed in the object stream", _ => "an indirect object in the file body after the stream" }
}

fn check_bytes(doc: &BTreeMap<u32, (u16, Object)>, s: &Style, len_home: usize, file: &[u8]) -> Result<(), (String, String)> {
    let loaded = match load_guarded(file) { Ok(Ok(d)) => d, Ok(Err(e)) => return Err(("loads".into(), format!("load failed: {}", e))), Err(p) => return Err(("no-panic".into(), p)) };
    if loaded.version != "1.6" { return Err(("version".into(), format!("version {:?}", loaded.version))); }
    let lens = len_objects(doc, len_home);
    let compressed = len_home == 3 && s.objstm && s.xref >= 2 && s.xref != 6;
    for (id, (g, want)) in doc {
        match loaded.objects.get(&(*id, *g)) {
            None => return Err(("object-present".into(), format!("object {} {} defined by the file is missing after load", id, g))),
            Some(got) => {
                if s.nums >= 100 {
                    // the reals family: every real must come back bit for bit (its spelling lies strictly inside the rounding interval of that f32)
                    if let Some((v, was)) = real_mismatch(want, got) {
                        let text = real_spelling(v, s.nums).map(|x| x.0).unwrap_or_else(|| format!("{}", v));
                        return Err(("real-nearest".into(), format!("object {} {}: the real spelled {} ({}) is nearer to the f32 {:?} = bits {:#010x} than to any other (it lies strictly between the midpoints to both neighbours), but loaded as {}", id, g, text, nums_class(s.nums), v, v.to_bits(), was)));
                    }
                }
                if s.strs >= 3 {
                    // the strings family: every string must come back byte for byte
                    if let Some((v, was)) = string_mismatch(want, got) {
                        let mut text = Vec::new(); wstr(&v, s, &mut text);
                        // an unescaped end-of-line marker (classes 5-7) and a line continuation (the other classes) are different rules of 7.3.4.2
                        let obligation = if (5..=7).contains(&s.strs) { "string-raw-eol" } else { "string-line-continuation" };
                        return Err((obligation.into(), format!("object {} {}: the string written as \"{}\" ({}) defines the {} bytes \"{}\" (a REVERSE SOLIDUS and the end-of-line marker LF, CR LF or CR after it are not part of the string; an unescaped end-of-line marker is one LF; ISO 32000-1 7.3.4.2), but loaded as {}", id, g, text.escape_ascii(), strs_class(s.strs), v.len(), v.escape_ascii(), was)));
                    }
                }
                let same = match (want, got) {
                    (Object::Stream(a), Object::Stream(b)) => {
                        if a.content != b.content {
                            return Err(("stream-content".into(), format!("stream {} {} (Length {}): the file defines {} bytes of data, loaded {} bytes{}; loaded /Length is {:?}", id, g, len_home_name(len_home, compressed), a.content.len(), b.content.len(), if b.content.is_empty() { "" } else if a.content.starts_with(&b.content) { " (a prefix)" } else { " (different)" }, b.dict.get(b"Length").ok())));
                        }
                        // the loaded Length is the file's reference or the integer it stands for
                        let want_len = Object::Integer(a.content.len() as i64);
                        let len_ok = match (b.dict.get(b"Length"), lens.get(id)) { (Ok(l), Some((r, _))) => *l == Object::Reference((*r, 0)) || obj_eq(&want_len, l), (Ok(l), None) => obj_eq(&want_len, l), _ => false };
                        if !len_ok { return Err(("stream-length".into(), format!("stream {} {} (Length {}): holds {} bytes but its loaded /Length is {:?}", id, g, len_home_name(len_home, compressed), a.content.len(), b.dict.get(b"Length").ok()))); }
                        dict_eq(&a.dict, &b.dict, &[b"Length"])
                    }
                    _ => obj_eq(want, got),
                };
                if !same { return Err(("object-equal".into(), format!("object {} {}: file defines {:?}, loaded {:?}", id, g, want, got))); }
            }
        }
    }
    // the Length objects are objects of the file like any other
    for (sid, (l, n)) in &lens {
        match loaded.objects.get(&(*l, 0)) {
            Some(Object::Integer(x)) if x == n => {}
            other => return Err(("length-object".into(), format!("object {} 0 (the Length of stream {}, {}) is the integer {}, loaded {:?}", l, sid, len_home_name(len_home, compressed), n, other))),
        }
    }
    if loaded.trailer.get(b"Root").and_then(|o| o.as_reference()).ok() != Some((1, 0)) { return Err(("trailer".into(), format!("trailer {:?}", loaded.trailer))); }
    Ok(())
}

// ---- the reals family ----

/// 24-bit significands at the edges and inside a binade: the power of two (its lower neighbour is twice as near), its two
/// successors, the two largest (the upper neighbour is the next power of two), alternating bit patterns, sqrt 2, pi / 2, 5/4 + 1 ulp
const SIGNIFICANDS: [u32; 10] = [0x80_0000, 0x80_0001, 0x80_0002, 0xff_ffff, 0xff_fffe, 0xaa_aaab, 0xd5_5554, 0xb5_04f3, 0xc9_0fdb, 0xa0_0001];

fn real_of(exp: i32, significand: u32, negative: bool) -> f32 { f32::from_bits(((negative as u32) << 31) | (((exp + 127) as u32) << 23) | (significand & 0x7f_ffff)) }

/// the reals of binade 2^exp the family covers: every significand with both signs
pub fn binade_reals(exp: i32) -> Vec<f32> { SIGNIFICANDS.iter().flat_map(|m| [real_of(exp, *m, false), real_of(exp, *m, true)]).collect() }

/// abstract document 0 plus object 12, an array of the reals of one binade, and object 13, a dictionary holding three of them
pub fn reals_doc(exp: i32) -> BTreeMap<u32, (u16, Object)> {
    let mut m = abstract_doc(0);
    let r = binade_reals(exp);
    m.insert(12, (0, Object::Array(r.iter().map(|v| Object::Real(*v)).collect())));
    m.insert(13, (0, Object::Dictionary(dict(vec![(b"V", Object::Real(r[2])), (b"W", Object::Array(vec![Object::Real(r[7]), Object::Integer(3), Object::Real(r[14])])), (b"X", Object::Real(r[19]))]))));
    m
}

/// the places a number can be read from: file body behind a table, body with comments after every token, object stream (twice)
fn reals_context(c: usize, nums: usize) -> Style {
    match c {
        0 => Style { eol: 0, ws: 0, strs: 0, names: 0, nums, order: 0, xref: 0, objstm: false, indirect_len: false, junk: false },
        1 => Style { eol: 1, ws: 2, strs: 1, names: 1, nums, order: 1, xref: 1, objstm: false, indirect_len: false, junk: false },
        2 => Style { eol: 0, ws: 1, strs: 2, names: 0, nums, order: 0, xref: 2, objstm: true, indirect_len: false, junk: false },
        _ => Style { eol: 2, ws: 0, strs: 0, names: 1, nums, order: 1, xref: 5, objstm: true, indirect_len: false, junk: true },
    }
}

/// the spelling classes worth running for a binade: exact value (with and without extra zeros) and both edge classes at every
/// number of places from 1 to 3 beyond the last digit of the exact edges
fn reals_classes(exp: i32) -> Vec<usize> {
    let dmax = (25 - exp).max(0) as usize + 3;
    let mut v = vec![100, 103];
    for d in 1..=dmax { v.push(1000 + d); v.push(2000 + d); }
    v
}

pub fn check_reals(exp: i32, nums: usize, context: usize) -> Result<(), (String, String)> {
    let doc = reals_doc(exp);
    let s = reals_context(context, nums);
    check_bytes(&doc, &s, 0, &render_ext(&doc, &s, 0))
}

// ---- the strings family ----

/// literal strings with end-of-line bytes, parentheses, REVERSE SOLIDUS, digits and control bytes at the start, the end and next to each other
pub fn family_strings() -> Vec<&'static [u8]> {
    vec![b"", b"a", b"\n", b"\r", b"\r\n", b"\n\r", b"\n\n", b"a\nb", b"line 1\r\nline 2\r\n", b"(", b")", b"(())", b")(", b"(a(b)\n)c", b"\\", b"\\n", b"a\\\nb", b"tab\t\x08\x0c\x00\xff", b"12", b"7\n8", b"ends in a REVERSE SOLIDUS\\",
         b"Well-formed PDFs from any producer\nload to their content", b"nrtbf nrtbf nrtbf"]
}

/// abstract document 0 plus object 12, an array of the strings of the family, and object 13, a dictionary holding some of them
pub fn strings_doc() -> BTreeMap<u32, (u16, Object)> {
    let mut m = abstract_doc(0);
    let f = family_strings();
    m.insert(12, (0, Object::Array(f.iter().map(|b| lit(b)).collect())));
    m.insert(13, (0, Object::Dictionary(dict(vec![(b"Title", lit(f[21])), (b"E", lit(f[0])), (b"W", Object::Array(vec![lit(f[8]), Object::Integer(3), Object::Array(vec![lit(f[13])])])), (b"Z", lit(f[16]))]))));
    m
}

/// the places a string can be read from, each with another end-of-line marker for the rest of the file: file body behind a
/// table / LF, body with comments after every token / CR LF, object stream / CR LF, object stream / CR
fn strings_context(c: usize, strs: usize) -> Style {
    match c {
        0 => Style { eol: 0, ws: 0, strs, names: 0, nums: 0, order: 0, xref: 0, objstm: false, indirect_len: false, junk: false },
        1 => Style { eol: 1, ws: 2, strs, names: 1, nums: 1, order: 1, xref: 1, objstm: false, indirect_len: false, junk: false },
        2 => Style { eol: 1, ws: 1, strs, names: 0, nums: 0, order: 0, xref: 2, objstm: true, indirect_len: false, junk: false },
        _ => Style { eol: 2, ws: 0, strs, names: 1, nums: 0, order: 1, xref: 5, objstm: true, indirect_len: false, junk: true },
    }
}

/// every spelling class of strings: the three of the style product, octal with continuations by CR LF / CR, raw with each marker,
/// and one continuation with each marker before each of the first ten bytes (or at the end of a shorter string)
fn strings_classes() -> Vec<usize> {
    let mut v: Vec<usize> = (0..8).collect();
    for p in 0..10 { for m in 0..3 { v.push(100 + 10 * p + m); } }
    v
}

pub fn check_strings(strs: usize, context: usize) -> Result<(), (String, String)> {
    let doc = strings_doc();
    let s = strings_context(context, strs);
    check_bytes(&doc, &s, 0, &render_ext(&doc, &s, 0))
}

fn style_json(v: usize, s: &Style, x: &Ext) -> Value { json!({"variant": v, "eol": s.eol, "ws": s.ws, "strs": s.strs, "names": s.names, "nums": s.nums, "order": s.order, "xref": s.xref, "objstm": s.objstm, "indirect_len": x.len_home != 0, "len_home": x.len_home, "junk": s.junk, "filt": x.filt, "fspell": x.fspell, "opred": x.opred}) }
fn ext_from(v: &Value, len_home: usize) -> Ext { Ext { len_home, filt: v["filt"].as_u64().unwrap_or(0) as usize, fspell: v["fspell"].as_u64().unwrap_or(0) as usize, opred: v["opred"].as_bool().unwrap_or(false) } }
fn style_from(v: &Value) -> (usize, Style, usize) {
    let g = |k: &str| v[k].as_u64().unwrap_or(0) as usize;
    let il = v["indirect_len"].as_bool().unwrap_or(false);
    let len_home = v["len_home"].as_u64().map(|x| x as usize).unwrap_or(if il { 1 } else { 0 });
    (g("variant"), Style { eol: g("eol"), ws: g("ws"), strs: g("strs"), names: g("names"), nums: g("nums"), order: g("order"), xref: g("xref"), objstm: v["objstm"].as_bool().unwrap_or(false), indirect_len: len_home != 0, junk: v["junk"].as_bool().unwrap_or(false) }, len_home)
}

pub fn run(thorough: bool) -> Report {
    let mut rep = Report::new("(a) 2 abstract documents x every combination of: EOL {LF,CRLF,CR} x white-space {single, mixed incl. NUL/FF/tab, comments} x strings {literal escapes, octal + line continuation, hex with white-space / odd digits} x names {plain, #XX} x numbers {plain, +007 / -.5 / 1.} x body order {asc, desc} x xref {1 table section, many sections, stream W[1 2 1], W[1 3 0]+Index, W[2 4 2] Flate, W[1 2 1] Flate+PNG Up, W[0 2 0], W[1 2 1] and W[2 4 2] Flate with rows of the reserved entry types 3, 4, 255 (= null object, ISO 32000-1 7.5.8.3) for every unused object number} x object stream {no, yes} x stream Length {direct, indirect: integer object in the body after the stream, in the body before the stream, compressed in the object stream (only with an object stream)} x leading junk {no, yes} x, wherever the file has a filtered structural stream (cross-reference stream W[2 4 2] / Flate+PNG / reserved-type W[2 4 2], or an object stream): spelling of their /Filter and /DecodeParms per ISO 32000-1 Table 5 {/Filter name + DecodeParms dictionary, /Filter [name] (array of one) + lone DecodeParms dictionary, /Filter [name] + /DecodeParms [dictionary] ([null] where no predictor is used), chain /Filter [/ASCII85Decode name] + /DecodeParms [null dictionary] (no DecodeParms where no predictor is used)} x object stream {as compressed, PNG-predicted (Predictor 15, Columns 7, all five row filters) before compression} (DecodeParms is only written for the PNG-predicted streams; 432 lexical x 498 structural combinations); plus the same with LZWDecode (literal codes, table cleared every 200 codes) in place of FlateDecode as the filter of every structural stream: its 456 structural combinations (those with a filtered structural stream) x 12 lexical combinations {2 documents x EOL x body order, white-space and strings indexed like EOL, names and numbers like order} (quick: every 7th combination of the whole list); the Length objects are checked as objects of the file. (c) end-of-line markers inside literal strings: a document holding 23 literal strings (empty, LF / CR / CR LF / LF CR / LF LF alone, at the start, the end and inside, balanced / unbalanced / nested parentheses, REVERSE SOLIDUS alone, before n, before LF and at the end, digits, control bytes, the letters n r t b f) in an array and a nested dictionary, every string of the file spelled in one class x 4 contexts {table/LF, many sections/CR LF/comments/descending, xref stream + object stream/CR LF/mixed white-space, Flate+PNG xref stream + object stream/CR/junk}; classes: the three of (a); octal escapes with line continuations (REVERSE SOLIDUS + marker) after the first byte, two in a row before the fifth byte and before the closing parenthesis, marker CR LF or CR; raw (each LF of the string as an unescaped LF, CR LF or CR, balanced parentheses unescaped, superfluous REVERSE SOLIDUS before letters other than n r t b f); plain escapes with one line continuation by LF, CR LF or CR before byte p of the string for every p in 0..=9 (before the closing parenthesis if the string is shorter) -- 38 classes, independent of the end-of-line marker of the file. Oracle: ISO 32000-1 7.3.4.2 (REVERSE SOLIDUS + end-of-line marker is not part of the string; an unescaped end-of-line marker is one LF), the loaded bytes must equal the abstract string. (b) digit count of reals: for each binade 2^e, e in -40..=40 (quick: -20,-3,-1,0,1,6,23,31), a document holding the 20 reals +-m*2^(e-23), m in {2^23, 2^23+1, 2^23+2, 2^24-1, 2^24-2, 0xAAAAAB, 0xD55554, 0xB504F3, 0xC90FDB, 0xA00001}, in an array and a dictionary, with every real of the file spelled in one class x 4 contexts {table/LF, many sections/CRLF/comments/descending, xref stream + object stream/mixed white-space, Flate+PNG xref stream + object stream/CR/junk}; classes: exact binary value (+0 / +3 zeros), and for every d from 1 to 3 past the last digit of the exact interval edges: the largest d-place decimal below the upper edge and the smallest d-place decimal above the lower edge of the real's f32 rounding interval (a real whose interval has no such member is spelled exactly; a class with no member for any real of the binade is not run). Oracle: exact decimal arithmetic, the spelling lies strictly between the midpoints to both f32 neighbours, so the loaded f32 must equal the abstract one bit for bit", thorough);
    // the structural part of a combination, in a fixed order: (xref, objstm, Ext, junk)
    let structural = |filt: usize| -> Vec<(usize, bool, Ext, bool)> {
    let mut inner: Vec<(usize, bool, Ext, bool)> = Vec::new();
    for xref in 0..9 { for objstm in [false, true] { for opred in [false, true] { for fspell in 0..4 { for len_home in 0..4 { for junk in [false, true] {
        if objstm && xref < 2 { continue; }
        if len_home == 3 && !(objstm && xref != 6) { continue; }   // W [0 2 0] cannot point into an object stream
        let has_objstm = objstm && xref != 6;                      // check() writes no object stream under W [0 2 0]
        if opred && !has_objstm { continue; }
        if (filt, fspell) != (0, 0) && !(has_objstm || matches!(xref, 4 | 5 | 8)) { continue; }   // no filtered structural stream in the file
        inner.push((xref, objstm, Ext { len_home, filt, fspell, opred }, junk));
    } } } } } }
    inner };
    // FlateDecode under every lexical combination; LZWDecode (the library's decoder is about ten times as costly per file) under
    // 12 lexical combinations in which every value of every lexical dimension occurs
    let inners = [structural(0), structural(1)];
    let mut outer: Vec<((usize, usize, usize, usize, usize, usize, usize), usize, usize)> = Vec::new();   // lexical part, which structural list, combinations before this group
    let mut before = 0usize;
    for variant in 0..2 { for eol in 0..3 { for ws in 0..3 { for strs in 0..3 { for names in 0..2 { for nums in 0..2 { for order in 0..2 { outer.push(((variant, eol, ws, strs, names, nums, order), 0, before)); before += inners[0].len(); } } } } } } }
    for variant in 0..2 { for eol in 0..3 { for order in 0..2 { outer.push(((variant, eol, eol, eol, order, order, order), 1, before)); before += inners[1].len(); } } }
    // combination number n (from 1) = place in the product in this order; quick runs every 7th (neither list's length is a multiple of 7)
    // the groups are shared out among worker threads; each worker is the only thread of a rayon pool of its own, so the
    // parallel loader runs each load on the very thread that checks the case (no hand-over between the workers)
    let run_group = |oi: usize| -> (u64, Vec<(String, String, Value)>) {
        let ((variant, eol, ws, strs, names, nums, order), which, before) = outer[oi];
        let mut cases = 0u64; let mut fails = Vec::new();
        for (ii, (xref, objstm, x, junk)) in inners[which].iter().enumerate() {
            let n = before + ii + 1;
            if !thorough && n % 7 != 0 { continue; }
            let s = Style { eol, ws, strs, names, nums, order, xref: *xref, objstm: *objstm, indirect_len: x.len_home != 0, junk: *junk };
            cases += 1;
            if let Err((o, d)) = check_full(variant, &s, x) { if fails.len() < 12 { fails.push((o, d, style_json(variant, &s, x))); } }
        }
        (cases, fails)
    };
    let next = std::sync::atomic::AtomicUsize::new(0);
    let done: std::sync::Mutex<Vec<(usize, u64, Vec<(String, String, Value)>)>> = std::sync::Mutex::new(Vec::new());
    let workers = std::thread::available_parallelism().map(|n| n.get()).unwrap_or(4).min(outer.len());
    with_quiet_panics(|| std::thread::scope(|sc| {
        for _ in 0..workers {
            std::thread::Builder::new().stack_size(16 << 20).spawn_scoped(sc, || {
                let pool = rayon::ThreadPoolBuilder::new().num_threads(1).use_current_thread().build().expect("pool on the current thread");
                pool.install(|| loop {
                    let oi = next.fetch_add(1, std::sync::atomic::Ordering::SeqCst);
                    if oi >= outer.len() { break; }
                    let (cases, fails) = run_group(oi);
                    done.lock().unwrap().push((oi, cases, fails));
                });
            }).expect("worker thread");
        }
    }));
    let mut groups = done.into_inner().unwrap();
    groups.sort_by_key(|g| g.0);
    for (_, cases, fails) in groups {
        for _ in 0..cases { rep.case(true); }
        for (o, d, j) in fails { rep.fail(&o, d.clone(), j, d); }
    }
    with_quiet_panics(|| {
        for strs in strings_classes() { for context in 0..4 {
            rep.case(true);
            if let Err((o, d)) = check_strings(strs, context) { rep.fail(&o, d.clone(), json!({"family": "strings", "strs": strs, "context": context}), d); }
        } }
    });
    let exps: Vec<i32> = if thorough { (-40..=40).collect() } else { vec![-20, -3, -1, 0, 1, 6, 23, 31] };
    for exp in exps {
        let values = binade_reals(exp);
        for nums in reals_classes(exp) {
            let members = values.iter().filter(|v| real_spelling(**v, nums).map(|x| x.1).unwrap_or(false)).count();
            if members == 0 { continue; }
            for context in 0..4 {
                rep.case(true);
                if let Err((o, d)) = with_quiet_panics(|| check_reals(exp, nums, context)) { rep.fail(&o, d.clone(), json!({"family": "reals", "exp": exp, "nums": nums, "context": context}), d); }
            }
        }
    }
    rep.sample("variant 1, CRLF, comments between tokens, octal strings, #XX names, xref stream W[1 2 1] Flate + PNG Up predictor, object stream, Length 13 0 R compressed in the object stream".into());
    rep.sample("variant 0, LF, xref stream W[1 2 1] /Filter [/ASCII85Decode /LZWDecode] /DecodeParms [null <</Predictor 12/Columns 4>>], object stream /Filter [/ASCII85Decode /LZWDecode] /DecodeParms [null <</Predictor 15/Columns 7>>]".into());
    rep.sample(format!("strings, class 131 in an object stream: {:?} spelled {:?}", "a\nb", { let mut o = Vec::new(); wstr(b"a\nb", &strings_context(2, 131), &mut o); String::from_utf8_lossy(&o).into_owned() }));
    rep.sample(format!("reals, binade 2^0, class 2025 in an object stream: {:?} spelled {}", real_of(0, 0x80_0001, false), real_spelling(real_of(0, 0x80_0001, false), 2025).map(|x| x.0).unwrap_or_default()));
    rep
}

pub fn replay(v: &Value) -> Result<(), String> {
    if v["family"].as_str() == Some("reals") {
        return with_quiet_panics(|| check_reals(v["exp"].as_i64().unwrap_or(0) as i32, v["nums"].as_u64().unwrap_or(100) as usize, v["context"].as_u64().unwrap_or(0) as usize)).map_err(|e| format!("{}: {}", e.0, e.1));
    }
    if v["family"].as_str() == Some("strings") {
        return with_quiet_panics(|| check_strings(v["strs"].as_u64().unwrap_or(0) as usize, v["context"].as_u64().unwrap_or(0) as usize)).map_err(|e| format!("{}: {}", e.0, e.1));
    }
    let (variant, s, len_home) = style_from(v);
    with_quiet_panics(|| check_full(variant, &s, &ext_from(v, len_home))).map_err(|e| format!("{}: {}", e.0, e.1))
}
