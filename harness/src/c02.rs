//! C02: well-formed PDFs from any producer load to their content.  An independent reference writer renders a small
//! abstract document under every combination of a set of syntactic choices (enumerated, not sampled); the real loader
//! must return exactly the abstract document.
#![allow(dead_code)]
use crate::common::*;
use crate::gen::*;
use lopdf::{Dictionary, Document, Object, Stream, StringFormat};
use serde_json::{json, Value};
use std::collections::BTreeMap;
use std::io::Write as _;

#[derive(Clone, Debug)]
pub struct Style {
    pub eol: usize,        // 0 \n, 1 \r\n, 2 \r
    pub ws: usize,         // 0 single space, 1 extra mixed white-space (incl. NUL, FF, tab), 2 comments between tokens
    pub strs: usize,       // 0 literal plain escapes, 1 octal escapes + line continuation, 2 hex with white-space / odd digit count
    pub names: usize,      // 0 plain, 1 #XX for ordinary letters
    pub nums: usize,       // 0 plain, 1 "+7" "-.5" "1." "007"
    pub order: usize,      // 0 ascending, 1 descending objects in the body
    pub xref: usize,       // 0 one table section, 1 many sections, 2 xref stream W[1 2 1], 3 W[1 3 0]+Index, 4 W[2 4 2] Flate, 5 W[1 2 1] Flate+Predictor 12, 6 W [0 2 0]
    pub objstm: bool,      // non-stream objects 2.. go into an object stream (needs an xref stream)
    pub indirect_len: bool,
    pub junk: bool,
}

fn eol(s: &Style) -> &'static [u8] { [b"\n".as_slice(), b"\r\n", b"\r"][s.eol] }
fn sp(s: &Style, k: usize) -> Vec<u8> {
    match s.ws {
        0 => b" ".to_vec(),
        1 => [b" ".as_slice(), b"\x00 ", b"\t\x0c", b"  \n "][k % 4].to_vec(),
        _ => { let mut v = b" % a comment (with <junk> [ ".to_vec(); v.extend_from_slice(eol(s)); v }
    }
}

fn wstr(b: &[u8], s: &Style, out: &mut Vec<u8>) {
    match s.strs {
        0 => { out.push(b'('); for &c in b { match c { b'(' | b')' | b'\\' => { out.push(b'\\'); out.push(c) } b'\r' => out.extend_from_slice(b"\\r"), b'\n' => out.extend_from_slice(b"\\n"), _ => out.push(c) } } out.push(b')'); }
        1 => { out.push(b'('); for (i, &c) in b.iter().enumerate() { if i == 1 { out.extend_from_slice(b"\\\n"); } if c.is_ascii_alphanumeric() && i % 2 == 0 { out.push(c) } else { out.extend_from_slice(format!("\\{:03o}", c).as_bytes()) } } out.push(b')'); }
        _ => { out.push(b'<'); let h: String = b.iter().map(|c| format!("{:02X}", c)).collect(); let mut h = h.into_bytes(); if h.ends_with(b"0") { h.pop(); } for (i, c) in h.iter().enumerate() { out.push(*c); if i % 3 == 2 { out.push(b' '); } } out.push(b'>'); }
    }
}
fn wname(n: &[u8], s: &Style, out: &mut Vec<u8>) {
    out.push(b'/');
    for (i, &c) in n.iter().enumerate() {
        let regular = c > 32 && c < 127 && !b"()<>[]{}/%#".contains(&c);
        if !regular || (s.names == 1 && i % 2 == 0) { out.extend_from_slice(format!("#{:02x}", c).as_bytes()) } else { out.push(c) }
    }
}
fn wnum_i(v: i64, s: &Style, out: &mut Vec<u8>) {
    if s.nums == 1 && v >= 0 { out.extend_from_slice(format!("+{:03}", v).as_bytes()) } else { out.extend_from_slice(v.to_string().as_bytes()) }
}
fn wnum_r(v: f32, s: &Style, out: &mut Vec<u8>) {
    let t = format!("{}", v);
    if s.nums == 1 {
        if v.fract() == 0.0 { out.extend_from_slice(format!("{}.", v as i64).as_bytes()) }
        else if v.abs() < 1.0 { out.extend_from_slice(t.replacen("0.", ".", 1).as_bytes()) }
        else { out.extend_from_slice(t.as_bytes()) }
    } else if v.fract() == 0.0 { out.extend_from_slice(format!("{:.1}", v).as_bytes()) } else { out.extend_from_slice(t.as_bytes()) }
}

fn wobj(o: &Object, s: &Style, out: &mut Vec<u8>, k: &mut usize) {
    *k += 1;
    match o {
        Object::Null => out.extend_from_slice(b"null"),
        Object::Boolean(b) => out.extend_from_slice(if *b { b"true" } else { b"false" }),
        Object::Integer(i) => wnum_i(*i, s, out),
        Object::Real(r) => wnum_r(*r, s, out),
        Object::Name(n) => wname(n, s, out),
        Object::String(b, _) => wstr(b, s, out),
        Object::Array(a) => { out.push(b'['); for x in a { out.extend_from_slice(&sp(s, *k)); wobj(x, s, out, k); } out.extend_from_slice(&sp(s, *k)); out.push(b']'); }
        Object::Dictionary(d) => wdict(d, s, out, k),
        Object::Reference(id) => { out.extend_from_slice(format!("{}", id.0).as_bytes()); out.extend_from_slice(&sp(s, *k)); out.extend_from_slice(format!("{}", id.1).as_bytes()); out.extend_from_slice(&sp(s, *k + 1)); out.push(b'R'); }
        Object::Stream(_) => unreachable!(),
    }
}
fn wdict(d: &Dictionary, s: &Style, out: &mut Vec<u8>, k: &mut usize) {
    out.extend_from_slice(b"<<");
    for (key, v) in d.iter() { out.extend_from_slice(&sp(s, *k)); wname(key, s, out); out.extend_from_slice(&sp(s, *k + 1)); wobj(v, s, out, k); }
    out.extend_from_slice(&sp(s, *k));
    out.extend_from_slice(b">>");
}

fn zlib(data: &[u8]) -> Vec<u8> {
    let mut e = flate2::write::ZlibEncoder::new(Vec::new(), flate2::Compression::default());
    e.write_all(data).unwrap();
    e.finish().unwrap()
}
/// PNG prediction with one byte per pixel, cycling through the row filters Up, Sub, Average, Paeth, None
fn png_up(data: &[u8], cols: usize) -> Vec<u8> {
    let paeth = |a: u8, b: u8, c: u8| -> u8 { let (a1, b1, c1) = (a as i32, b as i32, c as i32); let p = a1 + b1 - c1; let (pa, pb, pc) = ((p - a1).abs(), (p - b1).abs(), (p - c1).abs()); if pa <= pb && pa <= pc { a } else if pb <= pc { b } else { c } };
    let mut out = vec![];
    let mut prev = vec![0u8; cols];
    for (r, row) in data.chunks(cols).enumerate() {
        let f = [2u8, 1, 3, 4, 0][r % 5];
        out.push(f);
        for (i, b) in row.iter().enumerate() {
            let a = if i >= 1 { row[i - 1] } else { 0 };
            let up = prev[i];
            let ul = if i >= 1 { prev[i - 1] } else { 0 };
            let pred = match f { 0 => 0, 1 => a, 2 => up, 3 => ((a as u16 + up as u16) / 2) as u8, _ => paeth(a, up, ul) };
            out.push(b.wrapping_sub(pred));
        }
        prev = row.to_vec();
        prev.resize(cols, 0);
    }
    out
}

/// the abstract document: object number -> (generation, value); streams carry their decoded content
pub fn abstract_doc(variant: usize) -> BTreeMap<u32, (u16, Object)> {
    let mut m = BTreeMap::new();
    m.insert(1, (0, Object::Dictionary(dict(vec![(b"Type", name(b"Catalog")), (b"Pages", Object::Reference((2, 0))), (b"Lang", lit(b"en-US (x) \\ \r\n end"))]))));
    m.insert(2, (0, Object::Dictionary(dict(vec![(b"Type", name(b"Pages")), (b"Kids", Object::Array(vec![Object::Reference((4, 0))])), (b"Count", Object::Integer(1)), (b"Box", Object::Array(vec![Object::Integer(0), Object::Real(-0.5), Object::Real(612.0), Object::Real(7.25)]))]))));
    m.insert(4, (if variant == 1 { 3 } else { 0 }, Object::Dictionary(dict(vec![(b"Type", name(b"Page")), (b"Parent", Object::Reference((2, 0))), (b"Contents", Object::Reference((7, 0))), (b"A B", Object::Array(vec![Object::Null, Object::Boolean(true), Object::Boolean(false), hexs(b"\x00\xff\x10"), name(b"Na#me")]))]))));
    let mut st = Stream::new(dict(vec![(b"K", Object::Integer(7))]), b"BT /F1 12 Tf (endstream) Tj ET\nendstream \x00\xff".to_vec());
    st.dict.remove(b"Length");
    m.insert(7, (0, Object::Stream(st)));
    if variant >= 1 { m.insert(12, (0, Object::Array(vec![Object::Integer(i64::MAX), Object::Integer(-1), lit(b""), name(b"")]))); }
    m
}

pub fn render(doc: &BTreeMap<u32, (u16, Object)>, s: &Style) -> Vec<u8> {
    let e = eol(s);
    let mut f = Vec::new();
    if s.junk { f.extend_from_slice(b"junk before the header\n\x00\x01"); }
    let base = f.len();
    f.extend_from_slice(b"%PDF-1.6"); f.extend_from_slice(e);
    f.extend_from_slice(b"%\xe2\xe3\xcf\xd3"); f.extend_from_slice(e);
    let mut k = 0usize;
    let mut entries: BTreeMap<u32, (u8, u64, u64)> = BTreeMap::new();
    let use_stream_xref = s.xref >= 2;
    let mut ids: Vec<u32> = doc.keys().copied().collect();
    if s.order == 1 { ids.reverse(); }
    let mut next_id = doc.keys().max().copied().unwrap_or(0) + 1;
    let in_objstm = |id: u32, o: &Object, g: u16| s.objstm && use_stream_xref && id != 1 && g == 0 && !matches!(o, Object::Stream(_));
    let len_obj = if s.indirect_len { let id = next_id; next_id += 1; Some(id) } else { None };
    let mut deferred_len: Option<(u32, usize)> = None;
    for id in &ids {
        let (g, o) = &doc[id];
        if in_objstm(*id, o, *g) { continue; }
        entries.insert(*id, (1, (f.len() - base) as u64, *g as u64));
        f.extend_from_slice(format!("{}", id).as_bytes()); f.extend_from_slice(&sp(s, k)); f.extend_from_slice(format!("{}", g).as_bytes()); f.extend_from_slice(&sp(s, k + 1)); f.extend_from_slice(b"obj"); f.extend_from_slice(e);
        match o {
            Object::Stream(st) => {
                let mut d = st.dict.clone();
                if let Some(l) = len_obj { d.set("Length", Object::Reference((l, 0))); deferred_len = Some((l, st.content.len())); } else { d.set("Length", st.content.len() as i64); }
                wdict(&d, s, &mut f, &mut k);
                f.extend_from_slice(e); f.extend_from_slice(b"stream"); f.extend_from_slice(if s.eol == 2 { b"\r\n" } else { e });
                f.extend_from_slice(&st.content);
                f.extend_from_slice(e); f.extend_from_slice(b"endstream");
            }
            _ => wobj(o, s, &mut f, &mut k),
        }
        f.extend_from_slice(e); f.extend_from_slice(b"endobj"); f.extend_from_slice(e);
    }
    if let Some((l, n)) = deferred_len {
        entries.insert(l, (1, (f.len() - base) as u64, 0));
        f.extend_from_slice(format!("{} 0 obj{}{}{}endobj{}", l, String::from_utf8_lossy(e), n, String::from_utf8_lossy(e), String::from_utf8_lossy(e)).as_bytes());
    } else if let Some(l) = len_obj { entries.insert(l, (1, (f.len() - base) as u64, 0)); f.extend_from_slice(format!("{} 0 obj 0 endobj\n", l).as_bytes()); }
    // object stream
    let packed: Vec<u32> = doc.iter().filter(|(id, (g, o))| in_objstm(**id, o, *g)).map(|(id, _)| *id).collect();
    if !packed.is_empty() {
        let cid = next_id; next_id += 1;
        let mut index = Vec::new(); let mut body = Vec::new();
        for (i, id) in packed.iter().enumerate() {
            index.extend_from_slice(format!("{} {}", id, body.len()).as_bytes()); index.extend_from_slice(if i % 2 == 0 { b" " } else { b"\n" });
            wobj(&doc[id].1, s, &mut body, &mut k); body.extend_from_slice(&sp(s, k));
            entries.insert(*id, (2, cid as u64, i as u64));
        }
        let mut content = index.clone(); content.extend_from_slice(&body);
        let z = zlib(&content);
        entries.insert(cid, (1, (f.len() - base) as u64, 0));
        f.extend_from_slice(format!("{} 0 obj\n<</Type/ObjStm/N {}/First {}/Filter/FlateDecode/Length {}>>stream\n", cid, packed.len(), index.len(), z.len()).as_bytes());
        f.extend_from_slice(&z); f.extend_from_slice(b"\nendstream\nendobj\n");
    }
    let xref_pos = f.len() - base;
    let size = next_id + if use_stream_xref { 1 } else { 0 };
    if !use_stream_xref {
        f.extend_from_slice(b"xref"); f.extend_from_slice(e);
        let line_end: &[u8] = if s.eol == 0 { b" \n" } else if s.eol == 2 { b" \r" } else { b"\r\n" };
        let mut all: BTreeMap<u32, (u64, u64, u8)> = BTreeMap::new();
        all.insert(0, (0, 65535, b'f'));
        for (id, (_, off, g)) in &entries { all.insert(*id, (*off, *g, b'n')); }
        if s.xref == 0 {
            // one section covering 0..size with free entries in the gaps
            f.extend_from_slice(format!("0 {}", size).as_bytes()); f.extend_from_slice(e);
            for id in 0..size { let (off, g, t) = all.get(&id).copied().unwrap_or((0, 0, b'f')); f.extend_from_slice(format!("{:010} {:05} ", off, g).as_bytes()); f.push(t); f.extend_from_slice(line_end); }
        } else {
            let keys: Vec<u32> = all.keys().copied().collect();
            let mut i = 0;
            while i < keys.len() {
                let mut j = i; while j + 1 < keys.len() && keys[j + 1] == keys[j] + 1 { j += 1; }
                f.extend_from_slice(format!("{} {}", keys[i], j - i + 1).as_bytes()); f.extend_from_slice(e);
                for id in &keys[i..=j] { let (off, g, t) = all[id]; f.extend_from_slice(format!("{:010} {:05} ", off, g).as_bytes()); f.push(t); f.extend_from_slice(line_end); }
                i = j + 1;
            }
        }
        f.extend_from_slice(b"trailer"); f.extend_from_slice(e);
        f.extend_from_slice(format!("<</Size {}/Root 1 0 R>>", size).as_bytes()); f.extend_from_slice(e);
    } else {
        let xid = next_id;
        entries.insert(xid, (1, xref_pos as u64, 0));
        let w: [usize; 3] = match s.xref { 2 | 5 => [1, 2, 1], 3 => [1, 3, 0], 4 => [2, 4, 2], _ => [0, 2, 0] };
        let only_type1 = w[0] == 0;
        let mut rows = Vec::new(); let mut index = String::new();
        let mut list: Vec<(u32, (u8, u64, u64))> = entries.iter().map(|(a, b)| (*a, *b)).collect();
        if s.xref != 3 { list.insert(0, (0, (0, 0, if w[2] == 1 { 255 } else { 65535 }))); }
        if only_type1 { list.retain(|(_, (t, _, _))| *t == 1); }
        let mut i = 0;
        while i < list.len() { let mut j = i; while j + 1 < list.len() && list[j + 1].0 == list[j].0 + 1 { j += 1; } index.push_str(&format!("{} {} ", list[i].0, j - i + 1)); i = j + 1; }
        for (_, (t, a, b)) in &list {
            if w[0] > 0 { rows.extend_from_slice(&(*t as u64).to_be_bytes()[8 - w[0]..]); }
            rows.extend_from_slice(&a.to_be_bytes()[8 - w[1]..]);
            if w[2] > 0 { rows.extend_from_slice(&b.to_be_bytes()[8 - w[2]..]); }
        }
        let rl = w[0] + w[1] + w[2];
        let (data, extra) = match s.xref { 4 => (zlib(&rows), "/Filter/FlateDecode".to_string()), 5 => (zlib(&png_up(&rows, rl)), format!("/Filter/FlateDecode/DecodeParms<</Predictor 12/Columns {}>>", rl)), _ => (rows.clone(), String::new()) };
        let idx = if s.xref == 2 && list.len() as u32 == size && list.first().map(|x| x.0) == Some(0) { String::new() } else { format!("/Index[{}]", index.trim()) };
        f.extend_from_slice(format!("{} 0 obj\n<</Type/XRef/Size {}/Root 1 0 R/W[{} {} {}]{}{}/Length {}>>stream\n", xid, size, w[0], w[1], w[2], idx, extra, data.len()).as_bytes());
        f.extend_from_slice(&data); f.extend_from_slice(b"\nendstream\nendobj\n");
    }
    f.extend_from_slice(b"startxref"); f.extend_from_slice(e);
    f.extend_from_slice(format!("{}", xref_pos).as_bytes()); f.extend_from_slice(e);
    f.extend_from_slice(b"%%EOF");
    if s.ws == 1 { f.extend_from_slice(e); }
    f
}

pub fn check(variant: usize, s: &Style) -> Result<(), (String, String)> {
    // a W [0 n 0] stream can only express type-1 entries; W [1 3 0] defaults generation 0: restrict the abstract document accordingly
    let mut doc = abstract_doc(variant);
    if s.xref == 3 || s.xref == 6 { for (_, (g, _)) in doc.iter_mut() { *g = 0; } }
    let mut st = s.clone();
    if s.xref == 6 { st.objstm = false; }
    if s.junk { return check_junk(&doc, &st); }
    check_bytes(&doc, &render(&doc, &st))
}
fn check_junk(doc: &BTreeMap<u32, (u16, Object)>, s: &Style) -> Result<(), (String, String)> { check_bytes(doc, &render(doc, s)) }

fn check_bytes(doc: &BTreeMap<u32, (u16, Object)>, file: &[u8]) -> Result<(), (String, String)> {
    let loaded = match guarded(|| Document::load_mem(file)) { Ok(Ok(d)) => d, Ok(Err(e)) => return Err(("loads".into(), format!("load failed: {}", e))), Err(p) => return Err(("no-panic".into(), p)) };
    if loaded.version != "1.6" { return Err(("version".into(), format!("version {:?}", loaded.version))); }
    for (id, (g, want)) in doc {
        match loaded.objects.get(&(*id, *g)) {
            None => return Err(("object-present".into(), format!("object {} {} defined by the file is missing after load", id, g))),
            Some(got) => {
                let same = match (want, got) {
                    (Object::Stream(a), Object::Stream(b)) => a.content == b.content && dict_eq(&a.dict, &b.dict, &[b"Length"]),
                    _ => obj_eq(want, got),
                };
                if !same { return Err(("object-equal".into(), format!("object {} {}: file defines {:?}, loaded {:?}", id, g, want, got))); }
            }
        }
    }
    if loaded.trailer.get(b"Root").and_then(|o| o.as_reference()).ok() != Some((1, 0)) { return Err(("trailer".into(), format!("trailer {:?}", loaded.trailer))); }
    Ok(())
}

fn style_json(v: usize, s: &Style) -> Value { json!({"variant": v, "eol": s.eol, "ws": s.ws, "strs": s.strs, "names": s.names, "nums": s.nums, "order": s.order, "xref": s.xref, "objstm": s.objstm, "indirect_len": s.indirect_len, "junk": s.junk}) }
fn style_from(v: &Value) -> (usize, Style) {
    let g = |k: &str| v[k].as_u64().unwrap_or(0) as usize;
    (g("variant"), Style { eol: g("eol"), ws: g("ws"), strs: g("strs"), names: g("names"), nums: g("nums"), order: g("order"), xref: g("xref"), objstm: v["objstm"].as_bool().unwrap_or(false), indirect_len: v["indirect_len"].as_bool().unwrap_or(false), junk: v["junk"].as_bool().unwrap_or(false) })
}

pub fn run(thorough: bool) -> Report {
    let mut rep = Report::new("2 abstract documents x every combination of: EOL {LF,CRLF,CR} x white-space {single, mixed incl. NUL/FF/tab, comments} x strings {literal escapes, octal + line continuation, hex with white-space / odd digits} x names {plain, #XX} x numbers {plain, +007 / -.5 / 1.} x body order {asc, desc} x xref {1 table section, many sections, stream W[1 2 1], W[1 3 0]+Index, W[2 4 2] Flate, W[1 2 1] Flate+PNG Up, W[0 2 0]} x object stream {no, yes} x indirect Length {no, yes} x leading junk {no, yes} (quick: every 7th combination)", thorough);
    let mut n = 0usize;
    for variant in 0..2 { for eol in 0..3 { for ws in 0..3 { for strs in 0..3 { for names in 0..2 { for nums in 0..2 { for order in 0..2 { for xref in 0..7 { for objstm in [false, true] { for il in [false, true] { for junk in [false, true] {
        if objstm && xref < 2 { continue; }
        n += 1;
        if !thorough && n % 7 != 0 { continue; }
        let s = Style { eol, ws, strs, names, nums, order, xref, objstm, indirect_len: il, junk };
        rep.case(true);
        if let Err((o, d)) = check(variant, &s) { rep.fail(&o, d.clone(), style_json(variant, &s), d); }
    } } } } } } } } } } }
    rep.sample("variant 1, CRLF, comments between tokens, octal strings, #XX names, xref stream W[1 2 1] Flate + PNG Up predictor, object stream, indirect Length".into());
    rep
}

pub fn replay(v: &Value) -> Result<(), String> {
    let (variant, s) = style_from(v);
    check(variant, &s).map_err(|e| format!("{}: {}", e.0, e.1))
}
