//! C10: renumbering objects preserves the document graph (bounded-exhaustive executable postcondition, E3).
//!
//! Code under test: `Document::renumber_objects_with(start)` (and `renumber_objects` = start 1) of the real crate.
//! Oracle (written from the property statement, it never calls the renumbering code): after the call
//!   * the object count is unchanged, the object numbers are exactly start, start+1, .., start+n-1 (each once) and
//!     `max_id` = start+n-1;
//!   * a renaming rho is *discovered* by walking the old and the new document in lock step from the trailer: at every
//!     position the two values must be equal, except that a reference to an existing old object `r` must have become a
//!     reference to an existing new object, which defines rho(r) (must be consistent = a function, and injective); the
//!     pair (r, rho(r)) is then compared the same way. A reference that resolved to nothing must still resolve to nothing;
//!   * the page list (library observer `get_pages`, and an independent depth-first walk written here) of the new document
//!     is the old page list mapped through rho;
//!   * bookmark structure is unchanged and every bookmark target is rho(old target) (a target outside the trailer-reachable
//!     part extends rho and is compared too); a dangling target (also the conventional (0,0)) stays dangling;
//!   * the objects outside the matched part are the same multiset once references are erased ("changes identifiers only").
//! The lock-step walk descends through arrays, dictionaries and stream dictionaries without any depth limit of its own
//! ("every reference" of the property is every reference position, however many containers enclose it); family D
//! enumerates that nesting depth well past the 32 levels the crate's *reader* accepts, because documents built or edited
//! in memory are not bound by the reader. Such deep values are recorded in a flat (preorder token) JSON form so that a
//! recorded failure can be parsed back (serde_json refuses JSON nested deeper than 128), and the module runs on threads
//! with a large stack.
#![allow(dead_code)]
use crate::c03::{obj_from_json, obj_json};
use crate::common::*;
use crate::gen::{dict, name};
use lopdf::{Bookmark, Dictionary, Document, Object, ObjectId, Stream};
use rayon::prelude::*;
use serde_json::{json, Value};
use std::collections::{BTreeMap, VecDeque};

// ---------------------------------------------------------------------------------------------------------------------
// cases
// ---------------------------------------------------------------------------------------------------------------------

/// one fully concrete input: a document (objects, trailer, bookmarks) and a start value
#[derive(Clone, Debug)]
pub struct Case {
    pub objects: Vec<(ObjectId, Object)>,
    pub trailer: Dictionary,
    /// (target, index of the parent bookmark in this list)
    pub bookmarks: Vec<(ObjectId, Option<usize>)>,
    pub start: u32,
    /// further start values: the document is renumbered again, once per entry, after the call with `start` (family Z:
    /// the state a call leaves is the input of the next one); empty everywhere else
    pub then: Vec<u32>,
    /// "" for the main family; a suffix put on obligation names for the sub-families that stretch the reading of the
    /// quantifier (start 0, start near u32::MAX, two objects with one number and different generations)
    pub tag: String,
    /// which template the case came from (diagnostic, not used by the check)
    pub label: String,
}

pub fn build_doc(c: &Case) -> Document {
    let mut doc = Document::with_version("1.5");
    let mut maxid = 0;
    for (id, o) in &c.objects {
        doc.objects.insert(*id, o.clone());
        maxid = maxid.max(id.0);
    }
    doc.max_id = maxid;
    doc.trailer = c.trailer.clone();
    let mut bids: Vec<u32> = vec![];
    for (i, (page, parent)) in c.bookmarks.iter().enumerate() {
        let id = doc.add_bookmark(Bookmark::new(format!("b{}", i), [0.0, 0.0, 0.0], 0, *page), parent.map(|p| bids[p]));
        bids.push(id);
    }
    doc
}

/// number of containers on the longest path from `o` down to a leaf
fn container_depth(o: &Object) -> usize {
    match o {
        Object::Array(a) => 1 + a.iter().map(container_depth).max().unwrap_or(0),
        Object::Dictionary(d) => 1 + d.iter().map(|(_, v)| container_depth(v)).max().unwrap_or(0),
        Object::Stream(s) => 1 + s.dict.iter().map(|(_, v)| container_depth(v)).max().unwrap_or(0),
        _ => 0,
    }
}

/// values nested deeper than this are written in the flat form
const FLAT_FROM: usize = 8;

/// flat (preorder) form of a value: ["arr", n] followed by n values; ["dict", n] followed by n x (hex key, value);
/// ["stream", n, hex content] followed by n x (hex key, value); any other value as `obj_json` writes it
fn flat_enc(o: &Object, out: &mut Vec<Value>) {
    let entries = |d: &Dictionary, out: &mut Vec<Value>| for (k, v) in d.iter() { out.push(json!(hex(k))); flat_enc(v, out); };
    match o {
        Object::Array(a) => { out.push(json!(["arr", a.len()])); for x in a { flat_enc(x, out); } }
        Object::Dictionary(d) => { out.push(json!(["dict", d.len()])); entries(d, out); }
        Object::Stream(s) => { out.push(json!(["stream", s.dict.len(), hex(&s.content)])); entries(&s.dict, out); }
        leaf => out.push(obj_json(leaf)),
    }
}

fn flat_dec(t: &[Value], pos: &mut usize) -> Object {
    let tok = match t.get(*pos) { Some(v) => v, None => return Object::Null };
    *pos += 1;
    let head = match tok.as_array() { Some(h) => h, None => return obj_from_json(tok) };
    let n = head.get(1).and_then(|x| x.as_u64()).unwrap_or(0) as usize;
    let entries = |t: &[Value], pos: &mut usize| {
        let mut d = Dictionary::new();
        for _ in 0..n { let k = unhex(t.get(*pos).and_then(|x| x.as_str()).unwrap_or("")); *pos += 1; let v = flat_dec(t, pos); d.set(k, v); }
        d
    };
    match head.first().and_then(|x| x.as_str()).unwrap_or("") {
        "arr" => Object::Array((0..n).map(|_| flat_dec(t, pos)).collect()),
        "dict" => Object::Dictionary(entries(t, pos)),
        "stream" => { let content = unhex(head.get(2).and_then(|x| x.as_str()).unwrap_or("")); let mut st = Stream::new(Dictionary::new(), content); st.dict = entries(t, pos); Object::Stream(st) }
        _ => Object::Null,
    }
}

/// (key, value) under which a value is recorded: `<key>` nested as everywhere else, or `<key>_flat` when it is deep
fn value_json(key: &str, o: &Object) -> (String, Value) {
    if container_depth(o) > FLAT_FROM { let mut out = vec![]; flat_enc(o, &mut out); (format!("{}_flat", key), Value::Array(out)) } else { (key.to_string(), obj_json(o)) }
}

fn value_from_json(v: &Value, key: &str) -> Object {
    match v[format!("{}_flat", key).as_str()].as_array() { Some(t) => flat_dec(t, &mut 0), None => obj_from_json(&v[key]) }
}

pub fn case_json(c: &Case) -> Value {
    let objects: Vec<Value> = c.objects.iter().map(|(id, o)| {
        let (k, v) = value_json("obj", o);
        let mut e = json!({"id": id.0, "gen": id.1});
        e[k.as_str()] = v;
        e
    }).collect();
    let (tk, tv) = value_json("trailer", &Object::Dictionary(c.trailer.clone()));
    let mut j = case_json_rest(c, objects);
    j[tk.as_str()] = tv;
    j
}

fn case_json_rest(c: &Case, objects: Vec<Value>) -> Value {
    json!({
        "objects": objects,
        "bookmarks": c.bookmarks.iter().map(|(p, par)| json!({"page": [p.0, p.1], "parent": par})).collect::<Vec<_>>(),
        "start": c.start,
        "then": c.then,
        "tag": c.tag,
        "label": c.label,
    })
}

pub fn case_from_json(v: &Value) -> Case {
    let trailer = match value_from_json(v, "trailer") { Object::Dictionary(d) => d, _ => Dictionary::new() };
    Case {
        objects: v["objects"].as_array().cloned().unwrap_or_default().iter()
            .map(|e| ((e["id"].as_u64().unwrap_or(0) as u32, e["gen"].as_u64().unwrap_or(0) as u16), value_from_json(e, "obj"))).collect(),
        trailer,
        bookmarks: v["bookmarks"].as_array().cloned().unwrap_or_default().iter()
            .map(|e| ((e["page"][0].as_u64().unwrap_or(0) as u32, e["page"][1].as_u64().unwrap_or(0) as u16), e["parent"].as_u64().map(|p| p as usize))).collect(),
        start: v["start"].as_u64().unwrap_or(1) as u32,
        then: v["then"].as_array().cloned().unwrap_or_default().iter().map(|x| x.as_u64().unwrap_or(1) as u32).collect(),
        tag: v["tag"].as_str().unwrap_or("").to_string(),
        label: v["label"].as_str().unwrap_or("").to_string(),
    }
}

fn describe(c: &Case) -> String {
    let mut t = format!("start={} then={:?} trailer={:?} bookmarks={:?} objs=[", c.start, c.then, c.trailer, c.bookmarks);
    for (id, o) in &c.objects { t.push_str(&format!("{} {}: {:?}; ", id.0, id.1, o)); }
    t.push(']');
    if t.len() > 700 { t.truncate(700); }
    t
}

// ---------------------------------------------------------------------------------------------------------------------
// oracle
// ---------------------------------------------------------------------------------------------------------------------

struct Oracle<'a> {
    b: &'a Document,
    a: &'a Document,
    rho: BTreeMap<ObjectId, ObjectId>,
    inv: BTreeMap<ObjectId, ObjectId>,
    queue: VecDeque<(ObjectId, ObjectId)>,
    fails: Vec<(String, String)>,
    via_bookmark: bool,
    ctx: Option<(ObjectId, ObjectId)>,
    /// number of arrays / dictionaries / stream dictionaries entered below the trailer value or object being compared
    depth: usize,
}

/// keep a detail readable when the values in it are hundreds of levels deep
fn clip(mut t: String) -> String {
    if t.chars().count() > 900 { t = t.chars().take(900).collect(); t.push_str(" ..."); }
    t
}

impl<'a> Oracle<'a> {
    fn fail(&mut self, obl: &str, detail: String) {
        let obl = if self.via_bookmark { "bookmark-target-content" } else { obl };
        if !self.fails.iter().any(|f| f.0 == obl) {
            let place = match self.ctx { None => "trailer".to_string(), Some((kb, ka)) => format!("old object {} {} / new object {} {}", kb.0, kb.1, ka.0, ka.1) };
            let nesting = if self.depth > 0 { format!(", inside {} nested container(s)", self.depth) } else { String::new() };
            self.fails.push((obl.to_string(), format!("{} (in {}{})", clip(detail), place, nesting)));
        }
    }

    /// rho(rb) = ra; false if that contradicts what is already known
    fn bind(&mut self, rb: ObjectId, ra: ObjectId) -> bool {
        match (self.rho.get(&rb).copied(), self.inv.get(&ra).copied()) {
            (Some(x), _) if x != ra => {
                self.fail("renaming-one-to-one", format!("old id {:?} is renamed to {:?} in one place and to {:?} in another", rb, x, ra));
                false
            }
            (Some(_), _) => true,
            (None, Some(y)) => {
                self.fail("renaming-one-to-one", format!("new id {:?} stands for old {:?} in one place and for old {:?} in another", ra, y, rb));
                false
            }
            (None, None) => {
                self.rho.insert(rb, ra);
                self.inv.insert(ra, rb);
                self.queue.push_back((rb, ra));
                true
            }
        }
    }

    fn cmp_dict(&mut self, x: &Dictionary, y: &Dictionary) {
        if x.len() != y.len() {
            self.fail("content-equal", format!("dictionary {:?} became {:?}", x, y));
            return;
        }
        for (k, vb) in x.iter() {
            match y.get(k) {
                Ok(va) => self.cmp(vb, va),
                Err(_) => { self.fail("content-equal", format!("key {:?} lost: {:?} became {:?}", String::from_utf8_lossy(k), x, y)); }
            }
        }
    }

    fn cmp(&mut self, ob: &Object, oa: &Object) {
        match (ob, oa) {
            (Object::Reference(rb), Object::Reference(ra)) => {
                let was_live = self.b.objects.contains_key(rb);
                let is_live = self.a.objects.contains_key(ra);
                if was_live {
                    if !is_live {
                        self.fail("reference-resolves", format!("reference {:?} resolved before, its counterpart {:?} resolves to nothing", rb, ra));
                    } else {
                        self.bind(*rb, *ra);
                    }
                } else if is_live {
                    self.fail("dangling-stays-dangling", format!("reference {:?} resolved to nothing before; afterwards it reads {:?} and resolves to {:?}", rb, ra, self.a.objects.get(ra)));
                }
            }
            (Object::Array(x), Object::Array(y)) => {
                if x.len() != y.len() { self.fail("content-equal", format!("array {:?} became {:?}", x, y)); return; }
                self.depth += 1;
                for (p, q) in x.iter().zip(y.iter()) { self.cmp(p, q); }
                self.depth -= 1;
            }
            (Object::Dictionary(x), Object::Dictionary(y)) => { self.depth += 1; self.cmp_dict(x, y); self.depth -= 1; }
            (Object::Stream(x), Object::Stream(y)) => {
                if x.content != y.content { self.fail("content-equal", "stream content changed".to_string()); }
                self.depth += 1;
                self.cmp_dict(&x.dict, &y.dict);
                self.depth -= 1;
            }
            (Object::Reference(_), _) | (_, Object::Reference(_)) | (Object::Array(_), _) | (Object::Dictionary(_), _) | (Object::Stream(_), _) => {
                self.fail("content-equal", format!("{:?} became {:?}", ob, oa));
            }
            _ => { if ob != oa { self.fail("content-equal", format!("{:?} became {:?}", ob, oa)); } }
        }
    }

    fn drain(&mut self) {
        while let Some((kb, ka)) = self.queue.pop_front() {
            self.ctx = Some((kb, ka));
            let (b, a) = (self.b, self.a);
            if let (Some(ob), Some(oa)) = (b.objects.get(&kb), a.objects.get(&ka)) { self.cmp(ob, oa); }
        }
        self.ctx = None;
    }
}

/// follow reference chains (as the library's accessors do), bounded
fn resolve<'d>(doc: &'d Document, mut o: &'d Object) -> Option<&'d Object> {
    for _ in 0..32 {
        match o { Object::Reference(id) => { o = doc.objects.get(id)?; } _ => return Some(o) }
    }
    None
}

fn resolve_dict<'d>(doc: &'d Document, id: ObjectId) -> Option<&'d Dictionary> {
    match resolve(doc, doc.objects.get(&id)?)? { Object::Dictionary(d) => Some(d), Object::Stream(s) => Some(&s.dict), _ => None }
}

/// independent page walk: depth-first over /Kids from the catalog's /Pages; None if the tree is cyclic (then only the
/// library's bounded iterator defines an order)
fn model_pages(doc: &Document) -> Option<Vec<ObjectId>> {
    fn walk(doc: &Document, node: ObjectId, path: &mut Vec<ObjectId>, out: &mut Vec<ObjectId>) -> bool {
        let d = match resolve_dict(doc, node) { Some(d) => d, None => return true };
        let kids = match d.get(b"Kids").ok().and_then(|k| resolve(doc, k)) { Some(Object::Array(k)) => k, _ => return true };
        for kid in kids {
            if let Object::Reference(kid_id) = kid {
                if let Some(kd) = resolve_dict(doc, *kid_id) {
                    match kd.get(b"Type") {
                        Ok(Object::Name(n)) if n == b"Page" => out.push(*kid_id),
                        Ok(Object::Name(n)) if n == b"Pages" => {
                            if path.contains(kid_id) || path.len() > 16 { return false; }
                            path.push(*kid_id);
                            let ok = walk(doc, *kid_id, path, out);
                            path.pop();
                            if !ok { return false; }
                        }
                        _ => {}
                    }
                }
            }
        }
        true
    }
    let root = match doc.trailer.get(b"Root") { Ok(Object::Reference(id)) => *id, _ => return Some(vec![]) };
    // a Root that resolves to nothing (or not to a dictionary) means no pages, not a cyclic tree
    let cat = match doc.objects.get(&root).and_then(|o| resolve(doc, o)) { Some(Object::Dictionary(d)) => d, _ => return Some(vec![]) };
    let pages = match cat.get(b"Pages") { Ok(Object::Reference(id)) => *id, _ => return Some(vec![]) };
    let mut out = vec![];
    let mut path = vec![pages];
    if walk(doc, pages, &mut path, &mut out) { Some(out) } else { None }
}

fn erase_refs(o: &Object) -> Object {
    match o {
        Object::Reference(_) => Object::Null,
        Object::Array(a) => Object::Array(a.iter().map(erase_refs).collect()),
        Object::Dictionary(d) => { let mut n = Dictionary::new(); for (k, v) in d.iter() { n.set(k.clone(), erase_refs(v)); } Object::Dictionary(n) }
        Object::Stream(s) => { let mut n = Dictionary::new(); for (k, v) in s.dict.iter() { n.set(k.clone(), erase_refs(v)); } let mut t = Stream::new(Dictionary::new(), s.content.clone()); t.dict = n; Object::Stream(t) }
        other => other.clone(),
    }
}

/// the executable postcondition: all violated obligations (at most one entry per obligation)
pub fn postcondition(b: &Document, a: &Document, start: u32) -> Vec<(String, String)> {
    let mut o = Oracle { b, a, rho: BTreeMap::new(), inv: BTreeMap::new(), queue: VecDeque::new(), fails: vec![], via_bookmark: false, ctx: None, depth: 0 };
    let n = b.objects.len() as u64;
    // 1. identifiers
    if a.objects.len() as u64 != n {
        o.fail("object-count", format!("{} objects before, {} afterwards (new ids {:?})", n, a.objects.len(), a.objects.keys().collect::<Vec<_>>()));
    }
    let mut nums: Vec<u64> = a.objects.keys().map(|k| k.0 as u64).collect();
    nums.sort_unstable();
    let want: Vec<u64> = (0..a.objects.len() as u64).map(|i| start as u64 + i).collect();
    if nums != want {
        o.fail("ids-consecutive", format!("object numbers afterwards {:?}, expected {:?}", nums, want));
    }
    // "the maximum id equals the last one": the largest number in use (for an empty document: the one before start)
    let last: Option<u64> = match nums.last() { Some(l) => Some(*l), None => (start as u64).checked_sub(1) };
    if let Some(last) = last {
        if a.max_id as u64 != last { o.fail("max-id", format!("max_id {} but the last object number is {}", a.max_id, last)); }
    }
    // 2. the graph, from the trailer
    o.cmp_dict(&b.trailer, &a.trailer);
    o.drain();
    // 3. page order
    let lib_before: Vec<ObjectId> = b.get_pages().values().copied().collect();
    let lib_after: Vec<ObjectId> = a.get_pages().values().copied().collect();
    let model_before = model_pages(b);
    let expect_from = model_before.clone().unwrap_or_else(|| lib_before.clone());
    let mapped: Option<Vec<ObjectId>> = expect_from.iter().map(|p| o.rho.get(p).copied()).collect();
    match mapped {
        Some(exp) => {
            if lib_after != exp {
                o.fail("page-order", format!("pages before {:?}; expected afterwards {:?} (renamed), get_pages gives {:?}", expect_from, exp, lib_after));
            } else if model_before.is_some() {
                match model_pages(a) {
                    Some(m) if m == exp => {}
                    other => o.fail("page-order", format!("pages before {:?}; expected afterwards {:?}, depth-first walk of the new tree gives {:?}", expect_from, exp, other)),
                }
            }
        }
        None => { if o.fails.is_empty() { o.fail("page-order", format!("a page of {:?} has no counterpart although the graphs matched", expect_from)); } }
    }
    // 4. bookmarks
    if b.bookmarks != a.bookmarks || b.bookmark_table.len() != a.bookmark_table.len() || b.max_bookmark_id != a.max_bookmark_id {
        o.fail("bookmark-structure", format!("bookmark list {:?} became {:?}", b.bookmarks, a.bookmarks));
    }
    let mut bids: Vec<u32> = b.bookmark_table.keys().copied().collect();
    bids.sort_unstable();
    let mut late: Vec<(ObjectId, ObjectId)> = vec![];
    for id in bids {
        let (bb, ba) = match (b.bookmark_table.get(&id), a.bookmark_table.get(&id)) { (Some(x), Some(y)) => (x, y), _ => { o.fail("bookmark-structure", format!("bookmark {} lost", id)); continue; } };
        if bb.children != ba.children || bb.title != ba.title || bb.format != ba.format || bb.color != ba.color || bb.id != ba.id {
            o.fail("bookmark-structure", format!("bookmark {} changed apart from its target", id));
        }
        let was_live = b.objects.contains_key(&bb.page);
        let is_live = a.objects.contains_key(&ba.page);
        if was_live {
            match o.rho.get(&bb.page).copied() {
                Some(r) => { if r != ba.page { o.fail("bookmark-target", format!("bookmark {} pointed to {:?}, which is now {:?}, but the bookmark says {:?}", id, bb.page, r, ba.page)); } }
                None => {
                    if !is_live { o.fail("bookmark-target", format!("bookmark {} pointed to existing {:?}, now to missing {:?}", id, bb.page, ba.page)); }
                    else if let Some(y) = o.inv.get(&ba.page).copied() { o.fail("bookmark-target", format!("bookmark {} pointed to {:?}, now to {:?} which is old {:?}", id, bb.page, ba.page, y)); }
                    else { late.push((bb.page, ba.page)); }
                }
            }
        } else if is_live {
            o.fail("bookmark-dangling", format!("bookmark {} pointed to nothing ({:?}); afterwards {:?} is {:?}", id, bb.page, ba.page, a.objects.get(&ba.page)));
        }
    }
    // bookmark targets outside the trailer-reachable part: extend rho, compare their content as well
    for (pb, pa) in late {
        if !o.bind(pb, pa) {
            // two bookmarks disagree about an unreachable target
            let f = o.fails.iter().position(|f| f.0 == "renaming-one-to-one");
            if let Some(i) = f { let d = o.fails[i].1.clone(); o.fails.remove(i); o.fail("bookmark-target", d); }
        }
    }
    o.via_bookmark = true;
    o.drain();
    o.via_bookmark = false;
    // 5. the rest: same objects up to references
    let mut rest_b: Vec<String> = b.objects.iter().filter(|(k, _)| !o.rho.contains_key(k)).map(|(_, v)| format!("{:?}", erase_refs(v))).collect();
    let mut rest_a: Vec<String> = a.objects.iter().filter(|(k, _)| !o.inv.contains_key(k)).map(|(_, v)| format!("{:?}", erase_refs(v))).collect();
    rest_b.sort();
    rest_a.sort();
    if rest_b != rest_a && o.fails.iter().all(|f| f.0 == "max-id" || f.0 == "ids-consecutive") {
        o.fail("unreachable-content", format!("objects not reachable from the trailer (references erased) before {:?}, afterwards {:?}", rest_b, rest_a));
    }
    o.fails
}

/// catch a panic without touching the (process-global) panic hook: `common::guarded` swaps the hook on every call, which
/// races between rayon workers; `quiet` installs a silent hook once around the whole parallel run instead
fn catch<T>(f: impl FnOnce() -> T) -> Result<T, String> {
    std::panic::catch_unwind(std::panic::AssertUnwindSafe(f)).map_err(|e| {
        if let Some(s) = e.downcast_ref::<String>() { s.clone() } else if let Some(s) = e.downcast_ref::<&str>() { s.to_string() } else { "panic".to_string() }
    })
}

fn quiet<T>(f: impl FnOnce() -> T) -> T {
    let prev = std::panic::take_hook();
    std::panic::set_hook(Box::new(|_| {}));
    let r = f();
    std::panic::set_hook(prev);
    r
}

/// the sub-family tags that follow from a document's ids and a start value alone (the enumeration hands the same tags
/// to `Case::tag` for the first call; for a later call of a history they are computed from the state that call starts from)
fn tag_of(ids: &[ObjectId], start: u32) -> String {
    let mut t = String::new();
    if ids.iter().enumerate().any(|(i, a)| ids[..i].iter().any(|b| b.0 == a.0)) { t.push_str("[same-number-gens]"); }
    if ids.iter().any(|i| i.0 == 0) { t.push_str("[object-number-0]"); }
    if start == 0 { t.push_str("[start=0]"); } else if start > u32::MAX / 2 { t.push_str("[start-near-u32-max]"); }
    t
}

/// run the real library on one case and evaluate the postcondition: once per call of the history (`start`, then every
/// entry of `then`), each call against the document as the previous call left it
pub fn check_case(c: &Case) -> Vec<(String, String)> {
    let mut before = build_doc(c);
    let mut out: Vec<(String, String)> = vec![];
    let mut done: Vec<u32> = vec![];
    for (k, start) in std::iter::once(c.start).chain(c.then.iter().copied()).enumerate() {
        let mut after = before.clone();
        let r = catch(|| {
            if start == 1 { after.renumber_objects(); } else { after.renumber_objects_with(start); }
        });
        let panicked = r.is_err();
        let mut fails = match r {
            Err(p) => vec![("no-panic".to_string(), format!("renumber_objects_with({}) panicked: {}", start, p))],
            Ok(()) => match catch(|| postcondition(&before, &after, start)) {
                Ok(f) => f,
                Err(p) => vec![("oracle-no-panic".to_string(), format!("evaluating the postcondition panicked: {}", p))],
            },
        };
        let tag = if k == 0 { c.tag.clone() } else { format!("{}[call-{}]", tag_of(&before.objects.keys().copied().collect::<Vec<_>>(), start), k + 1) };
        for f in fails.iter_mut() {
            f.0.push_str(&tag);
            if k > 0 { f.1 = format!("call {} (start {}) on the document left by renumbering with start(s) {:?}, object ids {:?}: {}", k + 1, start, done, before.objects.keys().collect::<Vec<_>>(), f.1); }
        }
        out.append(&mut fails);
        // a call that panicked leaves no defined state to go on from
        if panicked { break; }
        done.push(start);
        before = after;
    }
    out
}

// ---------------------------------------------------------------------------------------------------------------------
// the enumerated family
// ---------------------------------------------------------------------------------------------------------------------

const BIG_STACK: usize = 256 << 20;
const SLOT: u32 = 1_000_000;
const DANG: u32 = 2_000_000;
fn sid(i: usize) -> ObjectId { (SLOT + i as u32, 0) }
fn did(k: usize) -> ObjectId { (DANG + k as u32, 0) }
fn s(i: usize) -> Object { Object::Reference(sid(i)) }
fn d(k: usize) -> Object { Object::Reference(did(k)) }

/// a document with abstract nodes ("slots") and abstract dangling ids, to be given concrete ids
#[derive(Clone)]
struct Template {
    label: String,
    objs: Vec<Object>,
    trailer: Dictionary,
    bookmark_sets: Vec<Vec<(ObjectId, Option<usize>)>>,
}

fn map_id(id: ObjectId, ids: &[ObjectId], dang: &[ObjectId]) -> ObjectId {
    if id.0 >= DANG { dang[(id.0 - DANG) as usize] } else if id.0 >= SLOT { ids[(id.0 - SLOT) as usize] } else { id }
}

fn inst(o: &Object, ids: &[ObjectId], dang: &[ObjectId]) -> Object {
    match o {
        Object::Reference(id) => Object::Reference(map_id(*id, ids, dang)),
        Object::Array(a) => Object::Array(a.iter().map(|x| inst(x, ids, dang)).collect()),
        Object::Dictionary(dd) => Object::Dictionary(inst_dict(dd, ids, dang)),
        Object::Stream(st) => { let mut t = Stream::new(Dictionary::new(), st.content.clone()); t.dict = inst_dict(&st.dict, ids, dang); Object::Stream(t) }
        other => other.clone(),
    }
}

fn inst_dict(dd: &Dictionary, ids: &[ObjectId], dang: &[ObjectId]) -> Dictionary {
    let mut n = Dictionary::new();
    for (k, v) in dd.iter() { n.set(k.clone(), inst(v, ids, dang)); }
    n
}

fn instantiate(t: &Template, bm: usize, ids: &[ObjectId], dang: &[ObjectId], start: u32, tag: &str) -> Case {
    Case {
        objects: t.objs.iter().enumerate().map(|(i, o)| (ids[i], inst(o, ids, dang))).collect(),
        trailer: inst_dict(&t.trailer, ids, dang),
        bookmarks: t.bookmark_sets[bm].iter().map(|(p, par)| (map_id(*p, ids, dang), *par)).collect(),
        start,
        then: vec![],
        tag: tag.to_string(),
        label: t.label.clone(),
    }
}

/// the id sets for n objects (sorted): dense from 1; sparse with non-zero generations; one with number clashes; and the
/// two with object number 0 in use (family Z): dense from 0 (what a renumbering from 0 leaves), sparse with number 0 at
/// generation 1 (so that `0 0 R` dangles although number 0 is taken)
fn id_set(which: usize, n: usize) -> Vec<ObjectId> {
    match which {
        3 => (0..n as u32).map(|k| (k, 0)).collect(),
        4 => { let nums = [0u32, 2, 3, 5, 8, 9, 12, 13]; let gens = [1u16, 0, 1, 0, 2, 0, 1, 0]; (0..n).map(|i| (nums[i], gens[i])).collect() }
        0 => (1..=n as u32).map(|k| (k, 0)).collect(),
        1 => { let nums = [2u32, 3, 5, 8, 9, 12, 13, 20]; let gens = [0u16, 1, 0, 0, 2, 0, 1, 0]; (0..n).map(|i| (nums[i], gens[i])).collect() }
        _ => { let all = [(1u32, 0u16), (3, 0), (3, 1), (4, 0), (6, 0), (6, 1), (7, 0), (9, 0)]; all[..n].to_vec() }
    }
}

fn id_set_tag(which: usize, n: usize) -> &'static str { if which == 2 && n >= 3 { "[same-number-gens]" } else { "" } }

/// three ids that are absent from the set: the smallest free number (falls into the new range for small starts),
/// an existing number with a wrong generation, a number beyond the largest
fn dangling_for(ids: &[ObjectId]) -> Vec<ObjectId> {
    let mut k = 1u32;
    while ids.iter().any(|i| i.0 == k) { k += 1; }
    let first = ids.first().copied().unwrap_or((1, 0));
    let mut g = first.1 + 1;
    while ids.contains(&(first.0, g)) { g += 1; }
    let max = ids.iter().map(|i| i.0).max().unwrap_or(0);
    vec![(k, 0), (first.0, g), (max + 3, 0)]
}

/// family Z: the dangling ids with object number 0 first: number 0 at the smallest generation that is absent ((0,0) unless
/// the id set has it), then the three of `dangling_for`
fn dangling_zero_first(ids: &[ObjectId]) -> Vec<ObjectId> {
    let mut g = 0u16;
    while ids.contains(&(0, g)) { g += 1; }
    let mut v = vec![(0, g)];
    v.extend(dangling_for(ids));
    v
}

fn permutations(n: usize) -> Vec<Vec<usize>> {
    fn rec(cur: &mut Vec<usize>, used: &mut Vec<bool>, n: usize, out: &mut Vec<Vec<usize>>) {
        if cur.len() == n { out.push(cur.clone()); return; }
        for i in 0..n { if !used[i] { used[i] = true; cur.push(i); rec(cur, used, n, out); cur.pop(); used[i] = false; } }
    }
    let mut out = vec![];
    rec(&mut vec![], &mut vec![false; n], n, &mut out);
    out
}

// ---- family A: page trees ------------------------------------------------------------------------------------------

fn catalog(pages: usize) -> Object { Object::Dictionary(dict(vec![(b"Type", name(b"Catalog")), (b"Pages", s(pages))])) }
fn pages_node(parent: Option<usize>, kids: Object, count: i64) -> Object {
    let mut v: Vec<(&[u8], Object)> = vec![(b"Type", name(b"Pages")), (b"Kids", kids), (b"Count", Object::Integer(count))];
    if let Some(p) = parent { v.push((b"Parent", s(p))); }
    Object::Dictionary(dict(v))
}
fn page(parent: usize, contents: Option<Object>) -> Object {
    let mut v: Vec<(&[u8], Object)> = vec![(b"Type", name(b"Page")), (b"Parent", s(parent)), (b"MediaBox", Object::Array(vec![Object::Integer(0), Object::Integer(0), Object::Integer(10), Object::Real(10.5)]))];
    if let Some(c) = contents { v.push((b"Contents", c)); }
    Object::Dictionary(dict(v))
}
fn arr(v: Vec<Object>) -> Object { Object::Array(v) }

fn page_bookmark_sets(pages: &[usize]) -> Vec<Vec<(ObjectId, Option<usize>)>> {
    if pages.is_empty() {
        return vec![vec![], vec![(did(0), None), ((0, 0), None)]];
    }
    let flat: Vec<(ObjectId, Option<usize>)> = pages.iter().map(|p| (sid(*p), None)).chain(std::iter::once((did(0), None))).collect();
    let nested: Vec<(ObjectId, Option<usize>)> = pages.iter().rev().enumerate().map(|(i, p)| (sid(*p), if i == 0 { None } else { Some(i - 1) })).collect();
    let mut zero: Vec<(ObjectId, Option<usize>)> = vec![((0, 0), None)];
    for p in pages { zero.push((sid(*p), Some(0))); }
    zero.push((sid(pages[0]), None));
    vec![vec![], flat, nested, zero]
}

fn page_templates(thorough: bool) -> Vec<Template> {
    let root_trailer = || dict(vec![(b"Root", s(0))]);
    let mut v = vec![];
    let mut add = |label: &str, objs: Vec<Object>, trailer: Dictionary, pages: &[usize]| {
        v.push(Template { label: label.to_string(), objs, trailer, bookmark_sets: page_bookmark_sets(pages) });
    };
    add("T0 no pages", vec![catalog(1), pages_node(None, arr(vec![]), 0)], root_trailer(), &[]);
    add("T1 [p]", vec![catalog(1), pages_node(None, arr(vec![s(2)]), 1), page(1, None)], root_trailer(), &[2]);
    add("T2 [p,p] + trailer array referencing page 2",
        vec![catalog(1), pages_node(None, arr(vec![s(2), s(3)]), 2), page(1, None), page(1, None)],
        dict(vec![(b"Root", s(0)), (b"Open", arr(vec![s(3), name(b"Fit")]))]), &[2, 3]);
    add("T3 [p,p,p]", vec![catalog(1), pages_node(None, arr(vec![s(2), s(3), s(4)]), 3), page(1, None), page(1, None), page(1, None)], root_trailer(), &[2, 3, 4]);
    add("T4 [p,[p,p]]", vec![catalog(1), pages_node(None, arr(vec![s(2), s(3)]), 3), page(1, None), pages_node(Some(1), arr(vec![s(4), s(5)]), 2), page(3, None), page(3, None)], root_trailer(), &[2, 4, 5]);
    add("T5 [[p,p],p]", vec![catalog(1), pages_node(None, arr(vec![s(2), s(5)]), 3), pages_node(Some(1), arr(vec![s(3), s(4)]), 2), page(2, None), page(2, None), page(1, None)], root_trailer(), &[3, 4, 5]);
    add("T6 [[p],[p]]", vec![catalog(1), pages_node(None, arr(vec![s(2), s(3)]), 2), pages_node(Some(1), arr(vec![s(4)]), 1), pages_node(Some(1), arr(vec![s(5)]), 1), page(2, None), page(3, None)], root_trailer(), &[4, 5]);
    add("T7 [p1,p2,p1] shared kid", vec![catalog(1), pages_node(None, arr(vec![s(2), s(3), s(2)]), 3), page(1, None), page(1, None)], root_trailer(), &[2, 3]);
    add("T8 [p, dangling, p]", vec![catalog(1), pages_node(None, arr(vec![s(2), d(0), s(3)]), 2), page(1, None), page(1, None)], root_trailer(), &[2, 3]);
    add("T9 [p,[p,root]] cyclic kids", vec![catalog(1), pages_node(None, arr(vec![s(2), s(3)]), 2), page(1, None), pages_node(Some(1), arr(vec![s(4), s(1)]), 1), page(3, None)], root_trailer(), &[2, 4]);
    add("T10 Kids is an indirect array", vec![catalog(1), pages_node(None, s(2), 2), arr(vec![s(3), s(4)]), page(1, None), page(1, None)], root_trailer(), &[3, 4]);
    let x = |owner: usize| { let mut st = Stream::new(Dictionary::new(), b"q Q".to_vec()); st.dict = dict(vec![(b"Owner", s(owner)), (b"Missing", d(1))]); Object::Stream(st) };
    add("T2X two pages share a stream that points back and has a dangling ref",
        vec![catalog(1), pages_node(None, arr(vec![s(2), s(3)]), 2), page(1, Some(s(4))), page(1, Some(arr(vec![s(4)]))), x(2)], root_trailer(), &[2, 3]);
    add("T3X three pages, first and last share a stream",
        vec![catalog(1), pages_node(None, arr(vec![s(2), s(3), s(4)]), 3), page(1, Some(s(5))), page(1, None), page(1, Some(arr(vec![s(5), d(0)]))), x(2)], root_trailer(), &[2, 3, 4]);
    add("T2U two pages and an unreachable object referencing a page",
        vec![catalog(1), pages_node(None, arr(vec![s(2), s(3)]), 2), page(1, None), page(1, None), Object::Dictionary(dict(vec![(b"Ref", s(2)), (b"Other", d(0)), (b"K", Object::Integer(5))]))], root_trailer(), &[2, 3]);
    if thorough {
        add("T4X [p,[p,p]] + shared stream",
            vec![catalog(1), pages_node(None, arr(vec![s(2), s(3)]), 3), page(1, Some(s(6))), pages_node(Some(1), arr(vec![s(4), s(5)]), 2), page(3, None), page(3, Some(s(6))), x(4)], root_trailer(), &[2, 4, 5]);
    }
    v
}

// ---- family B: general reference graphs ----------------------------------------------------------------------------

const KINDS: usize = 5;
fn kind_obj(kind: usize, r1: Object, r2: Object) -> Object {
    match kind % KINDS {
        0 => Object::Dictionary(dict(vec![(b"A", r1), (b"B", r2)])),
        1 => arr(vec![r1, Object::Integer(7), arr(vec![r2])]),
        2 => { let mut st = Stream::new(Dictionary::new(), b"x".to_vec()); st.dict = dict(vec![(b"A", r1), (b"Sub", Object::Dictionary(dict(vec![(b"B", arr(vec![r2]))])))]); Object::Stream(st) }
        3 => Object::Dictionary(dict(vec![(b"A", arr(vec![Object::Dictionary(dict(vec![(b"B", r1)]))])), (b"C", r2), (b"Nm", name(b"N"))])),
        _ => match r1 { Object::Null => Object::Integer(1), r => r }, // the object is itself a reference (chain)
    }
}

#[derive(Clone)]
struct SubB {
    n: usize,
    two_pos: bool,
    ndang: usize,
    all_perms: bool,
    idsets: Vec<usize>,
    starts: Vec<u32>,
    rots: Vec<usize>,
    trailers: Vec<usize>,
    bms: Vec<usize>,
}

impl SubB {
    fn nchoice(&self) -> usize { 1 + self.n + self.ndang }
    fn positions(&self) -> usize { if self.two_pos { 2 * self.n } else { self.n } }
    fn codes(&self) -> u64 { (self.nchoice() as u64).pow(self.positions() as u32) }
    fn perms(&self) -> Vec<Vec<usize>> {
        if self.all_perms { permutations(self.n) } else if self.n < 2 { vec![(0..self.n).collect()] } else { vec![(0..self.n).collect(), (0..self.n).rev().collect()] }
    }
    fn per_code(&self) -> u64 { (self.perms().len() * self.idsets.len() * self.starts.len() * self.rots.len() * self.trailers.len() * self.bms.len()) as u64 }
    fn describe(&self) -> String {
        format!("n={} objects, {} reference position(s) per object each in {{none, every object, {} dangling id(s)}} ({} graphs) x {} slot->id permutations x id sets {:?} x starts {} x container rotations {:?} x trailer shapes {:?} x bookmark sets {:?}",
            self.n, if self.two_pos { 2 } else { 1 }, self.ndang, self.codes(), self.perms().len(), self.idsets, if self.starts.is_empty() { "(the histories)".to_string() } else { format!("{:?}", self.starts) }, self.rots, self.trailers, self.bms)
    }
}

fn choice(c: usize, n: usize) -> Object { if c == 0 { Object::Null } else if c <= n { s(c - 1) } else { d(c - n - 1) } }

fn graph_template(sub: &SubB, mut code: u64, rot: usize, trailer: usize, ) -> Template {
    let n = sub.n;
    let nc = sub.nchoice() as u64;
    let mut objs = vec![];
    for i in 0..n {
        let r1 = choice((code % nc) as usize, n); code /= nc;
        let r2 = if sub.two_pos { let c = choice((code % nc) as usize, n); code /= nc; c } else { Object::Null };
        objs.push(kind_obj(i + rot, r1, r2));
    }
    let last = n.saturating_sub(1);
    let tr = if n == 0 { Dictionary::new() } else {
        match trailer {
            0 => dict(vec![(b"Root", s(0))]),
            1 => dict(vec![(b"Root", s(0)), (b"Info", s(last))]),
            2 => dict(vec![(b"Root", s(0)), (b"Info", d(0))]),
            _ => dict(vec![(b"Root", s(0)), (b"Extra", arr(vec![s(last), Object::Dictionary(dict(vec![(b"X", d(1))]))]))]),
        }
    };
    let mut flat: Vec<(ObjectId, Option<usize>)> = (0..n).map(|i| (sid(i), None)).collect();
    flat.push((did(0), if n > 0 { Some(0) } else { None }));
    Template { label: format!("graph n={} rot={} trailer={}", n, rot, trailer), objs, trailer: tr, bookmark_sets: vec![vec![], flat] }
}

fn sub_families(thorough: bool) -> Vec<SubB> {
    let st_full: Vec<u32> = vec![1, 2, 3, 7, 100];
    if thorough {
        vec![
            SubB { n: 0, two_pos: false, ndang: 0, all_perms: true, idsets: vec![0], starts: vec![1, 2, 7], rots: vec![0], trailers: vec![0], bms: vec![0, 1] },
            SubB { n: 1, two_pos: true, ndang: 2, all_perms: true, idsets: vec![0, 1, 2], starts: st_full.clone(), rots: (0..KINDS).collect(), trailers: vec![0, 1, 2, 3], bms: vec![0, 1] },
            SubB { n: 2, two_pos: true, ndang: 2, all_perms: true, idsets: vec![0, 1, 2], starts: st_full.clone(), rots: (0..KINDS).collect(), trailers: vec![0, 1, 2, 3], bms: vec![0, 1] },
            SubB { n: 3, two_pos: false, ndang: 2, all_perms: true, idsets: vec![0, 1, 2], starts: st_full.clone(), rots: (0..KINDS).collect(), trailers: vec![0, 1, 2, 3], bms: vec![0, 1] },
            SubB { n: 3, two_pos: true, ndang: 2, all_perms: true, idsets: vec![0, 1, 2], starts: vec![1, 2, 7], rots: vec![0], trailers: vec![0], bms: vec![0, 1] },
            SubB { n: 4, two_pos: false, ndang: 2, all_perms: true, idsets: vec![0, 1, 2], starts: vec![1, 2, 7], rots: vec![0], trailers: vec![0, 3], bms: vec![0, 1] },
        ]
    } else {
        vec![
            SubB { n: 0, two_pos: false, ndang: 0, all_perms: true, idsets: vec![0], starts: vec![1, 2, 7], rots: vec![0], trailers: vec![0], bms: vec![0, 1] },
            SubB { n: 1, two_pos: true, ndang: 2, all_perms: true, idsets: vec![0, 1], starts: vec![1, 2, 7], rots: (0..KINDS).collect(), trailers: vec![0, 2], bms: vec![0, 1] },
            SubB { n: 2, two_pos: true, ndang: 2, all_perms: true, idsets: vec![0, 1, 2], starts: vec![1, 2, 7], rots: vec![0, 2, 4], trailers: vec![1, 3], bms: vec![0, 1] },
            SubB { n: 3, two_pos: false, ndang: 2, all_perms: true, idsets: vec![1, 2], starts: vec![1, 2], rots: vec![0, 3], trailers: vec![0, 3], bms: vec![0, 1] },
            SubB { n: 3, two_pos: true, ndang: 1, all_perms: false, idsets: vec![1], starts: vec![1], rots: vec![0], trailers: vec![0], bms: vec![0] },
        ]
    }
}

// ---- family D: nesting depth of a reference position ------------------------------------------------------------------
//
// The property speaks of *every* reference of the trailer and of every reachable object / bookmark target; a reference
// position is a path through arrays, dictionaries and stream dictionaries of any length. Families A and B keep that path
// at <= 4 containers; here its length is the enumerated dimension, well beyond the 32 levels the reader would accept
// (a document built or edited in memory has no such limit), crossed with what the containers are, where the deep value
// lives, what the reference points to, and the id sets / permutations / starts of the other families.

const D_SHAPES: usize = 4;
const D_LOCS: usize = 3;
const D_TARGETS: usize = 5;
fn d_shape_name(shape: usize) -> &'static str { ["arrays", "dictionaries", "dictionary/array alternating", "stream, then array/dictionary alternating"][shape] }
fn d_loc_name(loc: usize) -> &'static str { ["object referenced from the catalog", "direct trailer value", "object that is only a bookmark target"][loc] }
fn d_target_name(t: usize) -> &'static str { ["another object", "the enclosing object (trailer: the catalog)", "dangling: smallest free number", "dangling: existing number, wrong generation", "dangling: beyond the largest number"][t] }

/// `levels` containers around `inner`; container k (1 = outermost) holds the integer k, `rung(k)` if any, and container k+1
/// (the innermost one holds `inner`): `inner` sits inside `levels` containers, rung k inside k
fn nest(shape: usize, levels: usize, inner: Object, rung: &dyn Fn(usize) -> Option<Object>) -> Object {
    let mut o = inner;
    for k in (1..=levels).rev() {
        // 0 array, 1 dictionary, 2 stream
        let kind = match shape { 0 => 0, 1 => 1, 2 => k % 2, _ => if k == 1 { 2 } else { 1 - k % 2 } };
        let r = rung(k);
        o = if kind == 0 {
            let mut v = vec![Object::Integer(k as i64)];
            if let Some(r) = r { v.push(r); }
            v.push(o);
            Object::Array(v)
        } else {
            let mut v: Vec<(&[u8], Object)> = vec![(b"N", Object::Integer(k as i64))];
            if let Some(r) = r { v.push((b"R", r)); }
            v.push((b"K", o));
            if kind == 1 { Object::Dictionary(dict(v)) } else { let mut st = Stream::new(Dictionary::new(), b"q Q".to_vec()); st.dict = dict(v); Object::Stream(st) }
        };
    }
    o
}

/// slots: 0 catalog, 1 holder, 2 target (a string). `loc` 0: the catalog's /Deep is a reference to the holder, which is
/// the nest; 1: the trailer's /Deep is the nest itself (the holder is a small dictionary pointing back to the catalog);
/// 2: the holder is the nest and nothing but a bookmark points to it. `ladder`: every container k also holds a reference
/// (k mod 5 selects among the five targets), so that references sit at every depth 1..levels of one value.
fn deep_template(levels: usize, shape: usize, ladder: bool, loc: usize, target: usize) -> Template {
    let this = if loc == 1 { 0 } else { 1 };
    let pick = |t: usize| -> Object { match t { 0 => s(2), 1 => s(this), k => d(k - 2) } };
    let rung = |k: usize| -> Option<Object> { if ladder { Some(pick(k % D_TARGETS)) } else { None } };
    let value = nest(shape, levels, pick(target), &rung);
    let mut cat: Vec<(&[u8], Object)> = vec![(b"Type", name(b"Catalog"))];
    if loc != 2 { cat.push((b"Deep", s(1))); }
    let mut trailer = dict(vec![(b"Root", s(0))]);
    let holder = if loc == 1 { trailer.set("Deep", value); Object::Dictionary(dict(vec![(b"Back", s(0))])) } else { value };
    let target_obj = Object::String(b"the target".to_vec(), lopdf::StringFormat::Literal);
    Template {
        label: format!("D depth={} containers={} {} in {}; innermost reference -> {}", levels, d_shape_name(shape), if ladder { "+ a reference in every container" } else { "one reference" }, d_loc_name(loc), d_target_name(target)),
        objs: vec![Object::Dictionary(dict(cat)), holder, target_obj],
        trailer,
        bookmark_sets: vec![if loc == 2 { vec![(sid(1), None)] } else { vec![] }],
    }
}

/// the enumerated nesting depths: every depth up to `dense`, then around powers of two (where an implementation limit
/// would plausibly sit)
fn deep_dense(thorough: bool) -> usize { if thorough { 100 } else { 48 } }
fn deep_levels(thorough: bool) -> Vec<usize> {
    let dense = deep_dense(thorough);
    let mut v: Vec<usize> = (0..=dense).collect();
    let around: &[usize] = if thorough { &[64, 128, 256, 512] } else { &[64, 128] };
    for p in around { for l in [p - 1, *p, p + 1] { if l > dense { v.push(l); } } }
    v
}

// ---- blocks (units of parallel work) ---------------------------------------------------------------------------------

enum Block {
    /// page-tree template x id set x permutation; inner: starts x bookmark sets
    A { t: usize, idset: usize, perm: Vec<usize>, extreme: bool },
    /// graph sub-family x edge code; inner: everything else
    B { sub: usize, code: u64 },
    /// extreme start values on small graphs
    E { sub: usize, code: u64 },
    /// deep nesting: depth x container shape x single/ladder x location; inner: targets x id sets x permutations x starts
    D { levels: usize, shape: usize, ladder: bool, loc: usize },
    /// family Z on a graph: sub-family x edge code; inner: everything else, histories included
    ZG { sub: usize, code: u64 },
    /// family Z on a page tree: template x id set x permutation; inner: histories x bookmark sets
    ZA { t: usize, idset: usize, perm: Vec<usize> },
}

// ---- family Z: object number 0, and histories of calls -----------------------------------------------------------------
//
// "Sparse and colliding old/new numbers ... dangling references ... x all start values": the other families draw old
// numbers and dangling numbers from 1 upwards, and every case is one call on a freshly built document. Number 0 is a number
// like any other for the in-memory document (a start value of 0 puts an object there, `0 0 R` is the reference a PDF file
// uses for "nothing"), and the document a call leaves is a document the next call must handle. Family Z therefore crosses
//   * id sets with and without object number 0 in use (see `id_set` 3 and 4),
//   * object number 0 as a dangling reference / bookmark target (`dangling_zero_first`),
//   * start values 0, 1 (= renumber_objects), 2, 7, and
//   * histories: every sequence of 1 or 2 (thorough: also 3) of these start values applied in a row, every call checked
//     against the state the previous one left (so number 0 also occurs as an old number *because* of an earlier call),
// on small graphs and small page trees. Sub-family tags are derived from the state a call starts from (`tag_of`).

const Z_STARTS: [u32; 4] = [0, 1, 2, 7];
fn z_idsets(thorough: bool) -> Vec<usize> { if thorough { vec![0, 1, 2, 3, 4] } else { vec![0, 1, 3, 4] } }
fn z_histories(thorough: bool) -> Vec<Vec<u32>> {
    let mut v: Vec<Vec<u32>> = vec![];
    for a in Z_STARTS { v.push(vec![a]); }
    for a in Z_STARTS { for b in Z_STARTS { v.push(vec![a, b]); } }
    if thorough { for a in Z_STARTS { for b in Z_STARTS { for c in Z_STARTS { v.push(vec![a, b, c]); } } } }
    v
}
fn z_max_tree_objs(thorough: bool) -> usize { if thorough { 5 } else { 4 } }
fn z_subs(thorough: bool) -> Vec<SubB> {
    let sub = |n: usize, two_pos: bool| SubB { n, two_pos, ndang: 2, all_perms: true, idsets: z_idsets(thorough), starts: vec![], rots: vec![0], trailers: vec![0, 1, 2, 3], bms: vec![0, 1] };
    let mut v = vec![sub(1, true), sub(2, false)];
    if thorough { v.push(sub(2, true)); v.push(sub(3, false)); }
    v
}
/// the longest history applied to graph sub-family `si` of `z_subs` (the two large thorough ones stop at two calls)
fn z_sub_hist_len(si: usize) -> usize { if si < 2 { 3 } else { 2 } }

fn with_history(mut c: Case, h: &[u32], ids: &[ObjectId]) -> Case {
    c.start = h[0];
    c.then = h[1..].to_vec();
    c.tag = tag_of(ids, h[0]);
    c
}

fn extreme_starts(n: usize) -> Vec<(u32, &'static str)> {
    let n = n as u32;
    let mut v = vec![(0u32, "[start=0]")];
    if n == 0 {
        v.push((5, ""));
        v.push((u32::MAX, "[start-near-u32-max]"));
    } else {
        v.push((u32::MAX - n, "[start-near-u32-max]"));      // last number u32::MAX - 1
        v.push((u32::MAX - n + 1, "[start-near-u32-max]"));  // last number u32::MAX: still representable
    }
    v
}

/// diagnostic only: with C10_DUMP=<file> every failing (obligations, input) is appended as a JSON line (the report keeps
/// only 3 per obligation). With C10_DUMP_MODE=residual only those failures are written that are NOT explained by one of
/// the known defect classes (see `explained`), which is how "no further failure class" was established on the full family.
fn dump_failures(c: &Case, fails: &[(String, String)], input: &Value) {
    use std::io::Write;
    static SINK: std::sync::OnceLock<Option<(std::sync::Mutex<std::fs::File>, bool)>> = std::sync::OnceLock::new();
    let sink = SINK.get_or_init(|| {
        let residual = std::env::var("C10_DUMP_MODE").map(|m| m == "residual").unwrap_or(false);
        std::env::var("C10_DUMP").ok().and_then(|p| std::fs::File::create(p).ok()).map(|f| (std::sync::Mutex::new(f), residual))
    });
    if let Some((m, residual)) = sink {
        let keep: Vec<&(String, String)> = fails.iter().filter(|f| !*residual || !explained(c, &f.0)).collect();
        if keep.is_empty() { return; }
        if let Ok(mut f) = m.lock() {
            let _ = writeln!(f, "{}", json!({"obligations": keep.iter().map(|x| x.0.clone()).collect::<Vec<_>>(), "details": keep.iter().map(|x| x.1.clone()).collect::<Vec<_>>(), "input": input}));
        }
    }
}

fn collect_refs(o: &Object, out: &mut Vec<ObjectId>) {
    match o {
        Object::Reference(id) => out.push(*id),
        Object::Array(a) => a.iter().for_each(|x| collect_refs(x, out)),
        Object::Dictionary(d) => d.iter().for_each(|(_, x)| collect_refs(x, out)),
        Object::Stream(s) => s.dict.iter().for_each(|(_, x)| collect_refs(x, out)),
        _ => {}
    }
}

/// is a failure of this obligation on this case accounted for by a known defect class?
/// (1) dangling reference / kid / bookmark target becomes live; (2) bookmark targets renamed one after the other;
/// (3) a page reached twice by the page iterator (shared kid, cyclic kids) loses an object; (4) the tagged sub-families.
fn explained(c: &Case, obligation: &str) -> bool {
    if !c.tag.is_empty() { return true; }
    let base = obligation.split('[').next().unwrap_or(obligation);
    let ids: Vec<ObjectId> = c.objects.iter().map(|(id, _)| *id).collect();
    let mut refs = vec![];
    for (_, o) in &c.objects { collect_refs(o, &mut refs); }
    for (_, v) in c.trailer.iter() { collect_refs(v, &mut refs); }
    let dangling = refs.iter().any(|r| !ids.contains(r)) || c.bookmarks.iter().any(|(p, _)| !ids.contains(p));
    let twice = c.label.starts_with("T7") || c.label.starts_with("T9");
    match base {
        "dangling-stays-dangling" | "bookmark-dangling" => dangling,
        "page-order" => dangling && c.label.starts_with("T8"),
        "bookmark-target" | "bookmark-target-content" => !c.bookmarks.is_empty(),
        "object-count" | "renaming-one-to-one" => twice,
        _ => false,
    }
}

/// The shared report keeps a limited number of failures overall. Half of this family fails on the current library (a few
/// defect classes hit by very many inputs), so this module keeps per obligation: 2 examples with start 1
/// (`renumber_objects`) and 2 with another start in the main family, 1 in each tagged sub-family. First found = smallest.
fn fail_capped(rep: &mut Report, f: Failure) {
    let tagged = f.obligation.contains('[');
    let start1 = f.input["start"].as_u64() == Some(1);
    let same = rep.failures.iter().filter(|g| g.obligation == f.obligation && (tagged || (g.input["start"].as_u64() == Some(1)) == start1)).count();
    if same < if tagged { 1 } else { 2 } { rep.fail(&f.obligation, f.detail, f.input, f.observed); }
}

fn merge_capped(mut x: Report, y: Report) -> Report {
    x.evaluations += y.evaluations;
    x.nontrivial += y.nontrivial;
    for f in y.failures { fail_capped(&mut x, f); }
    for smp in y.samples { x.sample(smp); }
    x
}

fn eval(c: &Case, rep: &mut Report) {
    let n = c.objects.len() as u64;
    let mut nums: Vec<u64> = c.objects.iter().map(|(id, _)| id.0 as u64).collect();
    nums.sort_unstable();
    let nontrivial = n > 0 && nums != (0..n).map(|i| c.start as u64 + i).collect::<Vec<_>>();
    rep.case(nontrivial);
    let fails = check_case(c);
    if !fails.is_empty() {
        let input = case_json(c);
        dump_failures(c, &fails, &input);
        for (ob, d) in fails { fail_capped(rep, Failure { obligation: ob, detail: d.clone(), input: input.clone(), observed: d }); }
    }
}

fn run_block(b: &Block, templates: &[Template], subs: &[SubB], ext_subs: &[SubB], starts_a: &[u32], zsubs: &[SubB], zhist: &[Vec<u32>]) -> Report {
    let mut rep = Report::new("", false);
    match b {
        Block::ZA { t, idset, perm } => {
            let tp = &templates[*t];
            let base = id_set(*idset, tp.objs.len());
            let dang = dangling_zero_first(&base);
            let ids: Vec<ObjectId> = perm.iter().map(|p| base[*p]).collect();
            for h in zhist {
                for bm in 0..tp.bookmark_sets.len() {
                    let c = with_history(instantiate(tp, bm, &ids, &dang, 1, ""), h, &ids);
                    eval(&c, &mut rep);
                }
            }
        }
        Block::ZG { sub, code } => {
            let sb = &zsubs[*sub];
            for rot in &sb.rots {
                for tr in &sb.trailers {
                    let tp = graph_template(sb, *code, *rot, *tr);
                    for idset in &sb.idsets {
                        let base = id_set(*idset, sb.n);
                        let dang = dangling_zero_first(&base);
                        for perm in sb.perms() {
                            let ids: Vec<ObjectId> = perm.iter().map(|p| base[*p]).collect();
                            for h in zhist.iter().filter(|h| h.len() <= z_sub_hist_len(*sub)) {
                                for bm in &sb.bms {
                                    let c = with_history(instantiate(&tp, *bm, &ids, &dang, 1, ""), h, &ids);
                                    eval(&c, &mut rep);
                                }
                            }
                        }
                    }
                }
            }
        }
        Block::A { t, idset, perm, extreme } => {
            let tp = &templates[*t];
            let n = tp.objs.len();
            let base = id_set(*idset, n);
            let dang = dangling_for(&base);
            let ids: Vec<ObjectId> = perm.iter().map(|p| base[*p]).collect();
            let tag0 = id_set_tag(*idset, n);
            let starts: Vec<(u32, String)> = if *extreme { extreme_starts(n).into_iter().map(|(s, t)| (s, format!("{}{}", tag0, t))).collect() } else { starts_a.iter().map(|s| (*s, tag0.to_string())).collect() };
            for (start, tag) in &starts {
                for bm in 0..tp.bookmark_sets.len() {
                    let c = instantiate(tp, bm, &ids, &dang, *start, tag);
                    eval(&c, &mut rep);
                    // samples: the reversed id assignment on the sparse id set, one bookmark per page, start 2
                    if *idset == 1 && bm == 1 && *start == 2 && perm.iter().rev().copied().eq(0..n) { rep.sample(format!("{}: {}", tp.label, describe(&c))); }
                }
            }
        }
        Block::D { levels, shape, ladder, loc } => {
            for target in 0..D_TARGETS {
                let tp = deep_template(*levels, *shape, *ladder, *loc, target);
                for idset in 0..3 {
                    let base = id_set(idset, 3);
                    let dang = dangling_for(&base);
                    let tag = id_set_tag(idset, 3);
                    for perm in permutations(3) {
                        let ids: Vec<ObjectId> = perm.iter().map(|p| base[*p]).collect();
                        for start in starts_a {
                            let c = instantiate(&tp, 0, &ids, &dang, *start, tag);
                            eval(&c, &mut rep);
                            // harness self-check, once per block and target: the recorded form of a deep case, written
                            // as text and parsed again, gives the case back (so that its failures can be replayed)
                            if idset == 1 && *start == starts_a[0] && perm[0] == 0 && perm[1] == 1 {
                                let back = serde_json::from_str::<Value>(&case_json(&c).to_string()).map(|v| case_from_json(&v));
                                let same = matches!(&back, Ok(b) if b.objects == c.objects && b.trailer == c.trailer && b.bookmarks == c.bookmarks && b.start == c.start && b.tag == c.tag);
                                if !same { rep.fail("harness-replay-form", format!("the recorded form of this case does not parse back to it ({})", back.err().map(|e| e.to_string()).unwrap_or_else(|| "different case".into())), json!({"label": c.label}), String::new()); }
                            }
                        }
                    }
                }
            }
        }
        Block::B { sub, code } | Block::E { sub, code } => {
            let extreme = matches!(b, Block::E { .. });
            let sb = if extreme { &ext_subs[*sub] } else { &subs[*sub] };
            let n = sb.n;
            for rot in &sb.rots {
                for tr in &sb.trailers {
                    let tp = graph_template(sb, *code, *rot, *tr);
                    for idset in &sb.idsets {
                        let base = id_set(*idset, n);
                        let dang = dangling_for(&base);
                        let tag0 = id_set_tag(*idset, n);
                        for perm in sb.perms() {
                            let ids: Vec<ObjectId> = perm.iter().map(|p| base[*p]).collect();
                            let starts: Vec<(u32, String)> = if extreme { extreme_starts(n).into_iter().map(|(s, t)| (s, format!("{}{}", tag0, t))).collect() } else { sb.starts.iter().map(|s| (*s, tag0.to_string())).collect() };
                            for (start, tag) in &starts {
                                for bm in &sb.bms {
                                    let c = instantiate(&tp, *bm, &ids, &dang, *start, tag);
                                    eval(&c, &mut rep);
                                }
                            }
                        }
                    }
                }
            }
        }
    }
    rep
}

pub fn run(thorough: bool) -> Report {
    let templates = page_templates(thorough);
    let subs = sub_families(thorough);
    let starts_a: Vec<u32> = if thorough { vec![1, 2, 3, 7, 100] } else { vec![1, 2, 7] };
    // extreme starts: graphs of 0..2 objects (one reference position), every page-tree template of at most 4 objects
    let ext_subs: Vec<SubB> = (0..=2).map(|n| SubB { n, two_pos: n == 1, ndang: 1, all_perms: true, idsets: vec![0, 1], starts: vec![], rots: vec![0], trailers: vec![0, 3], bms: vec![0, 1] }).collect();

    // order: main family first (graphs, then page trees; small before large), tagged sub-families last, so that the
    // report's failure cap keeps the main-family findings
    let mut blocks: Vec<Block> = vec![];
    for (si, sb) in subs.iter().enumerate() { for code in 0..sb.codes() { blocks.push(Block::B { sub: si, code }); } }
    for idset in 0..2 {
        for (ti, tp) in templates.iter().enumerate() { for perm in permutations(tp.objs.len()) { blocks.push(Block::A { t: ti, idset, perm, extreme: false }); } }
    }
    // deep nesting, shallow before deep (depth 0 is one bare reference: no containers to vary)
    let levels = deep_levels(thorough);
    let dense = deep_dense(thorough);
    for l in &levels {
        for loc in 0..D_LOCS { for shape in 0..D_SHAPES { for ladder in [false, true] {
            if *l == 0 && (shape > 0 || ladder) { continue; }
            blocks.push(Block::D { levels: *l, shape, ladder, loc });
        } } }
    }
    for (ti, tp) in templates.iter().enumerate() { for perm in permutations(tp.objs.len()) { blocks.push(Block::A { t: ti, idset: 2, perm, extreme: false }); } }
    for (si, sb) in ext_subs.iter().enumerate() { for code in 0..sb.codes() { blocks.push(Block::E { sub: si, code }); } }
    for (ti, tp) in templates.iter().enumerate() {
        if tp.objs.len() <= 4 { for idset in 0..2 { for perm in permutations(tp.objs.len()) { blocks.push(Block::A { t: ti, idset, perm, extreme: true }); } } }
    }

    // family Z last of all: most of it is tagged
    let zsubs = z_subs(thorough);
    let zhist = z_histories(thorough);
    for (si, sb) in zsubs.iter().enumerate() { for code in 0..sb.codes() { blocks.push(Block::ZG { sub: si, code }); } }
    for idset in z_idsets(thorough) {
        for (ti, tp) in templates.iter().enumerate() {
            if tp.objs.len() <= z_max_tree_objs(thorough) { for perm in permutations(tp.objs.len()) { blocks.push(Block::ZA { t: ti, idset, perm }); } }
        }
    }

    // own pool: the library's walk, the oracle's walk, clone and drop all recurse once per container, so give the workers
    // a stack that is far larger than a nest of a few hundred containers needs
    let pool = rayon::ThreadPoolBuilder::new().stack_size(BIG_STACK).build().expect("thread pool");
    let total = quiet(|| {
        pool.install(|| {
            blocks
                .par_iter()
                .map(|b| run_block(b, &templates, &subs, &ext_subs, &starts_a, &zsubs, &zhist))
                .reduce(|| Report::new("", false), merge_capped)
        })
    });

    let mut bound = String::new();
    bound.push_str("Every case = a concrete document + start value; renumber_objects_with(start) (renumber_objects for start 1) run on the real crate and checked against an independent renaming-discovery oracle. ");
    bound.push_str(&format!("Family A (page trees): {} templates [", templates.len()));
    bound.push_str(&templates.iter().map(|t| format!("{} ({} objs)", t.label, t.objs.len())).collect::<Vec<_>>().join("; "));
    bound.push_str(&format!("] x ALL slot->id permutations x 3 id sets (dense 1..n gen 0 | sparse 2,3,5,8,9,12,13 with gens 0,1,0,0,2,0,1 | (1,0),(3,0),(3,1),(4,0),(6,0),(6,1),(7,0): two objects per number, tagged [same-number-gens]) x starts {:?} x bookmark sets {{none, one per page in page order + one dangling, nested chain in reverse page order, (0,0)-parent with a child per page + second bookmark on page 1}}. ", starts_a));
    bound.push_str("Family B (general graphs; object i is container kind (i+rotation) mod 5 of {dict, array with nested array, stream with nested dict, dict/array/dict nesting, bare reference}; dangling ids = smallest free number, an existing number with a wrong generation; trailer shapes 0 Root, 1 Root+Info->last, 2 Root+Info->dangling, 3 Root+direct array with ref and nested dangling ref; bookmark sets 0 none, 1 one per object + dangling child): ");
    bound.push_str(&subs.iter().map(|s| s.describe()).collect::<Vec<_>>().join(" | "));
    bound.push_str(". Extreme starts (tagged): start 0, u32::MAX-n, u32::MAX-n+1 (and 5, u32::MAX for the empty document) on all graphs of 0..2 objects (1 dangling id, trailers 0 and 3, id sets 0,1, both bookmark sets) and all page-tree templates of <= 4 objects (id sets 0,1, all permutations, all bookmark sets). ");
    bound.push_str(&format!("Family D (nesting depth of a reference position; 3 objects: catalog, holder, target string): a reference enclosed in L containers of one value, L in {{0..={}}} + {:?} (every depth far past the reader's limit of 32, then around powers of two), x container shapes {{{}}} (container k holds the integer k and container k+1) x {{only the innermost reference | additionally a reference in every container k, to target (k mod 5)}} x where the value lives {{{}}} x innermost reference -> {{{}}} x ALL 6 slot->id permutations x the 3 id sets of family A (n=3) x starts {:?}; for L=0 the value is the bare reference (one shape). ",
        dense, levels.iter().filter(|l| **l > dense).collect::<Vec<_>>(),
        (0..D_SHAPES).map(d_shape_name).collect::<Vec<_>>().join(" | "), (0..D_LOCS).map(d_loc_name).collect::<Vec<_>>().join(" | "), (0..D_TARGETS).map(d_target_name).collect::<Vec<_>>().join(" | "), starts_a));
    bound.push_str(&format!("Family Z (object number 0 as an old, a new and a dangling number; histories of calls): id sets {:?} (0, 1, 2 as in family A; 3 = dense from 0: (0,0),(1,0),..,(n-1,0), what a renumbering from 0 leaves; 4 = sparse with number 0 at generation 1: (0,1),(2,0),(3,1),(5,0),(8,2)) x ALL slot->id permutations x dangling ids {{first: object number 0 at the smallest absent generation, i.e. (0,0) unless it is an object, then (0,1); second: the smallest free number >= 1}} x histories = ALL sequences of {} start values from {:?} applied one after the other ({} histories; every call is checked against the document the previous call left, failures of call k >= 2 carry [call-k] and the tags of the state that call started from), on (i) graphs [{}] and (ii) every page-tree template of family A with <= {} objects x all its bookmark sets (these include the conventional (0,0) bookmark target, which on id set 3 is a live object). Cases with object number 0 in use are tagged [object-number-0], with start 0 [start=0]; the others (id sets 0,1, starts >= 1, one call) are untagged. The empty document is left out of Z (no ids or references to vary; its start 0 is among the extreme starts). ",
        z_idsets(thorough), if thorough { "1, 2 or 3" } else { "1 or 2" }, Z_STARTS, zhist.len(), zsubs.iter().enumerate().map(|(i, s)| format!("{}, histories of at most {} calls", s.describe(), z_sub_hist_len(i).min(if thorough { 3 } else { 2 }))).collect::<Vec<_>>().join(" | "), z_max_tree_objs(thorough)));
    bound.push_str("Families A, B, Z and the extreme starts have at most 7 objects and nesting depth <= 4; family D nests up to the stated depth and runs (like replay) on threads with a 256 MiB stack; bookmark trees are acyclic, so no case can hang or overflow the stack; every library call and the oracle run under catch_unwind. Values nested deeper than 8 containers are recorded in failing inputs in a flat preorder form (keys obj_flat / trailer_flat).");
    let rep = Report::new(&bound, true);
    let mut rep = merge_capped(rep, total);
    rep.obligations = 14;
    rep
}

pub fn replay(v: &Value) -> Result<(), String> {
    // on a thread with the same large stack as the run: the recorded value may be hundreds of containers deep
    let v = v.clone();
    let fails = quiet(|| {
        std::thread::Builder::new().stack_size(BIG_STACK).spawn(move || { let c = case_from_json(&v); check_case(&c) }).expect("spawn").join()
            .unwrap_or_else(|_| vec![("oracle-no-panic".to_string(), "replay thread panicked".to_string())])
    });
    if fails.is_empty() { Ok(()) } else { Err(fails.iter().map(|f| format!("{}: {}", f.0, f.1)).collect::<Vec<_>>().join(" || ")) }
}
