//! C15: ToUnicode CMaps decode text as the CMap defines (bounded: CMaps generated from every sequence of <= 3
//! definitions over a pool, every sectioning, two white-space styles; oracle = "last definition covering the code wins").
//! A definition carries its own code length: besides the CMaps whose codes all have one length, the family holds the
//! CMaps that map codes of two or three different lengths (prefix-free code spaces, so a byte string has one reading),
//! and the code strings are every sequence of <= 3 mapped codes (any order, repetition, any succession of lengths),
//! not only the ascending enumeration of the mapped codes.
//! The contents of an array target are a dimension of their own: besides the two fixed arrays of the pool, the family holds
//! every array of 1..4 entries over an alphabet of six entry shapes stated relative to the entry's offset i in the range
//! (see `arr_entry`): the entries may or may not look like what an incrementing range would have produced, entry by entry,
//! so the family holds the arrays on both sides of (and every mixture across) the border between "array target" and
//! "incrementing target" that the property keeps apart; alone and overlapped by / overlapping one other definition.
//! The LAYOUT OF THE CODE SPACE is a dimension of its own (d): a well-formed CMap may declare the code space of one code
//! length as several ranges, in any order, in one codespacerange section or in several. The family holds every way of cutting
//! the code space of a length into 2 or 3 ranges at a boundary next to a mapped code, in every order of listing and every
//! sectioning; the definitions lie in the first, a middle or the last range or straddle a cut. Every mapped code lies in
//! the code space, so the code space never changes what a code maps to: the oracle does not look at it.
//! The UNITS OF THE TARGETS are a dimension of their own (e): every target of 1..3 "letters" over an alphabet of UTF-16 units
//! at the ends of the unit range, of the byte boundary and of the surrogate block, the replacement character and the units
//! that spell an encoding signature (byte order mark) when a text starts with them; as a bfchar target, a range target and an
//! array entry. A target is text whatever its units are; a code is checked alone and behind / before another code, and a
//! deviation that only shows when the text STARTS with a signature is reported under an obligation of its own.
#![allow(dead_code)]
use crate::common::*;
use crate::gen::*;
use lopdf::{Dictionary, Document, Object, Stream};
use rayon::prelude::*;
use serde_json::{json, Value};

#[derive(Clone, Debug)]
pub enum Def {
    Char(u32, Vec<u16>),
    RangeStr(u32, u32, Vec<u16>),
    RangeArr(u32, u32, Vec<Vec<u16>>),
}

fn base(code_len: usize) -> u32 { match code_len { 1 => 0x10, 2 => 0x0110, 3 => 0x81_40A0, _ => 0x8EA1_A1A0 } }
fn code_bytes(code: u32, code_len: usize) -> Vec<u8> { code.to_be_bytes()[4 - code_len..].to_vec() }

/// bases of the CMaps that mix code lengths: the first bytes <10>..<15>, <01>, <81>, <8E> tell the lengths apart (prefix-free
/// code spaces), and the tail of every longer code is itself a shorter mapped code (<81 01 10> ends in <01 10> ends in <10>),
/// so a decoder that loses the code boundaries produces other mapped characters rather than nothing
fn mbase(code_len: usize) -> u32 { match code_len { 1 => 0x10, 2 => 0x0110, 3 => 0x81_0110, _ => 0x8E81_0110 } }

fn pool(code_len: usize) -> Vec<Def> { pool_at(base(code_len)) }

fn pool_at(b: u32) -> Vec<Def> {
    vec![
        Def::Char(b + 2, vec![0x0041]),
        Def::Char(b + 3, vec![0xD83D, 0xDE00]),                       // surrogate pair -> one character
        Def::Char(b + 1, vec![0x0066, 0x0069]),                       // ligature: two units
        Def::RangeStr(b, b + 5, vec![0x0061]),                       // incrementing single unit
        Def::RangeStr(b + 1, b + 4, vec![0x0391]),
        Def::RangeStr(b + 2, b + 3, vec![0x0058, 0x0030]),            // multi-unit target: last unit increments
        Def::RangeStr(b, b + 2, vec![0xD835, 0xDC00]),                // astral range: low surrogate increments
        Def::RangeArr(b, b + 5, (0..6).map(|i| vec![0x0100 + 7 * i]).collect()),
        Def::RangeArr(b + 3, b + 5, vec![vec![0x004C, 0x004C], vec![0x2603], vec![0xD83D, 0xDE01]]),
        Def::RangeStr(b + 4, b + 4, vec![0x005A]),
        Def::RangeStr(b + 3, b + 5, vec![0x0061 + 3]),               // equal to a slice of the first range (may coalesce)
        Def::Char(b + 5, vec![0x00E9]),
    ]
}

/// the number of entry shapes of `arr_entry`
const SHAPES: usize = 6;
/// entry `i` of an array target, by shape, relative to the unit `u` the array starts from. The shapes say how the entry
/// relates to the entry an INCREMENTING range starting at <u> would define for the same offset (u + i):
///  0: <u+i>            that very unit, alone
///  1: <u+i 0301>       that unit followed by a combining mark (several units, the FIRST continues the run)
///  2: <0066 u+i>       several units, the LAST continues the run (what an incrementing multi-unit target would give)
///  3: <u>              the start unit again (no increment)
///  4: <2603>           an unrelated unit
///  5: <D835 DC00+i>    a surrogate pair whose low surrogate continues a run
fn arr_entry(shape: usize, u: u16, i: usize) -> Vec<u16> {
    let r = u.wrapping_add(i as u16);
    match shape { 0 => vec![r], 1 => vec![r, 0x0301], 2 => vec![0x0066, r], 3 => vec![u], 4 => vec![0x2603], _ => vec![0xD835, 0xDC00 + i as u16] }
}

/// every array of 1..=n_max entries over the SHAPES entry shapes (shortest first; SHAPES + SHAPES^2 + .. arrays)
fn arrays(n_max: usize, u: u16) -> Vec<Vec<Vec<u16>>> {
    let mut out = vec![];
    for n in 1..=n_max {
        let mut idx = vec![0usize; n];
        loop {
            out.push(idx.iter().enumerate().map(|(i, &s)| arr_entry(s, u, i)).collect());
            let (mut p, mut wrapped) = (n, true);
            while p > 0 { p -= 1; idx[p] += 1; if idx[p] < SHAPES { wrapped = false; break; } idx[p] = 0; }
            if wrapped { break; }
        }
    }
    out
}

/// the array-target range that holds `arr`: one entry per code, codes b+1 .. b+n (inside the codes b .. b+5 of the pool)
fn arr_def(b: u32, arr: &[Vec<u16>]) -> Def { Def::RangeArr(b + 1, b + arr.len() as u32, arr.to_vec()) }

/// the definitions of that code length that cover the code (indices, in definition order): the last one is the one that counts
fn covering(defs: &[Def], lens: &[usize], code_len: usize, code: u32) -> Vec<usize> {
    defs.iter().zip(lens).enumerate().filter(|(_, (d, l))| **l == code_len && match d {
        Def::Char(c, _) => *c == code,
        Def::RangeStr(lo, hi, _) => *lo <= code && code <= *hi,
        Def::RangeArr(lo, hi, a) => *lo <= code && code <= *hi && ((code - lo) as usize) < a.len(),
    }).map(|(k, _)| k).collect()
}

/// (obligation, explanation) for a code that decodes to something else than the reference: which clause of the property
/// gives the expected text. A code covered by one definition only is charged to the clause of that definition's kind
/// (bfchar / incrementing range / array target), a code covered by several to "the last definition wins".
fn clause(defs: &[Def], lens: &[usize], code_len: usize, code: u32) -> (&'static str, String) {
    let cov = covering(defs, lens, code_len, code);
    let Some(&k) = cov.last() else { return ("code-maps-to-last-definition", "no definition covers the code".into()) };
    let what = match &defs[k] {
        Def::Char(..) => format!("definition #{} (bfchar)", k + 1),
        Def::RangeStr(lo, _, u) => format!("definition #{} (incrementing range: offset {} added to the last unit of <{}>)", k + 1, code - lo, hexu(u)),
        Def::RangeArr(lo, _, a) => format!("definition #{} (array target of {} entries: the entry at offset {} is <{}>)", k + 1, a.len(), code - lo, hexu(&a[(code - lo) as usize])),
    };
    if cov.len() > 1 { return ("code-maps-to-last-definition", format!("covered by definitions {}, the last one counts: {}", cov.iter().map(|k| format!("#{}", k + 1)).collect::<Vec<_>>().join(", "), what)); }
    let o = match &defs[k] { Def::Char(..) => "bfchar-maps-to-its-target", Def::RangeStr(..) => "range-adds-offset-to-last-unit", Def::RangeArr(..) => "array-target-indexed-by-offset" };
    (o, format!("covered by {} only", what))
}

/// reference semantics: the last definition of that code length that covers the code
fn lookup(defs: &[Def], lens: &[usize], code_len: usize, code: u32) -> Option<Vec<u16>> {
    let mut r = None;
    for (d, l) in defs.iter().zip(lens) {
        if *l != code_len { continue; }
        match d {
            Def::Char(c, u) if *c == code => r = Some(u.clone()),
            Def::RangeStr(lo, hi, u) if *lo <= code && code <= *hi => { let mut v = u.clone(); let l = v.len() - 1; v[l] = v[l].wrapping_add((code - lo) as u16); r = Some(v); }
            Def::RangeArr(lo, hi, a) if *lo <= code && code <= *hi => { if let Some(u) = a.get((code - lo) as usize) { r = Some(u.clone()); } }
            _ => {}
        }
    }
    r
}

fn hexu(u: &[u16]) -> String { u.iter().map(|x| format!("{:04X}", x)).collect() }
fn hexc(c: u32, len: usize) -> String { format!("{:0w$X}", c, w = 2 * len) }

/// code space ranges: one code length -> the whole space of that length; several lengths -> one range per length around
/// `mbase` (only the last byte varies, the first bytes differ between the lengths: prefix free)
fn codespace(lens: &[usize]) -> Vec<(u32, u32, usize)> {
    let mut ls: Vec<usize> = lens.to_vec(); ls.sort(); ls.dedup();
    if ls.len() == 1 { return vec![(0, (0xFFFF_FFFFu64 >> (32 - 8 * ls[0])) as u32, ls[0])]; }
    ls.into_iter().map(|l| (mbase(l) & !0x0F, mbase(l) | 0x0F, l)).collect()
}

/// one code space range as it is written: first code, last code, code length, and whether it opens a new
/// begincodespacerange section (the first range always does). The ranges are written in the order of the list.
pub type Cs = Vec<(u32, u32, usize, bool)>;

/// the code space of the families (a)-(c), (e): the ranges of `codespace` in one section
fn default_cs(lens: &[usize]) -> Cs { codespace(lens).into_iter().enumerate().map(|(i, (lo, hi, l))| (lo, hi, l, i == 0)).collect() }

/// the orders in which k <= 3 things are listed (every permutation)
fn perms(k: usize) -> Vec<Vec<usize>> {
    match k { 1 => vec![vec![0]], 2 => vec![vec![0, 1], vec![1, 0]], _ => vec![vec![0, 1, 2], vec![0, 2, 1], vec![1, 0, 2], vec![1, 2, 0], vec![2, 0, 1], vec![2, 1, 0]] }
}

/// `row` = (first, last) code of a code space of one length whose mapped codes are b ..= b+5. The cuts are the code values
/// b ..= b+6: a cut c ends one range at c-1 and starts the next at c (cut b: no mapped code in the first range, cut b+6:
/// none in the last one). Every choice of k-1 cuts (ascending), as the list of the k ranges in ascending order.
fn cut_rows(row: (u32, u32), b: u32, k: usize) -> Vec<Vec<(u32, u32)>> {
    let cuts: Vec<u32> = (b..=b + 6).collect();
    let mut out = vec![];
    if k == 2 { for &c in &cuts { out.push(vec![(row.0, c - 1), (c, row.1)]); } }
    if k == 3 { for (i, &c1) in cuts.iter().enumerate() { for &c2 in &cuts[i + 1..] { out.push(vec![(row.0, c1 - 1), (c1, c2 - 1), (c2, row.1)]); } } }
    out
}

/// every layout of the code space of ONE code length, cut into k ranges: every choice of cuts x every order of listing x
/// every sectioning (bit j of the mask: the range listed at place j+1 opens a new section)
fn layouts_one(b: u32, len: usize, k: usize) -> Vec<Cs> {
    let row = (b & !0xFF, b | 0xFF);
    let mut out = vec![];
    for pieces in cut_rows(row, b, k) { for order in perms(k) { for mask in 0..(1u32 << (k - 1)) {
        out.push(order.iter().enumerate().map(|(j, &p)| (pieces[p].0, pieces[p].1, len, j == 0 || (mask >> (j - 1)) & 1 == 1)).collect());
    } } }
    out
}

/// layouts of a code space of SEVERAL code lengths (the prefix-free ranges of `codespace`), the range of every length cut
/// in two at the same place relative to its mapped codes. Orders of listing: 0 = by length, each length's two
/// ranges ascending; 1 = the reverse of that; 2 = the first ranges of all lengths, then the second ranges (the two ranges
/// of a length are not neighbours). Sections: one for all ranges, or one per range. (6 cuts: behind the first .. behind
/// the last mapped code; these code spaces start at their first mapped code, so there is no cut in front of it.)
fn layouts_mixed(lens: &[usize]) -> Vec<Cs> {
    let rows = codespace(lens);
    let mut out = vec![];
    for cut in 1..=6u32 { for order in 0..3 { for per_range in [false, true] {
        let halves: Vec<[(u32, u32, usize); 2]> = rows.iter().map(|&(lo, hi, l)| { let c = mbase(l) + cut; [(lo, c - 1, l), (c, hi, l)] }).collect();
        let mut list: Vec<(u32, u32, usize)> = match order {
            2 => halves.iter().map(|h| h[0]).chain(halves.iter().map(|h| h[1])).collect(),
            _ => halves.iter().flat_map(|h| h.iter().copied()).collect(),
        };
        if order == 1 { list.reverse(); }
        out.push(list.into_iter().enumerate().map(|(j, (lo, hi, l))| (lo, hi, l, j == 0 || per_range)).collect());
    } } }
    out
}

fn show_cs(cs: &Cs) -> String {
    cs.iter().map(|(lo, hi, l, new)| format!("{}<{}> <{}>", if *new { "| " } else { "" }, hexc(*lo, *l), hexc(*hi, *l))).collect::<Vec<_>>().join(" ")
}

/// render with `sectioning`: bit k set = definition k+1 starts a new section even if it has the same kind as definition k
/// (a section may hold codes of different lengths)
/// `cs`: the code space as it is written (ranges in that order, `true` = the range opens a new codespacerange section)
fn render(defs: &[Def], lens: &[usize], cs: &Cs, sectioning: u32, style: usize) -> Vec<u8> {
    let nl = if style == 0 { "\n" } else { "\r\n" };
    let sp = if style == 0 { " " } else { "  " };
    let mut s = String::new();
    s.push_str(&format!("/CIDInit /ProcSet findresource begin{nl}12 dict begin{nl}begincmap{nl}/CIDSystemInfo << /Registry (Adobe) /Ordering (UCS) /Supplement 0 >> def{nl}/CMapName /Adobe-Identity-UCS def{nl}/CMapType 2 def{nl}"));
    let mut r = 0;
    while r < cs.len() {
        let mut e = r + 1;
        while e < cs.len() && !cs[e].3 { e += 1; }
        s.push_str(&format!("{} begincodespacerange{nl}", e - r));
        for (lo, hi, l, _) in &cs[r..e] { s.push_str(&format!("<{}>{sp}<{}>{nl}", hexc(*lo, *l), hexc(*hi, *l))); }
        s.push_str(&format!("endcodespacerange{nl}"));
        r = e;
    }
    let kind = |d: &Def| matches!(d, Def::Char(..));
    let mut i = 0;
    while i < defs.len() {
        let mut j = i;
        while j + 1 < defs.len() && kind(&defs[j + 1]) == kind(&defs[i]) && (sectioning >> j) & 1 == 0 { j += 1; }
        let n = j - i + 1;
        if kind(&defs[i]) { s.push_str(&format!("{} beginbfchar{nl}", n)); } else { s.push_str(&format!("{} beginbfrange{nl}", n)); }
        for (d, code_len) in defs[i..=j].iter().zip(&lens[i..=j]) {
            let code_len = *code_len;
            match d {
                Def::Char(c, u) => s.push_str(&format!("<{}>{sp}<{}>{nl}", hexc(*c, code_len), hexu(u))),
                Def::RangeStr(lo, hi, u) => s.push_str(&format!("<{}>{sp}<{}>{sp}<{}>{nl}", hexc(*lo, code_len), hexc(*hi, code_len), hexu(u))),
                Def::RangeArr(lo, hi, a) => { s.push_str(&format!("<{}>{sp}<{}>{sp}[", hexc(*lo, code_len), hexc(*hi, code_len))); for u in a { s.push_str(&format!("<{}>{sp}", hexu(u))); } s.push_str(&format!("]{nl}")); }
            }
        }
        s.push_str(if kind(&defs[i]) { "endbfchar" } else { "endbfrange" }); s.push_str(nl);
        i = j + 1;
    }
    s.push_str(&format!("endcmap{nl}CMapName currentdict /CMap defineresource pop{nl}end{nl}end"));
    s.into_bytes()
}

/// one mapped code: its length, value, bytes, the text the CMap defines for it, and whether that text, standing first in
/// a string, starts with an encoding signature (see `signature`)
struct Mapped { len: usize, code: u32, bytes: Vec<u8>, want: String, sig: bool }

/// does a text with these UTF-16 units start with an encoding signature: the bytes of its UTF-16BE form start with FE FF
/// (the byte order mark), FF FE (the byte order mark of the other byte order) or EF BB BF (the UTF-8 one). In a ToUnicode
/// target these units are text like any other (U+FEFF ZERO WIDTH NO-BREAK SPACE, U+FFFE, U+EFBB U+BFxx); a decoder that
/// sniffs for signatures changes the text only when they come first.
fn signature(units: &[u16]) -> bool {
    matches!(units.first(), Some(0xFEFF) | Some(0xFFFE)) || (units.first() == Some(&0xEFBB) && units.get(1).map_or(false, |u| u >> 8 == 0xBF))
}

/// the definitions as CMap lines (hexadecimal, as in the stream), in definition order
fn show_defs(defs: &[Def], lens: &[usize]) -> String {
    defs.iter().zip(lens).map(|(d, l)| match d {
        Def::Char(c, u) => format!("bfchar <{}> <{}>", hexc(*c, *l), hexu(u)),
        Def::RangeStr(lo, hi, u) => format!("bfrange <{}> <{}> <{}>", hexc(*lo, *l), hexc(*hi, *l), hexu(u)),
        Def::RangeArr(lo, hi, a) => format!("bfrange <{}> <{}> [{}]", hexc(*lo, *l), hexc(*hi, *l), a.iter().map(|u| format!("<{}>", hexu(u))).collect::<Vec<_>>().join(" ")),
    }).collect::<Vec<_>>().join("; ")
}

fn show_codes(seq: &[&Mapped]) -> String {
    format!("{} (code lengths {})", seq.iter().map(|m| format!("<{}>", hexc(m.code, m.len))).collect::<Vec<_>>().join(" "), seq.iter().map(|m| m.len.to_string()).collect::<Vec<_>>().join(","))
}

/// the obligation for a deviation that shows only in a decoded text that STARTS with an encoding signature
const O_SIG: &str = "text-starting-with-signature-units-is-kept";

/// `max_seq`: every sequence of 2..=max_seq mapped codes is decoded as one string (besides every code alone and all codes in a row).
/// Returns every failed obligation found: at most one "hard" failure (the session stops at the first one) and at most one
/// failure of `O_SIG`, which does not stop the session (so that it cannot hide the others).
pub fn check(defs: &[Def], lens: &[usize], cs: &Cs, sectioning: u32, style: usize, max_seq: usize) -> Vec<(String, String)> {
    if lens.len() != defs.len() || lens.iter().any(|l| !(1..=4).contains(l)) { return vec![("oracle".into(), "one code length in 1..=4 per definition expected".into())]; }
    if cs.is_empty() || cs.iter().any(|(lo, hi, l, _)| hi < lo || !(1..=4).contains(l)) { return vec![("oracle".into(), "code space ranges <lo> <= <hi> of length 1..=4 expected".into())]; }
    let cmap = render(defs, lens, cs, sectioning, style);
    // the mapped codes, by the reference semantics, in the order (length, code)
    let mut cand: Vec<(usize, u32)> = vec![];
    for (d, l) in defs.iter().zip(lens) {
        let (lo, hi) = match d { Def::Char(c, _) => (*c, *c), Def::RangeStr(lo, hi, _) | Def::RangeArr(lo, hi, _) => (*lo, *hi) };
        if hi < lo || hi - lo > 64 { return vec![("oracle".into(), "definition outside of the bounded family".into())]; }
        for c in lo..=hi { cand.push((*l, c)); }
    }
    cand.sort(); cand.dedup();
    let mut mapped: Vec<Mapped> = vec![];
    for (len, code) in cand {
        // well-formed CMaps only: every code of a definition lies in the declared code space (in one of its ranges of that length)
        if !cs.iter().any(|(lo, hi, l, _)| *l == len && *lo <= code && code <= *hi) { return vec![("oracle".into(), format!("code <{}> of a definition lies outside the code space {}", hexc(code, len), show_cs(cs)))]; }
        let Some(units) = lookup(defs, lens, len, code) else { continue };
        let Ok(want) = String::from_utf16(&units) else { return vec![("oracle".to_string(), "pool produced an invalid UTF-16 target".to_string())] };
        mapped.push(Mapped { len, code, bytes: code_bytes(code, len), want, sig: signature(&units) });
    }
    // what the failure messages say about the CMap: the definitions, and the code space when it is not the plain one
    let about = if *cs == default_cs(lens) { format!("definitions {}", show_defs(defs, lens)) } else { format!("definitions {}; code space (| opens a codespacerange section) {}", show_defs(defs, lens), show_cs(cs)) };
    let current = std::cell::RefCell::new(String::new());
    let soft: std::cell::RefCell<Option<(String, String)>> = std::cell::RefCell::new(None);
    let session = || -> Result<(), (String, String)> {
        // the library parses the CMap once; every string below is decoded with that one encoding
        let mut d = Document::with_version("1.5");
        let sid = d.add_object(Stream::new(Dictionary::new(), cmap.to_vec()));
        let mut font = Dictionary::new();
        font.set("Type", name(b"Font")); font.set("Subtype", name(b"Type0")); font.set("Encoding", name(b"Identity-H")); font.set("ToUnicode", Object::Reference(sid));
        *current.borrow_mut() = "reading the CMap".into();
        let enc = font.get_font_encoding(&d).map_err(|e| ("decodes".to_string(), format!("CMap rejected: {}; {}", e, about)))?;
        let decode = |seq: &[&Mapped]| -> Result<(String, String), (String, String)> {
            *current.borrow_mut() = format!("decoding {}", show_codes(seq));
            let bytes: Vec<u8> = seq.iter().flat_map(|m| m.bytes.iter().copied()).collect();
            let want: String = seq.iter().map(|m| m.want.as_str()).collect();
            let got = enc.bytes_to_string(&bytes).map_err(|e| ("decodes".to_string(), format!("codes {}: {}", show_codes(seq), e)))?;
            Ok((want, got))
        };
        // a deviation in a text that starts with an encoding signature: noted (the first one), the session goes on
        let note_sig = |seq: &[&Mapped], want: &str, got: &str| {
            let mut s = soft.borrow_mut();
            let which = match want.encode_utf16().next() { Some(0xFEFF) => "<FEFF> (as bytes, the UTF-16BE byte order mark; as text, ZERO WIDTH NO-BREAK SPACE)", Some(0xFFFE) => "<FFFE> (as bytes, the UTF-16LE byte order mark)", _ => "<EFBB BFxx> (as bytes, the UTF-8 byte order mark followed by one byte)" };
            if s.is_none() { *s = Some((O_SIG.into(), format!("text starting with {}: the string of codes {} should decode to {:?} (in a ToUnicode target these units are text like any other, wherever the code stands in the string); decoded {:?}; {}", which, show_codes(seq), want, got, about))); }
        };
        // every code alone
        let mut alone_ok = vec![false; mapped.len()];
        for (i, m) in mapped.iter().enumerate() {
            let (want, got) = decode(&[m])?;
            if got == want { alone_ok[i] = true; continue; }
            if m.sig { note_sig(&[m], &want, &got); continue; }
            let (o, why) = clause(defs, lens, m.len, m.code);
            return Err((o.into(), format!("code <{}> should decode to {:?} ({}), decoded {:?}; {}", hexc(m.code, m.len), want, why, got, about)));
        }
        // a code that did not decode alone because its text starts with a signature: is the CODE mapped as defined? Decode
        // it behind a code that decodes alone (its text is then not at the start), and charge a deviation to its definition
        if let Some(carrier) = mapped.iter().enumerate().find(|(i, m)| alone_ok[*i] && !m.sig).map(|(_, m)| m) {
            for (i, m) in mapped.iter().enumerate() {
                if alone_ok[i] { continue; }
                let (want, got) = decode(&[carrier, m])?;
                if got != want {
                    let (o, why) = clause(defs, lens, m.len, m.code);
                    return Err((o.into(), format!("code <{}> should decode to {:?} ({}); decoded behind code <{}> (which alone decodes to {:?}, as defined), the two should give {:?}, decoded {:?}; {}", hexc(m.code, m.len), m.want, why, hexc(carrier.code, carrier.len), carrier.want, want, got, about)));
                }
            }
        }
        let all: Vec<&Mapped> = mapped.iter().collect();
        let (want, got) = decode(&all)?;
        if got != want {
            if all[0].sig { note_sig(&all, &want, &got); }
            else { return Err(("string-of-mapped-codes".into(), format!("all mapped codes in a row should decode to {:?}, got {:?}; {}", want, got, about))); }
        }
        // every sequence of 2..=max_seq mapped codes, shortest first (the first failure is a smallest one)
        let m = mapped.len();
        for k in 2..=max_seq {
            if m == 0 { break; }
            let mut idx = vec![0usize; k];
            loop {
                let seq: Vec<&Mapped> = idx.iter().map(|&i| &mapped[i]).collect();
                let (want, got) = decode(&seq)?;
                if got != want {
                    if seq[0].sig { note_sig(&seq, &want, &got); }
                    else { return Err(("code-sequence-decodes-code-by-code".into(), format!("the string of codes {} should decode to {:?} (each code by its last covering definition), decoded {:?}; {}", show_codes(&seq), want, got, about))); }
                }
                let (mut p, mut wrapped) = (k, true);
                while p > 0 { p -= 1; idx[p] += 1; if idx[p] < m { wrapped = false; break; } idx[p] = 0; }
                if wrapped { break; }
            }
        }
        Ok(())
    };
    let hard = match guarded(std::panic::AssertUnwindSafe(session)) {
        Err(p) => Err(("no-panic".into(), format!("{} while {}; {}", p, current.borrow(), about))),
        Ok(r) => r,
    };
    let mut out: Vec<(String, String)> = vec![];
    if let Err(e) = hard { out.push(e); }
    if let Some(e) = soft.into_inner() { out.push(e); }
    out
}

/// `obligation`: the failed obligation the record is written for (replay reports that kind of failure only, see `replay`)
fn defs_json(defs: &[Def], lens: &[usize], cs: &Cs, sectioning: u32, style: usize, max_seq: usize, obligation: &str) -> Value {
    json!({"obligation": obligation, "lens": lens, "cs": cs.iter().map(|(lo, hi, l, new)| json!([lo, hi, l, new])).collect::<Vec<_>>(), "sectioning": sectioning, "style": style, "max_seq": max_seq, "defs": defs.iter().map(|d| match d {
        Def::Char(c, u) => json!({"k": "char", "c": c, "u": u}), Def::RangeStr(lo, hi, u) => json!({"k": "str", "lo": lo, "hi": hi, "u": u}), Def::RangeArr(lo, hi, a) => json!({"k": "arr", "lo": lo, "hi": hi, "a": a}) }).collect::<Vec<_>>()})
}
fn defs_from(v: &Value) -> (Vec<Def>, Vec<usize>, Cs, u32, usize, usize) {
    let u16s = |x: &Value| -> Vec<u16> { x.as_array().cloned().unwrap_or_default().iter().map(|y| y.as_u64().unwrap_or(0) as u16).collect() };
    let defs: Vec<Def> = v["defs"].as_array().cloned().unwrap_or_default().iter().map(|d| match d["k"].as_str() {
        Some("char") => Def::Char(d["c"].as_u64().unwrap() as u32, u16s(&d["u"])),
        Some("str") => Def::RangeStr(d["lo"].as_u64().unwrap() as u32, d["hi"].as_u64().unwrap() as u32, u16s(&d["u"])),
        _ => Def::RangeArr(d["lo"].as_u64().unwrap() as u32, d["hi"].as_u64().unwrap() as u32, d["a"].as_array().cloned().unwrap_or_default().iter().map(u16s).collect()),
    }).collect();
    // records written before the code length became a property of the definition have one "code_len" and no "max_seq"
    let lens: Vec<usize> = match v["lens"].as_array() {
        Some(a) => a.iter().map(|x| x.as_u64().unwrap_or(2) as usize).collect(),
        None => vec![v["code_len"].as_u64().unwrap_or(2) as usize; defs.len()],
    };
    // records written before the layout of the code space became a dimension have no "cs": the plain code space
    let cs: Cs = match v["cs"].as_array() {
        Some(a) => a.iter().map(|r| (r[0].as_u64().unwrap_or(0) as u32, r[1].as_u64().unwrap_or(0) as u32, r[2].as_u64().unwrap_or(0) as usize, r[3].as_bool().unwrap_or(false))).collect(),
        None => default_cs(&lens),
    };
    (defs, lens, cs, v["sectioning"].as_u64().unwrap_or(0) as u32, v["style"].as_u64().unwrap_or(0) as usize, v["max_seq"].as_u64().unwrap_or(1) as usize)
}

const MAX_SEQ: usize = 3;
/// code strings of the families (d) and (e): every sequence of 2 mapped codes (those families vary the code space and the
/// targets; the strings of 3 codes belong to the families that vary the definitions)
const MAX_SEQ_DE: usize = 2;
/// array targets: the units an array starts from (<00FE>: the run crosses the byte boundary <00FF>/<0100>), the longest array
/// taken alone and the longest array taken together with another definition
const ARR_UNITS: [u16; 2] = [0x0041, 0x00FE];
const ARR_MAX_ALONE: usize = 4;
const ARR_MAX_CTX: usize = 3;
/// the definitions used for the three-definition CMaps with mixed code lengths in the quick tier: bfchar surrogate pair,
/// whole single-unit range, multi-unit range, array range with multi-unit / astral elements, bfchar single unit
const QUICK_MIXED: [usize; 5] = [1, 3, 5, 8, 11];

/// (e) the letters targets are made of. One letter is one UTF-16 unit or one surrogate pair (so every sequence of letters is
/// well-formed UTF-16): an ordinary unit; the ends of the unit range <0000> <FFFF>; the byte boundary <00FF> <0100>; the
/// units next to the surrogate block <D7FF> <E000>; the first and the last surrogate pair; the replacement character <FFFD>
/// (what an unmapped code gives); and the units that spell an encoding signature at the start of a text: <FEFF> (byte order
/// mark = ZERO WIDTH NO-BREAK SPACE), <FFFE> (the other byte order), <EFBB> <BF41> (together: the bytes of the UTF-8 one)
const LETTERS: [&[u16]; 14] = [&[0x0041], &[0x0000], &[0x00FF], &[0x0100], &[0xD7FF], &[0xE000], &[0xEFBB], &[0xBF41], &[0xFEFF], &[0xFFFE], &[0xFFFD], &[0xFFFF], &[0xD800, 0xDC00], &[0xDBFF, 0xDFFF]];

/// every target of 1..=n_max letters (shortest first)
fn letter_targets(n_max: usize) -> Vec<Vec<u16>> {
    let mut out = vec![];
    for n in 1..=n_max {
        let mut idx = vec![0usize; n];
        loop {
            out.push(idx.iter().flat_map(|&i| LETTERS[i].iter().copied()).collect());
            let (mut p, mut wrapped) = (n, true);
            while p > 0 { p -= 1; idx[p] += 1; if idx[p] < LETTERS.len() { wrapped = false; break; } idx[p] = 0; }
            if wrapped { break; }
        }
    }
    out
}

/// (e) the CMap that gives the target `t` to a code, by `kind`: 0 = bfchar <b+2> t; 1 = bfrange <b+2> <b+3> t (two codes: the
/// target and the target with 1 added to its last unit; one code <b+2> <b+2> when that unit cannot take 1 more: <FFFF>, or
/// the result would be a lone surrogate); 2 = bfrange <b+2> <b+4> [t <0058> t] (array entry at offsets 0 and 2).
/// Before it, bfchar <b> <0078>: a second code with an ordinary target, to stand before and behind the code in a string.
fn target_defs(b: u32, kind: usize, t: &[u16]) -> Vec<Def> {
    let x = Def::Char(b, vec![0x0078]);
    let d = match kind {
        0 => Def::Char(b + 2, t.to_vec()),
        1 => {
            let mut t1 = t.to_vec(); let l = t1.len() - 1;
            let two = match t1[l].checked_add(1) { Some(u) => { t1[l] = u; String::from_utf16(&t1).is_ok() } None => false };
            Def::RangeStr(b + 2, if two { b + 3 } else { b + 2 }, t.to_vec())
        }
        _ => Def::RangeArr(b + 2, b + 4, vec![t.to_vec(), vec![0x0058], t.to_vec()]),
    };
    vec![x, d]
}

struct Case { defs: Vec<Def>, lens: Vec<usize>, cs: Option<Cs>, max_seq: usize }

pub fn run(thorough: bool) -> Report {
    let bound = format!("CMaps: (a) one code length in {{1, 2, 3, 4}} (3- and 4-byte codes with non-zero leading bytes, code space = all codes of that length) x every sequence of 1..3 definitions (with repetition, order significant) over a pool of 12 (bfchar single / surrogate pair / two units; bfrange with single unit, multi-unit, astral and array targets; overlapping, nested, adjacent and coalescable ranges); (b) mixed code lengths: every sequence of 2 definitions over the pool of 12 and every sequence of 3 definitions over {}, each x every assignment of a code length in {{1, 2, 3, 4}} to each definition that uses at least two lengths (12 resp. 60 assignments; prefix-free code spaces <10>..<1F>, <0110>..<011F>, <810110>..<81011F>, <8E810110>..<8E81011F>, one codespacerange per length used, the tail of a longer code is a shorter mapped code; a section may hold codes of several lengths); (c) array targets as a dimension of their own: bfrange <b+1> <b+n> [e_0 .. e_(n-1)] with one entry per code, for every array of n = 1..{} entries over {} entry shapes stated relative to the offset i and a start unit u (<u+i> alone = what an incrementing range from <u> would define; <u+i 0301> several units, the first continues the run; <0066 u+i> several units, the last continues the run; <u> no increment; <2603> unrelated; <D835 DC00+i> surrogate pair), i.e. every mixture of entries that do and do not look like an incrementing range ({} arrays per u): (c1) alone, u in {{<0041>, <00FE>}} x one code length in {{1, 2, 3, 4}}; (c2) arrays of n = 1..{} entries ({} arrays, u = <0041>) x one other definition of the same code length out of {} (covering all, some or none of the array's codes), before and after the array (the last covering definition wins), code length {}; all x every sectioning of the sequence x 2 white-space/EOL styles. Code strings per CMap of (a)-(c): every mapped code alone, all mapped codes in one string, and every sequence of 2 and of 3 mapped codes (with repetition, every order, hence every succession of code lengths: equal, increasing, decreasing, long-short-long, ...). \
(d) the layout of the code space as a dimension of its own (in (a)-(c) and (e) every code length has ONE code space range, all in one section); the codespacerange sections precede the bf sections, every code of every definition lies in the code space, the mapped codes are b..b+5: (d1) one code length ({}): the code space is the 256 codes that share the leading bytes of b, declared as k ranges by cutting it at k-1 of the 7 places in front of b, between two neighbours of b..b+5, behind b+5 (so definitions lie in the first, a middle or the last range, or straddle a cut; ranges without any mapped code occur), x every order of listing the k ranges x every sectioning of the list (one codespacerange section .. one section per range): k = 2 (7 x 2 x 2 = 28 layouts) x every sequence of 1..2 definitions over the pool of 12{}; k = 3 (21 x 6 x 4 = 504 layouts) x every single definition of the pool of 12; (d2) two code lengths: every sequence of 2 definitions over {} x every assignment of two different code lengths (12), the prefix-free code space range of BOTH lengths cut in two at the same one of the 6 places behind b .. behind b+5, x 3 orders of listing (by length; the reverse; first halves of both lengths then second halves, so that the two ranges of a length are not neighbours) x (one section | one section per range) = 36 layouts; all x every sectioning of the definitions x 2 white-space/EOL styles. Oracle: unchanged, the code space does not enter it. \
(e) the units of the targets as a dimension of their own: every target of 1..{} letters over 14 letters (<0041>; the ends of the unit range <0000> <FFFF>; the byte boundary <00FF> <0100>; next to the surrogate block <D7FF> <E000>; the surrogate pairs <D800DC00> <DBFFDFFF>; the replacement character <FFFD>; the units that spell an encoding signature at the start of a text <FEFF>, <FFFE>, <EFBB> <BF41>), {} targets, each as a bfchar target <b+2>, as a bfrange target <b+2> <b+3> (last unit + 1 for the second code; one code only where + 1 would leave UTF-16) and as the entries 0 and 2 of an array target <b+2> <b+4> [t <0058> t], next to bfchar <b> <0078>; code length in {{1, 2, 3, 4}} x every sectioning x 2 styles. \
Code strings per CMap of (d), (e): every mapped code alone, all mapped codes in one string, every sequence of 2 mapped codes (so every target stands first and behind another code). A code whose text starts with the units of an encoding signature (FEFF, FFFE, EFBB BFxx) and does not decode alone is decoded behind a code that does, and a deviation there is charged to the code's definition; a deviation that shows only in a string STARTING with such units is the obligation {} (one per CMap, it does not end the CMap's session)",
        if thorough { "the whole pool of 12" } else { "5 of the pool (bfchar single, bfchar surrogate pair, whole single-unit range, multi-unit range, array range; the thorough tier takes the whole pool)" },
        ARR_MAX_ALONE, SHAPES, (1..=ARR_MAX_ALONE).map(|n| SHAPES.pow(n as u32)).sum::<usize>(), ARR_MAX_CTX, (1..=ARR_MAX_CTX).map(|n| SHAPES.pow(n as u32)).sum::<usize>(),
        if thorough { "the whole pool of 12" } else { "the same 5 of the pool" }, if thorough { "in {1, 2, 3, 4}" } else { "2 (the thorough tier takes 1, 2, 3, 4)" },
        if thorough { "each of 1, 2, 3, 4" } else { "2; the thorough tier takes 1, 2, 3, 4" },
        if thorough { " and every sequence of 3 definitions over 5 of the pool" } else { " (the thorough tier adds every sequence of 3 definitions over 5 of the pool)" },
        if thorough { "the whole pool of 12" } else { "the same 5 of the pool (the thorough tier: the whole pool)" },
        if thorough { 3 } else { 2 }, (1..=if thorough { 3u32 } else { 2 }).map(|n| LETTERS.len().pow(n)).sum::<usize>(), O_SIG);
    let mut rep = Report::new(&bound, true);
    let mut cases: Vec<Case> = vec![];
    let mut push = |defs: Vec<Def>, lens: Vec<usize>| cases.push(Case { defs, lens, cs: None, max_seq: MAX_SEQ });
    for code_len in [2usize, 1, 3, 4] {
        let p = pool(code_len);
        for a in 0..p.len() { push(vec![p[a].clone()], vec![code_len]); for b in 0..p.len() { push(vec![p[a].clone(), p[b].clone()], vec![code_len; 2]); for c in 0..p.len() { push(vec![p[a].clone(), p[b].clone(), p[c].clone()], vec![code_len; 3]); } } }
    }
    // mixed code lengths: the definition k of the pool at length l is pool_at(mbase(l))[k]
    let mp: Vec<Vec<Def>> = (0..=4usize).map(|l| if l == 0 { vec![] } else { pool_at(mbase(l)) }).collect();
    let n = mp[1].len();
    let three: Vec<usize> = if thorough { (0..n).collect() } else { QUICK_MIXED.to_vec() };
    for la in 1..=4usize { for lb in 1..=4usize {
        if la != lb { for a in 0..n { for b in 0..n { push(vec![mp[la][a].clone(), mp[lb][b].clone()], vec![la, lb]); } } }
    } }
    for la in 1..=4usize { for lb in 1..=4usize {
        for lc in 1..=4usize {
            if la == lb && lb == lc { continue; }
            for &a in &three { for &b in &three { for &c in &three { push(vec![mp[la][a].clone(), mp[lb][b].clone(), mp[lc][c].clone()], vec![la, lb, lc]); } } }
        }
    } }
    // (c) array targets: every array of 1..=4 entries over the entry shapes, alone; every array of 1..=3 entries before and
    // after one other definition that covers some or all of its codes
    for code_len in [2usize, 1, 3, 4] {
        for u in ARR_UNITS { for arr in arrays(ARR_MAX_ALONE, u) { push(vec![arr_def(base(code_len), &arr)], vec![code_len]); } }
    }
    let ctx_lens: Vec<usize> = if thorough { vec![2, 1, 3, 4] } else { vec![2] };
    for &code_len in &ctx_lens {
        let p = pool(code_len);
        for arr in arrays(ARR_MAX_CTX, ARR_UNITS[0]) {
            let a = arr_def(base(code_len), &arr);
            for &k in &three { push(vec![p[k].clone(), a.clone()], vec![code_len; 2]); push(vec![a.clone(), p[k].clone()], vec![code_len; 2]); }
        }
    }
    // (d) the layout of the code space
    let mut push_cs = |defs: Vec<Def>, lens: Vec<usize>, cs: Cs| cases.push(Case { defs, lens, cs: Some(cs), max_seq: MAX_SEQ_DE });
    for &code_len in &ctx_lens {
        let p = pool(code_len);
        let (two, three_ranges) = (layouts_one(base(code_len), code_len, 2), layouts_one(base(code_len), code_len, 3));
        for a in 0..p.len() {
            for cs in two.iter().chain(&three_ranges) { push_cs(vec![p[a].clone()], vec![code_len], cs.clone()); }
            for b in 0..p.len() { for cs in &two { push_cs(vec![p[a].clone(), p[b].clone()], vec![code_len; 2], cs.clone()); } }
        }
        if thorough { for &a in &QUICK_MIXED { for &b in &QUICK_MIXED { for &c in &QUICK_MIXED { for cs in &two { push_cs(vec![p[a].clone(), p[b].clone(), p[c].clone()], vec![code_len; 3], cs.clone()); } } } } }
    }
    for la in 1..=4usize { for lb in 1..=4usize {
        if la == lb { continue; }
        let ls = layouts_mixed(&[la, lb]);
        for &a in &three { for &b in &three { for cs in &ls { push_cs(vec![mp[la][a].clone(), mp[lb][b].clone()], vec![la, lb], cs.clone()); } } }
    } }
    // (e) the units of the targets
    let targets = letter_targets(if thorough { 3 } else { 2 });
    for code_len in [2usize, 1, 3, 4] {
        for t in &targets { for kind in 0..3 { cases.push(Case { defs: target_defs(base(code_len), kind, t), lens: vec![code_len; 2], cs: None, max_seq: MAX_SEQ_DE }); } }
    }
    let results: Vec<(usize, Vec<(String, String, Value)>, u64)> = cases.par_iter().enumerate().map(|(i, case)| {
        let (defs, lens) = (&case.defs, &case.lens);
        let cs = case.cs.clone().unwrap_or_else(|| default_cs(lens));
        let mut f = vec![]; let mut n = 0;
        for sectioning in 0..(1u32 << (defs.len() - 1)) { for style in 0..2 {
            n += 1;
            for (o, d) in check(defs, lens, &cs, sectioning, style, case.max_seq) { let inp = defs_json(defs, lens, &cs, sectioning, style, case.max_seq, &o); f.push((o, d, inp)); }
        } }
        (i, f, n)
    }).collect();
    for (_, f, n) in results { rep.evaluations += n; rep.nontrivial += n; for (o, d, inp) in f { rep.fail(&o, d.clone(), inp, d); } }
    rep.sample(String::from_utf8_lossy(&render(&[pool(2)[7].clone(), pool(2)[0].clone(), pool(2)[5].clone()], &[2, 2, 2], &default_cs(&[2]), 1, 0)).chars().skip(250).take(260).collect());
    rep.sample(String::from_utf8_lossy(&render(&[mp[2][3].clone(), mp[1][0].clone(), mp[3][1].clone()], &[2, 1, 3], &default_cs(&[2, 1, 3]), 0, 0)).chars().skip(185).take(330).collect());
    rep.sample(String::from_utf8_lossy(&render(&[arr_def(base(2), &[arr_entry(0, 0x41, 0), arr_entry(1, 0x41, 1), arr_entry(0, 0x41, 2)])], &[2], &default_cs(&[2]), 0, 0)).chars().skip(250).take(120).collect());
    rep.sample(String::from_utf8_lossy(&render(&target_defs(base(2), 2, &[0xFEFF, 0x0041]), &[2, 2], &layouts_one(base(2), 2, 3)[57], 0, 0)).chars().skip(185).take(300).collect());
    rep
}

pub fn replay(v: &Value) -> Result<(), String> {
    let (defs, lens, cs, sectioning, style, max_seq) = defs_from(v);
    let mut f = check(&defs, &lens, &cs, sectioning, style, max_seq);
    // a CMap can fail O_SIG (a text that starts with signature units) besides, and independently of, another obligation:
    // a record written for O_SIG replays O_SIG, a record written for another obligation replays the others
    if let Some(o) = v["obligation"].as_str() { f.retain(|e| (e.0 == O_SIG) == (o == O_SIG)); }
    if f.is_empty() { Ok(()) } else { Err(f.iter().map(|e| format!("{}: {}", e.0, e.1)).collect::<Vec<_>>().join(" || ")) }
}
