//! C15: ToUnicode CMaps decode text as the CMap defines (bounded: CMaps generated from every sequence of <= 3
//! definitions over a pool, every sectioning, two white-space styles; oracle = "last definition covering the code wins").
#![allow(dead_code)]
use crate::common::*;
use crate::gen::*;
use lopdf::{Dictionary, Document, Object, Stream};
use rayon::prelude::*;
use serde_json::{json, Value};

#[derive(Clone, Debug)]
pub enum Def {
    Char(u32, Vec<u16>),
    RangeStr(u32, u32, Vec<u16>),
    RangeArr(u32, u32, Vec<Vec<u16>>),
}

fn base(code_len: usize) -> u32 { match code_len { 1 => 0x10, 2 => 0x0110, 3 => 0x81_40A0, _ => 0x8EA1_A1A0 } }
fn code_bytes(code: u32, code_len: usize) -> Vec<u8> { code.to_be_bytes()[4 - code_len..].to_vec() }

fn pool(code_len: usize) -> Vec<Def> {
    let b = base(code_len);
    vec![
        Def::Char(b + 2, vec![0x0041]),
        Def::Char(b + 3, vec![0xD83D, 0xDE00]),                       // surrogate pair -> one character
        Def::Char(b + 1, vec![0x0066, 0x0069]),                       // ligature: two units
        Def::RangeStr(b, b + 5, vec![0x0061]),                       // incrementing single unit
        Def::RangeStr(b + 1, b + 4, vec![0x0391]),
        Def::RangeStr(b + 2, b + 3, vec![0x0058, 0x0030]),            // multi-unit target: last unit increments
        Def::RangeStr(b, b + 2, vec![0xD835, 0xDC00]),                // astral range: low surrogate increments
        Def::RangeArr(b, b + 5, (0..6).map(|i| vec![0x0100 + 7 * i]).collect()),
        Def::RangeArr(b + 3, b + 5, vec![vec![0x004C, 0x004C], vec![0x2603], vec![0xD83D, 0xDE01]]),
        Def::RangeStr(b + 4, b + 4, vec![0x005A]),
        Def::RangeStr(b + 3, b + 5, vec![0x0061 + 3]),               // equal to a slice of the first range (may coalesce)
        Def::Char(b + 5, vec![0x00E9]),
    ]
}

/// reference semantics: the last definition that covers the code
fn lookup(defs: &[Def], code: u32) -> Option<Vec<u16>> {
    let mut r = None;
    for d in defs {
        match d {
            Def::Char(c, u) if *c == code => r = Some(u.clone()),
            Def::RangeStr(lo, hi, u) if *lo <= code && code <= *hi => { let mut v = u.clone(); let l = v.len() - 1; v[l] = v[l].wrapping_add((code - lo) as u16); r = Some(v); }
            Def::RangeArr(lo, hi, a) if *lo <= code && code <= *hi => { if let Some(u) = a.get((code - lo) as usize) { r = Some(u.clone()); } }
            _ => {}
        }
    }
    r
}

fn hexu(u: &[u16]) -> String { u.iter().map(|x| format!("{:04X}", x)).collect() }
fn hexc(c: u32, len: usize) -> String { format!("{:0w$X}", c, w = 2 * len) }

/// render with `sectioning`: bit k set = definition k+1 starts a new section even if it has the same kind as definition k
fn render(defs: &[Def], code_len: usize, sectioning: u32, style: usize) -> Vec<u8> {
    let nl = if style == 0 { "\n" } else { "\r\n" };
    let sp = if style == 0 { " " } else { "  " };
    let mut s = String::new();
    s.push_str(&format!("/CIDInit /ProcSet findresource begin{nl}12 dict begin{nl}begincmap{nl}/CIDSystemInfo << /Registry (Adobe) /Ordering (UCS) /Supplement 0 >> def{nl}/CMapName /Adobe-Identity-UCS def{nl}/CMapType 2 def{nl}1 begincodespacerange{nl}<{}>{sp}<{}>{nl}endcodespacerange{nl}", hexc(0, code_len), hexc((0xFFFF_FFFFu64 >> (32 - 8 * code_len)) as u32, code_len)));
    let kind = |d: &Def| matches!(d, Def::Char(..));
    let mut i = 0;
    while i < defs.len() {
        let mut j = i;
        while j + 1 < defs.len() && kind(&defs[j + 1]) == kind(&defs[i]) && (sectioning >> j) & 1 == 0 { j += 1; }
        let n = j - i + 1;
        if kind(&defs[i]) { s.push_str(&format!("{} beginbfchar{nl}", n)); } else { s.push_str(&format!("{} beginbfrange{nl}", n)); }
        for d in &defs[i..=j] {
            match d {
                Def::Char(c, u) => s.push_str(&format!("<{}>{sp}<{}>{nl}", hexc(*c, code_len), hexu(u))),
                Def::RangeStr(lo, hi, u) => s.push_str(&format!("<{}>{sp}<{}>{sp}<{}>{nl}", hexc(*lo, code_len), hexc(*hi, code_len), hexu(u))),
                Def::RangeArr(lo, hi, a) => { s.push_str(&format!("<{}>{sp}<{}>{sp}[", hexc(*lo, code_len), hexc(*hi, code_len))); for u in a { s.push_str(&format!("<{}>{sp}", hexu(u))); } s.push_str(&format!("]{nl}")); }
            }
        }
        s.push_str(if kind(&defs[i]) { "endbfchar" } else { "endbfrange" }); s.push_str(nl);
        i = j + 1;
    }
    s.push_str(&format!("endcmap{nl}CMapName currentdict /CMap defineresource pop{nl}end{nl}end"));
    s.into_bytes()
}

fn decode(cmap: &[u8], bytes: &[u8]) -> Result<String, String> {
    let mut d = Document::with_version("1.5");
    let sid = d.add_object(Stream::new(Dictionary::new(), cmap.to_vec()));
    let mut font = Dictionary::new();
    font.set("Type", name(b"Font")); font.set("Subtype", name(b"Type0")); font.set("Encoding", name(b"Identity-H")); font.set("ToUnicode", Object::Reference(sid));
    let enc = font.get_font_encoding(&d).map_err(|e| format!("CMap rejected: {}", e))?;
    enc.bytes_to_string(bytes).map_err(|e| e.to_string())
}

pub fn check(defs: &[Def], code_len: usize, sectioning: u32, style: usize) -> Result<(), (String, String)> {
    let cmap = render(defs, code_len, sectioning, style);
    let base: u32 = base(code_len);
    let mut all_bytes = vec![];
    let mut all_expected = String::new();
    for code in base..base + 6 {
        let Some(units) = lookup(defs, code) else { continue };
        let want = String::from_utf16(&units).map_err(|_| ("oracle".to_string(), "pool produced an invalid UTF-16 target".to_string()))?;
        let bytes: Vec<u8> = code_bytes(code, code_len);
        match guarded(std::panic::AssertUnwindSafe(|| decode(&cmap, &bytes))) {
            Err(p) => return Err(("no-panic".into(), p)),
            Ok(Err(e)) => return Err(("decodes".into(), format!("code <{}>: {}", hexc(code, code_len), e))),
            Ok(Ok(got)) => if got != want { return Err(("code-maps-to-last-definition".into(), format!("code <{}> should decode to {:?} (last covering definition), decoded {:?}; definitions {:?}", hexc(code, code_len), want, got, defs))); }
        }
        all_bytes.extend_from_slice(&bytes); all_expected.push_str(&want);
    }
    match guarded(std::panic::AssertUnwindSafe(|| decode(&cmap, &all_bytes))) {
        Ok(Ok(got)) if got == all_expected => Ok(()),
        other => Err(("string-of-mapped-codes".into(), format!("all mapped codes in a row should decode to {:?}, got {:?}", all_expected, other))),
    }
}

fn defs_json(defs: &[Def], code_len: usize, sectioning: u32, style: usize) -> Value {
    json!({"code_len": code_len, "sectioning": sectioning, "style": style, "defs": defs.iter().map(|d| match d {
        Def::Char(c, u) => json!({"k": "char", "c": c, "u": u}), Def::RangeStr(lo, hi, u) => json!({"k": "str", "lo": lo, "hi": hi, "u": u}), Def::RangeArr(lo, hi, a) => json!({"k": "arr", "lo": lo, "hi": hi, "a": a}) }).collect::<Vec<_>>()})
}
fn defs_from(v: &Value) -> (Vec<Def>, usize, u32, usize) {
    let u16s = |x: &Value| -> Vec<u16> { x.as_array().cloned().unwrap_or_default().iter().map(|y| y.as_u64().unwrap_or(0) as u16).collect() };
    let defs = v["defs"].as_array().cloned().unwrap_or_default().iter().map(|d| match d["k"].as_str() {
        Some("char") => Def::Char(d["c"].as_u64().unwrap() as u32, u16s(&d["u"])),
        Some("str") => Def::RangeStr(d["lo"].as_u64().unwrap() as u32, d["hi"].as_u64().unwrap() as u32, u16s(&d["u"])),
        _ => Def::RangeArr(d["lo"].as_u64().unwrap() as u32, d["hi"].as_u64().unwrap() as u32, d["a"].as_array().cloned().unwrap_or_default().iter().map(u16s).collect()),
    }).collect();
    (defs, v["code_len"].as_u64().unwrap_or(2) as usize, v["sectioning"].as_u64().unwrap_or(0) as u32, v["style"].as_u64().unwrap_or(0) as usize)
}

pub fn run(thorough: bool) -> Report {
    let mut rep = Report::new("code lengths {1, 2, 3, 4} (3- and 4-byte codes with non-zero leading bytes) x every sequence of 1..3 definitions (with repetition, order significant) over a pool of 12 (bfchar single / surrogate pair / two units; bfrange with single unit, multi-unit, astral and array targets; overlapping, nested, adjacent and coalescable ranges) x every sectioning of the sequence x 2 white-space/EOL styles; every mapped code alone and all mapped codes in one string", true);
    let _ = thorough;
    let mut cases = vec![];
    for code_len in [2usize, 1, 3, 4] {
        let p = pool(code_len);
        for a in 0..p.len() { cases.push((vec![p[a].clone()], code_len)); for b in 0..p.len() { cases.push((vec![p[a].clone(), p[b].clone()], code_len)); for c in 0..p.len() { cases.push((vec![p[a].clone(), p[b].clone(), p[c].clone()], code_len)); } } }
    }
    let results: Vec<(usize, Vec<(String, String, Value)>, u64)> = cases.par_iter().enumerate().map(|(i, (defs, code_len))| {
        let mut f = vec![]; let mut n = 0;
        for sectioning in 0..(1u32 << (defs.len() - 1)) { for style in 0..2 {
            n += 1;
            if let Err((o, d)) = check(defs, *code_len, sectioning, style) { f.push((o, d, defs_json(defs, *code_len, sectioning, style))); }
        } }
        (i, f, n)
    }).collect();
    for (_, f, n) in results { rep.evaluations += n; rep.nontrivial += n; for (o, d, inp) in f { rep.fail(&o, d.clone(), inp, d); } }
    rep.sample(String::from_utf8_lossy(&render(&[pool(2)[7].clone(), pool(2)[0].clone(), pool(2)[5].clone()], 2, 1, 0)).chars().skip(250).take(260).collect());
    rep
}

pub fn replay(v: &Value) -> Result<(), String> {
    let (defs, code_len, sectioning, style) = defs_from(v);
    check(&defs, code_len, sectioning, style).map_err(|e| format!("{}: {}", e.0, e.1))
}
