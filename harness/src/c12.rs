//! C12: page enumeration is the depth-first, left-to-right order of the page tree (numbered 1..n);
//! on malformed trees it still terminates and yields only page objects.
//!
//! Oracle (independent of the library): a page tree is written as a string over { 'p' = page leaf,
//! '(' ... ')' = intermediate node }; the expected enumeration is the list of the ids assigned to the 'p'
//! characters, left to right. For malformed documents the module's own resolver (`is_page`, `reachable`)
//! decides what a page object is and which ids hang under the root.
//!
//! Every value of a page-tree object may be held behind indirect references, and an indirect object may itself hold
//! nothing but a reference; family (9) therefore enumerates the SHAPE of such a reference chain (every "rho": a tail
//! of t reference-only objects running into a loop of l of them, or ending in the original value, an absent object
//! or the root) at every place of the tree where a value stands (every dictionary entry of the trailer / catalog /
//! nodes that the tree is made of, every element of every Kids array).
#![allow(dead_code)]
use crate::c03::{obj_from_json, obj_json};
use crate::common::*;
use lopdf::{Dictionary, Document, Object, ObjectId, Stream};
use rayon::prelude::*;
use serde_json::{json, Value};
use std::collections::{BTreeSet, HashSet};
use std::panic::{catch_unwind, AssertUnwindSafe};
use std::sync::atomic::{AtomicU64, Ordering};
use std::sync::Arc;
use std::time::{Duration, Instant};

const STEP: &str = "c12-pages";
const ITEM_CAP: usize = 100_000; // an enumeration yielding more items than this is reported as non-terminating
const HANG_MS: u64 = 15_000; // a single case running longer than this is reported as non-terminating
const DEPTH_LIMIT: usize = 256; // the library's documented PAGE_TREE_DEPTH_LIMIT
static FALLBACKS: AtomicU64 = AtomicU64::new(0); // via-file cases whose save or load failed (then checked in memory only)

// ---------------------------------------------------------------------------------------------------------
// a case: a document plus (for well-formed trees) the exact expected enumeration
// ---------------------------------------------------------------------------------------------------------
pub struct Case {
    pub desc: String,
    pub doc: Document,
    pub expect: Option<Vec<ObjectId>>, // Some = well-formed: exact order demanded; None = malformed: weak obligations
    pub child: bool,                   // run in a child process (may abort the process)
}

fn d(entries: Vec<(&str, Object)>) -> Dictionary {
    let mut x = Dictionary::new();
    for (k, v) in entries { x.set(k.as_bytes().to_vec(), v); }
    x
}
fn nm(s: &str) -> Object { Object::Name(s.as_bytes().to_vec()) }
fn rf(id: ObjectId) -> Object { Object::Reference(id) }
fn r0(n: u32) -> Object { Object::Reference((n, 0)) }
fn refs(ids: &[ObjectId]) -> Object { Object::Array(ids.iter().map(|i| rf(*i)).collect()) }

fn new_doc() -> Document { Document::with_version("1.5") }
fn put(doc: &mut Document, id: ObjectId, o: Object) {
    doc.objects.insert(id, o);
    if id.0 > doc.max_id { doc.max_id = id.0; }
}

// ---------------------------------------------------------------------------------------------------------
// own model of "page object" and "hangs under the root" (does not call Document::get_object & co.)
// ---------------------------------------------------------------------------------------------------------
fn resolve<'a>(doc: &'a Document, mut o: &'a Object) -> Option<&'a Object> {
    let mut seen: HashSet<ObjectId> = HashSet::new();
    while let Object::Reference(id) = o {
        if !seen.insert(*id) { return None; }
        o = doc.objects.get(id)?;
    }
    Some(o)
}
fn dget<'a>(dict: &'a Dictionary, key: &[u8]) -> Option<&'a Object> {
    dict.iter().find(|(k, _)| k.as_slice() == key).map(|(_, v)| v)
}
/// the id denotes (possibly through a chain of indirect references) a dictionary with /Type /Page
fn is_page(doc: &Document, id: ObjectId) -> bool {
    match doc.objects.get(&id).and_then(|o| resolve(doc, o)) {
        // (the value of Type may itself be held behind references, like any value of a dictionary)
        Some(Object::Dictionary(dict)) => matches!(dget(dict, b"Type").and_then(|t| resolve(doc, t)), Some(Object::Name(n)) if n.as_slice() == b"Page"),
        _ => false,
    }
}
/// every id that occurs as a reference element of a Kids array of anything reachable from the catalog's Pages
/// entry (permissive: node types are ignored, streams count as dictionaries)
fn reachable(doc: &Document) -> BTreeSet<ObjectId> {
    let mut out = BTreeSet::new();
    let root = match dget(&doc.trailer, b"Root").and_then(|o| resolve(doc, o)) {
        Some(Object::Dictionary(c)) => dget(c, b"Pages"),
        Some(Object::Stream(s)) => dget(&s.dict, b"Pages"),
        _ => None,
    };
    let mut work: Vec<&Object> = root.into_iter().collect();
    let mut visited: HashSet<ObjectId> = HashSet::new();
    while let Some(o) = work.pop() {
        let node = match resolve(doc, o) { Some(n) => n, None => continue };
        let dict = match node { Object::Dictionary(x) => x, Object::Stream(s) => &s.dict, _ => continue };
        let kids = match dget(dict, b"Kids").and_then(|k| resolve(doc, k)) { Some(Object::Array(a)) => a, _ => continue };
        for k in kids {
            if let Object::Reference(id) = k {
                out.insert(*id);
                if visited.insert(*id) { work.push(k); }
            } else {
                work.push(k);
            }
        }
    }
    out
}

// ---------------------------------------------------------------------------------------------------------
// the executable contract
// ---------------------------------------------------------------------------------------------------------
pub type Fails = Vec<(String, String, String)>; // (obligation, detail, observed)

fn pmsg(e: Box<dyn std::any::Any + Send>) -> String {
    if let Some(s) = e.downcast_ref::<String>() { s.clone() } else if let Some(s) = e.downcast_ref::<&str>() { s.to_string() } else { "panic".into() }
}
/// arithmetic-overflow panics (only present when overflow checks are compiled in) are kept apart from other panics
fn panic_obl(m: &str) -> String { if m.contains("attempt to") { "no-arith-overflow".into() } else { "no-panic".into() } }
fn ids_str(v: &[ObjectId]) -> String {
    let mut s: Vec<String> = v.iter().take(40).map(|i| format!("{} {}", i.0, i.1)).collect();
    if v.len() > 40 { s.push(format!("... ({} ids)", v.len())); }
    format!("[{}]", s.join(", "))
}
fn order_detail(api: &str, got: &[ObjectId], want: &[ObjectId]) -> String {
    let k = got.iter().zip(want.iter()).position(|(a, b)| a != b).unwrap_or(got.len().min(want.len()));
    format!("{}: enumeration differs from the depth-first leaf order at position {} ({} yielded, {} leaf pages in the tree)", api, k + 1, got.len(), want.len())
}

pub fn check(doc: &Document, expect: Option<&[ObjectId]>) -> Fails {
    let mut f: Fails = vec![];
    let reach = if expect.is_none() { reachable(doc) } else { BTreeSet::new() };
    let only_pages = |api: &str, seq: &[ObjectId], f: &mut Fails| {
        for (k, id) in seq.iter().enumerate() {
            if !is_page(doc, *id) {
                f.push(("only-pages".into(), format!("{}: item {} is object {} {} which is not a page object (no dictionary with /Type /Page)", api, k + 1, id.0, id.1), ids_str(seq)));
                return;
            }
            if !reach.contains(id) {
                f.push(("only-pages".into(), format!("{}: item {} is object {} {} which does not occur in any Kids array under the root", api, k + 1, id.0, id.1), ids_str(seq)));
                return;
            }
        }
    };
    // 1. the iterator, pulled by hand (no size_hint involved), with an item cap
    let r = catch_unwind(AssertUnwindSafe(|| {
        let mut v = vec![];
        let mut capped = false;
        for id in doc.page_iter() {
            v.push(id);
            if v.len() > ITEM_CAP { capped = true; break; }
        }
        (v, capped)
    }));
    let seq = match r {
        Err(e) => { let m = pmsg(e); f.push((panic_obl(&m), format!("page_iter panicked: {}", m), "panic".into())); None }
        Ok((v, true)) => { f.push(("terminates".into(), format!("page_iter yielded more than {} items", ITEM_CAP), ids_str(&v))); None }
        Ok((v, false)) => Some(v),
    };
    if let Some(seq) = &seq {
        match expect {
            Some(w) => { if seq.as_slice() != w { f.push(("page-order".into(), order_detail("page_iter", seq, w), ids_str(seq))); } }
            None => only_pages("page_iter", seq, &mut f),
        }
    }
    // 2. get_pages: numbered 1..n
    match catch_unwind(AssertUnwindSafe(|| doc.get_pages())) {
        Err(e) => { let m = pmsg(e); f.push((panic_obl(&m), format!("get_pages panicked: {}", m), "panic".into())) }
        Ok(m) => {
            let keys: Vec<u32> = m.keys().cloned().collect();
            let vals: Vec<ObjectId> = m.values().cloned().collect();
            let contiguous = keys.iter().enumerate().all(|(i, k)| *k as usize == i + 1);
            if !contiguous { f.push(("page-numbering".into(), "get_pages: page numbers are not exactly 1..n".into(), format!("{:?}", keys.iter().take(40).collect::<Vec<_>>()))); }
            match expect {
                Some(w) => { if vals.as_slice() != w { f.push(("page-numbering".into(), order_detail("get_pages", &vals, w), ids_str(&vals))); } }
                None => {
                    only_pages("get_pages", &vals, &mut f);
                    if let Some(seq) = &seq { if &vals != seq { f.push(("page-numbering".into(), "get_pages: page number k is not the k-th item of page_iter".into(), ids_str(&vals))); } }
                }
            }
        }
    }
    // 3. the iterator consumed by collect() (uses size_hint, which reads /Count)
    match catch_unwind(AssertUnwindSafe(|| doc.page_iter().collect::<Vec<ObjectId>>())) {
        Err(e) => { let m = pmsg(e); f.push((panic_obl(&m), format!("page_iter().collect::<Vec<_>>() panicked: {}", m), "panic".into())) }
        Ok(v) => match expect {
            Some(w) => { if v.as_slice() != w { f.push(("page-order".into(), order_detail("page_iter().collect()", &v, w), ids_str(&v))); } }
            None => only_pages("page_iter().collect()", &v, &mut f),
        },
    }
    f
}

// ---------------------------------------------------------------------------------------------------------
// serialisation of a case (for failures, the child process and replay)
// ---------------------------------------------------------------------------------------------------------
pub fn case_json(c: &Case) -> Value {
    json!({
        "desc": c.desc,
        "child": c.child,
        "trailer": obj_json(&Object::Dictionary(c.doc.trailer.clone())),
        "objects": c.doc.objects.iter().map(|(id, o)| json!({"id": id.0, "gen": id.1, "obj": obj_json(o)})).collect::<Vec<_>>(),
        "expect": match &c.expect { Some(v) => json!(v.iter().map(|i| json!([i.0, i.1])).collect::<Vec<_>>()), None => Value::Null },
    })
}
pub fn case_from_json(v: &Value) -> Case {
    let mut doc = new_doc();
    if let Object::Dictionary(t) = obj_from_json(&v["trailer"]) { doc.trailer = t; }
    for e in v["objects"].as_array().cloned().unwrap_or_default() {
        put(&mut doc, (e["id"].as_u64().unwrap_or(0) as u32, e["gen"].as_u64().unwrap_or(0) as u16), obj_from_json(&e["obj"]));
    }
    let expect = v["expect"].as_array().map(|a| a.iter().map(|p| (p[0].as_u64().unwrap_or(0) as u32, p[1].as_u64().unwrap_or(0) as u16)).collect());
    Case { desc: v["desc"].as_str().unwrap_or("").to_string(), doc, expect, child: v["child"].as_bool().unwrap_or(false) }
}


// ---------------------------------------------------------------------------------------------------------
// well-formed trees: strings over 'p' (page leaf) and '(' ... ')' (intermediate node); the string is the
// Kids list of the root
// ---------------------------------------------------------------------------------------------------------
/// forests[n] = all forests with exactly n nodes (large Schroeder numbers: 1, 2, 6, 22, 90, 394, 1806, 8558, 41586, 206098)
fn forests(max_n: usize) -> Vec<Vec<String>> {
    let mut f: Vec<Vec<String>> = vec![vec![String::new()]];
    for n in 1..=max_n {
        let mut cur = vec![];
        for s in 1..=n {
            // first tree has s nodes, the rest is a forest of n - s nodes
            let mut firsts: Vec<String> = vec![];
            if s == 1 { firsts.push("p".into()); }
            for inner in &f[s - 1] { firsts.push(format!("({})", inner)); }
            for a in &firsts {
                for b in &f[n - s] { cur.push(format!("{}{}", a, b)); }
            }
        }
        f.push(cur);
    }
    f
}

struct Node { page: bool, kids: Vec<usize> }
/// nodes in preorder; returns (nodes, kids of the root)
fn parse_forest(s: &str) -> (Vec<Node>, Vec<usize>) {
    let mut nodes: Vec<Node> = vec![];
    let mut root: Vec<usize> = vec![];
    let mut stack: Vec<usize> = vec![];
    for c in s.bytes() {
        match c {
            b'p' | b'(' => {
                let j = nodes.len();
                nodes.push(Node { page: c == b'p', kids: vec![] });
                match stack.last() { Some(&p) => nodes[p].kids.push(j), None => root.push(j) }
                if c == b'(' { stack.push(j); }
            }
            b')' => { stack.pop(); }
            _ => {}
        }
    }
    (nodes, root)
}

pub const LAYOUTS: usize = 4;
pub const KIDMODES: usize = 4;
/// id of node j (preorder index) of n, of the root and of the catalog
fn layout_ids(layout: usize, n: usize) -> (Vec<ObjectId>, ObjectId, ObjectId) {
    let n32 = n as u32;
    match layout {
        // preorder ids
        0 => ((0..n32).map(|j| (3 + j, 0)).collect(), (2, 0), (1, 0)),
        // ids descend along the preorder, root and catalog have the largest ids
        1 => ((0..n32).map(|j| (n32 - j, 0)).collect(), (n32 + 1, 0), (n32 + 2, 0)),
        // sparse, scattered ids with generations 0, 1, 65535
        2 => {
            let m = (n.max(1)).next_power_of_two() as u64;
            let gens = [0u16, 1, 65535];
            ((0..n as u64).map(|j| ((100 + ((j * 7) % m) * 3) as u32, gens[(j % 3) as usize])).collect(), (7, 2), (50, 0))
        }
        // colliding object numbers: three nodes share a number and differ in generation; root and catalog share number 5
        _ => ((0..n32).map(|j| (20 + j / 3, (j % 3) as u16)).collect(), (5, 0), (5, 1)),
    }
}

/// how the Kids array of the k-th intermediate node (k = 0 is the root) is held
fn kids_value(doc: &mut Document, mode: usize, k: usize, arr: Object) -> Object {
    let base = 1_000_000 + 2 * k as u32;
    let level = match mode { 0 => 0, 1 => 1, 2 => (k + 1) % 2, _ => if k % 2 == 0 { 2 } else { 0 } };
    match level {
        0 => arr,
        1 => { put(doc, (base, 0), arr); r0(base) }
        _ => { put(doc, (base, 0), arr); put(doc, (base + 1, 0), r0(base)); r0(base + 1) }
    }
}

/// `counts`: None = correct /Count everywhere; Some(f) = f(k, correct) gives the /Count entry of the k-th intermediate node (None = absent)
fn build_tree(s: &str, layout: usize, mode: usize, counts: Option<&dyn Fn(usize, i64, &mut Document) -> Option<Object>>) -> (Document, Vec<ObjectId>) {
    let (nodes, rootkids) = parse_forest(s);
    let n = nodes.len();
    let (ids, root, cat) = layout_ids(layout, n);
    let mut doc = new_doc();
    // leaf counts, parents
    let mut leaves = vec![0i64; n];
    for j in (0..n).rev() { leaves[j] = if nodes[j].page { 1 } else { nodes[j].kids.iter().map(|&c| leaves[c]).sum() }; }
    let mut parent = vec![root; n];
    for j in 0..n { for &c in &nodes[j].kids { parent[c] = ids[j]; } }
    let mut k = 0usize; // running index of intermediate nodes, root first
    let count_obj = |k: usize, correct: i64, doc: &mut Document| match counts { None => Some(Object::Integer(correct)), Some(f) => f(k, correct, doc) };
    let total: i64 = rootkids.iter().map(|&c| leaves[c]).sum();
    let arr = refs(&rootkids.iter().map(|&c| ids[c]).collect::<Vec<_>>());
    let kv = kids_value(&mut doc, mode, k, arr);
    let mut rd = d(vec![("Type", nm("Pages")), ("Kids", kv)]);
    if let Some(c) = count_obj(k, total, &mut doc) { rd.set("Count", c); }
    put(&mut doc, root, Object::Dictionary(rd));
    for j in 0..n {
        if nodes[j].page {
            put(&mut doc, ids[j], Object::Dictionary(d(vec![("Type", nm("Page")), ("Parent", rf(parent[j])), ("MediaBox", Object::Array(vec![0.into(), 0.into(), 10.into(), 10.into()]))])));
        } else {
            k += 1;
            let arr = refs(&nodes[j].kids.iter().map(|&c| ids[c]).collect::<Vec<_>>());
            let kv = kids_value(&mut doc, mode, k, arr);
            let mut nd = d(vec![("Type", nm("Pages")), ("Parent", rf(parent[j])), ("Kids", kv)]);
            if let Some(c) = count_obj(k, leaves[j], &mut doc) { nd.set("Count", c); }
            put(&mut doc, ids[j], Object::Dictionary(nd));
        }
    }
    put(&mut doc, cat, Object::Dictionary(d(vec![("Type", nm("Catalog")), ("Pages", rf(root))])));
    doc.trailer.set("Root", rf(cat));
    let expect: Vec<ObjectId> = (0..n).filter(|&j| nodes[j].page).map(|j| ids[j]).collect();
    (doc, expect)
}

fn short(s: &str) -> String { if s.len() > 80 { format!("{}...({} chars)", &s[..60], s.len()) } else { s.to_string() } }

fn wf_case(s: &str, layout: usize, mode: usize, via_file: bool) -> Case {
    let (mut doc, expect) = build_tree(s, layout, mode, None);
    let mut desc = format!("well-formed tree kids={} id-layout={} kids-mode={}", short(s), layout, mode);
    if via_file {
        desc.push_str(" via save+load_mem");
        let mut bytes = vec![];
        let loaded = catch_unwind(AssertUnwindSafe(|| { doc.save_to(&mut bytes).ok()?; Document::load_mem(&bytes).ok() }));
        match loaded {
            Ok(Some(l)) => doc = l,
            _ => { FALLBACKS.fetch_add(1, Ordering::SeqCst); desc.push_str(" (save/load failed: checked in memory)") }
        }
    }
    Case { desc, doc, expect: Some(expect), child: false }
}


// ---------------------------------------------------------------------------------------------------------
// deep and wide well-formed trees
// ---------------------------------------------------------------------------------------------------------
pub const DEEP_SHAPES: usize = 6;
fn deep_string(shape: usize, dep: usize) -> String {
    let (open, close) = match shape { 0 => ("(", ")"), 1 => ("(", ")p"), 2 => ("p(", ")"), 3 => ("p(", ")p"), 4 => ("(", ")()"), _ => ("()(", ")") };
    format!("{}p{}", open.repeat(dep), close.repeat(dep))
}
fn deep_case(shape: usize, dep: usize, layout: usize, mode: usize) -> Case {
    let s = deep_string(shape, dep);
    let (doc, expect) = build_tree(&s, layout, mode, None);
    let within = dep <= DEPTH_LIMIT;
    Case { desc: format!("deep tree shape={} ({} levels of intermediate nodes below the root, {}) id-layout={} kids-mode={}", shape, dep, if within { "within the depth limit" } else { "beyond the depth limit: weak obligations only" }, layout, mode),
           doc, expect: if within { Some(expect) } else { None }, child: false }
}
pub const FAN_PATTERNS: usize = 6;
fn fan_string(pattern: usize, k: usize) -> String {
    match pattern { 0 => "p".repeat(k), 1 => "p()".repeat(k), 2 => "(p)".repeat(k), 3 => format!("{}p", "()".repeat(k)), 4 => format!("({})", "p".repeat(k)), _ => "(p(p))".repeat(k) }
}
fn fan_case(pattern: usize, k: usize, layout: usize, mode: usize) -> Case {
    let mut c = wf_case(&fan_string(pattern, k), layout, mode, false);
    c.desc = format!("wide tree pattern={} fan-out={} id-layout={} kids-mode={}", pattern, k, layout, mode);
    c
}

// ---------------------------------------------------------------------------------------------------------
// malformed 1: reference graphs (cycles, shared nodes, dangling kids, the catalog as a kid)
// catalog 1, root 2, slots 3..2+m; every slot is a page or an intermediate node with a Kids list over
// { 1 0 R, 2 0 R, slots, 9 0 R (absent) }
// ---------------------------------------------------------------------------------------------------------
#[derive(Clone, Copy)]
pub struct GraphFam { slots: usize, root_len: usize, node_len: usize }
fn pow(b: u64, e: usize) -> u64 { (0..e).fold(1, |a, _| a * b) }
fn lists_upto(t: u64, l: usize) -> u64 { (0..=l).map(|i| pow(t, i)).sum() }
fn decode_list(mut idx: u64, t: u64, alphabet: &[u32]) -> Vec<u32> {
    let mut len = 0;
    while idx >= pow(t, len) { idx -= pow(t, len); len += 1; }
    let mut v = vec![];
    for _ in 0..len { v.push(alphabet[(idx % t) as usize]); idx /= t; }
    v.reverse();
    v
}
impl GraphFam {
    fn alphabet(&self) -> Vec<u32> { let mut a: Vec<u32> = vec![1, 2]; a.extend((0..self.slots as u32).map(|i| 3 + i)); a.push(9); a }
    fn count(&self) -> u64 {
        let t = self.alphabet().len() as u64;
        lists_upto(t, self.root_len) * pow(1 + lists_upto(t, self.node_len), self.slots)
    }
    fn case(&self, mut idx: u64) -> Case {
        let a = self.alphabet();
        let t = a.len() as u64;
        let nr = lists_upto(t, self.root_len);
        let opt = 1 + lists_upto(t, self.node_len);
        let root = decode_list(idx % nr, t, &a);
        idx /= nr;
        let mut doc = new_doc();
        let mut desc = format!("reference graph: root 2 Kids={:?}", root);
        put(&mut doc, (1, 0), Object::Dictionary(d(vec![("Type", nm("Catalog")), ("Pages", r0(2))])));
        put(&mut doc, (2, 0), Object::Dictionary(d(vec![("Type", nm("Pages")), ("Kids", Object::Array(root.iter().map(|&x| r0(x)).collect())), ("Count", 1.into())])));
        for sidx in 0..self.slots {
            let o = idx % opt;
            idx /= opt;
            let id = 3 + sidx as u32;
            if o == 0 {
                put(&mut doc, (id, 0), Object::Dictionary(d(vec![("Type", nm("Page")), ("Parent", r0(2))])));
                desc.push_str(&format!("; {} page", id));
            } else {
                let l = decode_list(o - 1, t, &a);
                desc.push_str(&format!("; {} Pages Kids={:?}", id, l));
                put(&mut doc, (id, 0), Object::Dictionary(d(vec![("Type", nm("Pages")), ("Parent", r0(2)), ("Kids", Object::Array(l.iter().map(|&x| r0(x)).collect())), ("Count", 1.into())])));
            }
        }
        desc.push_str(" (1 = catalog, 9 = absent)");
        doc.trailer.set("Root", r0(1));
        Case { desc, doc, expect: None, child: false }
    }
}

// ---------------------------------------------------------------------------------------------------------
// malformed 2: ill-typed / missing / unusual nodes as kids of the root, and unusual roots
// ---------------------------------------------------------------------------------------------------------
pub const KINDS: usize = 37;
pub const ROOTS: usize = 13;
const KIND_NAMES: [&str; KINDS] = ["page", "pages[page]", "pages[]", "dict-without-Type+Kids", "Type=/Font", "Type=7", "Type=(Page)string", "Type=/page", "Pages-without-Kids", "Pages-Kids=5",
    "Pages-Kids->integer", "Pages-Kids->absent", "Pages-Kids=dict", "integer-object", "null-object", "array-object", "name-object-/Page", "stream-Type-Page", "stream-Type-Pages+Kids", "alias->page",
    "alias->pages", "alias->itself", "alias-loop-of-2", "dangling-ref", "entry=null", "entry=integer", "entry=inline-page-dict", "entry=inline-pages-dict", "entry=array-of-refs", "ref-to-root",
    "ref-to-catalog", "pages-containing-itself", "pages[root,page]", "second-ref-to-object-10", "page-with-Kids", "ref-with-wrong-generation", "alias-chain-of-200->page"];
const ROOT_NAMES: [&str; ROOTS] = ["normal", "root-Kids-behind-ref", "root-without-Type", "root-Type-Page", "root-is-stream", "catalog-Pages-inline-dict", "catalog-Pages->alias->root", "trailer-without-Root",
    "trailer-Root-inline-dict", "catalog-without-Type", "catalog-absent", "Pages-ref-absent", "catalog-is-the-root"];

fn page_obj(parent: u32) -> Object { Object::Dictionary(d(vec![("Type", nm("Page")), ("Parent", r0(parent))])) }
fn pages_obj(parent: u32, kids: Object) -> Object { Object::Dictionary(d(vec![("Type", nm("Pages")), ("Parent", r0(parent)), ("Kids", kids), ("Count", 1.into())])) }

/// puts the objects of one kid at ids b.. and returns the entry for the root's Kids array
fn kid_kind(doc: &mut Document, kind: usize, b: u32, root: u32, cat: u32) -> Object {
    let one = |x: u32| Object::Array(vec![r0(x)]);
    match kind {
        0 => { put(doc, (b, 0), page_obj(root)); r0(b) }
        1 => { put(doc, (b, 0), pages_obj(root, one(b + 1))); put(doc, (b + 1, 0), page_obj(b)); r0(b) }
        2 => { put(doc, (b, 0), pages_obj(root, Object::Array(vec![]))); r0(b) }
        3 => { put(doc, (b, 0), Object::Dictionary(d(vec![("Kids", one(b + 1))]))); put(doc, (b + 1, 0), page_obj(b)); r0(b) }
        4 => { put(doc, (b, 0), Object::Dictionary(d(vec![("Type", nm("Font")), ("Kids", one(b + 1))]))); put(doc, (b + 1, 0), page_obj(b)); r0(b) }
        5 => { put(doc, (b, 0), Object::Dictionary(d(vec![("Type", 7.into())]))); r0(b) }
        6 => { put(doc, (b, 0), Object::Dictionary(d(vec![("Type", Object::string_literal("Page"))]))); r0(b) }
        7 => { put(doc, (b, 0), Object::Dictionary(d(vec![("Type", nm("page"))]))); r0(b) }
        8 => { put(doc, (b, 0), Object::Dictionary(d(vec![("Type", nm("Pages")), ("Count", 3.into())]))); r0(b) }
        9 => { put(doc, (b, 0), pages_obj(root, 5.into())); r0(b) }
        10 => { put(doc, (b, 0), pages_obj(root, r0(b + 1))); put(doc, (b + 1, 0), 5.into()); r0(b) }
        11 => { put(doc, (b, 0), pages_obj(root, r0(b + 5))); r0(b) }
        12 => { put(doc, (b, 0), pages_obj(root, Object::Dictionary(d(vec![("Type", nm("Page"))])))); r0(b) }
        13 => { put(doc, (b, 0), 3.into()); r0(b) }
        14 => { put(doc, (b, 0), Object::Null); r0(b) }
        15 => { put(doc, (b, 0), one(b + 1)); put(doc, (b + 1, 0), page_obj(root)); r0(b) }
        16 => { put(doc, (b, 0), nm("Page")); r0(b) }
        17 => { put(doc, (b, 0), Object::Stream(Stream::new(d(vec![("Type", nm("Page"))]), b"q Q".to_vec()))); r0(b) }
        18 => { put(doc, (b, 0), Object::Stream(Stream::new(d(vec![("Type", nm("Pages")), ("Kids", one(b + 1))]), vec![]))); put(doc, (b + 1, 0), page_obj(b)); r0(b) }
        19 => { put(doc, (b, 0), r0(b + 1)); put(doc, (b + 1, 0), page_obj(root)); r0(b) }
        20 => { put(doc, (b, 0), r0(b + 1)); put(doc, (b + 1, 0), pages_obj(root, one(b + 2))); put(doc, (b + 2, 0), page_obj(b + 1)); r0(b) }
        21 => { put(doc, (b, 0), r0(b)); r0(b) }
        22 => { put(doc, (b, 0), r0(b + 1)); put(doc, (b + 1, 0), r0(b)); r0(b) }
        23 => r0(b),
        24 => Object::Null,
        25 => 4.into(),
        26 => Object::Dictionary(d(vec![("Type", nm("Page")), ("Parent", r0(root))])),
        27 => { put(doc, (b + 1, 0), page_obj(root)); Object::Dictionary(d(vec![("Type", nm("Pages")), ("Kids", one(b + 1))])) }
        28 => { put(doc, (b + 1, 0), page_obj(root)); one(b + 1) }
        29 => r0(root),
        30 => r0(cat),
        31 => { put(doc, (b, 0), pages_obj(root, one(b))); r0(b) }
        32 => { put(doc, (b, 0), pages_obj(root, Object::Array(vec![r0(root), r0(b + 1)]))); put(doc, (b + 1, 0), page_obj(b)); r0(b) }
        33 => r0(10),
        34 => { put(doc, (b, 0), Object::Dictionary(d(vec![("Type", nm("Page")), ("Kids", one(b + 1))]))); put(doc, (b + 1, 0), page_obj(b)); r0(b) }
        35 => { put(doc, (b, 0), page_obj(root)); rf((b, 1)) }
        _ => {
            // 200 aliases in a row (more than the library's dereference limit of 128), then a page
            let base = 100_000 + b * 1000;
            put(doc, (b, 0), r0(base));
            for i in 0..200u32 { put(doc, (base + i, 0), r0(base + i + 1)); }
            put(doc, (base + 200, 0), page_obj(root));
            r0(b)
        }
    }
}

fn kinds_case(rootv: usize, kinds: &[usize]) -> Case {
    let mut doc = new_doc();
    let (cat, root) = (1u32, 2u32);
    let mut entries = vec![];
    for (i, &k) in kinds.iter().enumerate() { entries.push(kid_kind(&mut doc, k, 10 * (i as u32 + 1), root, cat)); }
    let kids = Object::Array(entries);
    let mut rootd = d(vec![("Type", nm("Pages")), ("Kids", kids.clone()), ("Count", (kinds.len() as i64).into())]);
    let mut catd = d(vec![("Type", nm("Catalog")), ("Pages", r0(root))]);
    doc.trailer.set("Root", r0(cat));
    let mut put_cat = true;
    let mut put_root = true;
    let mut root_obj: Option<Object> = None;
    match rootv {
        0 => {}
        1 => { put(&mut doc, (3, 0), kids.clone()); rootd.set("Kids", r0(3)); }
        2 => { rootd.remove(b"Type"); }
        3 => { rootd.set("Type", nm("Page")); }
        4 => { root_obj = Some(Object::Stream(Stream::new(rootd.clone(), vec![]))); }
        5 => { catd.set("Pages", Object::Dictionary(rootd.clone())); put_root = false; }
        6 => { put(&mut doc, (4, 0), r0(root)); catd.set("Pages", r0(4)); }
        7 => { doc.trailer.remove(b"Root"); }
        8 => { doc.trailer.set("Root", Object::Dictionary(catd.clone())); put_cat = false; }
        9 => { catd.remove(b"Type"); }
        10 => { put_cat = false; }
        11 => { put_root = false; }
        _ => { rootd.set("Pages", r0(root)); doc.trailer.set("Root", r0(root)); put_cat = false; }
    }
    if put_root { put(&mut doc, (root, 0), root_obj.unwrap_or(Object::Dictionary(rootd))); }
    if put_cat { put(&mut doc, (cat, 0), Object::Dictionary(catd)); }
    let names: Vec<&str> = kinds.iter().map(|&k| KIND_NAMES[k]).collect();
    Case { desc: format!("unusual nodes: root variant '{}', root Kids entries = {:?} (entry i owns ids 10*i..)", ROOT_NAMES[rootv], names), doc, expect: None, child: false }
}

// ---------------------------------------------------------------------------------------------------------
// malformed 3: wrong /Count entries on otherwise well-formed trees
// ---------------------------------------------------------------------------------------------------------
pub const SMALL_COUNTS: usize = 11;
const BIG_COUNTS: [i64; 5] = [1 << 31, 10_000_000_000, 500_000_000_000_000_000, i64::MAX, -1]; // -1 here = i64::MAX held behind a reference
fn count_variant(v: usize, k: usize, correct: i64, doc: &mut Document) -> Option<Object> {
    match v {
        0 => None,
        1 => Some(0.into()),
        2 => Some((-1).into()),
        3 => Some((correct + 1).into()),
        4 => Some((correct - 1).into()),
        5 => Some(1000.into()),
        6 => Some(Object::Real(correct as f32 + 0.5)),
        7 => Some(nm("Many")),
        8 => { put(doc, (2_000_000 + k as u32, 0), correct.into()); Some(r0(2_000_000 + k as u32)) }
        9 => Some(r0(2_999_999)),
        _ => Some(i64::MIN.into()),
    }
}
/// target: 0 = every intermediate node, t > 0 = only the (t-1)-th intermediate node (root = 0)
fn counts_case(s: &str, variant: usize, target: usize, mode: usize) -> Case {
    let f = move |k: usize, correct: i64, doc: &mut Document| -> Option<Object> {
        if target == 0 || target - 1 == k { count_variant(variant, k, correct, doc) } else { Some(correct.into()) }
    };
    let (doc, _) = build_tree(s, 0, mode, Some(&f));
    Case { desc: format!("wrong Count: tree kids={} variant={} on {} kids-mode={}", s, ["absent", "0", "-1", "correct+1", "correct-1", "1000", "real", "name", "ref->correct", "ref->absent", "i64::MIN"][variant], if target == 0 { "every intermediate node".to_string() } else { format!("intermediate node #{} (root = #0)", target - 1) }, mode),
           doc, expect: None, child: false }
}
fn big_counts_case(s: &str, big: usize, target: usize) -> Case {
    let val = BIG_COUNTS[big];
    let f = move |k: usize, correct: i64, doc: &mut Document| -> Option<Object> {
        if target == 0 || target - 1 == k {
            if val < 0 { put(doc, (2_000_000 + k as u32, 0), i64::MAX.into()); Some(r0(2_000_000 + k as u32)) } else { Some(val.into()) }
        } else { Some(correct.into()) }
    };
    let (doc, _) = build_tree(s, 0, 0, Some(&f));
    Case { desc: format!("huge Count: tree kids={} Count={} on {}", s, if val < 0 { "reference to 9223372036854775807".to_string() } else { val.to_string() }, if target == 0 { "every intermediate node".to_string() } else { format!("intermediate node #{} (root = #0)", target - 1) }),
           doc, expect: None, child: true }
}


// ---------------------------------------------------------------------------------------------------------
// malformed 4 / well-formed: reference chains of every shape at every place of a tree
// A place is a dictionary entry of the trailer (Root), the catalog (Type, Pages), the root (Type, Kids, Count), an
// intermediate node (Type, Parent, Kids, Count), a page (Type, Parent), or one element of a Kids array. The value v
// standing there is moved into a new indirect object O, and the place gets a reference to A0 where A0 .. A(L-1) are
// L new indirect objects holding nothing but a reference: Ai -> A(i+1), and the last one -> `end`:
//   Back(i) = Ai (a tail of i objects running into a loop of L - i objects; i = 0 is the plain cycle through the start),
//   Orig = O (a finite chain that arrives at the original value), Absent = an object that does not exist, Root = the root.
// ---------------------------------------------------------------------------------------------------------
#[derive(Clone, Copy, PartialEq, Debug)]
pub enum ChainEnd { Back(usize), Orig, Absent, Root }
#[derive(Clone, Copy, Debug)]
pub struct Chain { hops: usize, end: ChainEnd }
#[derive(Clone, Debug)]
pub enum Place { Entry { obj: Option<ObjectId>, owner: String, key: &'static str }, Kid { parent: ObjectId, owner: String, pos: usize } }

const ALIAS_BASE: u32 = 3_000_000;
const ORIG_ID: ObjectId = (3_900_000, 0);
const ABSENT_ID: ObjectId = (3_900_001, 0);
pub const EXACT_HOPS: usize = 16; // finite chains of up to this many reference-only objects in front of Kids / Count / Parent: exact order demanded

/// all chains with 1..=max_small reference-only objects and every end; for each "long" length the ends Orig, Absent, Root
/// and the loops entered at the first, second, middle and last object
fn chains(max_small: usize, long: &[usize]) -> Vec<Chain> {
    let mut v = vec![];
    for hops in 1..=max_small {
        for i in 0..hops { v.push(Chain { hops, end: ChainEnd::Back(i) }); }
        for end in [ChainEnd::Orig, ChainEnd::Absent, ChainEnd::Root] { v.push(Chain { hops, end }); }
    }
    for &hops in long {
        let mut backs = vec![0, 1, hops / 2, hops - 1];
        backs.dedup();
        for i in backs { v.push(Chain { hops, end: ChainEnd::Back(i) }); }
        for end in [ChainEnd::Orig, ChainEnd::Absent, ChainEnd::Root] { v.push(Chain { hops, end }); }
    }
    v
}

/// the places of the tree `s` built with id layout 0 and direct Kids arrays (catalog 1, root 2, node j = 3 + j)
fn places(s: &str) -> Vec<Place> {
    let (nodes, rootkids) = parse_forest(s);
    let mut v = vec![];
    let e = |obj: Option<ObjectId>, owner: String, key: &'static str| Place::Entry { obj, owner, key };
    v.push(e(None, "trailer".into(), "Root"));
    for key in ["Type", "Pages"] { v.push(e(Some((1, 0)), "catalog 1 0".into(), key)); }
    for key in ["Type", "Kids", "Count"] { v.push(e(Some((2, 0)), "root 2 0".into(), key)); }
    let mut inner: Vec<(ObjectId, String, usize)> = vec![((2, 0), "root 2 0".into(), rootkids.len())]; // (id, name, number of kids)
    for (j, n) in nodes.iter().enumerate() {
        let id = (3 + j as u32, 0);
        if n.page {
            for key in ["Type", "Parent"] { v.push(e(Some(id), format!("page {} 0", id.0), key)); }
        } else {
            for key in ["Type", "Parent", "Kids", "Count"] { v.push(e(Some(id), format!("intermediate node {} 0", id.0), key)); }
            inner.push((id, format!("intermediate node {} 0", id.0), n.kids.len()));
        }
    }
    for (id, name, nk) in inner { for pos in 0..nk { v.push(Place::Kid { parent: id, owner: name.clone(), pos }); } }
    v
}

fn place_desc(p: &Place) -> String {
    match p {
        Place::Entry { owner, key, .. } => format!("the value of /{} of the {}", key, owner),
        Place::Kid { owner, pos, .. } => format!("element {} of the Kids array of the {}", pos, owner),
    }
}
fn chain_desc(c: &Chain) -> String {
    let end = match c.end {
        ChainEnd::Back(0) => format!("the last refers back to the first (cycle of {} through the start)", c.hops),
        ChainEnd::Back(i) => format!("the last refers back to object #{} of the chain (tail of {} then a loop of {} that does not contain the start)", i, i, c.hops - i),
        ChainEnd::Orig => "the last refers to an object holding the original value (finite chain)".to_string(),
        ChainEnd::Absent => "the last refers to an absent object".to_string(),
        ChainEnd::Root => "the last refers to the root node".to_string(),
    };
    format!("{} reference-only objects {}.. each referring to the next, {}", c.hops, ALIAS_BASE, end)
}

fn chain_case(s: &str, place: &Place, chain: &Chain) -> Case {
    let (mut doc, expect) = build_tree(s, 0, 0, None);
    let a0 = r0(ALIAS_BASE);
    // move the original value out and put the reference to the chain in its place
    let orig: Option<Object> = match place {
        Place::Entry { obj: None, key, .. } => { let o = dget(&doc.trailer, key.as_bytes()).cloned(); doc.trailer.set(key.as_bytes().to_vec(), a0); o }
        Place::Entry { obj: Some(id), key, .. } => match doc.objects.get_mut(id) {
            Some(Object::Dictionary(dict)) => { let o = dget(dict, key.as_bytes()).cloned(); dict.set(key.as_bytes().to_vec(), a0); o }
            _ => None,
        },
        Place::Kid { parent, pos, .. } => match doc.objects.get_mut(parent) {
            Some(Object::Dictionary(dict)) => match dict.get_mut(b"Kids") { Ok(Object::Array(a)) if *pos < a.len() => Some(std::mem::replace(&mut a[*pos], a0)), _ => None },
            _ => None,
        },
    };
    put(&mut doc, ORIG_ID, orig.unwrap_or(Object::Null));
    for i in 0..chain.hops {
        let target = if i + 1 < chain.hops { (ALIAS_BASE + i as u32 + 1, 0) } else {
            match chain.end { ChainEnd::Back(b) => (ALIAS_BASE + b as u32, 0), ChainEnd::Orig => ORIG_ID, ChainEnd::Absent => ABSENT_ID, ChainEnd::Root => (2, 0) }
        };
        put(&mut doc, (ALIAS_BASE + i as u32, 0), rf(target));
    }
    // a finite chain in front of Kids, Count or Parent leaves a well-formed tree (values held behind references)
    let transparent = matches!(place, Place::Entry { obj: Some(_), key, .. } if ["Kids", "Count", "Parent"].contains(key));
    let exact = transparent && chain.end == ChainEnd::Orig && chain.hops <= EXACT_HOPS;
    Case { desc: format!("reference chain: tree kids={}; {} is replaced by a reference to a chain of {} ({})", s, place_desc(place), chain_desc(chain), if exact { "well-formed: exact order demanded" } else { "weak obligations" }),
           doc, expect: if exact { Some(expect) } else { None }, child: false }
}


// ---------------------------------------------------------------------------------------------------------
// families
// ---------------------------------------------------------------------------------------------------------
pub struct Fam { name: &'static str, count: u64, make: Box<dyn Fn(u64) -> Case + Sync + Send> }

struct Bounds { wf_n: usize, file_n: usize, deep: Vec<usize>, fan: Vec<usize>, graphs: Vec<GraphFam>, kinds_triples_all_roots: bool, counts_n: usize, big_trees: Vec<&'static str>, chain_n: usize, chain_small: usize, chain_long: Vec<usize> }
fn bounds(thorough: bool) -> Bounds {
    if thorough {
        Bounds { wf_n: 9, file_n: 5, deep: (0..=300).chain([1000]).collect(), fan: (0..=40).chain([64, 255, 256, 257, 1000]).collect(),
                 graphs: vec![GraphFam { slots: 2, root_len: 3, node_len: 3 }, GraphFam { slots: 3, root_len: 2, node_len: 2 }], kinds_triples_all_roots: true, counts_n: 5,
                 big_trees: vec!["p", "(p)", "p(p)", "(p)p", "p(p)(p)", "p(p)(p)(p)", "pp((p)p)", "()p"],
                 chain_n: 5, chain_small: 10, chain_long: vec![127, 128, 129, 200] }
    } else {
        Bounds { wf_n: 7, file_n: 4, deep: (0..=12).chain([31, 32, 33, 34, 64, 128]).chain(253..=259).chain([300]).collect(), fan: (0..=12).chain([31, 32, 33, 64, 256, 1000]).collect(),
                 graphs: vec![GraphFam { slots: 2, root_len: 3, node_len: 2 }], kinds_triples_all_roots: false, counts_n: 4,
                 big_trees: vec!["(p)", "p(p)", "p(p)(p)(p)"],
                 chain_n: 4, chain_small: 6, chain_long: vec![127, 128, 129, 200] }
    }
}

fn families(thorough: bool) -> Vec<Fam> {
    let b = bounds(thorough);
    let mut out: Vec<Fam> = vec![];
    let fo = forests(b.wf_n);
    // 1. all well-formed trees
    let all: Arc<Vec<String>> = Arc::new(fo.iter().flatten().cloned().collect());
    let per = (LAYOUTS * KIDMODES) as u64;
    { let all = all.clone(); out.push(Fam { name: "well-formed", count: all.len() as u64 * per, make: Box::new(move |i| { let v = (i % per) as usize; wf_case(&all[(i / per) as usize], v / KIDMODES, v % KIDMODES, false) }) }); }
    // 2. the same through a saved and re-loaded file
    let small: Arc<Vec<String>> = Arc::new(fo.iter().take(b.file_n + 1).flatten().cloned().collect());
    { let small = small.clone(); out.push(Fam { name: "well-formed-via-file", count: small.len() as u64 * 8, make: Box::new(move |i| { let v = (i % 8) as usize; wf_case(&small[(i / 8) as usize], v / 4, v % 4, true) }) }); }
    // 3. deep
    let mut deep: Vec<(usize, usize, usize, usize)> = vec![];
    for &dep in &b.deep { for sh in 0..DEEP_SHAPES { for (l, m) in [(0, 0), (1, 1), (2, 2), (3, 3)] { deep.push((sh, dep, l, m)); } } }
    out.push(Fam { name: "deep", count: deep.len() as u64, make: Box::new(move |i| { let (s, dd, l, m) = deep[i as usize]; deep_case(s, dd, l, m) }) });
    // 4. wide
    let mut fan: Vec<(usize, usize, usize, usize)> = vec![];
    for &k in &b.fan { for p in 0..FAN_PATTERNS { for (l, m) in [(0, 0), (1, 1), (2, 2), (3, 3)] { fan.push((p, k, l, m)); } } }
    out.push(Fam { name: "wide", count: fan.len() as u64, make: Box::new(move |i| { let (p, k, l, m) = fan[i as usize]; fan_case(p, k, l, m) }) });
    // 5. reference graphs
    for g in b.graphs.clone() { out.push(Fam { name: "reference-graph", count: g.count(), make: Box::new(move |i| g.case(i)) }); }
    // 6. unusual nodes
    let kk = KINDS as u64;
    if b.kinds_triples_all_roots {
        out.push(Fam { name: "unusual-nodes-triples", count: kk * kk * kk * ROOTS as u64, make: Box::new(move |i| { let r = (i % ROOTS as u64) as usize; let j = i / ROOTS as u64; kinds_case(r, &[(j / (kk * kk)) as usize, ((j / kk) % kk) as usize, (j % kk) as usize]) }) });
    } else {
        out.push(Fam { name: "unusual-nodes-triples", count: kk * kk * kk, make: Box::new(move |j| kinds_case(0, &[(j / (kk * kk)) as usize, ((j / kk) % kk) as usize, (j % kk) as usize])) });
    }
    out.push(Fam { name: "unusual-nodes-pairs", count: kk * kk * ROOTS as u64, make: Box::new(move |i| { let r = (i % ROOTS as u64) as usize; let j = i / ROOTS as u64; kinds_case(r, &[(j / kk) as usize, (j % kk) as usize]) }) });
    out.push(Fam { name: "unusual-nodes-single", count: (kk + 1) * ROOTS as u64, make: Box::new(move |i| { let r = (i % ROOTS as u64) as usize; let j = i / ROOTS as u64; if j == kk { kinds_case(r, &[]) } else { kinds_case(r, &[j as usize]) } }) });
    // 7. wrong counts
    let mut cs: Vec<(String, usize, usize, usize)> = vec![];
    for s in fo.iter().take(b.counts_n + 1).flatten() {
        let inter = 1 + s.bytes().filter(|&c| c == b'(').count();
        for v in 0..SMALL_COUNTS { for t in 0..=inter { for m in [0, 1] { cs.push((s.clone(), v, t, m)); } } }
    }
    out.push(Fam { name: "wrong-counts", count: cs.len() as u64, make: Box::new(move |i| { let (s, v, t, m) = &cs[i as usize]; counts_case(s, *v, *t, *m) }) });
    // 8. huge counts (child processes)
    let mut bc: Vec<(&'static str, usize, usize)> = vec![];
    for s in &b.big_trees {
        let inter = 1 + s.bytes().filter(|&c| c == b'(').count();
        for v in 0..BIG_COUNTS.len() { for t in 0..=inter { bc.push((s, v, t)); } }
    }
    out.push(Fam { name: "huge-counts", count: bc.len() as u64, make: Box::new(move |i| { let (s, v, t) = bc[i as usize]; big_counts_case(s, v, t) }) });
    // 9. reference chains of every shape at every place of a tree (last: a chain that is followed forever cuts the run short)
    let ctrees: Arc<Vec<(String, Vec<Place>)>> = Arc::new(fo.iter().take(b.chain_n + 1).flatten().map(|s| (s.clone(), places(s))).collect());
    let chs: Arc<Vec<Chain>> = Arc::new(chains(b.chain_small, &b.chain_long));
    let mut cc: Vec<(u32, u16)> = vec![]; // (tree, place)
    for (ti, (_, pl)) in ctrees.iter().enumerate() { for pi in 0..pl.len() { cc.push((ti as u32, pi as u16)); } }
    let nch = chs.len() as u64;
    out.push(Fam { name: "reference-chains", count: cc.len() as u64 * nch, make: Box::new(move |i| { let (ti, pi) = cc[(i / nch) as usize]; let (s, pl) = &ctrees[ti as usize]; chain_case(s, &pl[pi as usize], &chs[(i % nch) as usize]) }) });
    out
}

fn bound_string(thorough: bool) -> String {
    let b = bounds(thorough);
    let g: Vec<String> = b.graphs.iter().map(|g| format!("{} slots, root Kids list of length <= {}, slot Kids lists of length <= {}", g.slots, g.root_len, g.node_len)).collect();
    format!("page trees as documents built in memory (catalog -> root -> Kids), APIs page_iter (pulled by hand and via collect) and get_pages. \
(1) ALL well-formed trees with <= {} nodes below the root (node = page leaf or intermediate node with >= 0 kids, incl. empty intermediate nodes, pages and intermediates interleaved; with Parent and correct Count) x 4 id layouts (preorder; descending; sparse with generations 0/1/65535; colliding numbers differing only in generation) x 4 ways of holding Kids (direct; behind a reference; alternating; behind two references): exact order demanded; \
(2) the trees with <= {} nodes x 2 id layouts x 4 Kids modes after save_to + load_mem: exact order; \
(3) deep trees: 6 chain shapes (single kid; sibling page after / before / both; empty sibling after / before) x depths {} of intermediate levels below the root x 4 layout/Kids combinations: exact order up to depth 256 = PAGE_TREE_DEPTH_LIMIT, weak obligations beyond; \
(4) wide trees: 6 patterns x fan-out {} x 4 layout/Kids combinations: exact order; \
(5) malformed reference graphs: catalog 1, root 2, k slots each a page or an intermediate node, every Kids list over {{catalog, root, every slot, an absent object}} (cycles, self loops, shared nodes, dangling kids): all graphs with [{}]; \
(6) unusual nodes: root Kids = every {} of {} kid kinds (ill-typed/missing Type, Kids missing/ill-typed/dangling, non-dictionary objects, streams, alias objects and alias loops, inline entries, back references, wrong generation, 200-long alias chain) under {} root/catalog variants, plus every pair and single under all 13 root/catalog variants; \
(7) wrong Count: all trees with <= {} nodes x 11 Count variants (absent, 0, -1, off by one, 1000, real, name, behind a reference, dangling reference, i64::MIN) on each single intermediate node and on all x 2 Kids modes; \
(8) huge Count (2^31, 10^10, 5*10^17, i64::MAX, i64::MAX behind a reference) on {} small trees, each in a child process; \
(9) reference chains: all trees with <= {} nodes x every place where a value stands (trailer Root; catalog Type, Pages; root Type, Kids, Count; every intermediate node's Type, Parent, Kids, Count; every page's Type, Parent; every element of every Kids array) x every chain shape: the value is moved into a new indirect object O and the place refers to the first of L new indirect objects that hold nothing but a reference to the next, the last one referring to [the i-th of them, every 0 <= i < L (tail of i running into a loop of L - i; i = 0 is the cycle through the start) | O (finite chain) | an absent object | the root], every L in 1..={}, and L in {:?} with i in {{0, 1, L/2, L-1}} ({} shapes): exact order demanded when the chain is finite with L <= {} and stands for the value of Kids, Count or Parent (a well-formed tree whose values are held behind references), weak obligations otherwise. \
Malformed families (5)-(9) and beyond-limit depths: terminates (item cap {} and {} s watchdog), yields only page objects that occur in a Kids array under the root, numbers 1..n, no panic, no abort.",
        b.wf_n, b.file_n, if thorough { "0..=300 and 1000".to_string() } else { format!("{:?}", b.deep) }, if thorough { "0..=40, 64, 255, 256, 257, 1000".to_string() } else { format!("{:?}", b.fan) },
        g.join("; "), "triple", KINDS, if b.kinds_triples_all_roots { "all 13" } else { "the normal" }, b.counts_n, b.big_trees.len(),
        b.chain_n, b.chain_small, b.chain_long, chains(b.chain_small, &b.chain_long).len(), EXACT_HOPS, ITEM_CAP, HANG_MS / 1000)
}

// ---------------------------------------------------------------------------------------------------------
// child process for cases that may abort the process
// ---------------------------------------------------------------------------------------------------------
fn fails_json(f: &Fails) -> Value { json!(f.iter().map(|(a, b, c)| json!([a, b, c])).collect::<Vec<_>>()) }
fn child_main(arg: &str) -> ! {
    std::panic::set_hook(Box::new(|_| {}));
    let v: Value = serde_json::from_str(arg).unwrap_or(Value::Null);
    let c = case_from_json(&v);
    let f = check(&c.doc, c.expect.as_deref());
    println!("{}", json!({"c12child": fails_json(&f)}));
    std::process::exit(0);
}
fn run_child(input: &Value) -> Fails {
    let exe = match std::env::current_exe() { Ok(e) => e, Err(e) => return vec![("child-spawn".into(), e.to_string(), String::new())] };
    let mut ch = match std::process::Command::new(exe).arg(STEP).arg("--c12-child").arg(input.to_string()).env("RUST_BACKTRACE", "0")
        .stdin(std::process::Stdio::null()).stdout(std::process::Stdio::piped()).stderr(std::process::Stdio::piped()).spawn() {
        Ok(c) => c, Err(e) => return vec![("child-spawn".into(), e.to_string(), String::new())] };
    let t0 = Instant::now();
    loop {
        match ch.try_wait() {
            Ok(Some(_)) => break,
            Ok(None) => {
                if t0.elapsed() > Duration::from_millis(2 * HANG_MS) { let _ = ch.kill(); let _ = ch.wait(); return vec![("terminates".into(), format!("no result within {} s (child process killed)", 2 * HANG_MS / 1000), "timeout".into())]; }
                std::thread::sleep(Duration::from_millis(2));
            }
            Err(e) => return vec![("child-spawn".into(), e.to_string(), String::new())],
        }
    }
    let out = match ch.wait_with_output() { Ok(o) => o, Err(e) => return vec![("child-spawn".into(), e.to_string(), String::new())] };
    let so = String::from_utf8_lossy(&out.stdout).to_string();
    let se = String::from_utf8_lossy(&out.stderr).to_string();
    if let Some(line) = so.lines().find(|l| l.contains("c12child")) {
        if let Ok(v) = serde_json::from_str::<Value>(line) {
            return v["c12child"].as_array().cloned().unwrap_or_default().iter().map(|e| (e[0].as_str().unwrap_or("").to_string(), e[1].as_str().unwrap_or("").to_string(), e[2].as_str().unwrap_or("").to_string())).collect();
        }
    }
    let tail: String = se.lines().filter(|l| !l.trim().is_empty()).take(2).collect::<Vec<_>>().join(" | ");
    vec![("no-abort".into(), format!("enumerating the pages killed the process ({}): {}", out.status, tail), format!("{}", out.status))]
}

// ---------------------------------------------------------------------------------------------------------
// runner with a watchdog for hangs
// ---------------------------------------------------------------------------------------------------------
#[derive(Default)]
struct Acc { evals: u64, nontrivial: u64, fails: Vec<(u64, Failure)>, samples: Vec<String> }
impl Acc {
    fn add_fail(&mut self, idx: u64, f: Failure) {
        self.fails.push((idx, f));
    }
    fn trim(&mut self) {
        self.fails.sort_by_key(|x| x.0);
        let mut kept: Vec<(u64, Failure)> = vec![];
        for (i, f) in self.fails.drain(..) { if kept.iter().filter(|k| k.1.obligation == f.obligation).count() < 3 { kept.push((i, f)); } }
        self.fails = kept;
    }
    fn merge(mut self, o: Acc) -> Acc {
        self.evals += o.evals;
        self.nontrivial += o.nontrivial;
        self.fails.extend(o.fails);
        self.trim();
        for s in o.samples { if self.samples.len() < 2 { self.samples.push(s); } }
        self
    }
}

fn eval_case(c: &Case) -> (Fails, bool) {
    let nontrivial = match &c.expect { Some(e) => !e.is_empty(), None => !reachable(&c.doc).is_empty() };
    if c.child { (run_child(&case_json(c)), nontrivial) } else { (check(&c.doc, c.expect.as_deref()), nontrivial) }
}

struct Watch { slots: Vec<(AtomicU64, AtomicU64)>, t0: Instant, evals: AtomicU64, done: AtomicU64, found: std::sync::Mutex<Vec<Failure>> }

pub fn run(thorough: bool) -> Report {
    let args: Vec<String> = std::env::args().collect();
    if let Some(j) = arg_val(&args, "--c12-child") { child_main(&j); }
    let bound = bound_string(thorough);
    let mut rep = Report::new(&bound, true);
    rep.obligations = 7; // page-order, page-numbering, only-pages, terminates, no-panic, no-arith-overflow, no-abort
    let fams = Arc::new(families(thorough));
    let prev_hook = std::panic::take_hook();
    std::panic::set_hook(Box::new(|_| {}));
    let nthreads = rayon::current_num_threads();
    let watch = Arc::new(Watch { slots: (0..nthreads + 1).map(|_| (AtomicU64::new(0), AtomicU64::new(0))).collect(), t0: Instant::now(), evals: AtomicU64::new(0), done: AtomicU64::new(0), found: std::sync::Mutex::new(vec![]) });
    // watchdog: a case that runs longer than HANG_MS is a termination failure; the hung thread cannot be stopped, so report and exit
    {
        let (watch, fams, bound) = (watch.clone(), fams.clone(), bound.clone());
        std::thread::spawn(move || loop {
            std::thread::sleep(Duration::from_millis(250));
            if watch.done.load(Ordering::SeqCst) != 0 { return; }
            let now = watch.t0.elapsed().as_millis() as u64;
            for s in &watch.slots {
                let code = s.0.load(Ordering::SeqCst);
                let st = s.1.load(Ordering::SeqCst);
                if code != 0 && now > st + HANG_MS && s.0.load(Ordering::SeqCst) == code {
                    let (fi, idx) = (((code >> 48) - 1) as usize, code & ((1 << 48) - 1));
                    let c = (fams[fi].make)(idx);
                    let mut r = Report::new(&bound, false);
                    r.obligations = 7;
                    r.evaluations = watch.evals.load(Ordering::SeqCst);
                    r.nontrivial = r.evaluations;
                    if let Ok(found) = watch.found.lock() { for f in found.iter() { r.fail(&f.obligation, f.detail.clone(), f.input.clone(), f.observed.clone()); } }
                    r.fail("terminates", format!("enumeration did not finish within {} s; family {} case {} ({}); the run was cut short here", HANG_MS / 1000, fams[fi].name, idx, c.desc), case_json(&c), "hang".into());
                    println!("{}", r.to_json(STEP));
                    std::process::exit(0);
                }
            }
        });
    }
    for (fi, fam) in fams.iter().enumerate() {
        let w = watch.clone();
        let one = |mut acc: Acc, i: u64| -> Acc {
            let slot = &w.slots[rayon::current_thread_index().unwrap_or(nthreads).min(nthreads)];
            let c = (fam.make)(i);
            if !c.child {
                slot.1.store(w.t0.elapsed().as_millis() as u64, Ordering::SeqCst);
                slot.0.store(((fi as u64 + 1) << 48) | i, Ordering::SeqCst);
            }
            let (fails, nt) = eval_case(&c);
            slot.0.store(0, Ordering::SeqCst);
            w.evals.fetch_add(1, Ordering::Relaxed);
            acc.evals += 1;
            if nt { acc.nontrivial += 1; }
            if i == fam.count / 2 && acc.samples.len() < 2 { acc.samples.push(format!("{}: {}", fam.name, c.desc)); }
            if !fails.is_empty() {
                let input = case_json(&c);
                let mut seen: Vec<String> = vec![];
                for (ob, detail, observed) in fails {
                    if seen.contains(&ob) { continue; }
                    seen.push(ob.clone());
                    acc.add_fail(i, Failure { obligation: ob, detail: format!("{} [family {} case {}: {}]", detail, fam.name, i, c.desc), input: input.clone(), observed });
                }
                if acc.fails.len() > 64 { acc.trim(); }
            }
            acc
        };
        let acc = (0..fam.count).into_par_iter().fold(Acc::default, one).reduce(Acc::default, Acc::merge);
        if std::env::var("C12_TIMING").is_ok() { eprintln!("c12 family {} ({} cases): done at {:?}", fam.name, fam.count, watch.t0.elapsed()); }
        rep.evaluations += acc.evals;
        rep.nontrivial += acc.nontrivial;
        for (_, f) in acc.fails {
            if let Ok(mut found) = watch.found.lock() { found.push(f.clone()); }
            rep.fail(&f.obligation.clone(), f.detail, f.input, f.observed);
        }
        for s in acc.samples.into_iter().take(1) { if fi % 2 == 0 { rep.sample(s); } }
    }
    watch.done.store(1, Ordering::SeqCst);
    std::panic::set_hook(prev_hook);
    rep.samples.truncate(8);
    let fb = FALLBACKS.load(Ordering::SeqCst);
    if fb > 0 { rep.exhaustive = false; rep.samples.insert(0, format!("NOTE: {} via-file cases could not be saved/loaded and were checked in memory only", fb)); }
    rep
}

pub fn replay(v: &Value) -> Result<(), String> {
    let c = case_from_json(v);
    let fails = if c.child {
        run_child(v)
    } else {
        let (tx, rx) = std::sync::mpsc::channel();
        std::thread::spawn(move || {
            let prev = std::panic::take_hook();
            std::panic::set_hook(Box::new(|_| {}));
            let f = check(&c.doc, c.expect.as_deref());
            std::panic::set_hook(prev);
            let _ = tx.send(f);
        });
        match rx.recv_timeout(Duration::from_millis(HANG_MS)) { Ok(f) => f, Err(_) => vec![("terminates".into(), format!("no result within {} s", HANG_MS / 1000), "hang".into())] }
    };
    if fails.is_empty() { Ok(()) } else { Err(fails.iter().map(|(a, b, _)| format!("{}: {}", a, b)).collect::<Vec<_>>().join("; ")) }
}
