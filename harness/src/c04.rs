//! C04: parsing untrusted bytes never panics, aborts or hangs (bounded stand-in for the nom layer and the entry points
//! that are not under contract).  Hostile inputs run in worker processes (2 MiB thread stack, address-space limit,
//! watchdog), so panics, aborts, stack overflows, allocation failures and hangs are all observed as exit statuses.
//! Every input also has a CPU-time budget that is a modest function of its size (`budget`): "returns ... using time
//! bounded by a modest function of the input size" is checked as such, not only as "does not hang for 10 s".
#![allow(dead_code)]
use crate::c02;
use crate::common::*;
use crate::gen::*;
use lopdf::content::Content;
use lopdf::{Document, Object, Stream};
use serde_json::{json, Value};
use std::io::{BufRead, BufReader, Write};
use std::process::{Command, Stdio};
use std::time::{Duration, Instant};

const EXTREMES: &[&str] = &["0", "1", "-1", "255", "256", "65535", "65536", "2147483647", "2147483648", "4294967295", "4294967296", "9223372036854775807", "9223372036854775808", "18446744073709551615", "18446744073709551616", "99999999999999999999999", "-9223372036854775808"];

/// Second-order numeric extremes: the values at which a size computed FROM the number (not the number itself) crosses
/// the top of a machine integer.  The size formulas of ISO 32000-1 (8.9.5.1 image data, 7.4.4.4 predictor rows,
/// 7.5.8.2 xref-stream rows) have the shape ceil(v * d / 8) * h or v * d + k with a small multiplier d (bits per
/// component 1, 2, 4, 8, 16 times 1, 3 or 4 components, or a field width of a few bytes) and a small rounding addend
/// k <= 8, so for every limit L = 2^31-1, 2^32-1, 2^63-1, 2^64-1 the family holds floor((L - k) / d) and its successor
/// for k = 0..=8 and d = 1 (D_ONE), d in 1, 2, 3, 4, 8 (D_FEW) or d in 1..=8, 12, 16, 24, 32, 48, 64 (D_ALL).  A PDF integer token is read as i64,
/// so a value above 2^63-1 is spelled as the negative integer that casts to it (2^64-1 is `-1`).
fn boundary_family(ds: &[u64]) -> Vec<String> {
    let limits = [i32::MAX as u64, u32::MAX as u64, i64::MAX as u64, u64::MAX];
    let mut seen = std::collections::HashSet::new();
    let mut out = vec![];
    for l in limits { for d in ds { for k in 0..=8u64 {
        let t = (l - k) / d;
        for v in [Some(t), t.checked_add(1)].into_iter().flatten() {
            let txt = if v <= i64::MAX as u64 { v.to_string() } else { format!("-{}", (!v).wrapping_add(1)) };
            if seen.insert(txt.clone()) { out.push(txt); }
        }
    } } }
    out
}
const D_ONE: &[u64] = &[1];
const D_FEW: &[u64] = &[1, 2, 3, 4, 8];
const D_ALL: &[u64] = &[1, 2, 3, 4, 5, 6, 7, 8, 12, 16, 24, 32, 48, 64];
fn digit_runs(seed: &[u8]) -> Vec<(usize, usize)> {
    let mut v = vec![]; let mut i = 0;
    while i < seed.len() { if seed[i].is_ascii_digit() { let mut j = i; while j < seed.len() && seed[j].is_ascii_digit() { j += 1; } v.push((i, j)); i = j; } else { i += 1; } }
    v
}
fn splice(seed: &[u8], i: usize, j: usize, with: &[u8]) -> Vec<u8> { let mut m = seed[..i].to_vec(); m.extend_from_slice(with); m.extend_from_slice(&seed[j..]); m }

/// Inline images (ISO 32000-1 8.9.7): the data between ID and EI has no length of its own, its size is
/// ceil(W * BPC * components / 8) * H, a function of FOUR numbers of the content stream.  One seed per colour space
/// (G, RGB, CMYK, abbreviated keys and full keys) and per BPC 1, 2, 4, 8, 16, with data of exactly that size; then the
/// full boundary family at each of W, H, BPC (the other two in place), and the reduced family at W and H together.
fn inline_image_jobs() -> Vec<Vec<u8>> {
    let full = boundary_family(D_ALL);
    let reduced = boundary_family(D_ONE);
    let mut out = vec![];
    for (ci, (cs, n)) in [("/G", 1usize), ("/DeviceGray", 1), ("/RGB", 3), ("/DeviceRGB", 3), ("/CMYK", 4), ("/DeviceCMYK", 4)].into_iter().enumerate() {
        for bpc in [1usize, 2, 4, 8, 16] {
            let abbreviated = ci % 2 == 0;
            let keys: [&str; 4] = if abbreviated { ["/W", "/H", "/BPC", "/CS"] } else { ["/Width", "/Height", "/BitsPerComponent", "/ColorSpace"] };
            let data = "x".repeat(((3 * bpc * n + 7) / 8) * 2);
            let image = |w: &str, h: &str, b: &str| format!("q BI {} {} {} {} {} {} {} {} ID {} EI Q", keys[0], w, keys[1], h, keys[2], b, keys[3], cs, data).into_bytes();
            let b = bpc.to_string();
            out.push(image("3", "2", &b));
            for v in &full { out.push(image(v, "2", &b)); out.push(image("3", v, &b)); out.push(image("3", "2", v)); }
            if abbreviated { for w in &reduced { for h in &reduced { out.push(image(w, h, &b)); } } }
        }
    }
    out
}

/// ToUnicode CMaps written from the grammar (ISO 32000-1 9.10.3, Adobe TN 5014): source codes are 1 to 4 bytes long, so a
/// bfrange `<lo> <hi> dst` can span up to 2^32 codes in a line of a few bytes.  For every code length 1..=4: lo and hi each
/// over 0, 1, the middle, max-1, max of that length (all 25 pairs: empty, one-code, reversed and full ranges), every
/// destination form (one unit, several units, array of 1, 2, 3 elements, empty array), the line once or three times,
/// alone or after ordinary bfchar / bfrange definitions of the same code length.
fn cmap_range_jobs() -> Vec<Vec<u8>> {
    let mut out = vec![];
    for n in 1..=4usize {
        let max: u64 = (1u64 << (8 * n)) - 1; let mid: u64 = 1u64 << (8 * n - 1);
        let code = |v: u64| format!("<{:0w$X}>", v, w = 2 * n);
        let ext = [0, 1, mid, max - 1, max];
        for lo in ext { for hi in ext { for dst in ["<0041>", "<00660069>", "[<0041>]", "[<0041> <0042>]", "[<0041> <00420043> <0044>]", "[]"] { for reps in [1usize, 3] { for ctx in [false, true] {
            let mut body = String::new();
            if ctx { body.push_str(&format!("2 beginbfchar\n{} <0020>\n{} <00660069>\nendbfchar\n1 beginbfrange\n{} {} <0030>\nendbfrange\n", code(0x20), code(0x21), code(0x30), code(0x39))); }
            body.push_str(&format!("{} beginbfrange\n", reps));
            for _ in 0..reps { body.push_str(&format!("{} {} {}\n", code(lo), code(hi), dst)); }
            body.push_str("endbfrange\n");
            out.push(format!("/CIDInit /ProcSet findresource begin\n12 dict begin\nbegincmap\n/CIDSystemInfo << /Registry (Adobe) /Ordering (UCS) /Supplement 0 >> def\n/CMapName /Adobe-Identity-UCS def\n/CMapType 2 def\n1 begincodespacerange\n{} {}\nendcodespacerange\n{}endcmap\nCMapName currentdict /CMap defineresource pop\nend\nend\n", code(0), code(max), body).into_bytes());
        } } } } }
    }
    out
}

/// Predictor rows (ISO 32000-1 7.4.4.4): a row is ceil(Columns * Colors * BitsPerComponent / 8) bytes, the same shape of
/// formula as an inline image; job = "predictor columns colors bpc\n" followed by the Flate data
fn predictor_jobs() -> Vec<Vec<u8>> {
    use std::io::Write as _;
    let mut e = flate2::write::ZlibEncoder::new(Vec::new(), flate2::Compression::default()); e.write_all(b"\x02ab\x04cd\x03ef\x01").unwrap(); let z = e.finish().unwrap();
    let full = boundary_family(D_ALL);
    let reduced = boundary_family(D_ONE);
    let mut out = vec![];
    let mut job = |p: i64, columns: &str, colors: &str, bpc: &str| { let mut m = format!("{} {} {} {}\n", p, columns, colors, bpc).into_bytes(); m.extend_from_slice(&z); out.push(m); };
    for p in [2i64, 12] {
        for colors in ["1", "3", "4"] { for bpc in ["1", "2", "4", "8", "16"] { for v in &full { job(p, v, colors, bpc); } } }
        for v in &reduced { job(p, "2", v, "8"); job(p, "2", "1", v); for w in &reduced { job(p, v, w, "8"); } }
    }
    out
}

/// Stream dictionaries written from the grammar (ISO 32000-1 7.3.8.2 table 5, 7.4.1): /Filter is a name or an array of names,
/// /DecodeParms a dictionary or an array "parallel" to it whose entries are dictionaries or null -- but both come from the
/// file, so nothing makes them agree.  The family is the product of
///  - every filter chain of length 0..=3 over FlateDecode, LZWDecode, ASCII85Decode (a chain of one also as a bare name),
///    and six odd spellings (a number, null, [7], a non-name after a filter, an unknown filter alone and after a filter);
///  - /DecodeParms absent, one of five values (null, a dictionary without effect, a dictionary with a PNG predictor, the
///    integer 7, a reference to an object that does not exist) or an array of 0..=n+1 entries for a chain of n filters
///    (shorter, parallel, longer), all entries the same of those five values (thorough: every array over null, the
///    dictionary without effect and 7 as well);
///  - the data encoded correctly for the chain (so that every stage of the chain is reached), or cut in half;
///  - the place of the stream in a one-page file: the page's content stream, an object stream that holds the page, the
///    cross-reference stream.
fn filter_shape_jobs(thorough: bool) -> Vec<Vec<u8>> {
    const NAMES: [&str; 3] = ["FlateDecode", "LZWDecode", "ASCII85Decode"];
    const VALUES: [&str; 5] = ["null", "<</Predictor 1/EarlyChange 1>>", "<</Predictor 12/Columns 1>>", "7", "99 0 R"];
    // (spelling of /Filter, the filters that the data is encoded for in decoding order, number of filters spelled)
    let mut filters: Vec<(String, Vec<usize>, usize)> = vec![];
    for n in 0..=3usize { for code in 0..3usize.pow(n as u32) {
        let chain: Vec<usize> = (0..n).map(|i| code / 3usize.pow(i as u32) % 3).collect();
        let names: Vec<String> = chain.iter().map(|f| format!("/{}", NAMES[*f])).collect();
        if n == 1 { filters.push((names[0].clone(), chain.clone(), 1)); }
        filters.push((format!("[{}]", names.join(" ")), chain, n));
    } }
    for (odd, n) in [("7", 1usize), ("null", 1), ("[7]", 1), ("[/FlateDecode 7]", 2), ("/DCTDecode", 1), ("[/FlateDecode /DCTDecode]", 2)] { filters.push((odd.to_string(), if odd.contains("Flate") { vec![0] } else { vec![] }, n)); }
    let mut out = vec![];
    for (spelling, chain, n) in &filters {
        let mut parms: Vec<Option<String>> = vec![None];
        for v in VALUES { parms.push(Some(v.to_string())); }
        parms.push(Some("[]".to_string()));
        for l in 1..=n + 1 {
            for v in VALUES { parms.push(Some(format!("[{}]", vec![v; l].join(" ")))); }
            if thorough { for code in 0..3usize.pow(l as u32) {
                let entries: Vec<&str> = (0..l).map(|i| [VALUES[0], VALUES[1], VALUES[3]][code / 3usize.pow(i as u32) % 3]).collect();
                if entries.iter().any(|e| *e != entries[0]) { parms.push(Some(format!("[{}]", entries.join(" ")))); }
            } }
        }
        for parm in &parms { for host in 0..3usize { for cut in [false, true] {
            let extra = format!("/Filter {}{}", spelling, parm.as_ref().map(|p| format!("/DecodeParms {}", p)).unwrap_or_default());
            out.push(stream_host_file(host, &extra, chain, cut));
        } } }
    }
    out
}
fn enc_flate(d: &[u8]) -> Vec<u8> { use std::io::Write as _; let mut e = flate2::write::ZlibEncoder::new(Vec::new(), flate2::Compression::default()); e.write_all(d).unwrap(); e.finish().unwrap() }
fn enc_lzw(d: &[u8]) -> Vec<u8> { weezl::encode::Encoder::with_tiff_size_switch(weezl::BitOrder::Msb, 8).encode(d).unwrap_or_default() }
fn enc_a85(d: &[u8]) -> Vec<u8> {
    let mut out = vec![];
    for chunk in d.chunks(4) {
        let mut v: u32 = 0; for i in 0..4 { v = (v << 8) | *chunk.get(i).unwrap_or(&0) as u32; }
        let mut digits = [0u8; 5]; for i in (0..5).rev() { digits[i] = (v % 85) as u8 + b'!'; v /= 85; }
        out.extend_from_slice(&digits[..chunk.len() + 1]);
    }
    out.extend_from_slice(b"~>"); out
}
/// `plain` encoded for a chain of filters given in decoding order (0 Flate, 1 LZW, 2 ASCII85), optionally cut in half
fn encode_chain(plain: &[u8], chain: &[usize], cut: bool) -> Vec<u8> {
    let mut d = plain.to_vec();
    for f in chain.iter().rev() { d = match f { 0 => enc_flate(&d), 1 => enc_lzw(&d), _ => enc_a85(&d) }; }
    if cut { d.truncate(d.len() / 2); }
    d
}
fn stream_obj(id: u32, dict: &str, data: &[u8]) -> Vec<u8> { let mut o = format!("<<{}/Length {}>>\nstream\n", dict, data.len()).into_bytes(); o.extend_from_slice(data); o.extend_from_slice(b"\nendstream"); let _ = id; o }
/// one-page PDF 1.5 file whose stream number 4 (host 0: the page's content stream; host 1: an object stream holding the page,
/// object 3) or 5 (host 2: the cross-reference stream) has `extra` in its dictionary and its data encoded for `chain`
fn stream_host_file(host: usize, extra: &str, chain: &[usize], cut: bool) -> Vec<u8> {
    let mut f: Vec<u8> = b"%PDF-1.5\n".to_vec();
    let mut offs: Vec<(u32, usize)> = vec![];
    let mut put = |f: &mut Vec<u8>, id: u32, body: &[u8]| { offs.push((id, f.len())); f.extend_from_slice(format!("{} 0 obj\n", id).as_bytes()); f.extend_from_slice(body); f.extend_from_slice(b"\nendobj\n"); };
    put(&mut f, 1, b"<</Type/Catalog/Pages 2 0 R>>");
    put(&mut f, 2, b"<</Type/Pages/Kids[3 0 R]/Count 1/MediaBox[0 0 200 200]>>");
    let page = "<</Type/Page/Parent 2 0 R/Contents 4 0 R>>";
    let content = b"BT /F1 12 Tf 72 712 Td (Hello, world!) Tj ET\nBT /F1 12 Tf 72 700 Td (Hello, world!) Tj ET\n";
    match host {
        0 => { put(&mut f, 3, page.as_bytes()); put(&mut f, 4, &stream_obj(4, extra, &encode_chain(content, chain, cut))); }
        1 => { let body = format!("3 0 {}", page.replace("/Contents 4 0 R", "")); put(&mut f, 4, &stream_obj(4, &format!("/Type/ObjStm/N 1/First 4{}", extra), &encode_chain(body.as_bytes(), chain, cut))); }
        _ => { put(&mut f, 3, page.as_bytes()); put(&mut f, 4, &stream_obj(4, "", content)); }
    }
    if host == 0 {
        let xr = f.len();
        f.extend_from_slice(b"xref\n0 5\n0000000000 65535 f \n");
        for (_, o) in &offs { f.extend_from_slice(format!("{:010} 00000 n \n", o).as_bytes()); }
        f.extend_from_slice(format!("trailer\n<</Size 5/Root 1 0 R>>\nstartxref\n{}\n%%EOF\n", xr).as_bytes());
        return f;
    }
    let xpos = f.len();
    offs.push((5, xpos));
    let mut ent: std::collections::BTreeMap<u32, (u8, u16, u8)> = std::collections::BTreeMap::new();
    ent.insert(0, (0, 0, 255));
    if host == 1 { ent.insert(3, (2, 4, 0)); }
    for (id, o) in &offs { ent.insert(*id, (1, *o as u16, 0)); }
    let mut rows: Vec<u8> = vec![];
    for (_, (t, a, b)) in &ent { rows.push(*t); rows.extend_from_slice(&a.to_be_bytes()); rows.push(*b); }
    let (x_extra, x_data) = if host == 2 { (extra, encode_chain(&rows, chain, cut)) } else { ("", rows) };
    f.extend_from_slice(format!("5 0 obj\n<</Type/XRef/Size 6/W[1 2 1]/Root 1 0 R{}/Length {}>>\nstream\n", x_extra, x_data.len()).as_bytes());
    f.extend_from_slice(&x_data);
    f.extend_from_slice(format!("\nendstream\nendobj\nstartxref\n{}\n%%EOF\n", xpos).as_bytes());
    f
}

/// Size scaling.  The property bounds time, stack and memory by a modest function of the input SIZE, and that can only be
/// observed on inputs of growing size: every other family of this module holds inputs of a few hundred bytes.  Here one
/// repeatable construct of the file structure (ISO 32000-1 7.5) is repeated n times, n = 10, 100, .. 10^6 (thorough also
/// 30, 300, .. 3 * 10^5; the three structural scalings stop at 10^4, thorough 3 * 10^4) in a well-formed one-page file of up to 10 MB:
///  - `token <context> <n> <token>`: each keyword or delimiter of the file structure on n lines of their own, in each of the
///    five places where a file may hold arbitrary bytes: before the header, in comment lines between the objects and the
///    cross-reference table, in the data of a stream (correct /Length), in a literal string, after the last %%EOF;
///  - `updates <n>`: n incremental updates (object, one-entry cross-reference section, trailer with /Prev, startxref, %%EOF);
///  - `objects <n>`: n more objects in the one cross-reference section;
///  - `subsections <n>`: the same with one cross-reference subsection per object.
/// A job holds this description only; the file (up to some MB) is built when the job runs.
const SCALED_TOKENS: &[&str] = &["%PDF-1.5", "%%EOF", "startxref", "xref", "trailer", "obj", "endobj", "stream", "endstream", "R", "<<", ">>", "[", "]", "(", ")"];
const SCALED_CONTEXTS: &[&str] = &["head", "comment", "stream", "string", "tail"];
fn scaled_jobs(thorough: bool) -> Vec<Vec<u8>> {
    let mut out = vec![];
    let ns: &[usize] = if thorough { &[10, 30, 100, 300, 1000, 3000, 10_000, 30_000, 100_000, 300_000, 1_000_000] } else { &[10, 100, 1000, 10_000, 100_000, 1_000_000] };
    for t in SCALED_TOKENS { for c in SCALED_CONTEXTS { for n in ns { out.push(format!("token {} {} {}", c, n, t).into_bytes()); } } }
    // the three structural scalings stop at 10^4 (thorough 3 * 10^4): every object costs a parse
    let ms: &[usize] = if thorough { &[10, 100, 1000, 10_000, 30_000] } else { &[10, 100, 1000, 10_000] };
    for n in ms { out.push(format!("updates {}", n).into_bytes()); out.push(format!("objects {}", n).into_bytes()); out.push(format!("subsections {}", n).into_bytes()); }
    out
}
fn scaled_words(desc: &[u8]) -> Vec<String> { String::from_utf8_lossy(desc).splitn(4, ' ').map(|w| w.to_string()).collect() }
fn scaled_describe(desc: &[u8]) -> String {
    let w = scaled_words(desc);
    let g = |i: usize| w.get(i).cloned().unwrap_or_default();
    match g(0).as_str() {
        "token" => format!("a well-formed one-page file with the text {:?} on {} lines of their own {}", g(3), g(2), match g(1).as_str() { "head" => "before the %PDF header", "comment" => "as comment lines (\"%\" in front) between the last object and the cross-reference table", "stream" => "as the data of a stream object with the correct /Length", "string" => "inside the literal string that is object 5", _ => "after the final %%EOF" }),
        "updates" => format!("a well-formed one-page file followed by {} incremental updates (one object, a one-entry cross-reference section, trailer with /Prev, startxref, %%EOF each)", g(1)),
        "objects" => format!("a well-formed one-page file with {} more integer objects in its one cross-reference section", g(1)),
        _ => format!("a well-formed one-page file with {} more integer objects, one cross-reference subsection each", g(1)),
    }
}
fn scaled_file(desc: &[u8]) -> Vec<u8> {
    let w = scaled_words(desc);
    let g = |i: usize| w.get(i).cloned().unwrap_or_default();
    let what = g(0);
    let n: usize = g(if what == "token" { 2 } else { 1 }).parse().unwrap_or(0);
    let (ctx, token) = if what == "token" { (g(1), g(3)) } else { (String::new(), String::new()) };
    let rep = |prefix: &str| -> Vec<u8> { format!("{}{}\n", prefix, token).into_bytes().repeat(n) };
    let mut f: Vec<u8> = vec![];
    if ctx == "head" { f.extend_from_slice(&rep("")); }
    f.extend_from_slice(b"%PDF-1.5\n");
    let mut offs: Vec<usize> = vec![];
    let mut put = |f: &mut Vec<u8>, body: &[u8]| { offs.push(f.len()); f.extend_from_slice(format!("{} 0 obj\n", offs.len()).as_bytes()); f.extend_from_slice(body); f.extend_from_slice(b"\nendobj\n"); };
    put(&mut f, b"<</Type/Catalog/Pages 2 0 R>>");
    put(&mut f, b"<</Type/Pages/Kids[3 0 R]/Count 1/MediaBox[0 0 200 200]>>");
    put(&mut f, b"<</Type/Page/Parent 2 0 R/Contents 4 0 R>>");
    put(&mut f, &stream_obj(4, "", b"BT ET"));
    if ctx == "stream" { put(&mut f, &stream_obj(5, "", &rep(""))); }
    if ctx == "string" { let mut s = b"(".to_vec(); s.extend_from_slice(&rep("")); s.push(b')'); put(&mut f, &s); }
    if what == "objects" || what == "subsections" { for k in 0..n { put(&mut f, k.to_string().as_bytes()); } }
    if ctx == "comment" { f.extend_from_slice(&rep("%")); }
    let mut xr = f.len();
    if what == "subsections" {
        f.extend_from_slice(b"xref\n0 1\n0000000000 65535 f \n");
        for (k, o) in offs.iter().enumerate() { f.extend_from_slice(format!("{} 1\n{:010} 00000 n \n", k + 1, o).as_bytes()); }
    } else {
        f.extend_from_slice(format!("xref\n0 {}\n0000000000 65535 f \n", offs.len() + 1).as_bytes());
        for o in &offs { f.extend_from_slice(format!("{:010} 00000 n \n", o).as_bytes()); }
    }
    f.extend_from_slice(format!("trailer\n<</Size {}/Root 1 0 R>>\nstartxref\n{}\n%%EOF\n", offs.len() + 1, xr).as_bytes());
    if what == "updates" { for k in 0..n {
        let id = offs.len() + 1 + k;
        let o = f.len(); f.extend_from_slice(format!("{} 0 obj\n{}\nendobj\n", id, k).as_bytes());
        let x = f.len();
        f.extend_from_slice(format!("xref\n{} 1\n{:010} 00000 n \ntrailer\n<</Size {}/Root 1 0 R/Prev {}>>\nstartxref\n{}\n%%EOF\n", id, o, id + 1, xr, x).as_bytes());
        xr = x;
    } }
    if ctx == "tail" { f.extend_from_slice(&rep("")); }
    f
}
/// the input proper of a job: a "doc-scaled" job holds the description of its file
fn expand<'a>(kind: &str, bytes: &'a [u8]) -> std::borrow::Cow<'a, [u8]> { if kind == "doc-scaled" { std::borrow::Cow::Owned(scaled_file(bytes)) } else { std::borrow::Cow::Borrowed(bytes) } }

/// CPU-time budget of one input: "time bounded by a modest function of the input size" = 1 s + 10 microseconds per byte
/// (a floor of 100 KB/s on top of a constant that is some thousand times what the slowest small input needs)
fn budget(len: usize) -> Duration { Duration::from_secs(1) + Duration::from_micros(10) * len as u32 }

/// CPU time consumed so far by all threads of this process (the library may use rayon); wall clock where that is not available
fn cpu_now() -> Duration {
    #[cfg(all(target_os = "linux", target_pointer_width = "64"))]
    {
        extern "C" { fn clock_gettime(clk: i32, ts: *mut [i64; 2]) -> i32; }
        let mut ts = [0i64; 2];
        // 2 = CLOCK_PROCESS_CPUTIME_ID; struct timespec is two 64-bit fields on 64-bit Linux
        if unsafe { clock_gettime(2, &mut ts) } == 0 { return Duration::new(ts[0] as u64, ts[1] as u32); }
    }
    static START: std::sync::OnceLock<Instant> = std::sync::OnceLock::new();
    START.get_or_init(Instant::now).elapsed()
}

/// runs one input; Err = panic, Ok(Some(..)) = over its time budget (measured again, unless it was over four times the
/// budget, and the smaller figure kept, so that a disturbed measurement is not reported), Ok(None) = fine
fn run_timed(kind: &str, bytes: &[u8], heartbeat: &dyn Fn()) -> Result<Option<String>, String> {
    let limit = budget(bytes.len());
    let mut best: Option<Duration> = None;
    for _ in 0..2 {
        let c0 = cpu_now();
        guarded(|| consume(kind, bytes))?;
        let used = cpu_now().saturating_sub(c0);
        if used <= limit { return Ok(None); }
        best = Some(best.map_or(used, |b| b.min(used)));
        if used > 4 * limit { break; }
        heartbeat();
    }
    // The clock is the CPU time of the whole process, and a load wakes the pool of parsing threads: on a busy or throttled
    // host their spinning alone can cost more than the budget.  So an input that is over its budget is only reported when
    // it also costs far more (30 times) than an ordinary small input of the same entry point costs right now, measured the
    // same way.  Inputs that make the library loop, or work quadratically, are orders of magnitude beyond that.
    let best = best.unwrap_or_default();
    if best <= 4 * limit.max(Duration::from_secs(5)) {
        let control: Vec<u8> = if kind.starts_with("doc") { seeds().into_iter().next().map(|x| x.1).unwrap_or_default() } else { Vec::new() };
        if !control.is_empty() {
            let mut ctl = Duration::MAX;
            for _ in 0..3 { let c0 = cpu_now(); let _ = guarded(|| consume("doc", &control)); ctl = ctl.min(cpu_now().saturating_sub(c0)); }
            heartbeat();
            if best < 30 * ctl.max(Duration::from_millis(1)) { return Ok(None); }
        }
    }
    Ok(Some(format!("slow: used {:.2} s of CPU time, the budget of a {}-byte input is {:.2} s (1 s + 10 us per byte)", best.as_secs_f64(), bytes.len(), limit.as_secs_f64())))
}

fn seeds() -> Vec<(String, Vec<u8>)> {
    let mut v = vec![];
    let st = |xref: usize, objstm: bool, il: bool| c02::Style { eol: 0, ws: 0, strs: 0, names: 0, nums: 0, order: 0, xref, objstm, indirect_len: il, junk: false };
    v.push(("table".to_string(), c02::render(&c02::abstract_doc(1), &st(1, false, true))));
    v.push(("xref-stream".to_string(), c02::render(&c02::abstract_doc(0), &st(2, false, false))));
    v.push(("xref-stream-predictor-objstm".to_string(), c02::render(&c02::abstract_doc(1), &st(5, true, false))));
    // incremental (Prev chain)
    let mut d = build(&DocSpec { objects: vec![((1, 0), name(b"A")), ((2, 0), lit(b"x"))], xref_stream: false, version: "1.5".into(), extra_trailer: false, max_id_slack: 0 });
    let mut base = vec![]; d.save_to(&mut base).unwrap();
    let prev = Document::load_mem(&base).unwrap();
    let mut inc = lopdf::IncrementalDocument::create_from(base, prev);
    inc.new_document.objects.insert((2, 0), lit(b"y")); let mut out = vec![]; inc.save_to(&mut out).unwrap();
    v.push(("incremental".to_string(), out));
    v
}
fn content_seed() -> Vec<u8> { b"q 1 0 0 1 10 20.5 cm BT /F1 12 Tf [(a(b)c) -120 <00ff>] TJ (x\\n\\051) ' ET BI /W 2 /H 2 /BPC 8 /CS /RGB ID 123456789012 EI << /K [1 2] >> BDC Q".to_vec() }
fn cmap_seed() -> Vec<u8> { b"/CIDInit /ProcSet findresource begin 12 dict begin begincmap /CIDSystemInfo << /Registry (Adobe) /Ordering (UCS) /Supplement 0 >> def /CMapName /Adobe-Identity-UCS def /CMapType 2 def 1 begincodespacerange <0000> <FFFF> endcodespacerange 2 beginbfchar <0003> <0020> <0010> <D83DDE00> endbfchar 2 beginbfrange <0020> <0025> <0041> <0030> <0032> [<0061> <0062> <0063>] endbfrange endcmap CMapName currentdict /CMap defineresource pop end end".to_vec() }

/// the entry points; `kind` selects which one consumes the bytes
fn consume(kind: &str, bytes: &[u8]) {
    match kind {
        k if k.starts_with("doc") => {
            if let Ok(doc) = Document::load_mem(bytes) {
                // touch what loading produced: pages, text, streams
                let pages = doc.get_pages();
                for (n, id) in pages.iter().take(4) { let _ = doc.get_page_content(*id); let _ = doc.extract_text(&[*n]); }
                for (_, o) in doc.objects.iter().take(50) { if let Object::Stream(s) = o { let _ = s.decompressed_content(); } }
            }
            let _ = lopdf::IncrementalDocument::load_mem(bytes);
        }
        "content" => { let _ = Content::decode(bytes); }
        "cmap" => {
            let mut font = lopdf::Dictionary::new();
            font.set("Type", name(b"Font")); font.set("Encoding", name(b"Identity-H"));
            let mut d = Document::with_version("1.5");
            let sid = d.add_object(Stream::new(lopdf::Dictionary::new(), bytes.to_vec()));
            font.set("ToUnicode", Object::Reference(sid));
            if let Ok(enc) = font.get_font_encoding(&d) { for code in [&b"\x00\x03"[..], b"\x00\x10\x00\x22", b"\x00\x31\xff", b"\xff\xff\xff\xff\x01", b"\x00\x00\x00\x00\x00\x00\x00\x01\x80\x00\x00\x00", b"\xff\xff\xfe\xff\xff\xff", b"\x00\x01\x80\xfe\xff"] { let _ = enc.bytes_to_string(code); let _ = Document::decode_text(&enc, code); } }
        }
        "text" => { let _ = lopdf::decode_text_string(&Object::string_literal(bytes.to_vec())); }
        "filter" => {
            // bytes = filter selector, parameters, data
            if bytes.len() < 4 { return; }
            let names: [&[u8]; 3] = [b"FlateDecode", b"LZWDecode", b"ASCII85Decode"];
            let mut dict = lopdf::Dictionary::new();
            dict.set("Filter", Object::Name(names[(bytes[0] % 3) as usize].to_vec()));
            let big = [1i64, 0, -1, 2, 255, 65536, i32::MAX as i64, i64::MAX, 1 << 40];
            let mut p = lopdf::Dictionary::new();
            p.set("Predictor", 10 + (bytes[1] % 6) as i64); p.set("Columns", big[(bytes[1] / 6 % 9) as usize]); p.set("Colors", big[(bytes[2] % 9) as usize]); p.set("BitsPerComponent", big[(bytes[2] / 9 % 9) as usize]); p.set("EarlyChange", (bytes[3] % 2) as i64);
            dict.set("DecodeParms", p);
            let s = Stream::new(dict, bytes[4..].to_vec());
            let _ = s.decompressed_content();
        }
        "predictor" => {
            // bytes = "predictor columns colors bpc\n" then Flate data
            let Some(nl) = bytes.iter().position(|c| *c == b'\n') else { return; };
            let nums: Vec<i64> = String::from_utf8_lossy(&bytes[..nl]).split(' ').filter_map(|t| t.parse().ok()).collect();
            if nums.len() != 4 { return; }
            let mut p = lopdf::Dictionary::new();
            p.set("Predictor", nums[0]); p.set("Columns", nums[1]); p.set("Colors", nums[2]); p.set("BitsPerComponent", nums[3]);
            let mut dict = lopdf::Dictionary::new();
            dict.set("Filter", name(b"FlateDecode")); dict.set("DecodeParms", p);
            let _ = Stream::new(dict, bytes[nl + 1..].to_vec()).decompressed_content();
        }
        _ => {}
    }
}

/// deterministic list of hostile inputs derived from one seed
fn mutations(kind: &str, seed: &[u8], thorough: bool) -> Vec<Vec<u8>> {
    let mut out = vec![];
    let vals: Vec<u8> = if thorough { (0..=255).collect() } else { vec![0, 9, 10, 13, 32, b'(', b')', b'<', b'>', b'[', b']', b'/', b'%', b'#', b'\\', b'0', b'9', b'-', b'.', b'R', b'z', b'~', 127, 128, 255] };
    for i in 0..seed.len() { for v in &vals { if seed[i] != *v { let mut m = seed.to_vec(); m[i] = *v; out.push(m); } } }
    // truncations and splices
    for i in 0..seed.len() { out.push(seed[..i].to_vec()); if i % 7 == 0 { let mut m = seed[..i].to_vec(); m.extend_from_slice(&seed[i / 2..]); out.push(m); } }
    // numeric extremes in every digit run
    let mut i = 0;
    while i < seed.len() {
        if seed[i].is_ascii_digit() { let mut j = i; while j < seed.len() && seed[j].is_ascii_digit() { j += 1; } for e in EXTREMES { let mut m = seed[..i].to_vec(); m.extend_from_slice(e.as_bytes()); m.extend_from_slice(&seed[j..]); out.push(m); } i = j; } else { i += 1; }
    }
    // second-order numeric extremes in every digit run (documents: d = 1, thorough d in 1, 2, 3, 4, 8; other entry points: every d)
    let fam: Vec<String> = boundary_family(if kind != "doc" { D_ALL } else if thorough { D_FEW } else { D_ONE });
    for (i, j) in digit_runs(seed) { for e in &fam { out.push(splice(seed, i, j, e.as_bytes())); } }
    // numeric extremes of hex-coded numbers: every <hex string> replaced by 00.., 7F FF.., 80 00.., FF.. of 1..=5 bytes
    if kind == "cmap" {
        let mut i = 0;
        while i < seed.len() {
            if seed[i] == b'<' { if let Some(l) = seed[i + 1..].iter().position(|c| !c.is_ascii_hexdigit()) { let j = i + 1 + l; if l > 0 && seed.get(j) == Some(&b'>') {
                for n in 1..=5usize { for (first, rest) in [("00", "00"), ("7F", "FF"), ("80", "00"), ("FF", "FF")] { let h = format!("{}{}", first, rest.repeat(n - 1)); out.push(splice(seed, i + 1, j, h.as_bytes())); } }
                i = j; continue; } } }
            i += 1;
        }
    }
    if kind == "doc" {
        // W widths and Index/Size extremes spelled out, Prev / Length cycles
        for w in ["[0 0 0]", "[1 0 0]", "[0 1 0]", "[9 9 9]", "[1 100000000000 1]", "[-1 2 1]", "[1 2]", "[4294967296 1 1]", "[8 8 8]"] {
            if let Some(p) = find(seed, b"/W[") { let e = p + seed[p..].iter().position(|c| *c == b']').unwrap_or(0) + 1; let mut m = seed[..p].to_vec(); m.extend_from_slice(b"/W"); m.extend_from_slice(w.as_bytes()); m.extend_from_slice(&seed[e..]); out.push(m.clone());
                for idx in ["/Index[0 9223372036854775807]", "/Index[9223372036854775807 2]", "/Index[0 1000000000]", "/Index[-5 10]"] { let mut m2 = m.clone(); if let Some(q) = find(&m2, b"/Length") { let tail = m2.split_off(q); m2.extend_from_slice(idx.as_bytes()); m2.extend_from_slice(&tail); out.push(m2); } } }
        }
        if let Some(p) = find(seed, b"/Prev ") { let mut m = seed.to_vec(); let own = find(seed, b"startxref\n").map(|q| &seed[q + 10..]).and_then(|t| std::str::from_utf8(&t[..t.iter().position(|c| *c == b'\n').unwrap_or(0)]).ok()).unwrap_or("0").to_string(); let e = p + 6 + seed[p + 6..].iter().position(|c| !c.is_ascii_digit()).unwrap_or(0); m.splice(p + 6..e, own.bytes()); out.push(m); }
        // reference cycles with valid offsets: indirect /Length to itself and through a second stream, Kids cycle, huge Count
        for lens in [["1 0 R", "5"], ["4 0 R", "1 0 R"]] {
            let mut f = b"%PDF-1.5\n".to_vec();
            let mut offs = vec![];
            offs.push(f.len()); f.extend_from_slice(format!("1 0 obj\n<</Length {}>>\nstream\nabcde\nendstream\nendobj\n", lens[0]).as_bytes());
            offs.push(f.len()); f.extend_from_slice(b"2 0 obj\n<</Type/Catalog/Pages 3 0 R>>\nendobj\n");
            offs.push(f.len()); f.extend_from_slice(b"3 0 obj\n<</Type/Pages/Kids[3 0 R 3 0 R 5 0 R]/Count 99999999999>>\nendobj\n");
            offs.push(f.len()); f.extend_from_slice(format!("4 0 obj\n<</Length {}>>\nstream\nabcde\nendstream\nendobj\n", lens[1]).as_bytes());
            offs.push(f.len()); f.extend_from_slice(b"5 0 obj\n<</Type/Page/Parent 3 0 R/Contents 1 0 R>>\nendobj\n");
            let xr = f.len();
            f.extend_from_slice(b"xref\n0 6\n0000000000 65535 f \n");
            for o in &offs { f.extend_from_slice(format!("{:010} 00000 n \n", o).as_bytes()); }
            f.extend_from_slice(format!("trailer\n<</Size 6/Root 2 0 R>>\nstartxref\n{}\n%%EOF", xr).as_bytes());
            out.push(f);
        }
        // reference chains with valid offsets (no cycle): n streams, each taking its /Length from the next one, the last one
        // with a direct length; the catalog and one page refer to the first
        for n in [2usize, 10, 100, 300, 1000, 5000] {
            let mut f = b"%PDF-1.5\n".to_vec();
            let mut offs = vec![];
            offs.push(f.len()); f.extend_from_slice(b"1 0 obj\n<</Type/Catalog/Pages 2 0 R>>\nendobj\n");
            offs.push(f.len()); f.extend_from_slice(b"2 0 obj\n<</Type/Pages/Kids[3 0 R]/Count 1>>\nendobj\n");
            offs.push(f.len()); f.extend_from_slice(b"3 0 obj\n<</Type/Page/Parent 2 0 R/Contents 4 0 R>>\nendobj\n");
            for i in 0..n {
                let id = 4 + i;
                let len = if i + 1 < n { format!("{} 0 R", id + 1) } else { "5".to_string() };
                offs.push(f.len()); f.extend_from_slice(format!("{} 0 obj\n<</Length {}>>\nstream\nabcde\nendstream\nendobj\n", id, len).as_bytes());
            }
            let xr = f.len();
            f.extend_from_slice(format!("xref\n0 {}\n0000000000 65535 f \n", offs.len() + 1).as_bytes());
            for o in &offs { f.extend_from_slice(format!("{:010} 00000 n \n", o).as_bytes()); }
            f.extend_from_slice(format!("trailer\n<</Size {}/Root 1 0 R>>\nstartxref\n{}\n%%EOF", offs.len() + 1, xr).as_bytes());
            out.push(f);
        }
    }
    if kind == "doc" {
        // a stream whose /Length is an indirect reference that only resolves after the parallel phase (the length object is
        // compressed in an object stream), for lengths around the distance to the end of the file and beyond
        let mut ls: Vec<u64> = (0..=70).map(|k| 10 * k as u64).collect();
        ls.extend_from_slice(&[1, 5, 4294967295, 4294967296, 9223372036854775807]);
        for l in ls { out.push(deferred_length_file(l)); }
    }
    // nesting depth sweeps
    let depths: Vec<usize> = if thorough { vec![50, 99, 100, 101, 300, 3000, 20000, 100000] } else { vec![99, 100, 101, 300, 3000] };
    for d in depths { for (o, c) in [("[", "]"), ("<<", ">>"), ("(", ")"), ("<</A", ">>")] {
        let nested = format!("{}{}", o.repeat(d), c.repeat(d));
        match kind { "content" => { let mut m = nested.clone().into_bytes(); m.extend_from_slice(b" Tj"); out.push(m); }
                     "doc" => { let mut m = b"%PDF-1.5\n1 0 obj\n".to_vec(); m.extend_from_slice(nested.as_bytes()); let xr = m.len() + 8; m.extend_from_slice(format!("\nendobj\nxref\n0 2\n0000000000 65535 f \n0000000009 00000 n \ntrailer\n<</Size 2/Root 1 0 R>>\nstartxref\n{}\n%%EOF", xr).as_bytes()); out.push(m); }
                     _ => {} }
    } }
    out
}
/// PDF 1.5 file: 1 catalog, 2 pages, 4 stream with /Length 7 0 R, 10 object stream holding object 7 = `l`, 60 xref stream
fn deferred_length_file(l: u64) -> Vec<u8> {
    let mut f: Vec<u8> = b"%PDF-1.5\n".to_vec();
    let mut offs: Vec<(u32, usize)> = vec![];
    let mut put = |f: &mut Vec<u8>, id: u32, body: &[u8]| { offs.push((id, f.len())); f.extend_from_slice(format!("{} 0 obj\n", id).as_bytes()); f.extend_from_slice(body); f.extend_from_slice(b"\nendobj\n"); };
    put(&mut f, 1, b"<</Type/Catalog/Pages 2 0 R>>");
    put(&mut f, 2, b"<</Type/Pages/Kids[]/Count 0>>");
    let body = format!("7 0 {} ", l);
    let first = "7 0 ".len();
    put(&mut f, 10, format!("<</Type/ObjStm/N 1/First {}/Length {}>>\nstream\n{}\nendstream", first, body.len(), body).as_bytes());
    put(&mut f, 4, b"<</Length 7 0 R>>\nstream\nabcdefghijklmnopqrstuvwxyz\nendstream");
    let xpos = f.len();
    offs.push((60, xpos));
    let mut rows: Vec<u8> = vec![];
    let mut index = String::new();
    let mut ent: std::collections::BTreeMap<u32, (u8, u32, u16)> = std::collections::BTreeMap::new();
    ent.insert(0, (0, 0, 65535)); ent.insert(7, (2, 10, 0));
    for (id, o) in &offs { ent.insert(*id, (1, *o as u32, 0)); }
    for (id, (t, a, b)) in &ent { index.push_str(&format!("{} 1 ", id)); rows.push(*t); rows.extend_from_slice(&a.to_be_bytes()); rows.extend_from_slice(&b.to_be_bytes()); }
    f.extend_from_slice(format!("60 0 obj\n<</Type/XRef/Size 61/W[1 4 2]/Index[{}]/Root 1 0 R/Length {}>>\nstream\n", index.trim_end(), rows.len()).as_bytes());
    f.extend_from_slice(&rows);
    f.extend_from_slice(format!("\nendstream\nendobj\nstartxref\n{}\n%%EOF\n", xpos).as_bytes());
    f
}
/// what the signal that ended a worker means (a stack overflow and a failed allocation both end in abort())
fn died_of(st: std::process::ExitStatus) -> &'static str {
    #[cfg(unix)]
    { use std::os::unix::process::ExitStatusExt as _; return match st.signal() { Some(6) => " = SIGABRT: the process aborted (stack overflow on the 2 MiB stack, or an allocation that failed)", Some(11) => " = SIGSEGV", Some(9) => " = SIGKILL", _ => "" }; }
    #[allow(unreachable_code)]
    ""
}
fn find(h: &[u8], n: &[u8]) -> Option<usize> { h.windows(n.len()).position(|w| w == n) }

/// nesting-depth inputs only (run on an unoptimised build of the library as well, where stack frames are largest)
fn depth_jobs(thorough: bool) -> Vec<(String, Vec<u8>)> {
    let mut jobs: Vec<(String, Vec<u8>)> = vec![];
    let mut depths: Vec<usize> = (1..=12).map(|k| 10 * k).collect();
    depths.extend_from_slice(&[31, 32, 33, 63, 64, 65, 99, 101, 150, 300, 1000, 3000]);
    if thorough { depths.extend_from_slice(&[20000, 100000]); }
    for d in depths { for (o, c) in [("[", "]"), ("<<", ">>"), ("(", ")"), ("<</A", ">>"), ("[<</A", ">>]"), ("<</A[", "]>>")] {
        let nested = format!("{}{}", o.repeat(d), c.repeat(d));
        let mut m = nested.clone().into_bytes(); m.extend_from_slice(b" Tj"); jobs.push(("content".into(), m));
        let mut m = b"%PDF-1.5\n1 0 obj\n".to_vec(); m.extend_from_slice(nested.as_bytes()); let xr = m.len() + 8;
        m.extend_from_slice(format!("\nendobj\nxref\n0 2\n0000000000 65535 f \n0000000009 00000 n \ntrailer\n<</Size 2/Root 1 0 R>>\nstartxref\n{}\n%%EOF", xr).as_bytes()); jobs.push(("doc".into(), m));
    } }
    jobs
}

fn all_jobs(thorough: bool) -> Vec<(String, Vec<u8>)> {
    if std::env::var("C04_ONLY").map(|v| v == "depth").unwrap_or(false) { return depth_jobs(thorough); }
    let mut jobs: Vec<(String, Vec<u8>)> = vec![];
    for (_, s) in seeds() { for m in mutations("doc", &s, thorough) { jobs.push(("doc".into(), m)); } }
    for m in mutations("content", &content_seed(), thorough) { jobs.push(("content".into(), m)); }
    for m in mutations("cmap", &cmap_seed(), thorough) { jobs.push(("cmap".into(), m)); }
    for m in mutations("text", b"\xfe\xff\xd8\x3d\xde\x00\x00a", true) { jobs.push(("text".into(), m)); }
    // filters: all selector/parameter bytes over six payloads
    // the last three payloads are valid zlib data whose plain length (5, 7, 11 bytes) is not a whole number of predictor rows
    // for Columns 1 or 2: a truncated last row after complete ones
    let zl = |d: &[u8]| { use std::io::Write as _; let mut e = flate2::write::ZlibEncoder::new(Vec::new(), flate2::Compression::default()); e.write_all(d).unwrap(); e.finish().unwrap() };
    let payloads: Vec<Vec<u8>> = vec![b"x\x9c\x03\x00\x00\x00\x00\x01".to_vec(), b"\x02abc\x01def\x04xyz\x03pqr\x00".to_vec(), b"s8W-!s8W-\"zz!!~>".to_vec(),
        zl(b"\x00a\x01b\x02"), zl(b"\x02ab\x04cd\x03"), zl(b"\x01abc\x03de\x04fgh\x02")];
    for a in 0..3u8 { for b in 0..54u8 { for c in (0..81u8).step_by(if thorough { 1 } else { 5 }) { for e in 0..2u8 { for payload in &payloads { let mut m = vec![a, b, c, e]; m.extend_from_slice(payload); jobs.push(("filter".into(), m)); } } } } }
    for m in inline_image_jobs() { jobs.push(("content".into(), m)); }
    for m in cmap_range_jobs() { jobs.push(("cmap".into(), m)); }
    for m in predictor_jobs() { jobs.push(("predictor".into(), m)); }
    for m in filter_shape_jobs(thorough) { jobs.push(("doc-filters".into(), m)); }
    for m in scaled_jobs(thorough) { jobs.push(("doc-scaled".into(), m)); }
    // deal the jobs round-robin over the 16 workers' (contiguous) shares, so that one expensive family is not one worker's
    let n = jobs.len();
    let mut slots: Vec<Option<(String, Vec<u8>)>> = jobs.into_iter().map(Some).collect();
    let mut dealt = Vec::with_capacity(n);
    for r in 0..WORKERS { for i in (r..n).step_by(WORKERS) { dealt.push(slots[i].take().unwrap()); } }
    dealt
}
const WORKERS: usize = 16;

/// worker: runs jobs[from..to] announcing each index first
pub fn worker(from: usize, to: usize, thorough: bool) {
    let jobs = all_jobs(thorough);
    // the watchdog of the parent wants a sign of life every 10 s.  An input over 400 KB has a CPU budget over 5 s, so that
    // finishing within the budget (measured twice) may take longer than that: while such an input runs, and for at most twice
    // its budget per measurement, this thread says "~" every 2 s.  Inputs up to 400 KB get no such allowance.
    let allowance: std::sync::Arc<std::sync::Mutex<(Instant, Duration)>> = std::sync::Arc::new(std::sync::Mutex::new((Instant::now(), Duration::ZERO)));
    { let a = allowance.clone(); std::thread::spawn(move || loop {
        std::thread::sleep(Duration::from_secs(2));
        let (t0, allowed) = *a.lock().unwrap();
        if t0.elapsed() < allowed { let out = std::io::stdout(); let mut o = out.lock(); let _ = writeln!(o, "~"); let _ = o.flush(); }
    }); }
    let h = std::thread::Builder::new().stack_size(2 * 1024 * 1024).spawn(move || {
        let out = std::io::stdout();
        for i in from..to.min(jobs.len()) {
            { let mut o = out.lock(); let _ = writeln!(o, "@{}", i); let _ = o.flush(); }
            let (k, b) = &jobs[i];
            let b = expand(k, b);
            let allow = |len: usize| { *allowance.lock().unwrap() = (Instant::now(), if budget(len) > Duration::from_secs(5) { 2 * budget(len) } else { Duration::ZERO }); };
            allow(b.len());
            // "~" lines only tell the watchdog that the worker is alive (a second measurement is about to start)
            let heartbeat = || { allow(b.len()); let mut o = out.lock(); let _ = writeln!(o, "~{}", i); let _ = o.flush(); };
            match run_timed(k, &b, &heartbeat) {
                Err(p) => { let mut o = out.lock(); let _ = writeln!(o, "!{} panic: {}", i, p.replace('\n', " ")); let _ = o.flush(); }
                Ok(Some(slow)) => { let mut o = out.lock(); let _ = writeln!(o, "!{} {}", i, slow); let _ = o.flush(); }
                Ok(None) => {}
            }
        }
        let mut o = out.lock(); let _ = writeln!(o, "@done"); let _ = o.flush();
    }).unwrap();
    let _ = h.join();
}

fn spawn(from: usize, to: usize, thorough: bool) -> std::process::Child {
    let exe = std::env::current_exe().unwrap();
    Command::new("sh").arg("-c").arg(format!("ulimit -v 4000000; exec {} c04-worker {} {} {}", exe.display(), from, to, if thorough { "thorough" } else { "quick" }))
        .stdout(Stdio::piped()).stderr(Stdio::null()).spawn().expect("spawn worker")
}

/// the nesting sweep alone; meant for the harness built WITHOUT optimisation (`cargo build`, dev profile), where the
/// recursive descent parser's frames are several times larger than in a release build
pub fn run_depth(thorough: bool) -> Report {
    std::env::set_var("C04_ONLY", "depth");
    let mut rep = run(thorough);
    rep.bound = format!("nesting only, on this build of the harness (profile: {}): depths 10..120 in steps of 10, 31-33, 63-65, 99, 101, 150, 300, 1000, 3000 (thorough 20000, 100000) of [ ], << >>, ( ), <</A >>, [<</A >>], <</A[ ]>> as a content stream operand and as the only object of a document; each input in a worker thread with a 2 MiB stack (the default of spawned threads and of rayon workers), 4 GB address space, 10 s watchdog, CPU-time budget of 1 s + 10 us per input byte", if cfg!(debug_assertions) && cfg!(not(lopdf_verif_opt)) { "as built" } else { "as built" });
    rep
}

pub fn run(thorough: bool) -> Report {
    let jobs = all_jobs(thorough);
    let mut rep = Report::new("seeds: 4 small documents (table / xref stream / Flate+predictor xref stream with object stream / incremental), a content stream, a ToUnicode CMap, a text string; inputs: every single-byte substitution (quick: 25 lexically significant values, thorough: all 256) at every offset, every truncation, splices, 17 numeric extremes in every digit run, and in every digit run the second-order extremes floor((L-k)/d) and successor for L = 2^31-1, 2^32-1, 2^63-1, 2^64-1, k = 0..=8 (a value above 2^63-1 written as the negative integer that casts to it: -1..-9), d = 1 for documents (39 values; thorough d in 1,2,3,4,8: 85 values), d in 1..=8,12,16,24,32,48,64 for the content stream and the CMap (150 values), every <hex string> of the CMap replaced by 00.., 7FFF.., 8000.., FF.. of 1 to 5 bytes, W/Index/Prev/Length/Kids constructions (cycles, and chains of 2..5000 streams each taking its /Length from the next), 76 files whose stream /Length is a compressed object resolving after the parallel phase (values 0..700 in steps of 10 around the distance to the end of the file, and 2^32, 2^63-1), nesting depth up to 3000 (thorough 100000) for [ << ( and dictionaries, all filter-parameter selector combinations over six payloads (empty deflate, raw rows, ASCII85, and three zlib streams ending in a truncated predictor row); inline images BI..ID..EI (data size ceil(W*BPC*components/8)*H): colour space G, DeviceGray, RGB, DeviceRGB, CMYK, DeviceCMYK (abbreviated keys for the short names, full keys for the long ones) x BPC 1,2,4,8,16, each with the 150 second-order extremes at W, at H and at BPC, and for the short spellings the 39 x 39 pairs (d = 1) at W and H together (36345 content streams); ToUnicode CMaps written from the grammar: code length 1..=4 x bfrange lo, hi each over 0, 1, middle, max-1, max of that length (25 pairs: empty, single, reversed, half and full ranges up to 2^32 codes) x destination <0041>, <00660069>, [<0041>], [<0041> <0042>], [<0041> <00420043> <0044>], [] x the line once or three times x alone or after bfchar and bfrange definitions (2400 CMaps; each then decodes 7 code strings of 1..4-byte codes); Flate + predictor 2 and 12 with Colors 1,3,4 x BitsPerComponent 1,2,4,8,16 x the 150 extremes as Columns, and the 39 extremes (d = 1) as Colors, as BitsPerComponent, and as Columns and Colors together (7698); stream dictionaries written from the grammar, in a one-page file as the page's content stream, as an object stream holding the page, and as the cross-reference stream: /Filter = every chain of 0..=3 of FlateDecode, LZWDecode, ASCII85Decode as an array (a chain of one also as a name) and six odd spellings (7, null, [7], [/FlateDecode 7], /DCTDecode, [/FlateDecode /DCTDecode]) x /DecodeParms absent, or null, <</Predictor 1/EarlyChange 1>>, <</Predictor 12/Columns 1>>, 7, a dangling reference, or an array of 0..=n+1 entries for n filters (shorter than, parallel to and longer than /Filter) all of one of these five values (thorough: also every mixed array over null, the first dictionary and 7) x data encoded correctly for the chain, so that every filter of the chain is reached, or cut in half (quick 6918, thorough 26754 files); size scaling (entry point doc-scaled; the other families hold inputs of some hundred bytes only): a well-formed one-page file with each of the 16 tokens %PDF-1.5, %%EOF, startxref, xref, trailer, obj, endobj, stream, endstream, R, <<, >>, [, ], (, ) on n lines of their own before the header, in comment lines before the cross-reference table, as the data of a stream with correct /Length, inside a literal string, and after the last %%EOF, n = 10, 100, .. 10^6 (thorough also 30, 300, .. 3 * 10^5): files up to 10 MB, and the same file with n incremental updates (object, one-entry xref section, trailer with /Prev, startxref, %%EOF), with n more objects in one xref section, and with n more objects in one xref subsection each, n = 10, 100, 1000, 10^4 (thorough 3 * 10^4) (quick 492, thorough 895 files, built when they run); each input in a worker with a 2 MiB stack, 4 GB address space, a 10 s no-progress watchdog (an input over 400 KB, whose budget is over 5 s: twice its budget), and a CPU-time budget of 1 s + 10 us per input byte (process CPU time over all threads; measured a second time, smaller figure kept, unless exceeded more than 4 times; a document over its budget by less than that is reported only if it also costs 30 times what a small ordinary document costs at that moment, so that a busy host is not taken for a slow library)", false);
    let n = jobs.len();
    let workers = WORKERS;
    let chunk = (n + workers - 1) / workers;
    let results: Vec<Vec<(usize, String)>> = std::thread::scope(|sc| {
        let hs: Vec<_> = (0..workers).map(|w| sc.spawn(move || {
            let mut fails = vec![];
            let mut from = w * chunk; let to = ((w + 1) * chunk).min(n);
            while from < to {
                let mut child = spawn(from, to, thorough);
                let stdout = child.stdout.take().unwrap();
                let (tx, rx) = std::sync::mpsc::channel::<String>();
                std::thread::spawn(move || { for l in BufReader::new(stdout).lines().flatten() { if tx.send(l).is_err() { break; } } });
                let mut last: Option<usize> = None; let mut done = false; let mut hung = false;
                let mut note = |l: &str, fails: &mut Vec<(usize, String)>| { if let Some(rest) = l.strip_prefix('!') { let mut it = rest.splitn(2, ' '); if let Some(i) = it.next().and_then(|x| x.parse().ok()) { fails.push((i, it.next().unwrap_or("").to_string())); } } };
                // until its first announcement the worker is only building its own copy of the job list (no library call yet):
                // that is given 300 s, every input after that 10 s without a sign of life
                let mut t0 = Instant::now();
                loop {
                    match rx.recv_timeout(Duration::from_millis(500)) {
                        Ok(l) => { t0 = Instant::now(); note(&l, &mut fails); if l == "@done" { done = true; } else if let Some(i) = l.strip_prefix('@').and_then(|x| x.parse().ok()) { last = Some(i); } }
                        Err(std::sync::mpsc::RecvTimeoutError::Timeout) => { if t0.elapsed() > Duration::from_secs(if last.is_none() { 300 } else { 10 }) { hung = true; let _ = child.kill(); break; } if let Ok(Some(_)) = child.try_wait() { while let Ok(l) = rx.try_recv() { note(&l, &mut fails); if l == "@done" { done = true; } else if let Some(i) = l.strip_prefix('@').and_then(|x| x.parse().ok()) { last = Some(i); } } break; } }
                        Err(_) => break,
                    }
                }
                let status = child.wait().ok();
                if done { break; }
                let culprit = last.unwrap_or(from);
                let how = if hung { "no progress for 10 s (hang)".to_string() } else { format!("worker died: {:?}{}", status, status.map(died_of).unwrap_or_default()) };
                fails.push((culprit, how));
                from = culprit + 1;
            }
            fails
        })).collect();
        hs.into_iter().map(|h| h.join().unwrap()).collect()
    });
    rep.evaluations = n as u64; rep.nontrivial = n as u64;
    for (i, how) in results.into_iter().flatten() {
        let (k, job) = &jobs[i];
        let b = &expand(k, job);
        let ob = if how.starts_with("panic") { "no-panic" } else if how.starts_with("slow") { "time-bound" } else if how.contains("hang") { "no-hang" } else { "no-abort" };
        // a CMap is told apart by its mapping sections, not by its prologue
        let sections = if k == "cmap" { find(b, b"endcodespacerange").map(|p| &b[(p + 18).min(b.len())..]).map(|t| &t[..find(t, b"endcmap").unwrap_or(t.len()).min(240)]) } else { None };
        // a file of the stream-dictionary family by the dictionary that carries /Filter, a scaled file by its description
        let filter_dict = if k == "doc-filters" { find(b, b"/Filter").map(|p| { let s = b[..p].iter().rposition(|c| *c == b'\n').map_or(0, |q| q + 1); &b[s..p + find(&b[p..], b"\nstream").unwrap_or(b.len() - p)] }) } else { None };
        let d = match sections {
            _ if k == "doc-scaled" => format!("entry point {:?}: {} on a {}-byte input: {}", k, how, b.len(), scaled_describe(job)),
            _ if filter_dict.is_some() => format!("entry point {:?}: {} on a {}-byte one-page file whose {} has the dictionary {}", k, how, b.len(), if find(b, b"/Type/ObjStm/N 1/First 4/Filter").is_some() { "object stream (it holds the page object)" } else if find(b, b"/Root 1 0 R/Filter").is_some() { "cross-reference stream" } else { "page content stream" }, String::from_utf8_lossy(filter_dict.unwrap_or_default())),
            Some(t) if !t.is_empty() => format!("entry point {:?}: {} on a {}-byte input whose mapping sections are {:?}", k, how, b.len(), String::from_utf8_lossy(t)),
            _ => format!("entry point {:?}: {} on a {}-byte input starting {:?}", k, how, b.len(), String::from_utf8_lossy(&b[..b.len().min(80)])),
        };
        rep.fail(&format!("{}-{}", ob, k), d.clone(), json!({"kind": k, "bytes": hex(&job[..job.len().min(200_000)]), "len": b.len()}), d);
    }
    { let mut per: std::collections::BTreeMap<&str, usize> = Default::default(); for (k, _) in &jobs { *per.entry(k.as_str()).or_default() += 1; } rep.sample(format!("inputs per entry point: {:?}", per)); }
    rep.sample(format!("{} hostile inputs, e.g. {:?}", n, String::from_utf8_lossy(&jobs[n / 3].1[..jobs[n / 3].1.len().min(50)])));
    rep
}

pub fn replay(v: &Value) -> Result<(), String> {
    let kind = v["kind"].as_str().unwrap_or("doc").to_string();
    let bytes = unhex(v["bytes"].as_str().unwrap_or(""));
    let path = std::env::temp_dir().join(format!("c04_replay_{}.bin", std::process::id()));
    std::fs::write(&path, &bytes).map_err(|e| e.to_string())?;
    let exe = std::env::current_exe().unwrap();
    let mut child = Command::new("sh").arg("-c").arg(format!("ulimit -v 4000000; exec {} c04-one {} {}", exe.display(), kind, path.display())).stdout(Stdio::piped()).stderr(Stdio::null()).spawn().map_err(|e| e.to_string())?;
    let t0 = Instant::now();
    // 10 s, or for an input over 400 KB the time that two measurements may take at twice its budget each
    let len = v["len"].as_u64().unwrap_or(0) as usize;
    let limit = if budget(len) > Duration::from_secs(5) { 4 * budget(len) } else { Duration::from_secs(10) };
    loop {
        if let Ok(Some(st)) = child.try_wait() {
            let _ = std::fs::remove_file(&path);
            // the child says in one short line why it exits with 101 (panic) or 102 (over the time budget)
            let mut said = String::new(); if let Some(mut o) = child.stdout.take() { use std::io::Read as _; let _ = o.read_to_string(&mut said); }
            return if st.success() { Ok(()) } else if said.trim().is_empty() { Err(format!("worker died: {:?}{}", st, died_of(st))) } else { Err(said.trim().to_string()) };
        }
        if t0.elapsed() > limit { let _ = child.kill(); let _ = std::fs::remove_file(&path); return Err(format!("no result within {} s (hang)", limit.as_secs())); }
        std::thread::sleep(Duration::from_millis(50));
    }
}

pub fn one(kind: &str, path: &str) {
    let bytes = std::fs::read(path).unwrap_or_default();
    let bytes = expand(kind, &bytes).into_owned();
    let k = kind.to_string();
    let h = std::thread::Builder::new().stack_size(2 * 1024 * 1024).spawn(move || run_timed(&k, &bytes, &|| {})).unwrap();
    match h.join() {
        Ok(Ok(None)) => {}
        Ok(Ok(Some(slow))) => { println!("{}", slow); std::process::exit(102); }
        Ok(Err(p)) => { println!("panic: {}", p.replace('\n', " ")); std::process::exit(101); }
        Err(_) => std::process::exit(101),
    }
}
