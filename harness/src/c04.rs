//! C04: parsing untrusted bytes never panics, aborts or hangs (bounded stand-in for the nom layer and the entry points
//! that are not under contract).  Hostile inputs run in worker processes (2 MiB thread stack, address-space limit,
//! watchdog), so panics, aborts, stack overflows, allocation failures and hangs are all observed as exit statuses.
#![allow(dead_code)]
use crate::c02;
use crate::common::*;
use crate::gen::*;
use lopdf::content::Content;
use lopdf::{Document, Object, Stream};
use serde_json::{json, Value};
use std::io::{BufRead, BufReader, Write};
use std::process::{Command, Stdio};
use std::time::{Duration, Instant};

const EXTREMES: &[&str] = &["0", "1", "-1", "255", "256", "65535", "65536", "2147483647", "2147483648", "4294967295", "4294967296", "9223372036854775807", "9223372036854775808", "18446744073709551615", "18446744073709551616", "99999999999999999999999", "-9223372036854775808"];

fn seeds() -> Vec<(String, Vec<u8>)> {
    let mut v = vec![];
    let st = |xref: usize, objstm: bool, il: bool| c02::Style { eol: 0, ws: 0, strs: 0, names: 0, nums: 0, order: 0, xref, objstm, indirect_len: il, junk: false };
    v.push(("table".to_string(), c02::render(&c02::abstract_doc(1), &st(1, false, true))));
    v.push(("xref-stream".to_string(), c02::render(&c02::abstract_doc(0), &st(2, false, false))));
    v.push(("xref-stream-predictor-objstm".to_string(), c02::render(&c02::abstract_doc(1), &st(5, true, false))));
    // incremental (Prev chain)
    let mut d = build(&DocSpec { objects: vec![((1, 0), name(b"A")), ((2, 0), lit(b"x"))], xref_stream: false, version: "1.5".into(), extra_trailer: false, max_id_slack: 0 });
    let mut base = vec![]; d.save_to(&mut base).unwrap();
    let prev = Document::load_mem(&base).unwrap();
    let mut inc = lopdf::IncrementalDocument::create_from(base, prev);
    inc.new_document.objects.insert((2, 0), lit(b"y")); let mut out = vec![]; inc.save_to(&mut out).unwrap();
    v.push(("incremental".to_string(), out));
    v
}
fn content_seed() -> Vec<u8> { b"q 1 0 0 1 10 20.5 cm BT /F1 12 Tf [(a(b)c) -120 <00ff>] TJ (x\\n\\051) ' ET BI /W 2 /H 2 /BPC 8 /CS /RGB ID 123456789012 EI << /K [1 2] >> BDC Q".to_vec() }
fn cmap_seed() -> Vec<u8> { b"/CIDInit /ProcSet findresource begin 12 dict begin begincmap /CIDSystemInfo << /Registry (Adobe) /Ordering (UCS) /Supplement 0 >> def /CMapName /Adobe-Identity-UCS def /CMapType 2 def 1 begincodespacerange <0000> <FFFF> endcodespacerange 2 beginbfchar <0003> <0020> <0010> <D83DDE00> endbfchar 2 beginbfrange <0020> <0025> <0041> <0030> <0032> [<0061> <0062> <0063>] endbfrange endcmap CMapName currentdict /CMap defineresource pop end end".to_vec() }

/// the entry points; `kind` selects which one consumes the bytes
fn consume(kind: &str, bytes: &[u8]) {
    match kind {
        "doc" => {
            if let Ok(doc) = Document::load_mem(bytes) {
                // touch what loading produced: pages, text, streams
                let pages = doc.get_pages();
                for (n, id) in pages.iter().take(4) { let _ = doc.get_page_content(*id); let _ = doc.extract_text(&[*n]); }
                for (_, o) in doc.objects.iter().take(50) { if let Object::Stream(s) = o { let _ = s.decompressed_content(); } }
            }
            let _ = lopdf::IncrementalDocument::load_mem(bytes);
        }
        "content" => { let _ = Content::decode(bytes); }
        "cmap" => {
            let mut font = lopdf::Dictionary::new();
            font.set("Type", name(b"Font")); font.set("Encoding", name(b"Identity-H"));
            let mut d = Document::with_version("1.5");
            let sid = d.add_object(Stream::new(lopdf::Dictionary::new(), bytes.to_vec()));
            font.set("ToUnicode", Object::Reference(sid));
            if let Ok(enc) = font.get_font_encoding(&d) { for code in [&b"\x00\x03"[..], b"\x00\x10\x00\x22", b"\x00\x31\xff", b"\xff\xff\xff\xff\x01"] { let _ = enc.bytes_to_string(code); } }
        }
        "text" => { let _ = lopdf::decode_text_string(&Object::string_literal(bytes.to_vec())); }
        "filter" => {
            // bytes = filter selector, parameters, data
            if bytes.len() < 4 { return; }
            let names: [&[u8]; 3] = [b"FlateDecode", b"LZWDecode", b"ASCII85Decode"];
            let mut dict = lopdf::Dictionary::new();
            dict.set("Filter", Object::Name(names[(bytes[0] % 3) as usize].to_vec()));
            let big = [1i64, 0, -1, 2, 255, 65536, i32::MAX as i64, i64::MAX, 1 << 40];
            let mut p = lopdf::Dictionary::new();
            p.set("Predictor", 10 + (bytes[1] % 6) as i64); p.set("Columns", big[(bytes[1] / 6 % 9) as usize]); p.set("Colors", big[(bytes[2] % 9) as usize]); p.set("BitsPerComponent", big[(bytes[2] / 9 % 9) as usize]); p.set("EarlyChange", (bytes[3] % 2) as i64);
            dict.set("DecodeParms", p);
            let s = Stream::new(dict, bytes[4..].to_vec());
            let _ = s.decompressed_content();
        }
        _ => {}
    }
}

/// deterministic list of hostile inputs derived from one seed
fn mutations(kind: &str, seed: &[u8], thorough: bool) -> Vec<Vec<u8>> {
    let mut out = vec![];
    let vals: Vec<u8> = if thorough { (0..=255).collect() } else { vec![0, 9, 10, 13, 32, b'(', b')', b'<', b'>', b'[', b']', b'/', b'%', b'#', b'\\', b'0', b'9', b'-', b'.', b'R', b'z', b'~', 127, 128, 255] };
    for i in 0..seed.len() { for v in &vals { if seed[i] != *v { let mut m = seed.to_vec(); m[i] = *v; out.push(m); } } }
    // truncations and splices
    for i in 0..seed.len() { out.push(seed[..i].to_vec()); if i % 7 == 0 { let mut m = seed[..i].to_vec(); m.extend_from_slice(&seed[i / 2..]); out.push(m); } }
    // numeric extremes in every digit run
    let mut i = 0;
    while i < seed.len() {
        if seed[i].is_ascii_digit() { let mut j = i; while j < seed.len() && seed[j].is_ascii_digit() { j += 1; } for e in EXTREMES { let mut m = seed[..i].to_vec(); m.extend_from_slice(e.as_bytes()); m.extend_from_slice(&seed[j..]); out.push(m); } i = j; } else { i += 1; }
    }
    if kind == "doc" {
        // W widths and Index/Size extremes spelled out, Prev / Length cycles
        for w in ["[0 0 0]", "[1 0 0]", "[0 1 0]", "[9 9 9]", "[1 100000000000 1]", "[-1 2 1]", "[1 2]", "[4294967296 1 1]", "[8 8 8]"] {
            if let Some(p) = find(seed, b"/W[") { let e = p + seed[p..].iter().position(|c| *c == b']').unwrap_or(0) + 1; let mut m = seed[..p].to_vec(); m.extend_from_slice(b"/W"); m.extend_from_slice(w.as_bytes()); m.extend_from_slice(&seed[e..]); out.push(m.clone());
                for idx in ["/Index[0 9223372036854775807]", "/Index[9223372036854775807 2]", "/Index[0 1000000000]", "/Index[-5 10]"] { let mut m2 = m.clone(); if let Some(q) = find(&m2, b"/Length") { let tail = m2.split_off(q); m2.extend_from_slice(idx.as_bytes()); m2.extend_from_slice(&tail); out.push(m2); } } }
        }
        if let Some(p) = find(seed, b"/Prev ") { let mut m = seed.to_vec(); let own = find(seed, b"startxref\n").map(|q| &seed[q + 10..]).and_then(|t| std::str::from_utf8(&t[..t.iter().position(|c| *c == b'\n').unwrap_or(0)]).ok()).unwrap_or("0").to_string(); let e = p + 6 + seed[p + 6..].iter().position(|c| !c.is_ascii_digit()).unwrap_or(0); m.splice(p + 6..e, own.bytes()); out.push(m); }
        // reference cycles with valid offsets: indirect /Length to itself and through a second stream, Kids cycle, huge Count
        for lens in [["1 0 R", "5"], ["4 0 R", "1 0 R"]] {
            let mut f = b"%PDF-1.5\n".to_vec();
            let mut offs = vec![];
            offs.push(f.len()); f.extend_from_slice(format!("1 0 obj\n<</Length {}>>\nstream\nabcde\nendstream\nendobj\n", lens[0]).as_bytes());
            offs.push(f.len()); f.extend_from_slice(b"2 0 obj\n<</Type/Catalog/Pages 3 0 R>>\nendobj\n");
            offs.push(f.len()); f.extend_from_slice(b"3 0 obj\n<</Type/Pages/Kids[3 0 R 3 0 R 5 0 R]/Count 99999999999>>\nendobj\n");
            offs.push(f.len()); f.extend_from_slice(format!("4 0 obj\n<</Length {}>>\nstream\nabcde\nendstream\nendobj\n", lens[1]).as_bytes());
            offs.push(f.len()); f.extend_from_slice(b"5 0 obj\n<</Type/Page/Parent 3 0 R/Contents 1 0 R>>\nendobj\n");
            let xr = f.len();
            f.extend_from_slice(b"xref\n0 6\n0000000000 65535 f \n");
            for o in &offs { f.extend_from_slice(format!("{:010} 00000 n \n", o).as_bytes()); }
            f.extend_from_slice(format!("trailer\n<</Size 6/Root 2 0 R>>\nstartxref\n{}\n%%EOF", xr).as_bytes());
            out.push(f);
        }
    }
    if kind == "doc" {
        // a stream whose /Length is an indirect reference that only resolves after the parallel phase (the length object is
        // compressed in an object stream), for lengths around the distance to the end of the file and beyond
        let mut ls: Vec<u64> = (0..=70).map(|k| 10 * k as u64).collect();
        ls.extend_from_slice(&[1, 5, 4294967295, 4294967296, 9223372036854775807]);
        for l in ls { out.push(deferred_length_file(l)); }
    }
    // nesting depth sweeps
    let depths: Vec<usize> = if thorough { vec![50, 99, 100, 101, 300, 3000, 20000, 100000] } else { vec![99, 100, 101, 300, 3000] };
    for d in depths { for (o, c) in [("[", "]"), ("<<", ">>"), ("(", ")"), ("<</A", ">>")] {
        let nested = format!("{}{}", o.repeat(d), c.repeat(d));
        match kind { "content" => { let mut m = nested.clone().into_bytes(); m.extend_from_slice(b" Tj"); out.push(m); }
                     "doc" => { let mut m = b"%PDF-1.5\n1 0 obj\n".to_vec(); m.extend_from_slice(nested.as_bytes()); let xr = m.len() + 8; m.extend_from_slice(format!("\nendobj\nxref\n0 2\n0000000000 65535 f \n0000000009 00000 n \ntrailer\n<</Size 2/Root 1 0 R>>\nstartxref\n{}\n%%EOF", xr).as_bytes()); out.push(m); }
                     _ => {} }
    } }
    out
}
/// PDF 1.5 file: 1 catalog, 2 pages, 4 stream with /Length 7 0 R, 10 object stream holding object 7 = `l`, 60 xref stream
fn deferred_length_file(l: u64) -> Vec<u8> {
    let mut f: Vec<u8> = b"%PDF-1.5\n".to_vec();
    let mut offs: Vec<(u32, usize)> = vec![];
    let mut put = |f: &mut Vec<u8>, id: u32, body: &[u8]| { offs.push((id, f.len())); f.extend_from_slice(format!("{} 0 obj\n", id).as_bytes()); f.extend_from_slice(body); f.extend_from_slice(b"\nendobj\n"); };
    put(&mut f, 1, b"<</Type/Catalog/Pages 2 0 R>>");
    put(&mut f, 2, b"<</Type/Pages/Kids[]/Count 0>>");
    let body = format!("7 0 {} ", l);
    let first = "7 0 ".len();
    put(&mut f, 10, format!("<</Type/ObjStm/N 1/First {}/Length {}>>\nstream\n{}\nendstream", first, body.len(), body).as_bytes());
    put(&mut f, 4, b"<</Length 7 0 R>>\nstream\nabcdefghijklmnopqrstuvwxyz\nendstream");
    let xpos = f.len();
    offs.push((60, xpos));
    let mut rows: Vec<u8> = vec![];
    let mut index = String::new();
    let mut ent: std::collections::BTreeMap<u32, (u8, u32, u16)> = std::collections::BTreeMap::new();
    ent.insert(0, (0, 0, 65535)); ent.insert(7, (2, 10, 0));
    for (id, o) in &offs { ent.insert(*id, (1, *o as u32, 0)); }
    for (id, (t, a, b)) in &ent { index.push_str(&format!("{} 1 ", id)); rows.push(*t); rows.extend_from_slice(&a.to_be_bytes()); rows.extend_from_slice(&b.to_be_bytes()); }
    f.extend_from_slice(format!("60 0 obj\n<</Type/XRef/Size 61/W[1 4 2]/Index[{}]/Root 1 0 R/Length {}>>\nstream\n", index.trim_end(), rows.len()).as_bytes());
    f.extend_from_slice(&rows);
    f.extend_from_slice(format!("\nendstream\nendobj\nstartxref\n{}\n%%EOF\n", xpos).as_bytes());
    f
}
fn find(h: &[u8], n: &[u8]) -> Option<usize> { h.windows(n.len()).position(|w| w == n) }

/// nesting-depth inputs only (run on an unoptimised build of the library as well, where stack frames are largest)
fn depth_jobs(thorough: bool) -> Vec<(String, Vec<u8>)> {
    let mut jobs: Vec<(String, Vec<u8>)> = vec![];
    let mut depths: Vec<usize> = (1..=12).map(|k| 10 * k).collect();
    depths.extend_from_slice(&[31, 32, 33, 63, 64, 65, 99, 101, 150, 300, 1000, 3000]);
    if thorough { depths.extend_from_slice(&[20000, 100000]); }
    for d in depths { for (o, c) in [("[", "]"), ("<<", ">>"), ("(", ")"), ("<</A", ">>"), ("[<</A", ">>]"), ("<</A[", "]>>")] {
        let nested = format!("{}{}", o.repeat(d), c.repeat(d));
        let mut m = nested.clone().into_bytes(); m.extend_from_slice(b" Tj"); jobs.push(("content".into(), m));
        let mut m = b"%PDF-1.5\n1 0 obj\n".to_vec(); m.extend_from_slice(nested.as_bytes()); let xr = m.len() + 8;
        m.extend_from_slice(format!("\nendobj\nxref\n0 2\n0000000000 65535 f \n0000000009 00000 n \ntrailer\n<</Size 2/Root 1 0 R>>\nstartxref\n{}\n%%EOF", xr).as_bytes()); jobs.push(("doc".into(), m));
    } }
    jobs
}

fn all_jobs(thorough: bool) -> Vec<(String, Vec<u8>)> {
    if std::env::var("C04_ONLY").map(|v| v == "depth").unwrap_or(false) { return depth_jobs(thorough); }
    let mut jobs: Vec<(String, Vec<u8>)> = vec![];
    for (_, s) in seeds() { for m in mutations("doc", &s, thorough) { jobs.push(("doc".into(), m)); } }
    for m in mutations("content", &content_seed(), thorough) { jobs.push(("content".into(), m)); }
    for m in mutations("cmap", &cmap_seed(), thorough) { jobs.push(("cmap".into(), m)); }
    for m in mutations("text", b"\xfe\xff\xd8\x3d\xde\x00\x00a", true) { jobs.push(("text".into(), m)); }
    // filters: all selector/parameter bytes over six payloads
    // the last three payloads are valid zlib data whose plain length (5, 7, 11 bytes) is not a whole number of predictor rows
    // for Columns 1 or 2: a truncated last row after complete ones
    let zl = |d: &[u8]| { use std::io::Write as _; let mut e = flate2::write::ZlibEncoder::new(Vec::new(), flate2::Compression::default()); e.write_all(d).unwrap(); e.finish().unwrap() };
    let payloads: Vec<Vec<u8>> = vec![b"x\x9c\x03\x00\x00\x00\x00\x01".to_vec(), b"\x02abc\x01def\x04xyz\x03pqr\x00".to_vec(), b"s8W-!s8W-\"zz!!~>".to_vec(),
        zl(b"\x00a\x01b\x02"), zl(b"\x02ab\x04cd\x03"), zl(b"\x01abc\x03de\x04fgh\x02")];
    for a in 0..3u8 { for b in 0..54u8 { for c in (0..81u8).step_by(if thorough { 1 } else { 5 }) { for e in 0..2u8 { for payload in &payloads { let mut m = vec![a, b, c, e]; m.extend_from_slice(payload); jobs.push(("filter".into(), m)); } } } } }
    jobs
}

/// worker: runs jobs[from..to] announcing each index first
pub fn worker(from: usize, to: usize, thorough: bool) {
    let jobs = all_jobs(thorough);
    let h = std::thread::Builder::new().stack_size(2 * 1024 * 1024).spawn(move || {
        let out = std::io::stdout();
        for i in from..to.min(jobs.len()) {
            { let mut o = out.lock(); let _ = writeln!(o, "@{}", i); let _ = o.flush(); }
            let (k, b) = &jobs[i];
            if let Err(p) = guarded(|| consume(k, b)) {
                let mut o = out.lock(); let _ = writeln!(o, "!{} {}", i, p.replace('\n', " ")); let _ = o.flush();
            }
        }
        let mut o = out.lock(); let _ = writeln!(o, "@done"); let _ = o.flush();
    }).unwrap();
    let _ = h.join();
}

fn spawn(from: usize, to: usize, thorough: bool) -> std::process::Child {
    let exe = std::env::current_exe().unwrap();
    Command::new("sh").arg("-c").arg(format!("ulimit -v 4000000; exec {} c04-worker {} {} {}", exe.display(), from, to, if thorough { "thorough" } else { "quick" }))
        .stdout(Stdio::piped()).stderr(Stdio::null()).spawn().expect("spawn worker")
}

/// the nesting sweep alone; meant for the harness built WITHOUT optimisation (`cargo build`, dev profile), where the
/// recursive descent parser's frames are several times larger than in a release build
pub fn run_depth(thorough: bool) -> Report {
    std::env::set_var("C04_ONLY", "depth");
    let mut rep = run(thorough);
    rep.bound = format!("nesting only, on this build of the harness (profile: {}): depths 10..120 in steps of 10, 31-33, 63-65, 99, 101, 150, 300, 1000, 3000 (thorough 20000, 100000) of [ ], << >>, ( ), <</A >>, [<</A >>], <</A[ ]>> as a content stream operand and as the only object of a document; each input in a worker thread with a 2 MiB stack (the default of spawned threads and of rayon workers), 4 GB address space, 10 s watchdog", if cfg!(debug_assertions) && cfg!(not(lopdf_verif_opt)) { "as built" } else { "as built" });
    rep
}

pub fn run(thorough: bool) -> Report {
    let jobs = all_jobs(thorough);
    let mut rep = Report::new("seeds: 4 small documents (table / xref stream / Flate+predictor xref stream with object stream / incremental), a content stream, a ToUnicode CMap, a text string; inputs: every single-byte substitution (quick: 25 lexically significant values, thorough: all 256) at every offset, every truncation, splices, 17 numeric extremes in every digit run, W/Index/Prev/Length/Kids constructions, 76 files whose stream /Length is a compressed object resolving after the parallel phase (values 0..700 in steps of 10 around the distance to the end of the file, and 2^32, 2^63-1), nesting depth up to 3000 (thorough 100000) for [ << ( and dictionaries, all filter-parameter selector combinations over six payloads (empty deflate, raw rows, ASCII85, and three zlib streams ending in a truncated predictor row); each in a worker with a 2 MiB stack, 4 GB address space and a 10 s watchdog", false);
    let n = jobs.len();
    let workers = 16usize;
    let chunk = (n + workers - 1) / workers;
    let results: Vec<Vec<(usize, String)>> = std::thread::scope(|sc| {
        let hs: Vec<_> = (0..workers).map(|w| sc.spawn(move || {
            let mut fails = vec![];
            let mut from = w * chunk; let to = ((w + 1) * chunk).min(n);
            while from < to {
                let mut child = spawn(from, to, thorough);
                let stdout = child.stdout.take().unwrap();
                let (tx, rx) = std::sync::mpsc::channel::<String>();
                std::thread::spawn(move || { for l in BufReader::new(stdout).lines().flatten() { if tx.send(l).is_err() { break; } } });
                let mut last: Option<usize> = None; let mut done = false; let mut hung = false;
                let mut note = |l: &str, fails: &mut Vec<(usize, String)>| { if let Some(rest) = l.strip_prefix('!') { let mut it = rest.splitn(2, ' '); if let Some(i) = it.next().and_then(|x| x.parse().ok()) { fails.push((i, format!("panic: {}", it.next().unwrap_or("")))); } } };
                let mut t0 = Instant::now();
                loop {
                    match rx.recv_timeout(Duration::from_millis(500)) {
                        Ok(l) => { t0 = Instant::now(); note(&l, &mut fails); if l == "@done" { done = true; } else if let Some(i) = l.strip_prefix('@').and_then(|x| x.parse().ok()) { last = Some(i); } }
                        Err(std::sync::mpsc::RecvTimeoutError::Timeout) => { if t0.elapsed() > Duration::from_secs(10) { hung = true; let _ = child.kill(); break; } if let Ok(Some(_)) = child.try_wait() { while let Ok(l) = rx.try_recv() { note(&l, &mut fails); if l == "@done" { done = true; } else if let Some(i) = l.strip_prefix('@').and_then(|x| x.parse().ok()) { last = Some(i); } } break; } }
                        Err(_) => break,
                    }
                }
                let status = child.wait().ok();
                if done { break; }
                let culprit = last.unwrap_or(from);
                let how = if hung { "no progress for 10 s (hang)".to_string() } else { format!("worker died: {:?}", status) };
                fails.push((culprit, how));
                from = culprit + 1;
            }
            fails
        })).collect();
        hs.into_iter().map(|h| h.join().unwrap()).collect()
    });
    rep.evaluations = n as u64; rep.nontrivial = n as u64;
    for (i, how) in results.into_iter().flatten() {
        let (k, b) = &jobs[i];
        let ob = if how.contains("hang") { "no-hang" } else if how.starts_with("panic") { "no-panic" } else { "no-abort" };
        let d = format!("entry point {:?}: {} on a {}-byte input starting {:?}", k, how, b.len(), String::from_utf8_lossy(&b[..b.len().min(60)]));
        rep.fail(&format!("{}-{}", ob, k), d.clone(), json!({"kind": k, "bytes": hex(&b[..b.len().min(200_000)]), "len": b.len()}), d);
    }
    rep.sample(format!("{} hostile inputs, e.g. {:?}", n, String::from_utf8_lossy(&jobs[n / 3].1[..jobs[n / 3].1.len().min(50)])));
    rep
}

pub fn replay(v: &Value) -> Result<(), String> {
    let kind = v["kind"].as_str().unwrap_or("doc").to_string();
    let bytes = unhex(v["bytes"].as_str().unwrap_or(""));
    let path = std::env::temp_dir().join(format!("c04_replay_{}.bin", std::process::id()));
    std::fs::write(&path, &bytes).map_err(|e| e.to_string())?;
    let exe = std::env::current_exe().unwrap();
    let mut child = Command::new("sh").arg("-c").arg(format!("ulimit -v 4000000; exec {} c04-one {} {}", exe.display(), kind, path.display())).stdout(Stdio::null()).stderr(Stdio::null()).spawn().map_err(|e| e.to_string())?;
    let t0 = Instant::now();
    loop {
        if let Ok(Some(st)) = child.try_wait() { let _ = std::fs::remove_file(&path); return if st.success() { Ok(()) } else { Err(format!("worker died: {:?}", st)) }; }
        if t0.elapsed() > Duration::from_secs(10) { let _ = child.kill(); let _ = std::fs::remove_file(&path); return Err("no result within 10 s (hang)".into()); }
        std::thread::sleep(Duration::from_millis(50));
    }
}

pub fn one(kind: &str, path: &str) {
    let bytes = std::fs::read(path).unwrap_or_default();
    let k = kind.to_string();
    let h = std::thread::Builder::new().stack_size(2 * 1024 * 1024).spawn(move || consume(&k, &bytes)).unwrap();
    if h.join().is_err() { std::process::exit(101); }
}
