//! C08: loading is deterministic under every thread schedule (bounded stand-in; the schedules are the quantifier).
//!
//! Three families, all on hand-assembled PDF 1.5 files with a cross-reference stream and object streams:
//!  * orders : through hook H1 (`lopdf::verif_hooks::MERGE_ORDER`) every order in which the per-container blocks of
//!             compressed objects can reach the merge is enumerated (k! orders for k object streams);
//!  * pools  : repeated loads inside rayon pools of 1,2,3,4,8,16 threads (sampling of real schedules and of rayon's
//!             adaptive splitting inside one object stream);
//!  * seq    : the digest of each file as loaded by the `--no-default-features` (sequential) build of the same harness,
//!             obtained from the binary named by LOPDF_VERIF_SEQ_BIN; every other load must equal it.
//! A second family (see `limits`) puts objects that sit at, just below and beyond the parser's nesting limits into small
//! and long files and varies the history of the threads that parse them: what a worker parsed before - in this load or
//! in earlier loads on the same pool - must not change what becomes of an object.
//! A third family (see `streams`) varies what a stream drags through the loader: its data (not encoded / FlateDecode,
//! healthy or damaged in three ways, decoded length on a geometric scale) and the way its /Length is stated (direct, an
//! object of its own, one object shared by several streams), for object streams and ordinary streams, in every sequence
//! of 1 and 2 streams and in long files; what becomes of a stream must not depend on its neighbours or on earlier loads.
//! A fourth family (see `layouts`) varies the layout of the file around its ordinary objects: bytes in front of the
//! header (none .. 2 MiB), cross-reference table or stream, cross-reference entries that point at an object carrying
//! another number than the entry's (so that two in-use entries yield the same object id), header markers inside the
//! objects, short files exhaustively and long files for real work splitting.
#![allow(dead_code)]
use crate::common::*;
use lopdf::{Document, Object};
use serde_json::{json, Value};
use std::collections::BTreeMap;
use std::sync::atomic::Ordering;

#[derive(Clone, Copy, Debug, PartialEq)]
pub enum Mode {
    /// the cross-reference stream designates container `d` for the shared object
    Designated(usize),
    /// the shared object's entry is free
    Free,
    /// the cross-reference stream has no entry for the shared object (two /Index subsections)
    Absent,
    /// the shared object is also an ordinary object at an offset; the entry is of type 1
    Normal,
    /// the entry designates an object stream that does not list the object
    Elsewhere,
}

#[derive(Clone, Debug)]
pub struct Spec { pub k: usize, pub mode: Mode, pub wide: usize }

fn mode_json(m: Mode) -> Value { match m { Mode::Designated(d) => json!({"designated": d}), Mode::Free => json!("free"), Mode::Absent => json!("absent"), Mode::Normal => json!("normal"), Mode::Elsewhere => json!("elsewhere") } }
fn mode_from(v: &Value) -> Mode {
    if let Some(d) = v.get("designated").and_then(|x| x.as_u64()) { return Mode::Designated(d as usize); }
    match v.as_str() { Some("free") => Mode::Free, Some("absent") => Mode::Absent, Some("normal") => Mode::Normal, _ => Mode::Elsewhere }
}
fn spec_json(s: &Spec) -> Value { json!({"k": s.k, "mode": mode_json(s.mode), "wide": s.wide}) }
fn spec_from(v: &Value) -> Spec { Spec { k: v["k"].as_u64().unwrap_or(1) as usize, mode: mode_from(&v["mode"]), wide: v["wide"].as_u64().unwrap_or(0) as usize } }
pub fn spec_name(s: &Spec) -> String { format!("k{}-{:?}-w{}", s.k, s.mode, s.wide) }

const SHARED: u32 = 20;
const TWICE: u32 = 21;
/// object streams are numbered from here (clear of 1-7, SHARED, TWICE and the unique objects 30..61)
const CONTAINER0: u32 = 100;
const XREF_ID: u32 = 900;   // above every other number the generator uses (containers 10.., unique objects 30..61 for k = 16)
const DATA: &[u8] = b"0123456789abcdefghijklmnopqrstuvwxyz";

enum Ent { Free, Normal(usize), Compressed(u32, u32) }

/// Assemble the file. Objects: 1 catalog, 2 pages, 3 page, 4 stream with /Length 20 0 R (the shared compressed
/// object: container i says i+1), 5 stream with /Length 0, 6 stream with /Length 7 0 R, 7 integer, 100.. object streams,
/// 30+2i / 31+2i unique to container i, 21 listed twice in container 0, 60 the cross-reference stream.
/// `wide` > 0 additionally gives every container an index of `wide` entries over a pool of few numbers (1000+), so that
/// one object number is listed many times in one index block and in several containers.
pub fn build_file(s: &Spec) -> Vec<u8> {
    let mut f: Vec<u8> = b"%PDF-1.5\n%\xE2\xE3\xCF\xD3\n".to_vec();
    let mut ent: BTreeMap<u32, Ent> = BTreeMap::new();
    ent.insert(0, Ent::Free);
    let put = |f: &mut Vec<u8>, ent: &mut BTreeMap<u32, Ent>, id: u32, body: &[u8]| {
        ent.insert(id, Ent::Normal(f.len()));
        f.extend_from_slice(format!("{} 0 obj\n", id).as_bytes()); f.extend_from_slice(body); f.extend_from_slice(b"\nendobj\n");
    };
    put(&mut f, &mut ent, 1, b"<< /Type /Catalog /Pages 2 0 R >>");
    put(&mut f, &mut ent, 2, b"<< /Type /Pages /Kids [3 0 R] /Count 1 >>");
    put(&mut f, &mut ent, 3, b"<< /Type /Page /Parent 2 0 R /MediaBox [0 0 10 10] /Contents 4 0 R >>");
    let mut b4 = b"<< /Length 20 0 R >>\nstream\n".to_vec(); b4.extend_from_slice(DATA); b4.extend_from_slice(b"\nendstream");
    put(&mut f, &mut ent, 4, &b4);
    put(&mut f, &mut ent, 5, b"<< /Length 0 >>\nstream\n\nendstream");
    let mut b6 = b"<< /Length 7 0 R >>\nstream\n".to_vec(); b6.extend_from_slice(&DATA[..9]); b6.extend_from_slice(b"\nendstream");
    put(&mut f, &mut ent, 6, &b6);
    put(&mut f, &mut ent, 7, b"9");
    if s.mode == Mode::Normal { put(&mut f, &mut ent, SHARED, b"33"); }
    let mut wide_owner: BTreeMap<u32, u32> = BTreeMap::new();
    for i in 0..s.k {
        let cid = CONTAINER0 + i as u32;
        // (object number, text)
        let mut items: Vec<(u32, String)> = vec![];
        items.push((30 + 2 * i as u32, format!("<< /U {} /C {} >>", 30 + 2 * i, i)));
        items.push((SHARED, format!("{}", i + 1)));
        if i == 0 { items.push((TWICE, "100".into())); }
        items.push((31 + 2 * i as u32, format!("[{} /c{} (s{})]", i, i, i)));
        if i == 0 { items.push((TWICE, "200".into())); }
        let mut x: u32 = 12345 + 77 * i as u32;
        for j in 0..s.wide {
            x = x.wrapping_mul(1103515245).wrapping_add(12345);
            // few numbers early in the index, many late (and the other way round in odd containers): halves of different sizes
            let early = (j < s.wide / 2) == (i % 2 == 0);
            let n = 1000 + if early { (x >> 16) % 5 } else { (x >> 16) % 40 };
            items.push((n, format!("<< /W {} /At {} /In {} >>", n, j, i)));
            wide_owner.entry(n).or_insert(cid);
        }
        let mut index = String::new(); let mut body = String::new();
        for (n, text) in &items { index.push_str(&format!("{} {} ", n, body.len())); body.push_str(text); body.push(' '); }
        let content = format!("{}{}", index, body);
        let mut o = format!("<< /Type /ObjStm /N {} /First {} /Length {} >>\nstream\n", items.len(), index.len(), content.len()).into_bytes();
        o.extend_from_slice(content.as_bytes()); o.extend_from_slice(b"\nendstream");
        put(&mut f, &mut ent, cid, &o);
        ent.insert(30 + 2 * i as u32, Ent::Compressed(cid, 0));
        ent.insert(31 + 2 * i as u32, Ent::Compressed(cid, 3));
    }
    ent.insert(TWICE, Ent::Compressed(CONTAINER0, 2));
    for (n, c) in &wide_owner { let c = if n % 3 == 0 { CONTAINER0 + (s.k as u32 - 1) } else { *c }; ent.insert(*n, Ent::Compressed(c, 0)); }   // a third designated to the last container
    match s.mode {
        Mode::Designated(d) => { ent.insert(SHARED, Ent::Compressed(CONTAINER0 + d as u32, 1)); }
        Mode::Free => { ent.insert(SHARED, Ent::Free); }
        Mode::Absent | Mode::Normal => {}
        Mode::Elsewhere => { ent.insert(SHARED, Ent::Compressed(2, 0)); }
    }
    write_xref(&mut f, &mut ent, XREF_ID);
    f
}

/// cross-reference stream (object `xref_id`), W [1 4 2], subsections for the runs of present entries; startxref; %%EOF
fn write_xref(f: &mut Vec<u8>, ent: &mut BTreeMap<u32, Ent>, xref_id: u32) {
    let xpos = f.len();
    ent.insert(xref_id, Ent::Normal(xpos));
    let size = ent.keys().max().unwrap() + 1;
    let mut rows: Vec<u8> = vec![]; let mut index: Vec<(u32, u32)> = vec![];
    for n in 0..size {
        let Some(e) = ent.get(&n) else { continue };
        match index.last_mut() { Some((st, c)) if *st + *c == n => *c += 1, _ => index.push((n, 1)) }
        let (t, a, b) = match e { Ent::Free => (0u8, 0u32, 65535u16), Ent::Normal(o) => (1, *o as u32, 0), Ent::Compressed(c, i) => (2, *c, *i as u16) };
        rows.push(t); rows.extend_from_slice(&a.to_be_bytes()); rows.extend_from_slice(&b.to_be_bytes());
    }
    let idx: String = index.iter().map(|(a, b)| format!("{} {} ", a, b)).collect();
    f.extend_from_slice(format!("{} 0 obj\n<< /Type /XRef /Size {} /W [1 4 2] /Index [{}] /Root 1 0 R /Length {} >>\nstream\n", xref_id, size, idx.trim_end(), rows.len()).as_bytes());
    f.extend_from_slice(&rows); f.extend_from_slice(b"\nendstream\nendobj\n");
    f.extend_from_slice(format!("startxref\n{}\n%%EOF\n", xpos).as_bytes());
}

fn canon(o: &Object, out: &mut String) {
    match o {
        Object::Stream(s) => { out.push_str(&format!("stream{{{:?}|{}|{:?}}}", s.dict, hex(&s.content), s.allows_compression)); }
        other => out.push_str(&format!("{:?}", other)),
    }
}

/// canonical rendering of everything the statement lists: objects with contents, trailer, maximum id, version
pub fn digest(d: &Document) -> String {
    let mut s = format!("version={} max_id={} trailer={:?}\n", d.version, d.max_id, d.trailer);
    for (id, o) in &d.objects { s.push_str(&format!("{} {}: ", id.0, id.1)); canon(o, &mut s); s.push('\n'); }
    s
}

fn set_order(k: usize) { lopdf::verif_hooks::MERGE_ORDER.store(k, Ordering::SeqCst); }
fn blocks() -> usize { lopdf::verif_hooks::LAST_BLOCKS.load(Ordering::SeqCst) }

fn load(bytes: &[u8]) -> Result<String, String> {
    match guarded(std::panic::AssertUnwindSafe(|| Document::load_mem(bytes))) {
        Err(p) => Err(format!("panic: {}", p)),
        Ok(Err(e)) => Ok(format!("load error: {}", e)),
        Ok(Ok(d)) => Ok(digest(&d)),
    }
}

pub fn specs(thorough: bool) -> Vec<Spec> {
    let mut v = vec![];
    let kmax = if thorough { 6 } else { 4 };
    for k in 1..=kmax {
        for d in 0..k { v.push(Spec { k, mode: Mode::Designated(d), wide: 0 }); }
        for m in [Mode::Free, Mode::Absent, Mode::Normal, Mode::Elsewhere] { v.push(Spec { k, mode: m, wide: 0 }); }
    }
    let mut wides = vec![(1usize, 64usize), (2, 64), (3, 37), (3, 200), (8, 300)];
    if thorough { wides.push((16, 300)); }
    for (k, wide) in wides { v.push(Spec { k, mode: Mode::Designated(k - 1), wide }); v.push(Spec { k, mode: Mode::Free, wide }); }
    v
}

fn factorial(n: usize) -> usize { (1..=n).product::<usize>().max(1) }

fn first_diff(a: &str, b: &str) -> String {
    for (x, y) in a.lines().zip(b.lines()) { if x != y { return format!("{:?} vs {:?}", x.chars().take(160).collect::<String>(), y.chars().take(160).collect::<String>()); } }
    format!("{} lines vs {} lines", a.lines().count(), b.lines().count())
}

/// digests computed by this very binary with the hook left alone; `c08-digests` prints them (used with the sequential build)
pub fn digests(thorough: bool) -> Value {
    set_order(usize::MAX);
    let mut m = serde_json::Map::new();
    // LOPDF_VERIF_C08_PART = "specs" / "limits" / "streams" / "layouts" asks for one of the four families only (the caller runs them concurrently)
    let part = std::env::var("LOPDF_VERIF_C08_PART").unwrap_or_default();
    let wanted = |p: &str| part.is_empty() || part == p;
    // LOPDF_VERIF_C08_SHOW = the name of a file of the third family: its document as loaded on a fresh thread, nothing else
    if let Ok(name) = std::env::var("LOPDF_VERIF_C08_SHOW") {
        if let Some(l) = lay_from(&name) { return json!({"file": name, "document": load_fresh3(&build_layout_file(&l)).unwrap_or_else(|e| e)}); }
        let f = stfile_from(&name).unwrap_or_default();
        return json!({"file": name, "document": load_fresh3(&build_stream_file(&whole(&f))).unwrap_or_else(|e| e)});
    }
    if wanted("specs") { for s in specs(thorough) { m.insert(spec_name(&s), json!(load(&build_file(&s)).unwrap_or_else(|e| e))); } }
    let failures = |rep: &Report| Value::Array(rep.failures.iter().map(|f| json!({"obligation": f.obligation, "detail": f.detail, "input": f.input, "observed": f.observed})).collect());
    if wanted("limits") {
        // the second family, judged by this build on its own; the caller compares the signatures with its expectations
        let mut rep = Report::new("second family on this build", false);
        let out = limits(thorough, &[1], "a long-lived plain thread", 3, &mut rep);
        m.insert("limit-alphabet".into(), json!(out.alphabet));
        for (name, (_, loaded)) in out.files { m.insert(format!("L:{}", name), json!(loaded)); }
        m.insert("limit-failures".into(), failures(&rep));
    }
    if wanted("streams") {
        // the third family, likewise
        let mut rep = Report::new("third family on this build", false);
        let out = streams(thorough, &[1], "a long-lived plain thread", 3, None, &mut rep);
        m.insert("stream-alphabet".into(), json!(out.alphabet));
        for (name, (_, loaded)) in out.files { m.insert(format!("S:{}", name), json!(loaded)); }
        m.insert("stream-failures".into(), failures(&rep));
    }
    if wanted("layouts") {
        // the fourth family, likewise
        let mut rep = Report::new("fourth family on this build", false);
        let out = layouts(thorough, &[], "a long-lived plain thread", 1, &mut rep);
        for (name, sig) in out.files { m.insert(format!("Y:{}", name), json!(sig)); }
        m.insert("layout-failures".into(), failures(&rep));
    }
    Value::Object(m)
}

fn seq_digests(thorough: bool) -> Result<Value, String> { seq_digests_part(thorough, "") }
fn seq_digests_part(thorough: bool, part: &str) -> Result<Value, String> {
    let bin = std::env::var("LOPDF_VERIF_SEQ_BIN").map_err(|_| "LOPDF_VERIF_SEQ_BIN is not set".to_string())?;
    let mut c = std::process::Command::new(bin);
    c.env("LOPDF_VERIF_C08_PART", part);
    c.arg("c08-digests").arg("--tier").arg(if thorough { "thorough" } else { "quick" });
    let out = c.output().map_err(|e| format!("sequential build did not start: {}", e))?;
    let text = String::from_utf8_lossy(&out.stdout).to_string();
    let line = text.lines().find(|l| l.starts_with('{')).ok_or_else(|| format!("sequential build printed no digests: {}", String::from_utf8_lossy(&out.stderr)))?;
    serde_json::from_str(line).map_err(|e| e.to_string())
}

fn check_spec(s: &Spec, seq: &str, max_orders: usize, repeats: usize, rep: &mut Report) {
    let bytes = build_file(s);
    let input = |extra: Value| json!({"spec": spec_json(s), "at": extra});
    // the unhooked load in the calling thread's pool
    set_order(usize::MAX);
    let base = match load(&bytes) { Ok(d) => d, Err(p) => { rep.fail("no-panic", format!("{}: {}", spec_name(s), p), input(json!("plain")), p.clone()); return; } };
    rep.case(true);
    if base != seq { rep.fail("equals-sequential-build", format!("{}: parallel load differs from the sequential build: {}", spec_name(s), first_diff(&base, seq)), input(json!("plain")), first_diff(&base, seq)); }
    let b = blocks();
    if b != s.k { rep.fail("hook-sees-every-container", format!("{}: {} object streams in the file, hook H1 recorded {} blocks", spec_name(s), s.k, b), input(json!("plain")), format!("{}", b)); }
    // every merge order
    let n = factorial(b).min(max_orders);
    for k in 0..n {
        set_order(k);
        let r = load(&bytes);
        rep.case(true);
        match r {
            Err(p) => { rep.fail("no-panic", format!("{} order {}: {}", spec_name(s), k, p), input(json!({"order": k})), p.clone()); }
            Ok(d) => if d != seq { rep.fail("every-merge-order-gives-the-same-document", format!("{}: merge order {} of {} gives a different document: {}", spec_name(s), k, factorial(b), first_diff(&d, seq)), input(json!({"order": k})), first_diff(&d, seq)); break; }
        }
    }
    set_order(usize::MAX);
    // real schedules
    for threads in [1usize, 2, 3, 4, 8, 16] {
        let pool = rayon::ThreadPoolBuilder::new().num_threads(threads).build().expect("pool");
        for r in 0..repeats {
            let d = pool.install(|| load(&bytes));
            rep.case(true);
            match d {
                Err(p) => { rep.fail("no-panic", format!("{} pool {}: {}", spec_name(s), threads, p), input(json!({"threads": threads})), p.clone()); }
                Ok(d) => if d != seq { rep.fail("every-pool-size-gives-the-same-document", format!("{}: load number {} on a pool of {} threads differs from the sequential build: {}", spec_name(s), r, threads, first_diff(&d, seq)), input(json!({"threads": threads, "repeats": repeats})), first_diff(&d, seq)); break; }
            }
        }
    }
}

// ---------------------------------------------------------------------------------------------------------------------
// Second family: objects AT A PARSER LIMIT x STATE HISTORY of the threads that parse them.
//
// "Regardless of how the work is split among the workers" means that what becomes of one object may depend on that
// object (and the file) alone - never on what the worker that happens to parse it has parsed before, in this load or in
// an earlier one on the same pool. An object that is parsed to completion leaves nothing behind; the interesting
// objects are those on which the parser gives up half-way (its nesting limits). So:
//  * object alphabet O: kind {arrays, dictionaries, arrays and dictionaries alternating, parentheses in a literal
//    string} x {ordinary object, member of an object stream} x nesting depth {2, A-1, A, A+1, A+6}, where A is the
//    deepest nesting that loads when the object is alone in the file (found by probing 20..=112 on fresh threads);
//  * files: every sequence of 1, 2 (thorough: 3) objects of O, and long files (64 objects drawn from O; A+1 and A
//    alternating) for real work splitting;
//  * oracle (independent of the loader): an object loads in every file, on every pool, after every history exactly as
//    it does alone on a fresh thread, and if it loads it is the object that was written; everything else in the file
//    is constant. The sequential build must agree.
//  * histories: every file on a fresh thread (one worker parses everything in order: the one deterministic schedule);
//    every sequence of 2 (thorough: 3) single-object files on one fresh thread; every file, and every ordered pair of
//    single-object files, on long-lived pools of 1,2,3,4,8,16 threads and on the global pool, which therefore carry the
//    history of the whole enumeration; long files on fresh pools of every size, repeatedly.

#[derive(Clone, Copy, Debug, PartialEq, Eq, Hash, PartialOrd, Ord)]
pub enum Kind { Array, Dict, Mixed, Str }
const KINDS: [Kind; 4] = [Kind::Array, Kind::Dict, Kind::Mixed, Kind::Str];

#[derive(Clone, Copy, Debug, PartialEq, Eq, Hash, PartialOrd, Ord)]
pub struct Slot { pub kind: Kind, pub depth: usize, pub compressed: bool }

const PROBE_LO: usize = 20;
const PROBE_HI: usize = 112;
const LONG: usize = 64;

fn slot_name(s: &Slot) -> String { format!("{}{}{}", match s.kind { Kind::Array => 'a', Kind::Dict => 'd', Kind::Mixed => 'm', Kind::Str => 's' }, s.depth, if s.compressed { 'c' } else { 'p' }) }
fn slot_from(t: &str) -> Option<Slot> {
    let kind = match t.chars().next()? { 'a' => Kind::Array, 'd' => Kind::Dict, 'm' => Kind::Mixed, 's' => Kind::Str, _ => return None };
    let compressed = match t.chars().last()? { 'c' => true, 'p' => false, _ => return None };
    Some(Slot { kind, depth: t.get(1..t.len() - 1)?.parse().ok()?, compressed })
}
pub fn file_name(f: &[Slot]) -> String { f.iter().map(slot_name).collect::<Vec<_>>().join(",") }
fn file_from(t: &str) -> Option<Vec<Slot>> { t.split(',').map(slot_from).collect() }
fn slot_words(s: &Slot) -> String {
    format!("{} nested {} deep, {}", match s.kind { Kind::Array => "arrays", Kind::Dict => "dictionaries", Kind::Mixed => "arrays and dictionaries", Kind::Str => "parentheses in a literal string" }, s.depth, if s.compressed { "in an object stream" } else { "an ordinary object" })
}

/// the text of the object in the file
fn slot_text(s: &Slot) -> String {
    let d = s.depth;
    let dict_at = |i: usize| match s.kind { Kind::Dict => true, Kind::Mixed => i % 2 == 1, _ => false };
    if s.kind == Kind::Str { return format!("{}x{}", "(".repeat(d), ")".repeat(d)); }
    let mut t = String::new();
    for i in 0..d { t.push_str(if dict_at(i) { "<</D" } else { "[" }); }
    t.push_str(" 7");
    for i in (0..d).rev() { t.push_str(if dict_at(i) { ">>" } else { "]" }); }
    t
}

/// the same object put together from the library's data types (no parser involved)
fn slot_object(s: &Slot) -> Object {
    let d = s.depth;
    if s.kind == Kind::Str { return Object::string_literal(format!("{}x{}", "(".repeat(d - 1), ")".repeat(d - 1)).into_bytes()); }
    let mut o = Object::Integer(7);
    for i in (0..d).rev() {
        let dict = match s.kind { Kind::Dict => true, Kind::Mixed => i % 2 == 1, _ => false };
        o = if dict { let mut m = lopdf::Dictionary::new(); m.set("D", o); Object::Dictionary(m) } else { Object::Array(vec![o]) };
    }
    o
}

/// Objects 1 catalog, 2 pages; object j of the sequence has the number 101+2j; a run of (at most 8) consecutive members
/// of object streams shares one container, numbered 100+2j for the first member j of the run; the cross-reference
/// stream comes last. On one thread the objects are therefore parsed in the order of the sequence.
pub fn build_limit_file(slots: &[Slot]) -> Vec<u8> {
    let mut f: Vec<u8> = b"%PDF-1.5\n%\xE2\xE3\xCF\xD3\n".to_vec();
    let mut ent: BTreeMap<u32, Ent> = BTreeMap::new();
    ent.insert(0, Ent::Free);
    let put = |f: &mut Vec<u8>, ent: &mut BTreeMap<u32, Ent>, id: u32, body: &[u8]| {
        ent.insert(id, Ent::Normal(f.len()));
        f.extend_from_slice(format!("{} 0 obj\n", id).as_bytes()); f.extend_from_slice(body); f.extend_from_slice(b"\nendobj\n");
    };
    put(&mut f, &mut ent, 1, b"<< /Type /Catalog /Pages 2 0 R >>");
    put(&mut f, &mut ent, 2, b"<< /Type /Pages /Kids [] /Count 0 >>");
    let mut j = 0;
    while j < slots.len() {
        if !slots[j].compressed { put(&mut f, &mut ent, 101 + 2 * j as u32, slot_text(&slots[j]).as_bytes()); j += 1; continue; }
        let cid = 100 + 2 * j as u32;
        let mut index = String::new(); let mut body = String::new(); let mut n = 0u32;
        while j < slots.len() && slots[j].compressed && n < 8 {
            let id = 101 + 2 * j as u32;
            index.push_str(&format!("{} {} ", id, body.len())); body.push_str(&slot_text(&slots[j])); body.push(' ');
            ent.insert(id, Ent::Compressed(cid, n));
            n += 1; j += 1;
        }
        let content = format!("{}{}", index, body);
        let mut o = format!("<< /Type /ObjStm /N {} /First {} /Length {} >>\nstream\n", n, index.len(), content.len()).into_bytes();
        o.extend_from_slice(content.as_bytes()); o.extend_from_slice(b"\nendstream");
        put(&mut f, &mut ent, cid, &o);
    }
    write_xref(&mut f, &mut ent, 100 + 2 * slots.len() as u32);
    f
}

fn big_pool(threads: usize) -> rayon::ThreadPool { rayon::ThreadPoolBuilder::new().num_threads(threads).stack_size(8 << 20).build().expect("pool") }
/// `load` without the detour over the process-wide panic hook (the second family loads from several threads at once)
fn load2(bytes: &[u8]) -> Result<String, String> {
    match std::panic::catch_unwind(std::panic::AssertUnwindSafe(|| Document::load_mem(bytes))) {
        Err(e) => Err(format!("panic: {}", if let Some(s) = e.downcast_ref::<String>() { s.clone() } else if let Some(s) = e.downcast_ref::<&str>() { s.to_string() } else { "?".to_string() })),
        Ok(Err(e)) => Ok(format!("load error: {}", e)),
        Ok(Ok(d)) => Ok(digest(&d)),
    }
}
/// load on a thread that has never parsed anything
fn load_fresh(bytes: &[u8]) -> Result<String, String> { on_fresh_thread(|| load2(bytes)) }
/// run `f` on a new thread that is the only worker of a rayon pool of its own (no second thread, no hand-over: the
/// parallel loader runs everything on this very thread, the sequential one anyway)
fn on_fresh_thread<T: Send>(f: impl FnOnce() -> T + Send) -> T {
    std::thread::scope(|sc| std::thread::Builder::new().stack_size(64 << 20).spawn_scoped(sc, || {
        let pool = rayon::ThreadPoolBuilder::new().num_threads(1).use_current_thread().build().expect("pool on the current thread");
        pool.install(f)
    }).expect("new thread").join().expect("fresh thread"))
}
fn load_on(pool: &Option<rayon::ThreadPool>, bytes: &[u8]) -> Result<String, String> { match pool { Some(p) => p.install(|| load2(bytes)), None => load2(bytes) } }

fn split_line(l: &str) -> Option<((u32, u32), &str)> {
    let (id, rest) = l.split_once(": ")?;
    let (a, b) = id.split_once(' ')?;
    Some(((a.parse().ok()?, b.parse().ok()?), rest))
}
fn slot_of(id: (u32, u32), n: usize) -> Option<usize> { if id.1 == 0 && id.0 >= 101 && id.0 % 2 == 1 && ((id.0 - 101) / 2) < n as u32 { Some(((id.0 - 101) / 2) as usize) } else { None } }
/// what became of each object of the sequence: None = not in the document, Some(rendering)
fn slot_outcomes(d: &str, n: usize) -> Vec<Option<String>> {
    let mut v = vec![None; n];
    for l in d.lines().skip(1) { if let Some((id, rest)) = split_line(l) { if let Some(j) = slot_of(id, n) { v[j] = Some(rest.to_string()); } } }
    v
}
fn presence(d: &str, n: usize) -> String { slot_outcomes(d, n).iter().map(|o| if o.is_some() { '+' } else { '-' }).collect() }
fn fnv(s: &str) -> u64 { s.bytes().fold(0xcbf29ce484222325u64, |h, b| (h ^ b as u64).wrapping_mul(0x100000001b3)) }
/// what the other build gets to see of a digest: its hash, and which objects of the sequence were loaded
fn signature(d: &str, n: usize) -> String { let p = presence(d, n); format!("{:016x}:{}", fnv(d), if n > 8 { format!("{} of {} loaded", p.matches('+').count(), n) } else { p }) }

pub struct Lim { pub alphabet: Vec<Slot>, iso: std::collections::HashMap<Slot, Option<String>> }

/// what becomes of the object when it is alone in the file and the thread is fresh; Err: the file did not load
fn outcome_alone(s: &Slot) -> Result<Option<String>, String> {
    let d = load_fresh(&build_limit_file(&[*s]))?;
    if !d.starts_with("version=") { return Err(d); }
    Ok(slot_outcomes(&d, 1).remove(0))
}

impl Lim {
    fn empty() -> Lim { Lim { alphabet: vec![], iso: Default::default() } }
    fn learn(&mut self, s: &Slot, rep: &mut Report) -> Option<bool> {
        if let Some(o) = self.iso.get(s) { return Some(o.is_some()); }
        rep.case(true);
        self.note(s, outcome_alone(s), rep)
    }
    fn note(&mut self, s: &Slot, outcome: Result<Option<String>, String>, rep: &mut Report) -> Option<bool> {
        match outcome {
            Err(e) => { rep.fail("generated-file-loads", format!("[{}] the file with this single object ({}) does not load: {}", slot_name(s), slot_words(s), e), limit_input(&[*s], json!("fresh"), "generated-file-loads", false), e.clone()); None }
            Ok(o) => {
                let want = format!("{:?}", slot_object(s));
                if let Some(r) = &o { if *r != want { rep.fail("a-loaded-object-is-the-object-that-was-written", format!("[{}] alone in the file ({}) it loads as {:?}", slot_name(s), slot_words(s), r.chars().take(120).collect::<String>()), limit_input(&[*s], json!("fresh"), "a-loaded-object-is-the-object-that-was-written", false), r.chars().take(200).collect()); } }
                let p = o.is_some(); self.iso.insert(*s, o); Some(p)
            }
        }
    }
    /// find the limit of every kind of object in both positions and fix the alphabet around it
    fn probe(rep: &mut Report) -> Lim {
        let mut lim = Lim::empty();
        let mut all: Vec<Slot> = vec![];
        for kind in KINDS { for compressed in [false, true] { for depth in std::iter::once(2).chain(PROBE_LO..=PROBE_HI) { all.push(Slot { kind, depth, compressed }); } } }
        for (i, r) in fan(8, all.len(), rep, &|i, rep: &mut Report| { rep.case(true); Some(outcome_alone(&all[i])) }) { lim.note(&all[i], r, rep); }
        for kind in KINDS { for compressed in [false, true] {
            let mut acc = vec![];
            for depth in PROBE_LO..=PROBE_HI { match lim.learn(&Slot { kind, depth, compressed }, rep) { Some(p) => acc.push(p), None => break } }
            let n_ok = acc.iter().take_while(|p| **p).count();
            let name = slot_name(&Slot { kind, depth: 0, compressed });
            if acc.len() != PROBE_HI - PROBE_LO + 1 { continue; }
            if n_ok == 0 || n_ok + 6 >= acc.len() || acc[n_ok..].iter().any(|p| *p) {
                let pic: String = acc.iter().map(|p| if *p { '+' } else { '-' }).collect();
                rep.fail("limit-family-straddles-the-limit", format!("{}: nesting depths {}..={} alone in a file load as {} - no single limit with room on both sides; this kind of object is left out", name, PROBE_LO, PROBE_HI, pic), json!({"limit": name, "at": "probe", "obligation": "limit-family-straddles-the-limit"}), pic.clone());
                continue;
            }
            let a = PROBE_LO + n_ok - 1;
            for depth in [2, a - 1, a, a + 1, a + 6] { let s = Slot { kind, depth, compressed }; if lim.learn(&s, rep).is_some() { lim.alphabet.push(s); } }
        } }
        lim
    }
    /// the digest the file must have: everything that is not an object of the sequence as loaded, the objects of the
    /// sequence as they load alone
    fn expected(&self, d: &str, f: &[Slot]) -> String {
        let mut lines = d.lines();
        let head = lines.next().unwrap_or("").to_string();
        let mut m: BTreeMap<(u32, u32), String> = BTreeMap::new();
        for l in lines { if let Some((id, rest)) = split_line(l) { if slot_of(id, f.len()).is_none() { m.insert(id, rest.to_string()); } } }
        for (j, s) in f.iter().enumerate() { if let Some(Some(r)) = self.iso.get(s) { m.insert((101 + 2 * j as u32, 0), r.clone()); } }
        let mut out = head; out.push('\n');
        for (id, r) in m { out.push_str(&format!("{} {}: {}\n", id.0, id.1, r)); }
        out
    }
    fn files(&self, thorough: bool) -> Vec<Vec<Slot>> {
        let o = &self.alphabet;
        let mut v: Vec<Vec<Slot>> = o.iter().map(|s| vec![*s]).collect();
        for a in o { for b in o { v.push(vec![*a, *b]); } }
        if thorough { for a in o { for b in o { for c in o { v.push(vec![*a, *b, *c]); } } } }
        if o.is_empty() { return v; }
        // long files: at the limit and just beyond it alternating, per kind and position (the alphabet holds 5 depths per group)
        for g in o.chunks(5) { if g.len() == 5 { v.push((0..LONG).map(|i| if i % 2 == 0 { g[3] } else { g[2] }).collect()); } }
        for seed in 0..(if thorough { 12u32 } else { 3 }) {
            let mut x: u32 = 2463534242u32.wrapping_add(seed.wrapping_mul(2654435761));
            v.push((0..LONG).map(|_| { x = x.wrapping_mul(1103515245).wrapping_add(12345); o[((x >> 16) as usize) % o.len()] }).collect());
        }
        v
    }
}

fn limit_input(f: &[Slot], at: Value, obligation: &str, thorough: bool) -> Value { json!({"limit": file_name(f), "at": at, "obligation": obligation, "tier": if thorough { "thorough" } else { "quick" }}) }

/// how a digest differs from the expected one, in terms of the objects of the sequence
fn limit_diff(got: &str, want: &str, f: &[Slot]) -> String {
    if !got.starts_with("version=") { return got.chars().take(160).collect(); }
    let (g, w) = (slot_outcomes(got, f.len()), slot_outcomes(want, f.len()));
    for j in 0..f.len() {
        if g[j] == w[j] { continue; }
        let s = &f[j];
        let fate = |o: &Option<String>| match o { None => "is not loaded".to_string(), Some(r) if *r == format!("{:?}", slot_object(s)) => "is loaded".to_string(), Some(r) => format!("is loaded as {:?}", r.chars().take(60).collect::<String>()) };
        return format!("object {} of {} (number {}: {}) {}, but alone in a file on a fresh thread it {}", j, f.len(), 101 + 2 * j, slot_words(s), fate(&g[j]), fate(&w[j]));
    }
    first_diff(got, want)
}

pub struct LimOut { pub alphabet: String, /// file -> (signature of the expected digest, signature of the digest loaded on a fresh thread)
    pub files: BTreeMap<String, (String, String)> }

const OB_NEIGHBOURS: &str = "an-object-loads-the-same-whatever-its-worker-parsed-before";
const OB_HISTORY: &str = "a-load-does-not-depend-on-earlier-loads-on-the-same-pool";
const OB_POOLS: &str = "every-pool-size-gives-the-same-document";
// the first 48 characters of a detail (after the file in brackets) are what `Report::fail` groups failures by
const WHAT_FRESH: &str = "one fresh thread parses the whole file: not every object fares as it does alone";
const WHAT_WALK: &str = "a pool that has loaded other files before loads this one differently";
const WHAT_SESSION: &str = "loaded on one fresh thread after other files, the file loads differently";
const WHAT_POOLS: &str = "a fresh pool of several threads loads the long file differently";

fn short(name: &str) -> String { if name.len() > 60 { format!("{}... ({} objects)", &name[..60], name.split(',').count()) } else { name.to_string() } }

/// one load of a file of the family, judged against the expected digest; true if it was as expected
fn judge(rep: &mut Report, obligation: &str, f: &[Slot], got: Result<String, String>, want: &str, what: &str, at: Value, thorough: bool) -> bool {
    rep.case(true);
    match got {
        Err(p) => { rep.fail("no-panic", format!("[{}] {}: {}", short(&file_name(f)), what, p), limit_input(f, at, "no-panic", thorough), p.clone()); false }
        Ok(d) if d == want => true,
        Ok(d) => { let diff = limit_diff(&d, want, f); rep.fail(obligation, format!("[{}] {}: {}", short(&file_name(f)), what, diff), limit_input(f, at, obligation, thorough), diff.clone()); false }
    }
}

/// a closed walk over 0..n in which every ordered pair (a, b), a = b included, occurs exactly once as neighbours (n*n+1 stops)
fn euler_tour(n: usize) -> Vec<usize> {
    if n == 0 { return vec![]; }
    let (mut next, mut stack, mut out) = (vec![0usize; n], vec![0usize], vec![]);
    while let Some(&v) = stack.last() { if next[v] < n { next[v] += 1; stack.push(next[v] - 1); } else { out.push(v); stack.pop(); } }
    out.reverse();
    out
}

/// `n` items dealt out to `workers` plain threads (item i goes to thread i mod workers); every thread has its own report
fn fan<T: Send>(workers: usize, n: usize, rep: &mut Report, f: &(dyn Fn(usize, &mut Report) -> Option<T> + Sync)) -> Vec<(usize, T)> {
    let parts: Vec<(Report, Vec<(usize, T)>)> = std::thread::scope(|sc| {
        let hs: Vec<_> = (0..workers).map(|w| sc.spawn(move || {
            let mut r = Report::new("part", false); let mut v = vec![];
            let mut i = w; while i < n { if let Some(t) = f(i, &mut r) { v.push((i, t)); } i += workers; }
            (r, v)
        })).collect();
        hs.into_iter().map(|h| h.join().expect("worker of the harness")).collect()
    });
    let mut all = vec![];
    for (r, v) in parts { rep.merge(r); all.extend(v); }
    all.sort_by_key(|x| x.0);
    all
}

/// The whole second family on this build. `sizes`: the long-lived and the fresh pools; `here`: what a load outside of any
/// pool runs on (the global pool in the parallel build, a plain thread in the sequential one). The fresh-thread loads
/// are independent of each other and are dealt out to 8 threads of the harness; every long-lived pool is driven by its
/// own thread, all of them at the same time (so the pools also compete for the cores).
pub fn limits(thorough: bool, sizes: &[usize], here: &str, repeats: usize, rep: &mut Report) -> LimOut {
    set_order(usize::MAX);
    let workers = 8;
    let lim = Lim::probe(rep);
    let mut out = LimOut { alphabet: file_name(&lim.alphabet), files: BTreeMap::new() };
    let files = lim.files(thorough);
    // one fresh thread parses everything, in the order of the sequence
    struct Loaded { bytes: Vec<u8>, want: String }
    let fresh = fan(workers, files.len(), rep, &|i, rep: &mut Report| {
        let f = &files[i];
        let name = file_name(f);
        let bytes = build_limit_file(f);
        rep.case(true);
        let d = match load_fresh(&bytes) {
            Err(p) => { rep.fail("no-panic", format!("[{}] on a fresh thread: {}", short(&name), p), limit_input(f, json!("fresh"), "no-panic", thorough), p.clone()); return None; }
            Ok(d) if !d.starts_with("version=") => { rep.fail("generated-file-loads", format!("[{}] the file does not load: {}", short(&name), d), limit_input(f, json!("fresh"), "generated-file-loads", thorough), d.clone()); return None; }
            Ok(d) => d,
        };
        let want = lim.expected(&d, f);
        if d != want { let diff = limit_diff(&d, &want, f); rep.fail(OB_NEIGHBOURS, format!("[{}] {}: {}", short(&name), WHAT_FRESH, diff), limit_input(f, json!("fresh"), OB_NEIGHBOURS, thorough), diff.clone()); }
        let sigs = (signature(&want, f.len()), signature(&d, f.len()));
        // the long-lived pools get the files of up to 2 objects and the long ones
        Some((sigs, if f.len() != 3 { Some(Loaded { bytes, want }) } else { None }))
    });
    let mut kept: Vec<(usize, Loaded)> = vec![];
    for (i, (sigs, l)) in fresh { out.files.insert(file_name(&files[i]), sigs); if let Some(l) = l { kept.push((i, l)); } }
    let single: std::collections::HashMap<Slot, &Loaded> = kept.iter().filter(|(i, _)| files[*i].len() == 1).map(|(i, l)| (files[*i][0], l)).collect();
    let o: Vec<Slot> = lim.alphabet.iter().filter(|s| single.contains_key(s)).cloned().collect();
    // every sequence of 2 (3) single-object files on one fresh thread
    let h = if thorough { 3 } else { 2 };
    let get = |s: &Slot| single.get(s).map(|l| (l.bytes.clone(), l.want.clone()));
    fan(workers, if o.is_empty() { 0 } else { o.len().pow(h) }, rep, &|mut k, rep: &mut Report| {
        let mut session = vec![]; for _ in 0..h { session.push(o[k % o.len()]); k /= o.len(); } session.reverse();
        run_session(&session, 1, &get, rep, thorough);
        None::<()>
    });
    // pools that live through the whole enumeration: every kept file in turn, then a walk in which every ordered pair of single-object files occurs back to back
    let tour = euler_tour(o.len());
    let mut labels: Vec<(String, usize)> = vec![(here.to_string(), 0)];
    for t in sizes { labels.push((format!("a long-lived pool of {} threads", t), *t)); }
    fan(labels.len(), labels.len(), rep, &|p, rep: &mut Report| {
        let (label, t) = &labels[p];
        let pool = if *t == 0 { None } else { Some(big_pool(*t)) };
        let mut step = 0usize;
        for (i, l) in &kept {
            judge(rep, OB_HISTORY, &files[*i], load_on(&pool, &l.bytes), &l.want, &format!("{} ({}, after {} earlier loads of this family there)", WHAT_WALK, label, step), json!({"walk": t}), thorough);
            step += 1;
        }
        let mut before: Option<Slot> = None;
        for k in &tour {
            let s = o[*k]; let l = single[&s];
            let what = format!("{} ({}, load number {} there{})", WHAT_WALK, label, step, before.map(|b| format!(", right after {}", slot_name(&b))).unwrap_or_default());
            judge(rep, OB_HISTORY, &[s], load_on(&pool, &l.bytes), &l.want, &what, json!({"walk": t}), thorough);
            step += 1; before = Some(s);
        }
        None::<()>
    });
    // real splits of the long files on fresh pools of every size
    for (i, l) in kept.iter().filter(|(i, _)| files[*i].len() > 3) {
        for t in sizes {
            let pool = big_pool(*t);
            for r in 0..repeats { if !judge(rep, OB_POOLS, &files[*i], pool.install(|| load2(&l.bytes)), &l.want, &format!("{} (load number {} on a pool of {} threads)", WHAT_POOLS, r, t), json!({"threads": t, "repeats": repeats}), thorough) { break; } }
        }
    }
    out
}

/// the single-object files of `session` one after the other on one fresh pool; every load must be as expected
fn run_session(session: &[Slot], threads: usize, single: &(dyn Fn(&Slot) -> Option<(Vec<u8>, String)> + Sync), rep: &mut Report, thorough: bool) {
    let names: Vec<String> = session.iter().map(slot_name).collect();
    let files: Vec<Option<(Vec<u8>, String)>> = session.iter().map(single).collect();
    // all loads of the session on the same pool, stopping at the first that is not as expected
    let all = |load_one: &dyn Fn(&[u8]) -> Result<String, String>| -> Vec<Result<String, String>> {
        let mut got = vec![];
        for f in &files { let Some((bytes, want)) = f else { break }; let r = load_one(bytes); let ok = r.as_ref().map(|d| d == want).unwrap_or(false); got.push(r); if !ok { break; } }
        got
    };
    let got = if threads == 1 { on_fresh_thread(|| all(&|b| load2(b))) } else { let pool = big_pool(threads); all(&|b| pool.install(|| load2(b))) };
    for (i, r) in got.into_iter().enumerate() {
        let Some((_, want)) = &files[i] else { break };
        let what = if i == 0 { format!("{} (nothing loaded before, pool of {} thread(s))", WHAT_SESSION, threads) } else { format!("{} (pool of {} thread(s), loaded before: {})", WHAT_SESSION, threads, names[..i].join(", then ")) };
        judge(rep, OB_HISTORY, &[session[i]], r, want, &what, json!({"session": names[..=i], "threads": threads}), thorough);
    }
}

/// the second family on this (parallel) build, and the comparison with the sequential build
fn check_limits(thorough: bool, seq: &Value, repeats: usize, rep: &mut Report) {
    let out = limits(thorough, &[1, 2, 3, 4, 8, 16], "the global pool", repeats, rep);
    const OB: &str = "equals-sequential-build";
    let seq_alphabet = seq.get("limit-alphabet").and_then(|x| x.as_str()).unwrap_or("(none)");
    if seq_alphabet != out.alphabet {
        rep.fail(OB, format!("the sequential build finds other nesting limits: its alphabet of objects is {}, this build's is {}", seq_alphabet, out.alphabet), json!({"limit": "", "at": "seq", "obligation": OB, "tier": if thorough { "thorough" } else { "quick" }}), seq_alphabet.to_string());
    } else {
        for (name, (want, _)) in &out.files {
            rep.case(true);
            let got = seq.get(format!("L:{}", name)).and_then(|x| x.as_str()).unwrap_or("(no digest)");
            if got != want { let f = file_from(name).unwrap_or_default(); rep.fail(OB, format!("[{}] the sequential build loads another document on a fresh thread (hash:objects loaded): it gets {}, expected is {}", short(name), got, want), limit_input(&f, json!("seq"), OB, thorough), got.to_string()); }
        }
    }
    // what the sequential build found out about itself (fresh thread, histories on its calling thread and on one worker)
    check_seq_failures_only(seq, rep);
}

fn replay_limit(v: &Value) -> Result<(), String> {
    let f = file_from(v["limit"].as_str().unwrap_or("")).unwrap_or_default();
    let thorough = v["tier"].as_str() == Some("thorough");
    let obligation = v["obligation"].as_str().unwrap_or("").to_string();
    let mut rep = Report::new("replay", false);
    // the recorded failure itself if it is there, else one of the same obligation, else whatever failed
    let verdict = |rep: &Report| match rep.failures.iter().find(|x| x.obligation == obligation && x.input["limit"] == v["limit"] && x.input["at"] == v["at"]).or(rep.failures.iter().find(|x| x.obligation == obligation)).or(rep.failures.first()) { None => Ok(()), Some(x) => Err(format!("{}: {}", x.obligation, x.detail)) };
    set_order(usize::MAX);
    if v["build"].as_str() == Some("sequential") {
        let seq = seq_digests_part(thorough, "limits")?;
        check_seq_failures_only(&seq, &mut rep);
        return verdict(&rep);
    }
    let mut lim = Lim::empty();
    for s in &f { lim.learn(s, &mut rep); }
    let at = &v["at"];
    let bytes = build_limit_file(&f);
    let want = |lim: &Lim, f: &[Slot]| -> Result<String, String> { let d = load_fresh(&build_limit_file(f))?; Ok(lim.expected(&d, f)) };
    if at.as_str() == Some("fresh") && !f.is_empty() {
        let w = want(&lim, &f)?;
        judge(&mut rep, &obligation, &f, load_fresh(&bytes), &w, WHAT_FRESH, json!("fresh"), thorough);
        return verdict(&rep);
    }
    if let Some(names) = at.get("session").and_then(|x| x.as_array()) {
        let session: Vec<Slot> = names.iter().filter_map(|n| n.as_str().and_then(slot_from)).collect();
        for s in &session { lim.learn(s, &mut rep); }
        let threads = at["threads"].as_u64().unwrap_or(1) as usize;
        let single = |s: &Slot| -> Option<(Vec<u8>, String)> { let w = want(&lim, &[*s]).ok()?; Some((build_limit_file(&[*s]), w)) };
        for _ in 0..(if threads == 1 { 1 } else { 20 }) { run_session(&session, threads, &single, &mut rep, thorough); }
        return verdict(&rep);
    }
    if let (Some(t), false) = (at.get("threads").and_then(|x| x.as_u64()), f.is_empty()) {
        let w = want(&lim, &f)?;
        let pool = big_pool(t as usize);
        for r in 0..40 { if !judge(&mut rep, &obligation, &f, pool.install(|| load2(&bytes)), &w, &format!("{} (load number {} on a pool of {} threads)", WHAT_POOLS, r, t), at.clone(), thorough) { break; } }
        return verdict(&rep);
    }
    // a load on a long-lived pool, or the comparison with the sequential build: the whole family again, same order
    let seq = seq_digests_part(thorough, "limits")?;
    let mut rep = Report::new("replay", false);
    check_limits(thorough, &seq, if thorough { 25 } else { 3 }, &mut rep);
    verdict(&rep)
}

fn check_seq_failures_only(seq: &Value, rep: &mut Report) { check_seq_failures(seq, "limit-failures", rep) }
fn check_seq_failures(seq: &Value, key: &str, rep: &mut Report) {
    for f in seq.get(key).and_then(|x| x.as_array()).cloned().unwrap_or_default() {
        let ob = format!("sequential-build:{}", f["obligation"].as_str().unwrap_or("?"));
        let mut input = f["input"].clone(); input["build"] = json!("sequential"); input["obligation"] = json!(ob);
        let detail = f["detail"].as_str().unwrap_or(""); let detail = match detail.strip_prefix('[') { Some(rest) => format!("[sequential build; {}", rest), None => format!("[sequential build] {}", detail) };
        rep.fail(&ob, detail, input, f["observed"].as_str().unwrap_or("").to_string());
    }
}

// ---------------------------------------------------------------------------------------------------------------------
// Third family: STREAM DATA (filter, health, size) x HOW THE LENGTH IS STATED x neighbours in the file x history.
//
// "The same bytes always produce the same document" quantifies over all files, and "regardless of how the work is split"
// means that what becomes of one stream depends on that stream (and on the objects it refers to) alone - not on which
// other streams the same worker has decoded or resolved before, in this load or in an earlier one. A stream drags two
// things through the loader that an ordinary object does not: its DATA is decoded (object streams are inflated while
// loading, through bounded buffers, so that how far a decoder got when it gives up depends on the size of the data), and
// its LENGTH may have to be fetched from another object, which several streams may have in common. So:
//  * stream alphabet T: {object stream with 3 members, ordinary stream} x data {not encoded, FlateDecode healthy,
//    FlateDecode with a wrong Adler-32 (error after the last byte), FlateDecode with a broken block header at 10/16 of
//    the data, FlateDecode cut off at 10/16} x decoded length 2^s bytes, s on a geometric scale from "one read" to "many
//    buffers" (s = 7, 16; thorough 7, 10, 13, 16, 19) x /Length {direct, a reference to an integer object of its own, a reference to the one integer object of
//    the file that holds this number (shared by every stream of the same encoded length that says so)};
//    the zlib data is put together by hand from 16 stored blocks, so that the encoded length follows from the decoded one;
//  * files: every sequence of 1 and 2 streams of T (thorough: and every sequence of 3 of its 128-byte streams), and long
//    files of 64 streams drawn from T for real work splitting; stream j owns the object numbers 100+10j .. 109+10j;
//  * oracle (independent of the loader): every object of stream j - the stream, its members, its length object - is in
//    every load exactly what it is when the other streams are left out of the file and the thread is fresh; a stream
//    that is not decoded while loading has the bytes that were written, and the members of a healthy object stream are
//    the objects that were written; catalog, page tree root, shared length objects, trailer and maximum id are constant.
//    The sequential build must agree.
//  * loads: every file twice on one fresh thread; long-lived pools of 1,2,3,4,8,16 threads and the global pool load
//    every file of one stream and the long ones (thorough: and every file of 2 streams) in turn and then walk over the
//    single-stream files so that every ordered pair occurs back to back; long files on fresh pools of every size,
//    repeatedly.

#[derive(Clone, Copy, Debug, PartialEq, Eq, Hash, PartialOrd, Ord)]
pub enum Enc { Plain, Flate, BadCheck, BadBlock, Cut }
const ENCS: [Enc; 5] = [Enc::Plain, Enc::Flate, Enc::BadCheck, Enc::BadBlock, Enc::Cut];
#[derive(Clone, Copy, Debug, PartialEq, Eq, Hash, PartialOrd, Ord)]
pub enum Len { Direct, Own, Shared }
const LENS: [Len; 3] = [Len::Direct, Len::Own, Len::Shared];
/// one stream of the file: `size` is the binary logarithm of the length of the decoded data
#[derive(Clone, Copy, Debug, PartialEq, Eq, Hash, PartialOrd, Ord)]
pub struct St { pub objstm: bool, pub enc: Enc, pub size: u32, pub len: Len }

/// 128 bytes (one read of any decoder) .. 512 KiB (many buffers of any decoder) in steps of 8x; quick: 128 bytes and 64 KiB
const SIZES_QUICK: [u32; 2] = [7, 16];
const SIZES_THOROUGH: [u32; 5] = [7, 10, 13, 16, 19];
const SIZE_MIN: u32 = 7;
const SIZE_MAX: u32 = 19;
/// blocks of stored data in one zlib stream, and the block at which the damage sits
const BLOCKS: usize = 16;
const HURT: usize = 10;

fn st_name(s: &St) -> String {
    format!("{}{}{}{}", if s.objstm { 'O' } else { 'S' }, match s.enc { Enc::Plain => 'p', Enc::Flate => 'f', Enc::BadCheck => 'k', Enc::BadBlock => 'b', Enc::Cut => 't' }, s.size, match s.len { Len::Direct => 'd', Len::Own => 'o', Len::Shared => 's' })
}
fn st_from(t: &str) -> Option<St> {
    let c: Vec<char> = t.chars().collect();
    if c.len() < 4 { return None; }
    let objstm = match c[0] { 'O' => true, 'S' => false, _ => return None };
    let enc = match c[1] { 'p' => Enc::Plain, 'f' => Enc::Flate, 'k' => Enc::BadCheck, 'b' => Enc::BadBlock, 't' => Enc::Cut, _ => return None };
    let len = match c[c.len() - 1] { 'd' => Len::Direct, 'o' => Len::Own, 's' => Len::Shared, _ => return None };
    let size: u32 = c[2..c.len() - 1].iter().collect::<String>().parse().ok()?;
    if !(SIZE_MIN..=SIZE_MAX).contains(&size) { return None; }
    Some(St { objstm, enc, size, len })
}
pub fn stfile_name(f: &[St]) -> String { f.iter().map(st_name).collect::<Vec<_>>().join(",") }
fn stfile_from(t: &str) -> Option<Vec<St>> { t.split(',').map(st_from).collect() }
fn st_words(s: &St) -> String {
    format!("{}, {} bytes of data {}, /Length {}", if s.objstm { "an object stream with 3 members" } else { "an ordinary stream" }, 1u64 << s.size,
        match s.enc { Enc::Plain => "not encoded", Enc::Flate => "in a healthy zlib stream", Enc::BadCheck => "in a zlib stream with a wrong Adler-32", Enc::BadBlock => "in a zlib stream with a broken block header at 10/16", Enc::Cut => "in a zlib stream cut off at 10/16" },
        match s.len { Len::Direct => "direct", Len::Own => "in an object of its own", Len::Shared => "in an object shared with other streams" })
}

fn adler32(d: &[u8]) -> u32 {
    let (mut a, mut b) = (1u32, 0u32);
    for c in d.chunks(5552) { for &x in c { a += x as u32; b += a; } a %= 65521; b %= 65521; }
    (b << 16) | a
}
/// RFC 1950 / RFC 1951 by hand: header 78 01, BLOCKS stored blocks, Adler-32; damaged as `enc` says
fn zlib_stored(d: &[u8], enc: Enc) -> Vec<u8> {
    let blk = d.len() / BLOCKS;
    let mut out = vec![0x78u8, 0x01];
    for (i, c) in d.chunks(blk).enumerate() {
        let len = c.len() as u16;
        let hurt = i == HURT;
        out.push(if i == BLOCKS - 1 { 1 } else { 0 });
        out.extend_from_slice(&len.to_le_bytes());
        out.extend_from_slice(&(if hurt && enc == Enc::BadBlock { !len ^ 0x0101 } else { !len }).to_le_bytes());
        if hurt && enc == Enc::Cut { out.extend_from_slice(&c[..c.len() / 2]); return out; }
        out.extend_from_slice(c);
    }
    let a = adler32(d) ^ if enc == Enc::BadCheck { 0x5a5a5a5a } else { 0 };
    out.extend_from_slice(&a.to_be_bytes());
    out
}

fn st_base(j: usize) -> u32 { 100 + 10 * j as u32 }
/// the members of the object stream at position j, put together from the library's data types (no parser involved)
fn st_members(j: usize) -> Vec<Object> {
    let mut d = lopdf::Dictionary::new(); d.set("M", Object::Integer(1)); d.set("At", Object::Integer(j as i64));
    vec![Object::Dictionary(d), Object::Array(vec![Object::Integer(j as i64), Object::Name(b"x".to_vec()), Object::string_literal(format!("s{}", j))]), Object::string_literal(format!("last {}", j))]
}
/// decoded data of stream j (exactly 2^size bytes, filled up with spaces) and the value of /First
fn st_decoded(s: &St, j: usize) -> (Vec<u8>, usize) {
    let n = 1usize << s.size;
    let (mut data, first) = if s.objstm {
        let texts = [format!("<< /M 1 /At {} >>", j), format!("[{} /x (s{})]", j, j), format!("(last {})", j)];
        let mut index = String::new(); let mut body = String::new();
        for (k, t) in texts.iter().enumerate() { index.push_str(&format!("{} {} ", st_base(j) + 1 + k as u32, body.len())); body.push_str(t); body.push(' '); }
        (format!("{}{}", index, body).into_bytes(), index.len())
    } else { (format!("BT /F1 12 Tf (stream {}) Tj ET", j).into_bytes(), 0) };
    assert!(data.len() <= n);
    data.resize(n, b' ');
    (data, first)
}
fn st_encoded(s: &St, j: usize) -> (Vec<u8>, usize) { let (d, first) = st_decoded(s, j); (if s.enc == Enc::Plain { d } else { zlib_stored(&d, s.enc) }, first) }
/// number of the integer object that holds the encoded length of `s` for every stream that shares it: one per
/// (size, kind of encoded length); the three kinds differ in length for every size, and no two sizes meet
fn st_shared_id(s: &St) -> u32 { 10 + 3 * (s.size - SIZE_MIN) + match s.enc { Enc::Plain => 0, Enc::Cut => 2, _ => 1 } }

/// Objects 1 catalog, 2 pages, 10.. the shared length objects in use, 100+10j the stream at position j (absent if None),
/// 101+10j .. 103+10j its members if it is an object stream, 109+10j its own length object (written after the stream);
/// the cross-reference stream is object 900 whatever the file holds, so trailer and maximum id are constant.
pub fn build_stream_file(f: &[Option<St>]) -> Vec<u8> {
    let mut out: Vec<u8> = b"%PDF-1.5\n%\xE2\xE3\xCF\xD3\n".to_vec();
    let mut ent: BTreeMap<u32, Ent> = BTreeMap::new();
    ent.insert(0, Ent::Free);
    let put = |f: &mut Vec<u8>, ent: &mut BTreeMap<u32, Ent>, id: u32, body: &[u8]| {
        ent.insert(id, Ent::Normal(f.len()));
        f.extend_from_slice(format!("{} 0 obj\n", id).as_bytes()); f.extend_from_slice(body); f.extend_from_slice(b"\nendobj\n");
    };
    put(&mut out, &mut ent, 1, b"<< /Type /Catalog /Pages 2 0 R >>");
    put(&mut out, &mut ent, 2, b"<< /Type /Pages /Kids [] /Count 0 >>");
    let mut shared: BTreeMap<u32, usize> = BTreeMap::new();
    let enc: Vec<Option<(Vec<u8>, usize)>> = f.iter().enumerate().map(|(j, s)| s.as_ref().map(|s| st_encoded(s, j))).collect();
    for (s, e) in f.iter().zip(&enc) { if let (Some(s), Some((e, _))) = (s, e) { if s.len == Len::Shared { shared.insert(st_shared_id(s), e.len()); } } }
    for (id, n) in &shared { put(&mut out, &mut ent, *id, format!("{}", n).as_bytes()); }
    for (j, (s, e)) in f.iter().zip(&enc).enumerate() {
        let (Some(s), Some((e, first))) = (s, e) else { continue };
        let base = st_base(j);
        let length = match s.len { Len::Direct => format!("{}", e.len()), Len::Own => format!("{} 0 R", base + 9), Len::Shared => format!("{} 0 R", st_shared_id(s)) };
        let filter = if s.enc == Enc::Plain { "" } else { "/Filter /FlateDecode " };
        let mut o = if s.objstm { format!("<< /Type /ObjStm /N 3 /First {} {}/Length {} >>\nstream\n", first, filter, length) } else { format!("<< {}/Length {} >>\nstream\n", filter, length) }.into_bytes();
        o.extend_from_slice(e); o.extend_from_slice(b"\nendstream");
        put(&mut out, &mut ent, base, &o);
        if s.len == Len::Own { put(&mut out, &mut ent, base + 9, format!("{}", e.len()).as_bytes()); }
        if s.objstm { for k in 0..3 { ent.insert(base + 1 + k, Ent::Compressed(base, k)); } }
    }
    write_xref(&mut out, &mut ent, XREF_ID);
    out
}
fn whole(f: &[St]) -> Vec<Option<St>> { f.iter().map(|s| Some(*s)).collect() }

fn hash_bytes(b: &[u8]) -> u64 {
    let mut h = 0xcbf29ce484222325u64 ^ b.len() as u64;
    let mut it = b.chunks_exact(8);
    for c in &mut it { h = (h ^ u64::from_le_bytes(c.try_into().unwrap())).wrapping_mul(0x100000001b3); h ^= h >> 29; }
    for &x in it.remainder() { h = (h ^ x as u64).wrapping_mul(0x100000001b3); }
    h
}
fn stream_mark(content: &[u8]) -> String { format!("{} bytes #{:016x}", content.len(), hash_bytes(content)) }
/// `digest` for files with big streams: one line per object, stream data and long renderings by length and hash
fn digest3(d: &Document) -> String {
    let mut s = format!("version={} max_id={} trailer={:?}\n", d.version, d.max_id, d.trailer).replace('\r', "\\r");
    for (id, o) in &d.objects {
        let t = match o {
            Object::Stream(st) => format!("stream{{{:?}|{}|{:?}}}", st.dict, stream_mark(&st.content), st.allows_compression),
            other => format!("{:?}", other),
        };
        let t = if t.len() > 400 { format!("{}... ({} bytes #{:016x})", t.chars().take(80).collect::<String>(), t.len(), hash_bytes(t.as_bytes())) } else { t };
        s.push_str(&format!("{} {}: {}\n", id.0, id.1, t.replace('\n', "\\n").replace('\r', "\\r")));
    }
    s
}
fn load3(bytes: &[u8]) -> Result<String, String> {
    match std::panic::catch_unwind(std::panic::AssertUnwindSafe(|| Document::load_mem(bytes))) {
        Err(e) => Err(format!("panic: {}", if let Some(s) = e.downcast_ref::<String>() { s.clone() } else if let Some(s) = e.downcast_ref::<&str>() { s.to_string() } else { "?".to_string() })),
        Ok(Err(e)) => Ok(format!("load error: {}", e)),
        Ok(Ok(d)) => Ok(digest3(&d)),
    }
}
fn load3_on(pool: &Option<rayon::ThreadPool>, bytes: &[u8]) -> Result<String, String> { match pool { Some(p) => p.install(|| load3(bytes)), None => load3(bytes) } }

fn digest_lines(d: &str) -> (String, BTreeMap<(u32, u32), String>) {
    let mut lines = d.lines();
    let head = lines.next().unwrap_or("").to_string();
    (head, lines.filter_map(split_line).map(|(id, r)| (id, r.to_string())).collect())
}
fn st_block(id: (u32, u32), n: usize) -> Option<usize> { if id.1 == 0 && id.0 >= 100 && id.0 < st_base(n) { Some(((id.0 - 100) / 10) as usize) } else { None } }
fn st_role(id: u32) -> String { match (id - 100) % 10 { 0 => "the stream itself".into(), 9 => "its length object".into(), k => format!("its member {}", k) } }
fn signature3(d: &str, n: usize) -> String { format!("{:016x}:{} objects of the {} streams", fnv(d), digest_lines(d).1.keys().filter(|id| st_block(**id, n).is_some()).count(), n) }

/// what a stream is when the other streams are left out of the file: the document of that file, loaded on a fresh thread
pub struct Alone { head: String, lines: BTreeMap<(u32, u32), String> }
pub struct Refs { map: std::sync::Mutex<std::collections::HashMap<(St, usize), Option<std::sync::Arc<Alone>>>>, thorough: bool }

const OB_WRITTEN: &str = "a-loaded-object-is-the-object-that-was-written";
const OB_ALONE: &str = "a-stream-loads-the-same-whatever-else-is-in-the-file";

fn stream_input(f: &[St], at: Value, obligation: &str, thorough: bool) -> Value { json!({"streams": stfile_name(f), "at": at, "obligation": obligation, "tier": if thorough { "thorough" } else { "quick" }}) }

impl Refs {
    fn new(thorough: bool) -> Refs { Refs { map: Default::default(), thorough } }
    fn get(&self, s: &St, j: usize, rep: &mut Report) -> Option<std::sync::Arc<Alone>> {
        if let Some(a) = self.map.lock().unwrap().get(&(*s, j)) { return a.clone(); }
        rep.case(true);
        let mut f = vec![None; j + 1]; f[j] = Some(*s);
        let here = format!("{} at position {}", st_name(s), j);
        let input = json!({"streams": st_name(s), "position": j, "at": "alone", "obligation": OB_WRITTEN, "tier": if self.thorough { "thorough" } else { "quick" }});
        let a = match load_fresh3(&build_stream_file(&f)) {
            Err(p) => { let mut i = input.clone(); i["obligation"] = json!("no-panic"); rep.fail("no-panic", format!("[{}] the file with this single stream ({}): {}", here, st_words(s), p), i, p.clone()); None }
            Ok(d) if !d.starts_with("version=") => { let mut i = input.clone(); i["obligation"] = json!("generated-file-loads"); rep.fail("generated-file-loads", format!("[{}] the file with this single stream ({}) does not load: {}", here, st_words(s), d), i, d.clone()); None }
            Ok(d) => {
                let (head, lines) = digest_lines(&d);
                let base = st_base(j);
                // what does not depend on the loader's decoders: the bytes of a stream that is not decoded while loading, the members of a healthy object stream
                if !s.objstm {
                    let mark = stream_mark(&st_encoded(s, j).0);
                    let got = lines.get(&(base, 0)).cloned().unwrap_or_else(|| "not in the document".into());
                    if !(got.starts_with("stream{") && got.contains(&format!("|{}|", mark))) { rep.fail(OB_WRITTEN, format!("[{}] alone in the file ({}) the stream should hold the {} that were written, it is {}", here, st_words(s), mark, got.chars().take(160).collect::<String>()), input.clone(), got.chars().take(200).collect()); }
                } else if matches!(s.enc, Enc::Plain | Enc::Flate) {
                    for (k, m) in st_members(j).iter().enumerate() {
                        let id = base + 1 + k as u32;
                        let got = lines.get(&(id, 0)).cloned().unwrap_or_else(|| "not in the document".into());
                        if got != format!("{:?}", m) { rep.fail(OB_WRITTEN, format!("[{}] alone in the file ({}) member {} (object {}) should be {:?}, it is {}", here, st_words(s), k + 1, id, m, got.chars().take(120).collect::<String>()), input.clone(), got.chars().take(200).collect()); }
                    }
                }
                Some(std::sync::Arc::new(Alone { head, lines }))
            }
        };
        self.map.lock().unwrap().insert((*s, j), a.clone());
        a
    }
    /// the digest the file must have: head and every object but the cross-reference stream from the files with one
    /// stream each; the cross-reference stream (whose data are the offsets) as loaded
    fn expected(&self, d: &str, f: &[St], rep: &mut Report) -> Option<String> {
        let mut m: BTreeMap<(u32, u32), String> = BTreeMap::new();
        let mut head = String::new();
        for (j, s) in f.iter().enumerate() {
            let a = self.get(s, j, rep)?;
            if j == 0 { head = a.head.clone(); }
            for (id, r) in &a.lines { if id.0 != XREF_ID { m.insert(*id, r.clone()); } }
        }
        if let Some(r) = digest_lines(d).1.remove(&(XREF_ID, 0)) { m.insert((XREF_ID, 0), r); }
        let mut out = head; out.push('\n');
        for (id, r) in m { out.push_str(&format!("{} {}: {}\n", id.0, id.1, r)); }
        Some(out)
    }
}
fn load_fresh3(bytes: &[u8]) -> Result<String, String> { on_fresh_thread(|| load3(bytes)) }

/// how a digest differs from the expected one, in terms of the streams of the file
fn stream_diff(got: &str, want: &str, f: &[St]) -> String { stream_diff_to(got, want, f, "with the other streams left out of the file, on a fresh thread, it") }
/// `reference`: what `want` is, as the subject of a sentence
fn stream_diff_to(got: &str, want: &str, f: &[St], reference: &str) -> String {
    if !got.starts_with("version=") { return got.chars().take(160).collect(); }
    let ((gh, g), (wh, w)) = (digest_lines(got), digest_lines(want));
    let fate = |o: Option<&String>| match o { None => "is not in the document".to_string(), Some(r) => format!("is {}", r.chars().take(90).collect::<String>()) };
    let ids: std::collections::BTreeSet<(u32, u32)> = g.keys().chain(w.keys()).cloned().collect();
    let differing: Vec<(u32, u32)> = ids.into_iter().filter(|id| g.get(id) != w.get(id)).collect();
    if let Some(id) = differing.first() {
        let whose = match st_block(*id, f.len()) { Some(j) => format!(" ({} of stream {} of {}, {}: {})", st_role(id.0), j, f.len(), st_name(&f[j]), st_words(&f[j])), None => String::new() };
        return format!("object {}{} {}; {} {} ({} objects differ)", id.0, whose, fate(g.get(id)), reference, fate(w.get(id)), differing.len());
    }
    if gh != wh { return format!("{:?} vs {:?}", gh, wh); }
    first_diff(got, want)
}

const OB_HISTORY3: &str = "a-load-does-not-depend-on-earlier-loads-on-the-same-pool";
const WHAT3_FRESH: &str = "one fresh thread loads the file: not every stream fares as it does with the others left out";
const WHAT3_TWICE: &str = "the same fresh thread loads the file a second time and gets another document than the first time";
const WHAT3_WALK: &str = "a pool that has loaded other files of the family before loads this one differently";
const WHAT3_POOLS: &str = "a fresh pool of several threads loads the long file of streams differently";

fn short3(name: &str) -> String { if name.len() > 60 { format!("{}... ({} streams)", &name[..60], name.split(',').count()) } else { name.to_string() } }

fn judge3(rep: &mut Report, obligation: &str, f: &[St], got: Result<String, String>, want: &str, what: &str, at: Value, thorough: bool) -> bool {
    rep.case(true);
    match got {
        Err(p) => { rep.fail("no-panic", format!("[{}] {}: {}", short3(&stfile_name(f)), what, p), stream_input(f, at, "no-panic", thorough), p.clone()); false }
        Ok(d) if d == want => true,
        Ok(d) => { let diff = if what == WHAT3_TWICE { stream_diff_to(&d, want, f, "the first time it") } else { stream_diff(&d, want, f) }; rep.fail(obligation, format!("[{}] {}: {}", short3(&stfile_name(f)), what, diff), stream_input(f, at, obligation, thorough), diff.clone()); false }
    }
}

pub fn st_alphabet(sizes: &[u32]) -> Vec<St> {
    let mut v = vec![];
    for objstm in [true, false] { for enc in ENCS { for size in sizes { for len in LENS { v.push(St { objstm, enc, size: *size, len }); } } } }
    v
}
fn st_files(thorough: bool) -> (Vec<St>, Vec<Vec<St>>) {
    let o = st_alphabet(if thorough { &SIZES_THOROUGH[..] } else { &SIZES_QUICK[..] });
    let small: Vec<St> = o.iter().filter(|s| s.size == SIZE_MIN).cloned().collect();
    let mut v: Vec<Vec<St>> = o.iter().map(|s| vec![*s]).collect();
    for a in &o { for b in &o { v.push(vec![*a, *b]); } }
    if thorough { for a in &small { for b in &small { for c in &small { v.push(vec![*a, *b, *c]); } } } }
    // long files: drawn from the whole alphabet, and from its streams of the smallest size (more streams per unit of work)
    for (pool, salt) in [(&o, 0u32), (&small, 7777)] {
        for seed in 0..(if thorough { 12u32 } else { 3 }) {
            let mut x: u32 = 2463534242u32.wrapping_add(salt).wrapping_add(seed.wrapping_mul(2654435761));
            v.push((0..LONG).map(|_| { x = x.wrapping_mul(1103515245).wrapping_add(12345); pool[((x >> 16) as usize) % pool.len()] }).collect());
        }
    }
    (o, v)
}

pub struct StOut { pub alphabet: String, /// file -> (signature of the expected digest, signature of the digest loaded on a fresh thread)
    pub files: BTreeMap<String, (String, String)> }

/// The whole third family on this build; `sizes`, `here`, `repeats` as in `limits`. `only`: restrict the long-lived pools
/// to the one of this size (0: the load outside of any pool), for replays.
pub fn streams(thorough: bool, sizes: &[usize], here: &str, repeats: usize, only: Option<usize>, rep: &mut Report) -> StOut {
    set_order(usize::MAX);
    let workers = 8;
    let t0 = std::time::Instant::now();
    let lap = |what: &str| if std::env::var("LOPDF_VERIF_C08_TIMES").is_ok() { eprintln!("c08 third family, {}: {:.1} s", what, t0.elapsed().as_secs_f64()); };
    let (o, files) = st_files(thorough);
    let mut out = StOut { alphabet: stfile_name(&o), files: BTreeMap::new() };
    let refs = Refs::new(thorough);
    // every stream alone at the positions of the short files
    fan(workers, o.len() * 3, rep, &|i, rep: &mut Report| { refs.get(&o[i / 3], i % 3, rep); None::<()> });
    // one fresh thread loads the file twice
    let fresh = fan(workers, files.len(), rep, &|i, rep: &mut Report| {
        let f = &files[i];
        let name = stfile_name(f);
        let bytes = build_stream_file(&whole(f));
        rep.case(true);
        let (d1, d2) = on_fresh_thread(|| (load3(&bytes), load3(&bytes)));
        let d = match d1 {
            Err(p) => { rep.fail("no-panic", format!("[{}] on a fresh thread: {}", short3(&name), p), stream_input(f, json!("fresh"), "no-panic", thorough), p.clone()); return None; }
            Ok(d) if !d.starts_with("version=") => { rep.fail("generated-file-loads", format!("[{}] the file does not load: {}", short3(&name), d), stream_input(f, json!("fresh"), "generated-file-loads", thorough), d.clone()); return None; }
            Ok(d) => d,
        };
        let want = refs.expected(&d, f, rep)?;
        if d != want { let diff = stream_diff(&d, &want, f); rep.fail(OB_ALONE, format!("[{}] {}: {}", short3(&name), WHAT3_FRESH, diff), stream_input(f, json!("fresh"), OB_ALONE, thorough), diff.clone()); }
        // the same bytes once more: the same document as the first time
        judge3(rep, OB_HISTORY3, f, d2, &d, WHAT3_TWICE, json!("fresh"), thorough);
        let sigs = (signature3(&want, f.len()), signature3(&d, f.len()));
        // the long-lived pools get the files of one stream and the long ones (thorough: and the files of 2 streams)
        Some((sigs, if f.len() == 1 || f.len() > 3 || (thorough && f.len() == 2) { Some(want) } else { None }))
    });
    lap("fresh threads done");
    let mut kept: Vec<(usize, String)> = vec![];
    for (i, (sigs, w)) in fresh { out.files.insert(stfile_name(&files[i]), sigs); if let Some(w) = w { kept.push((i, w)); } }
    let single: std::collections::HashMap<St, &String> = kept.iter().filter(|(i, _)| files[*i].len() == 1).map(|(i, w)| (files[*i][0], w)).collect();
    let o: Vec<St> = o.iter().filter(|s| single.contains_key(s)).cloned().collect();
    // pools that live through the whole enumeration
    let tour = euler_tour(o.len());
    let mut labels: Vec<(String, usize)> = vec![(here.to_string(), 0)];
    for t in sizes { labels.push((format!("a long-lived pool of {} threads", t), *t)); }
    if let Some(t) = only { labels.retain(|l| l.1 == t); }
    fan(labels.len(), labels.len(), rep, &|p, rep: &mut Report| {
        let (label, t) = &labels[p];
        let pool = if *t == 0 { None } else { Some(big_pool(*t)) };
        let mut step = 0usize;
        for (i, want) in &kept {
            let bytes = build_stream_file(&whole(&files[*i]));
            judge3(rep, OB_HISTORY3, &files[*i], load3_on(&pool, &bytes), want, &format!("{} ({}, after {} earlier loads of this family there)", WHAT3_WALK, label, step), json!({"walk": t}), thorough);
            step += 1;
        }
        let mut before: Option<St> = None;
        for k in &tour {
            let s = o[*k];
            let bytes = build_stream_file(&[Some(s)]);
            let what = format!("{} ({}, load number {} there{})", WHAT3_WALK, label, step, before.map(|b| format!(", right after {}", st_name(&b))).unwrap_or_default());
            judge3(rep, OB_HISTORY3, &[s], load3_on(&pool, &bytes), single[&s], &what, json!({"walk": t}), thorough);
            step += 1; before = Some(s);
        }
        None::<()>
    });
    lap("long-lived pools done");
    if only.is_some() { return out; }
    // real splits of the long files on fresh pools of every size
    for (i, want) in kept.iter().filter(|(i, _)| files[*i].len() > 3) {
        let bytes = build_stream_file(&whole(&files[*i]));
        for t in sizes {
            let pool = big_pool(*t);
            for r in 0..repeats { if !judge3(rep, OB_POOLS, &files[*i], pool.install(|| load3(&bytes)), want, &format!("{} (load number {} on a pool of {} threads)", WHAT3_POOLS, r, t), json!({"threads": t, "repeats": repeats}), thorough) { break; } }
        }
    }
    lap("fresh pools done");
    out
}

/// the third family on this (parallel) build, and the comparison with the sequential build
fn check_streams(thorough: bool, seq: impl FnOnce() -> Value, repeats: usize, rep: &mut Report) {
    let out = streams(thorough, &[1, 2, 3, 4, 8, 16], "the global pool", repeats, None, rep);
    let seq = &seq();
    const OB: &str = "equals-sequential-build";
    let seq_alphabet = seq.get("stream-alphabet").and_then(|x| x.as_str()).unwrap_or("(none)");
    if seq_alphabet != out.alphabet {
        rep.fail(OB, format!("the sequential build ran the third family over another alphabet of streams: {}", seq_alphabet.chars().take(200).collect::<String>()), json!({"streams": "", "at": "seq", "obligation": OB, "tier": if thorough { "thorough" } else { "quick" }}), seq_alphabet.chars().take(200).collect());
    } else {
        for (name, (want, _)) in &out.files {
            rep.case(true);
            let got = seq.get(format!("S:{}", name)).and_then(|x| x.as_str()).unwrap_or("(no digest)");
            if got != want { let f = stfile_from(name).unwrap_or_default(); rep.fail(OB, format!("[{}] the sequential build loads another document on a fresh thread (hash:objects of the streams): it gets {}, expected is {}", short3(name), got, want), stream_input(&f, json!("seq"), OB, thorough), got.to_string()); }
        }
    }
    check_seq_failures(seq, "stream-failures", rep);
}

fn replay_streams(v: &Value) -> Result<(), String> {
    let thorough = v["tier"].as_str() == Some("thorough");
    let obligation = v["obligation"].as_str().unwrap_or("").to_string();
    let mut rep = Report::new("replay", false);
    let verdict = |rep: &Report| match rep.failures.iter().find(|x| x.obligation == obligation && x.input["streams"] == v["streams"] && x.input["at"] == v["at"]).or(rep.failures.iter().find(|x| x.obligation == obligation)).or(rep.failures.first()) { None => Ok(()), Some(x) => Err(format!("{}: {}", x.obligation, x.detail)) };
    set_order(usize::MAX);
    if v["build"].as_str() == Some("sequential") {
        let seq = seq_digests_part(thorough, "streams")?;
        check_seq_failures(&seq, "stream-failures", &mut rep);
        return verdict(&rep);
    }
    let f = stfile_from(v["streams"].as_str().unwrap_or("")).unwrap_or_default();
    let at = &v["at"];
    let refs = Refs::new(thorough);
    if at.as_str() == Some("alone") {
        if let Some(s) = f.first() { refs.get(s, v["position"].as_u64().unwrap_or(0) as usize, &mut rep); }
        return verdict(&rep);
    }
    let bytes = build_stream_file(&whole(&f));
    if at.as_str() == Some("fresh") && !f.is_empty() {
        let (d1, d2) = on_fresh_thread(|| (load3(&bytes), load3(&bytes)));
        let d = d1?;
        let want = refs.expected(&d, &f, &mut rep).ok_or("a stream of the file does not load when it is alone")?;
        judge3(&mut rep, OB_ALONE, &f, Ok(d.clone()), &want, WHAT3_FRESH, json!("fresh"), thorough);
        judge3(&mut rep, OB_HISTORY3, &f, d2, &d, WHAT3_TWICE, json!("fresh"), thorough);
        return verdict(&rep);
    }
    if let (Some(t), false) = (at.get("threads").and_then(|x| x.as_u64()), f.is_empty()) {
        let d = load_fresh3(&bytes)?;
        let want = refs.expected(&d, &f, &mut rep).ok_or("a stream of the file does not load when it is alone")?;
        let pool = big_pool(t as usize);
        for r in 0..40 { if !judge3(&mut rep, &obligation, &f, pool.install(|| load3(&bytes)), &want, &format!("{} (load number {} on a pool of {} threads)", WHAT3_POOLS, r, t), at.clone(), thorough) { break; } }
        return verdict(&rep);
    }
    if let Some(t) = at.get("walk").and_then(|x| x.as_u64()) {
        // the same long-lived pool through the same enumeration
        let mut rep = Report::new("replay", false);
        streams(thorough, &[1, 2, 3, 4, 8, 16], "the global pool", 1, Some(t as usize), &mut rep);
        return verdict(&rep);
    }
    // the comparison with the sequential build: the whole family again
    let seq = seq_digests_part(thorough, "streams")?;
    let mut rep = Report::new("replay", false);
    check_streams(thorough, move || seq, if thorough { 25 } else { 3 }, &mut rep);
    verdict(&rep)
}

// ---------------------------------------------------------------------------------------------------------------------
// Fourth family: LAYOUT OF THE FILE AROUND ITS ORDINARY OBJECTS: bytes in front of the header x form of the
// cross-reference section x the number in an object's header against the key of the entry that points at it x header
// markers inside the objects x length of the file.
//
// "Loading the same bytes always produces the same document ... and the result equals that of loading with parallelism
// disabled" quantifies over all files, and every step of the loader that is spread over workers is part of "the thread
// schedule": finding where the document starts in the buffer, walking the cross-reference entries, collecting what the
// walk yields. The first three families only hold files that begin with their header, whose entries all point at an
// object carrying the entry's own number, and in which the header marker occurs once. This family varies exactly that:
//  * bytes in front of the header (which the loader supports: offsets count from the header): none, or 2^p bytes of
//    wrapper text (with near misses of the marker) on a geometric scale, short files p = 7, 13 (thorough 7, 10, 13,
//    16, 19), long files p = 7, 19 (thorough 7, 19, 21), so that the search for the header is one read or is
//    itself work to be split among workers;
//  * the cross-reference section: a classic table with trailer, or a cross-reference stream;
//  * slot alphabet L = relation x body. Entry number 3+j of the file points at an object whose header says: its own
//    number / the number of the next entry / of the previous entry / of the entry half a file away (these three: the
//    entry is stale or mislabelled and points at another copy of an object that a second entry points at as well, so
//    two in-use entries yield the same object id - duplicate object numbers among ordinary objects) / a number that has
//    no entry. The object is a dictionary, a dictionary with a string that holds the header marker, or an embedded-file
//    stream without filter whose data is a complete small PDF file (header marker, xref, trailer and all). Every copy
//    says in /Slot which entry it was written for, so the document shows which copy was taken;
//  * files: every sequence of 1 and 2 (thorough: with no or 128 bytes in front, 3) slots of L, and long files of 64 and
//    400 (thorough also 1000) slots for real work splitting: per relation but "own" the relation alternating with
//    "own" (e.g. every other entry stale) and the relation throughout, and files drawn from L;
//  * oracle: the property itself - every load on every pool gives the document that one fresh thread gives (a pool of
//    one worker that parses everything in file order), and that document equals the sequential build's. Independent of
//    the loader: the version is the one the file's header states, the document holds exactly the numbers that the
//    headers of the objects state (plus catalog, page tree root, cross-reference stream), and every object is one of
//    the copies that were written under its number (put together from the library's data types, no parser involved).
//  * loads: every file on a fresh thread; long-lived pools of 1,2,3,4,8,16 threads and the global pool (driven
//    concurrently) load every short file once and every long file `repeats` (at most 10) times.

#[derive(Clone, Copy, Debug, PartialEq, Eq, Hash, PartialOrd, Ord)]
pub enum Rel { Own, Next, Prev, Far, Orphan }
const RELS: [Rel; 5] = [Rel::Own, Rel::Next, Rel::Prev, Rel::Far, Rel::Orphan];
#[derive(Clone, Copy, Debug, PartialEq, Eq, Hash, PartialOrd, Ord)]
pub enum Body { Dict, Marked, Embedded }
const BODIES: [Body; 3] = [Body::Dict, Body::Marked, Body::Embedded];
/// one slot of the file: what the header of the object says that entry 3+j points at, and what the object is
#[derive(Clone, Copy, Debug, PartialEq, Eq, Hash, PartialOrd, Ord)]
pub struct Ls { pub rel: Rel, pub body: Body }
#[derive(Clone, Debug, PartialEq)]
pub enum Shape {
    /// the slots spelled out
    Seq(Vec<Ls>),
    /// n slots: the relation at the even positions, "own" at the odd ones; bodies in turn
    Alt(Rel, usize),
    /// n slots, all of the relation; bodies in turn
    All(Rel, usize),
    /// n slots drawn from L with this seed
    Drawn(u32, usize),
}
/// `prefix`: 0 = the file begins with its header, p > 0 = 2^p bytes in front of it
#[derive(Clone, Debug, PartialEq)]
pub struct Lay { pub table: bool, pub prefix: u32, pub shape: Shape }

/// bytes in front of the header (binary logarithm; 0 = none) for the short files and for the long ones
const PREFIX_QUICK: [u32; 3] = [0, 7, 13];
const PREFIX_QUICK_LONG: [u32; 3] = [0, 7, 19];
const PREFIX_THOROUGH: [u32; 6] = [0, 7, 10, 13, 16, 19];
const PREFIX_THOROUGH_LONG: [u32; 4] = [0, 7, 19, 21];
const PREFIX_MAX: u32 = 21;
const LAY_MAX_SLOTS: usize = 1000;
/// a long file is loaded `repeats` times on every pool, but not more often than this
const LAY_REPEATS_MAX: usize = 10;
const ORPHAN0: u32 = 5000;
const MARKED_NOTE: &str = "%PDF-1.2 is not where this file starts";

fn rel_char(r: Rel) -> char { match r { Rel::Own => 'O', Rel::Next => 'N', Rel::Prev => 'P', Rel::Far => 'F', Rel::Orphan => 'X' } }
fn rel_from(c: char) -> Option<Rel> { Some(match c { 'O' => Rel::Own, 'N' => Rel::Next, 'P' => Rel::Prev, 'F' => Rel::Far, 'X' => Rel::Orphan, _ => return None }) }
fn rel_words(r: Rel) -> &'static str { match r { Rel::Own => "its own number", Rel::Next => "the number of the next entry", Rel::Prev => "the number of the previous entry", Rel::Far => "the number of the entry half a file away", Rel::Orphan => "a number that has no entry" } }
fn ls_name(s: &Ls) -> String { format!("{}{}", rel_char(s.rel), match s.body { Body::Dict => 'd', Body::Marked => 'm', Body::Embedded => 'e' }) }
fn ls_from(t: &str) -> Option<Ls> {
    let c: Vec<char> = t.chars().collect();
    if c.len() != 2 { return None; }
    Some(Ls { rel: rel_from(c[0])?, body: match c[1] { 'd' => Body::Dict, 'm' => Body::Marked, 'e' => Body::Embedded, _ => return None } })
}
pub fn lay_name(l: &Lay) -> String {
    let shape = match &l.shape {
        Shape::Seq(v) => format!("seq:{}", v.iter().map(ls_name).collect::<Vec<_>>().join(",")),
        Shape::Alt(r, n) => format!("alt:{}:{}", rel_char(*r), n),
        Shape::All(r, n) => format!("all:{}:{}", rel_char(*r), n),
        Shape::Drawn(seed, n) => format!("drawn:{}:{}", seed, n),
    };
    format!("{}-p{}-{}", if l.table { 't' } else { 'x' }, l.prefix, shape)
}
fn lay_from(t: &str) -> Option<Lay> {
    let mut parts = t.splitn(3, '-');
    let table = match parts.next()? { "t" => true, "x" => false, _ => return None };
    let prefix: u32 = parts.next()?.strip_prefix('p')?.parse().ok()?;
    if prefix > PREFIX_MAX { return None; }
    let shape = parts.next()?;
    let (kind, rest) = shape.split_once(':')?;
    let pair = |rest: &str| -> Option<(String, usize)> { let (a, n) = rest.split_once(':')?; let n: usize = n.parse().ok()?; if n == 0 || n > LAY_MAX_SLOTS { return None; } Some((a.to_string(), n)) };
    let shape = match kind {
        "seq" => { let v: Vec<Ls> = rest.split(',').map(ls_from).collect::<Option<_>>()?; if v.is_empty() || v.len() > LAY_MAX_SLOTS { return None; } Shape::Seq(v) }
        "alt" => { let (a, n) = pair(rest)?; Shape::Alt(rel_from(a.chars().next()?)?, n) }
        "all" => { let (a, n) = pair(rest)?; Shape::All(rel_from(a.chars().next()?)?, n) }
        "drawn" => { let (a, n) = pair(rest)?; Shape::Drawn(a.parse().ok()?, n) }
        _ => return None,
    };
    Some(Lay { table, prefix, shape })
}
fn lay_alphabet() -> Vec<Ls> { let mut v = vec![]; for rel in RELS { for body in BODIES { v.push(Ls { rel, body }); } } v }
pub fn lay_slots(l: &Lay) -> Vec<Ls> {
    match &l.shape {
        Shape::Seq(v) => v.clone(),
        Shape::Alt(r, n) => (0..*n).map(|j| Ls { rel: if j % 2 == 0 { *r } else { Rel::Own }, body: BODIES[(j / 2) % 3] }).collect(),
        Shape::All(r, n) => (0..*n).map(|j| Ls { rel: *r, body: BODIES[j % 3] }).collect(),
        Shape::Drawn(seed, n) => {
            let o = lay_alphabet();
            let mut x: u32 = 2463534242u32.wrapping_add(4242).wrapping_add(seed.wrapping_mul(2654435761));
            (0..*n).map(|_| { x = x.wrapping_mul(1103515245).wrapping_add(12345); o[((x >> 16) as usize) % o.len()] }).collect()
        }
    }
}
fn lay_words(l: &Lay) -> String {
    let shape = match &l.shape {
        Shape::Seq(v) => format!("{} object(s) whose headers say: {}", v.len(), v.iter().map(|s| rel_words(s.rel)).collect::<Vec<_>>().join("; ")),
        Shape::Alt(r, n) => format!("{} objects, every other header says {}", n, rel_words(*r)),
        Shape::All(r, n) => format!("{} objects, every header says {}", n, rel_words(*r)),
        Shape::Drawn(_, n) => format!("{} objects drawn from the slot alphabet", n),
    };
    format!("{}, {}, {}", if l.prefix == 0 { "the file begins with its header".to_string() } else { format!("{} bytes in front of the header", 1u64 << l.prefix) }, if l.table { "cross-reference table" } else { "cross-reference stream" }, shape)
}

/// the key of the cross-reference entry of slot j
fn lay_key(j: usize) -> u32 { 3 + j as u32 }
/// "half a file away": an odd distance, so that in an alternating file the far entry is one that says its own number
fn lay_far(n: usize) -> usize { if n < 2 { 0 } else { ((n / 2) | 1) % n } }
/// the number in the header of the object that the entry of slot j points at
fn lay_says(slots: &[Ls], j: usize) -> u32 {
    let n = slots.len();
    match slots[j].rel { Rel::Own => lay_key(j), Rel::Next => lay_key((j + 1) % n), Rel::Prev => lay_key((j + n - 1) % n), Rel::Far => lay_key((j + lay_far(n)) % n), Rel::Orphan => ORPHAN0 + j as u32 }
}
fn lay_numbers(j: usize) -> Vec<i64> { (0..8).map(|i| ((j * 31 + i) % 1000) as i64).collect() }
/// a complete small PDF file (the data of the embedded-file stream of slot j)
fn lay_embedded(j: usize) -> Vec<u8> {
    let mut doc = format!("%PDF-1.4\n% attachment {}\n", j).into_bytes();
    let mut offsets = vec![];
    let objects = ["<</Type/Catalog/Pages 2 0 R>>".to_string(), "<</Type/Pages/Kids[3 0 R]/Count 1>>".to_string(), format!("<</Type/Page/Parent 2 0 R/MediaBox[0 0 {} {}]>>", 100 + j, 200 + j)];
    for (i, body) in objects.iter().enumerate() { offsets.push(doc.len()); doc.extend_from_slice(format!("{} 0 obj\n{}\nendobj\n", i + 1, body).as_bytes()); }
    let xref = doc.len();
    doc.extend_from_slice(b"xref\n0 4\n0000000000 65535 f \n");
    for o in offsets { doc.extend_from_slice(format!("{:010} 00000 n \n", o).as_bytes()); }
    doc.extend_from_slice(format!("trailer\n<</Size 4/Root 1 0 R>>\nstartxref\n{}\n%%EOF\n", xref).as_bytes());
    doc
}
/// the text of the object of slot j (without `h 0 obj` / `endobj`), `h` the number in its header
fn lay_text(s: &Ls, j: usize, h: u32) -> Vec<u8> {
    let data = lay_numbers(j).iter().map(|x| x.to_string()).collect::<Vec<_>>().join(" ");
    match s.body {
        Body::Dict => format!("<< /Slot {} /Says {} /Data [{}] >>", j, h, data).into_bytes(),
        Body::Marked => format!("<< /Slot {} /Says {} /Note ({}) /Data [{}] >>", j, h, MARKED_NOTE, data).into_bytes(),
        Body::Embedded => {
            let e = lay_embedded(j);
            let mut t = format!("<< /Type /EmbeddedFile /Slot {} /Says {} /Length {} >>\nstream\n", j, h, e.len()).into_bytes();
            t.extend_from_slice(&e); t.extend_from_slice(b"\nendstream");
            t
        }
    }
}
/// how an object of the family is rendered for the comparison with what was written
fn lay_render(o: &Object) -> String { match o { Object::Stream(s) => format!("stream{{{:?}|{}}}", s.dict, stream_mark(&s.content)), other => format!("{:?}", other) } }
/// the same object put together from the library's data types (no parser involved), rendered
fn lay_written(s: &Ls, j: usize, h: u32) -> String {
    let mut d = lopdf::Dictionary::new();
    if s.body == Body::Embedded { d.set("Type", Object::Name(b"EmbeddedFile".to_vec())); }
    d.set("Slot", Object::Integer(j as i64)); d.set("Says", Object::Integer(h as i64));
    match s.body {
        Body::Embedded => { let e = lay_embedded(j); d.set("Length", Object::Integer(e.len() as i64)); format!("stream{{{:?}|{}}}", d, stream_mark(&e)) }
        _ => {
            if s.body == Body::Marked { d.set("Note", Object::string_literal(MARKED_NOTE)); }
            d.set("Data", Object::Array(lay_numbers(j).into_iter().map(Object::Integer).collect()));
            format!("{:?}", Object::Dictionary(d))
        }
    }
}
/// 2^p bytes of wrapper text without the header marker (but with near misses of it)
fn lay_prefix(p: u32) -> Vec<u8> {
    const LINE: &[u8] = b"X-Wrapper-Padding: %PDF %PD F-1.5 %PDF_1.5 PDF-1.5 ........................\r\n";
    let n = 1usize << p;
    let mut v = Vec::with_capacity(n);
    while v.len() + LINE.len() <= n { v.extend_from_slice(LINE); }
    v.resize(n, b'.');
    v
}

/// Objects 1 catalog, 2 page tree root, then for slot j the object that entry 3+j points at (its header says
/// `lay_says`); a classic table of 3+n entries with trailer, or the cross-reference stream (object 900 or, in files of
/// more than 800 slots, 3+n); offsets count from the header; the bytes in front of the header come first.
pub fn build_layout_file(l: &Lay) -> Vec<u8> { lay_with_prefix(l.prefix, &lay_document(l)) }
fn lay_with_prefix(p: u32, f: &[u8]) -> Vec<u8> {
    if p == 0 { return f.to_vec(); }
    let mut out = lay_prefix(p);
    out.extend_from_slice(f);
    out
}
/// the file from its header on (the same whatever stands in front of it)
fn lay_document(l: &Lay) -> Vec<u8> {
    let slots = lay_slots(l);
    let mut f: Vec<u8> = b"%PDF-1.5\n%\xE2\xE3\xCF\xD3\n".to_vec();
    let mut ent: BTreeMap<u32, Ent> = BTreeMap::new();
    ent.insert(0, Ent::Free);
    let mut put = |f: &mut Vec<u8>, key: u32, says: u32, body: &[u8]| {
        ent.insert(key, Ent::Normal(f.len()));
        f.extend_from_slice(format!("{} 0 obj\n", says).as_bytes()); f.extend_from_slice(body); f.extend_from_slice(b"\nendobj\n");
    };
    put(&mut f, 1, 1, b"<< /Type /Catalog /Pages 2 0 R >>");
    put(&mut f, 2, 2, b"<< /Type /Pages /Kids [] /Count 0 >>");
    for (j, s) in slots.iter().enumerate() { let h = lay_says(&slots, j); put(&mut f, lay_key(j), h, &lay_text(s, j, h)); }
    if l.table {
        let xpos = f.len();
        let size = 3 + slots.len();
        f.extend_from_slice(format!("xref\n0 {}\n0000000000 65535 f \n", size).as_bytes());
        for k in 1..size as u32 { let Some(Ent::Normal(o)) = ent.get(&k) else { unreachable!() }; f.extend_from_slice(format!("{:010} 00000 n \n", o).as_bytes()); }
        f.extend_from_slice(format!("trailer\n<< /Size {} /Root 1 0 R >>\nstartxref\n{}\n%%EOF\n", size, xpos).as_bytes());
    } else {
        write_xref(&mut f, &mut ent, lay_xref_id(slots.len()));
    }
    f
}
fn lay_xref_id(n: usize) -> u32 { if n > 800 { lay_key(n) } else { XREF_ID } }

fn lay_input(l: &Lay, at: Value, obligation: &str, thorough: bool) -> Value { json!({"layout": lay_name(l), "at": at, "obligation": obligation, "tier": if thorough { "thorough" } else { "quick" }}) }
fn list_of(v: &[u32]) -> String { let t: Vec<String> = v.iter().map(|x| x.to_string()).collect(); match t.len() { 0 => "no entry".into(), 1 => format!("entry {}", t[0]), n => format!("the entries {} and {}", t[..n - 1].join(", "), t[n - 1]) } }
/// number in a header -> the entries that point at an object with this header
fn lay_claims(slots: &[Ls]) -> BTreeMap<u32, Vec<u32>> { let mut m: BTreeMap<u32, Vec<u32>> = BTreeMap::new(); for j in 0..slots.len() { m.entry(lay_says(slots, j)).or_default().push(lay_key(j)); } m }

/// what does not depend on the loader: version, the set of object numbers, every object one of the copies written
fn lay_violations(d: &Document, l: &Lay) -> Vec<String> {
    let slots = lay_slots(l);
    let claims = lay_claims(&slots);
    let mut v = vec![];
    if d.version != "1.5" { v.push(format!("the document has version {:?}, the header of the file says 1.5", d.version)); }
    for k in [1u32, 2] { if !d.objects.contains_key(&(k, 0)) { v.push(format!("object {} (written once, at entry {}) is not in the document", k, k)); } }
    for (h, keys) in &claims { if !d.objects.contains_key(&(*h, 0)) { v.push(format!("object {} (the number in the header of the object at {}) is not in the document", h, list_of(keys))); } }
    for (id, o) in &d.objects {
        if id.1 == 0 && (id.0 == 1 || id.0 == 2 || (!l.table && id.0 == lay_xref_id(slots.len()))) { continue; }
        let Some(keys) = claims.get(&id.0).filter(|_| id.1 == 0) else { v.push(format!("object {} {} is in the document, no object of the file has this number in its header", id.0, id.1)); continue };
        let got = lay_render(o);
        if !keys.iter().any(|k| { let j = (*k - 3) as usize; lay_written(&slots[j], j, id.0) == got }) {
            v.push(format!("object {} is none of the objects written under this number (at {}): it is {}", id.0, list_of(keys), got.chars().take(120).collect::<String>()));
        }
    }
    v
}
/// load on a fresh thread: the digest and what is wrong with the document whatever another load may give
fn lay_fresh(bytes: &[u8], l: &Lay) -> Result<(String, Vec<String>), String> {
    on_fresh_thread(|| match std::panic::catch_unwind(std::panic::AssertUnwindSafe(|| Document::load_mem(bytes))) {
        Err(e) => Err(format!("panic: {}", if let Some(s) = e.downcast_ref::<String>() { s.clone() } else if let Some(s) = e.downcast_ref::<&str>() { s.to_string() } else { "?".to_string() })),
        Ok(Err(e)) => Ok((format!("load error: {}", e), vec![])),
        Ok(Ok(d)) => Ok((digest3(&d), lay_violations(&d, l))),
    })
}
fn signature4(d: &str) -> String { if d.starts_with("version=") { format!("{:016x}:{} objects", fnv(d), d.lines().count() - 1) } else { d.chars().take(80).collect() } }

/// how a digest differs from the reference, in terms of the entries of the file; `reference`: where `want` was got ("on ..", "in ..")
fn lay_diff(got: &str, want: &str, l: &Lay, reference: &str) -> String {
    let cut = |s: &str| s.chars().take(140).collect::<String>();
    if !got.starts_with("version=") || !want.starts_with("version=") { return format!("the load gives {:?}; {} it gives {:?}", cut(got.lines().next().unwrap_or("")), reference, cut(want.lines().next().unwrap_or(""))); }
    let ((gh, g), (wh, w)) = (digest_lines(got), digest_lines(want));
    if gh != wh { return format!("the document begins {:?}; {} it begins {:?}", cut(&gh), reference, cut(&wh)); }
    let claims = lay_claims(&lay_slots(l));
    let copy = |o: Option<&String>| match o {
        None => "is not in the document".to_string(),
        Some(r) => match r.find("/Slot ").and_then(|p| r[p + 6..].split(|c: char| !c.is_ascii_digit()).next().and_then(|t| t.parse::<u32>().ok())) { Some(j) => format!("is the copy that entry {} points at", 3 + j), None => format!("is {}", cut(r)) },
    };
    let ids: std::collections::BTreeSet<(u32, u32)> = g.keys().chain(w.keys()).cloned().collect();
    let differing: Vec<(u32, u32)> = ids.into_iter().filter(|id| g.get(id) != w.get(id)).collect();
    match differing.first() {
        Some(id) => format!("object {}{} {}; {} it {} ({} objects differ)", id.0, claims.get(&id.0).map(|k| format!(" (the number in the header of the object at {})", list_of(k))).unwrap_or_default(), copy(g.get(id)), reference, copy(w.get(id)), differing.len()),
        None => first_diff(got, want),
    }
}

fn lay_files(thorough: bool) -> Vec<Lay> {
    let o = lay_alphabet();
    let prefixes: &[u32] = if thorough { &PREFIX_THOROUGH } else { &PREFIX_QUICK };
    let mut v = vec![];
    for table in [true, false] {
        for p in prefixes {
            for a in &o { v.push(Lay { table, prefix: *p, shape: Shape::Seq(vec![*a]) }); }
            for a in &o { for b in &o { v.push(Lay { table, prefix: *p, shape: Shape::Seq(vec![*a, *b]) }); } }
            if thorough && *p <= 7 { for a in &o { for b in &o { for c in &o { v.push(Lay { table, prefix: *p, shape: Shape::Seq(vec![*a, *b, *c]) }); } } } }
        }
        let long_prefixes: &[u32] = if thorough { &PREFIX_THOROUGH_LONG } else { &PREFIX_QUICK_LONG };
        let lengths: &[usize] = if thorough { &[64, 400, 1000] } else { &[64, 400] };
        for p in long_prefixes { for n in lengths {
            for r in RELS { if r != Rel::Own { v.push(Lay { table, prefix: *p, shape: Shape::Alt(r, *n) }); v.push(Lay { table, prefix: *p, shape: Shape::All(r, *n) }); } }
            for seed in 0..(if thorough { 6u32 } else { 3 }) { v.push(Lay { table, prefix: *p, shape: Shape::Drawn(seed, *n) }); }
        } }
    }
    v
}
fn lay_is_long(l: &Lay) -> bool { !matches!(l.shape, Shape::Seq(_)) }

const OB_WRITTEN4: &str = "a-loaded-object-is-the-object-that-was-written";
const WHAT4_POOL: &str = "another document than one fresh thread gets";

pub struct LayOut { /// file -> signature of the document that one fresh thread gets
    pub files: BTreeMap<String, String> }

/// one load on a pool, judged against the hash of the fresh-thread digest; true if it was as expected
fn judge4(rep: &mut Report, l: &Lay, bytes: &[u8], got: Result<String, String>, want_hash: u64, label: &str, nth: usize, at: Value, thorough: bool) -> bool {
    rep.case(true);
    let name = short4(&lay_name(l));
    match got {
        Err(p) => { rep.fail("no-panic", format!("[{}] {}: {}", name, label, p), lay_input(l, at, "no-panic", thorough), p.clone()); false }
        Ok(d) if fnv(&d) == want_hash => true,
        Ok(d) => {
            let want = lay_fresh(bytes, l).map(|x| x.0).unwrap_or_else(|e| e);
            let diff = lay_diff(&d, &want, l, "on one fresh thread");
            rep.fail(OB_POOLS, format!("[{}] {} ({}; load number {} of this file on {}): {}", name, WHAT4_POOL, lay_words(l), nth, label, diff), lay_input(l, at, OB_POOLS, thorough), diff.clone());
            false
        }
    }
}
fn short4(name: &str) -> String { if name.len() > 70 { format!("{}...", &name[..70]) } else { name.to_string() } }

/// The whole fourth family on this build; `sizes`, `here`, `repeats` as in `limits`.
pub fn layouts(thorough: bool, sizes: &[usize], here: &str, repeats: usize, rep: &mut Report) -> LayOut {
    set_order(usize::MAX);
    let workers = 8;
    let t0 = std::time::Instant::now();
    let lap = |what: &str| if std::env::var("LOPDF_VERIF_C08_TIMES").is_ok() { eprintln!("c08 fourth family, {}: {:.1} s", what, t0.elapsed().as_secs_f64()); };
    let files = lay_files(thorough);
    let mut out = LayOut { files: BTreeMap::new() };
    // the long documents are put together once (what stands in front of the header does not change them)
    let doc_key = |l: &Lay| lay_name(&Lay { prefix: 0, ..l.clone() });
    let mut long_docs: std::collections::HashMap<String, Vec<u8>> = Default::default();
    for l in files.iter().filter(|l| lay_is_long(l)) { long_docs.entry(doc_key(l)).or_insert_with(|| lay_document(l)); }
    let build = |l: &Lay| match long_docs.get(&doc_key(l)) { Some(d) => lay_with_prefix(l.prefix, d), None => build_layout_file(l) };
    // one fresh thread loads the file: the reference, judged by what was written
    let fresh = fan(workers, files.len(), rep, &|i, rep: &mut Report| {
        let l = &files[i];
        let name = short4(&lay_name(l));
        let bytes = build(l);
        rep.case(true);
        match lay_fresh(&bytes, l) {
            Err(p) => { rep.fail("no-panic", format!("[{}] on a fresh thread: {}", name, p), lay_input(l, json!("fresh"), "no-panic", thorough), p.clone()); None }
            Ok((d, _)) if !d.starts_with("version=") => { rep.fail("generated-file-loads", format!("[{}] one fresh thread does not load the file ({}): {}", name, lay_words(l), d), lay_input(l, json!("fresh"), "generated-file-loads", thorough), d.clone()); Some((signature4(&d), fnv(&d))) }
            Ok((d, wrong)) => {
                for w in wrong.iter().take(2) { rep.fail(OB_WRITTEN4, format!("[{}] loaded by one fresh thread ({}): {}", name, lay_words(l), w), lay_input(l, json!("fresh"), OB_WRITTEN4, thorough), w.clone()); }
                Some((signature4(&d), fnv(&d)))
            }
        }
    });
    lap("fresh threads done");
    let mut kept: Vec<(usize, u64)> = vec![];
    for (i, (sig, h)) in fresh { out.files.insert(lay_name(&files[i]), sig); kept.push((i, h)); }
    // pools that live through the whole family, all at the same time: short files once, long files `repeats` times
    let mut labels: Vec<(String, usize)> = vec![(here.to_string(), 0)];
    for t in sizes { labels.push((format!("a pool of {} threads", t), *t)); }
    fan(labels.len(), labels.len(), rep, &|p, rep: &mut Report| {
        let (label, t) = &labels[p];
        let pool = if *t == 0 { None } else { Some(big_pool(*t)) };
        let mut failed = 0;
        for (i, want) in &kept {
            let l = &files[*i];
            let bytes = build(l);
            let n = if lay_is_long(l) { repeats.min(LAY_REPEATS_MAX) } else { 1 };
            for r in 0..n { if !judge4(rep, l, &bytes, load3_on(&pool, &bytes), *want, label, r, json!({"threads": t}), thorough) { failed += 1; break; } }
            if failed >= 12 { break; }   // a faulty loader: enough said on this pool
        }
        None::<()>
    });
    lap("pools done");
    out
}

/// the document of one file of the fourth family as the sequential build loads it on a fresh thread
fn seq_layout_document(name: &str) -> Result<String, String> {
    let bin = std::env::var("LOPDF_VERIF_SEQ_BIN").map_err(|_| "LOPDF_VERIF_SEQ_BIN is not set".to_string())?;
    let out = std::process::Command::new(bin).env("LOPDF_VERIF_C08_SHOW", name).arg("c08-digests").output().map_err(|e| format!("sequential build did not start: {}", e))?;
    let text = String::from_utf8_lossy(&out.stdout).to_string();
    let line = text.lines().find(|l| l.starts_with('{')).ok_or("sequential build printed nothing")?;
    let v: Value = serde_json::from_str(line).map_err(|e| e.to_string())?;
    v["document"].as_str().map(|s| s.to_string()).ok_or("no document".to_string())
}

/// the fourth family on this (parallel) build, and the comparison with the sequential build
fn check_layouts(thorough: bool, seq: impl FnOnce() -> Value, repeats: usize, rep: &mut Report) {
    let out = layouts(thorough, &[1, 2, 3, 4, 8, 16], "the global pool", repeats, rep);
    let seq = &seq();
    const OB: &str = "equals-sequential-build";
    let mut explained = 0;
    for (name, want) in &out.files {
        rep.case(true);
        let got = seq.get(format!("Y:{}", name)).and_then(|x| x.as_str()).unwrap_or("(no digest)");
        if got == want { continue; }
        let Some(l) = lay_from(name) else { continue };
        // the first few in terms of the entries of the file, the others by hash
        let diff = if explained < 3 { explained += 1; match (lay_fresh(&build_layout_file(&l), &l), seq_layout_document(name)) { (Ok((mine, _)), Ok(theirs)) => lay_diff(&mine, &theirs, &l, "in the sequential build"), _ => String::new() } } else { String::new() };
        rep.fail(OB, format!("[{}] one fresh thread of this build and the sequential build load different documents ({}; hash:objects {} against {}): {}", short4(name), lay_words(&l), want, got, diff), lay_input(&l, json!("seq"), OB, thorough), got.to_string());
    }
    check_seq_failures(seq, "layout-failures", rep);
}

fn replay_layout(v: &Value) -> Result<(), String> {
    let thorough = v["tier"].as_str() == Some("thorough");
    let obligation = v["obligation"].as_str().unwrap_or("").to_string();
    let mut rep = Report::new("replay", false);
    let verdict = |rep: &Report| match rep.failures.iter().find(|x| x.obligation == obligation).or(rep.failures.first()) { None => Ok(()), Some(x) => Err(format!("{}: {}", x.obligation, x.detail)) };
    set_order(usize::MAX);
    if v["build"].as_str() == Some("sequential") {
        let seq = seq_digests_part(thorough, "layouts")?;
        check_seq_failures(&seq, "layout-failures", &mut rep);
        return verdict(&rep);
    }
    let l = lay_from(v["layout"].as_str().unwrap_or("")).ok_or("not a file of the fourth family")?;
    let bytes = build_layout_file(&l);
    let at = &v["at"];
    let (d, wrong) = lay_fresh(&bytes, &l)?;
    if !d.starts_with("version=") { return Err(format!("generated-file-loads: [{}] one fresh thread does not load the file ({}): {}", lay_name(&l), lay_words(&l), d)); }
    for w in wrong.iter().take(2) { rep.fail(OB_WRITTEN4, format!("[{}] loaded by one fresh thread ({}): {}", short4(&lay_name(&l)), lay_words(&l), w), lay_input(&l, json!("fresh"), OB_WRITTEN4, thorough), w.clone()); }
    if at.as_str() == Some("fresh") { return verdict(&rep); }
    if let Some(t) = at.get("threads").and_then(|x| x.as_u64()) {
        // a fresh pool of this size (0: the global pool), many loads
        let pool = if t == 0 { None } else { Some(big_pool(t as usize)) };
        let label = if t == 0 { "the global pool".to_string() } else { format!("a pool of {} threads", t) };
        for r in 0..200 { if !judge4(&mut rep, &l, &bytes, load3_on(&pool, &bytes), fnv(&d), &label, r, at.clone(), thorough) { break; } }
        return verdict(&rep);
    }
    // the comparison with the sequential build
    let theirs = seq_layout_document(&lay_name(&l))?;
    if theirs != d { let diff = lay_diff(&d, &theirs, &l, "in the sequential build"); rep.fail("equals-sequential-build", format!("[{}] one fresh thread of this build and the sequential build load different documents ({}): {}", short4(&lay_name(&l)), lay_words(&l), diff), lay_input(&l, json!("seq"), "equals-sequential-build", thorough), diff.clone()); }
    verdict(&rep)
}

pub fn run(thorough: bool) -> Report {
    let mut rep = Report::new("files with k = 1..4 (thorough 6) object streams; one object number present in every stream with a different value and used as the /Length of a stream, its cross-reference entry designating each container in turn / free / absent / an ordinary object / a container that does not list it; an object listed twice in one index; zero-length and indirect-length streams; wide files (up to 8, thorough 16, containers x 300 index entries over a pool of few numbers). Per file: all k! merge orders through hook H1 (capped at 720), 6 pool sizes {1,2,3,4,8,16} x 3 (thorough 25) repeated loads, all compared with the --no-default-features build of the same harness. SECOND FAMILY (objects at a parser limit x history of the parsing threads): object alphabet O = {arrays, dictionaries, arrays and dictionaries alternating, parentheses in a literal string} x {ordinary object, member of an object stream} x nesting depth {2, A-1, A, A+1, A+6}, A = the deepest nesting that loads when the object is alone in a file (probed over 20..=112 on fresh threads; 40 objects); files = all sequences of 1 and 2 (thorough: and 3) objects of O, plus long files of 64 objects (A+1 and A alternating per kind and position: 8; drawn from O: 3, thorough 12). Oracle: every object fares in every load exactly as it does alone in a file on a fresh thread (and a loaded object equals the object written), the rest of the document is constant. Loads per file: a fresh pool of 1 thread (one worker parses everything in file order); long-lived pools of {1,2,3,4,8,16} threads and the global pool, which load all files of up to 2 objects and the long ones in turn and then a closed walk over the single-object files in which every ordered pair occurs back to back (driven concurrently; their history is the whole enumeration); long files on fresh pools of {1,2,3,4,8,16} threads x 3 (thorough 25) loads; every sequence of 2 (thorough 3) single-object files on one fresh thread; the same family run by the sequential build on itself (fresh threads, one long-lived worker, a plain thread) and its fresh-thread documents compared with the expected ones by hash. THIRD FAMILY (stream data x how the length is stated x neighbours in the file x history): stream alphabet T = {object stream with 3 members, ordinary stream} x data {not encoded, FlateDecode healthy, FlateDecode with a wrong Adler-32, FlateDecode with a broken stored-block header at 10/16 of the data, FlateDecode cut off at 10/16} x decoded length {2^7, 2^16} bytes (thorough {2^7, 2^10, 2^13, 2^16, 2^19}) x /Length {direct, a reference to an integer object of its own, a reference to the one integer object of the file that every stream of the same encoded length shares} = 60 (thorough 150) streams, the zlib data assembled by hand from 16 stored blocks; files = all sequences of 1 and 2 streams of T (3660; thorough 22650, and all 27000 sequences of 3 of the 30 streams of 128 bytes), plus long files of 64 streams (drawn from T: 3, thorough 12; drawn from the 128-byte streams of T: 3, thorough 12). Oracle: every object of stream j (the stream, its 3 members, its length object) is in every load exactly what it is when the other streams are left out of the file and the thread is fresh; a stream that is not decoded while loading holds the bytes written, the members of a healthy object stream are the objects written; catalog, page tree root, shared length objects, trailer and maximum id are constant. Loads per file: twice in a row on one fresh thread (pool of 1); long-lived pools of {1,2,3,4,8,16} threads and the global pool, which load all single-stream files and the long ones (thorough: and all files of 2 streams) in turn and then a closed walk over the single-stream files in which every ordered pair occurs back to back (driven concurrently); long files on fresh pools of {1,2,3,4,8,16} threads x 3 (thorough 25) loads; the same family run by the sequential build on itself (fresh threads, one long-lived worker, a plain thread) and its fresh-thread documents compared with the expected ones by hash. FOURTH FAMILY (layout of the file around its ordinary objects: bytes in front of the header x form of the cross-reference section x number in an object's header against the key of the entry that points at it x header markers inside the objects x length): slot alphabet L = {the object that entry 3+j points at says in its header: its own number, the number of the next entry, of the previous entry, of the entry half a file away (these three: two in-use entries yield the same object id with different contents), a number that has no entry} x {dictionary with 8 numbers, the same with a string that holds the header marker %PDF-, embedded-file stream without filter whose data is a complete small PDF file} = 15 slots, every copy saying for which entry it was written; files = {classic cross-reference table with trailer, cross-reference stream} x bytes in front of the header {none, 2^7, 2^13} (thorough {none, 2^7, 2^10, 2^13, 2^16, 2^19}) of wrapper text with near misses of the marker x all sequences of 1 and 2 slots of L (1440 files; thorough 2880, and with none or 2^7 bytes in front all sequences of 3: 13500), plus long files of 64 and 400 (thorough and 1000) slots x {table, stream} x bytes in front {none, 2^7, 2^19} (thorough {none, 2^7, 2^19, 2^21}): per relation but 'own number' the relation alternating with 'own number' and the relation throughout (8 shapes), and 3 (thorough 6) draws from L (132 long files; thorough 336). Oracle: every load gives the document that one fresh thread gives (a pool of one worker), and that document equals the sequential build's (by hash; the first differences spelled out); independent of the loader: the version is the one the file's header states, the document holds exactly the object numbers that the headers state (plus catalog, page tree root, cross-reference stream) and every object is one of the copies written under its number (put together from the library's data types). Loads per file: one fresh thread; long-lived pools of {1,2,3,4,8,16} threads and the global pool (driven concurrently), which load every short file once and every long file 3 (thorough 10) times; the sequential build loads every file on a fresh thread and on one plain thread. The second, the third and the fourth family leave the merge-order hook alone", false);
    let t0 = std::time::Instant::now();
    let times = std::env::var("LOPDF_VERIF_C08_TIMES").is_ok();
    // the sequential build works on the second and third family while this build works on the first
    let seq_limits = std::thread::spawn(move || seq_digests_part(thorough, "limits"));
    let seq_streams = std::thread::spawn(move || seq_digests_part(thorough, "streams"));
    let seq_layouts = std::thread::spawn(move || seq_digests_part(thorough, "layouts"));
    let seq = match seq_digests_part(thorough, "specs") { Ok(v) => v, Err(e) => { eprintln!("c08: {}", e); std::process::exit(3); } };
    for s in specs(thorough) {
        let Some(sd) = seq.get(spec_name(&s)).and_then(|x| x.as_str()) else { eprintln!("c08: no sequential digest for {}", spec_name(&s)); std::process::exit(3); };
        if sd.starts_with("load error") || sd.starts_with("panic") { rep.fail("generated-file-loads", format!("{}: sequential build: {}", spec_name(&s), sd), json!({"spec": spec_json(&s)}), sd.to_string()); continue; }
        check_spec(&s, sd, 720, if thorough { 25 } else { 3 }, &mut rep);
    }
    set_order(usize::MAX);
    let seq = match seq_limits.join().unwrap_or_else(|_| Err("the thread waiting for the sequential build died".into())) { Ok(v) => v, Err(e) => { eprintln!("c08: {}", e); std::process::exit(3); } };
    if times { eprintln!("c08 first family: {:.1} s", t0.elapsed().as_secs_f64()); }
    // the sequential build has been at the third family since the start; its answer is needed last
    let seq3 = move || match seq_streams.join().unwrap_or_else(|_| Err("the thread waiting for the sequential build died".into())) { Ok(v) => v, Err(e) => { eprintln!("c08: {}", e); std::process::exit(3); } };
    let seq4 = move || match seq_layouts.join().unwrap_or_else(|_| Err("the thread waiting for the sequential build died".into())) { Ok(v) => v, Err(e) => { eprintln!("c08: {}", e); std::process::exit(3); } };
    // the second, third and fourth family leave the hook alone and run side by side
    let repeats = if thorough { 25 } else { 3 };
    let (r2, r3, r4) = std::thread::scope(|sc| {
        let h2 = sc.spawn(|| { let mut r = Report::new("part", false); check_limits(thorough, &seq, repeats, &mut r); if times { eprintln!("c08 second family: {:.1} s", t0.elapsed().as_secs_f64()); } r });
        let h3 = sc.spawn(move || { let mut r = Report::new("part", false); check_streams(thorough, seq3, repeats, &mut r); if times { eprintln!("c08 third family: {:.1} s", t0.elapsed().as_secs_f64()); } r });
        let h4 = sc.spawn(move || { let mut r = Report::new("part", false); check_layouts(thorough, seq4, repeats, &mut r); if times { eprintln!("c08 fourth family: {:.1} s", t0.elapsed().as_secs_f64()); } r });
        (h2.join().expect("second family"), h3.join().expect("third family"), h4.join().expect("fourth family"))
    });
    rep.merge(r2); rep.merge(r3); rep.merge(r4);
    let s0 = Spec { k: 3, mode: Mode::Free, wide: 0 };
    rep.sample(format!("{}: {}", spec_name(&s0), String::from_utf8_lossy(&build_file(&s0)).chars().filter(|c| c.is_ascii() && !c.is_control() || *c == '\n').skip(520).take(300).collect::<String>()));
    rep
}

pub fn replay(v: &Value) -> Result<(), String> {
    if v.get("limit").is_some() { return replay_limit(v); }
    if v.get("streams").is_some() { return replay_streams(v); }
    if v.get("layout").is_some() { return replay_layout(v); }
    let s = spec_from(&v["spec"]);
    let seq = seq_digests_part(true, "specs").or_else(|_| seq_digests_part(false, "specs"))?;
    let sd = seq.get(spec_name(&s)).and_then(|x| x.as_str()).ok_or("no sequential digest for this file")?.to_string();
    let mut rep = Report::new("replay", false);
    check_spec(&s, &sd, 720, 10, &mut rep);
    set_order(usize::MAX);
    match rep.failures.first() { None => Ok(()), Some(f) => Err(format!("{}: {}", f.obligation, f.detail)) }
}
