//! C08: loading is deterministic under every thread schedule (bounded stand-in; the schedules are the quantifier).
//!
//! Three families, all on hand-assembled PDF 1.5 files with a cross-reference stream and object streams:
//!  * orders : through hook H1 (`lopdf::verif_hooks::MERGE_ORDER`) every order in which the per-container blocks of
//!             compressed objects can reach the merge is enumerated (k! orders for k object streams);
//!  * pools  : repeated loads inside rayon pools of 1,2,3,4,8,16 threads (sampling of real schedules and of rayon's
//!             adaptive splitting inside one object stream);
//!  * seq    : the digest of each file as loaded by the `--no-default-features` (sequential) build of the same harness,
//!             obtained from the binary named by LOPDF_VERIF_SEQ_BIN; every other load must equal it.
#![allow(dead_code)]
use crate::common::*;
use lopdf::{Document, Object};
use serde_json::{json, Value};
use std::collections::BTreeMap;
use std::sync::atomic::Ordering;

#[derive(Clone, Copy, Debug, PartialEq)]
pub enum Mode {
    /// the cross-reference stream designates container `d` for the shared object
    Designated(usize),
    /// the shared object's entry is free
    Free,
    /// the cross-reference stream has no entry for the shared object (two /Index subsections)
    Absent,
    /// the shared object is also an ordinary object at an offset; the entry is of type 1
    Normal,
    /// the entry designates an object stream that does not list the object
    Elsewhere,
}

#[derive(Clone, Debug)]
pub struct Spec { pub k: usize, pub mode: Mode, pub wide: usize }

fn mode_json(m: Mode) -> Value { match m { Mode::Designated(d) => json!({"designated": d}), Mode::Free => json!("free"), Mode::Absent => json!("absent"), Mode::Normal => json!("normal"), Mode::Elsewhere => json!("elsewhere") } }
fn mode_from(v: &Value) -> Mode {
    if let Some(d) = v.get("designated").and_then(|x| x.as_u64()) { return Mode::Designated(d as usize); }
    match v.as_str() { Some("free") => Mode::Free, Some("absent") => Mode::Absent, Some("normal") => Mode::Normal, _ => Mode::Elsewhere }
}
fn spec_json(s: &Spec) -> Value { json!({"k": s.k, "mode": mode_json(s.mode), "wide": s.wide}) }
fn spec_from(v: &Value) -> Spec { Spec { k: v["k"].as_u64().unwrap_or(1) as usize, mode: mode_from(&v["mode"]), wide: v["wide"].as_u64().unwrap_or(0) as usize } }
pub fn spec_name(s: &Spec) -> String { format!("k{}-{:?}-w{}", s.k, s.mode, s.wide) }

const SHARED: u32 = 20;
const TWICE: u32 = 21;
const XREF_ID: u32 = 60;
const DATA: &[u8] = b"0123456789abcdefghijklmnopqrstuvwxyz";

enum Ent { Free, Normal(usize), Compressed(u32, u32) }

/// Assemble the file. Objects: 1 catalog, 2 pages, 3 page, 4 stream with /Length 20 0 R (the shared compressed
/// object: container i says i+1), 5 stream with /Length 0, 6 stream with /Length 7 0 R, 7 integer, 10.. object streams,
/// 30+2i / 31+2i unique to container i, 21 listed twice in container 0, 60 the cross-reference stream.
/// `wide` > 0 additionally gives every container an index of `wide` entries over a pool of few numbers (1000+), so that
/// one object number is listed many times in one index block and in several containers.
pub fn build_file(s: &Spec) -> Vec<u8> {
    let mut f: Vec<u8> = b"%PDF-1.5\n%\xE2\xE3\xCF\xD3\n".to_vec();
    let mut ent: BTreeMap<u32, Ent> = BTreeMap::new();
    ent.insert(0, Ent::Free);
    let mut put = |f: &mut Vec<u8>, ent: &mut BTreeMap<u32, Ent>, id: u32, body: &[u8]| {
        ent.insert(id, Ent::Normal(f.len()));
        f.extend_from_slice(format!("{} 0 obj\n", id).as_bytes()); f.extend_from_slice(body); f.extend_from_slice(b"\nendobj\n");
    };
    put(&mut f, &mut ent, 1, b"<< /Type /Catalog /Pages 2 0 R >>");
    put(&mut f, &mut ent, 2, b"<< /Type /Pages /Kids [3 0 R] /Count 1 >>");
    put(&mut f, &mut ent, 3, b"<< /Type /Page /Parent 2 0 R /MediaBox [0 0 10 10] /Contents 4 0 R >>");
    let mut b4 = b"<< /Length 20 0 R >>\nstream\n".to_vec(); b4.extend_from_slice(DATA); b4.extend_from_slice(b"\nendstream");
    put(&mut f, &mut ent, 4, &b4);
    put(&mut f, &mut ent, 5, b"<< /Length 0 >>\nstream\n\nendstream");
    let mut b6 = b"<< /Length 7 0 R >>\nstream\n".to_vec(); b6.extend_from_slice(&DATA[..9]); b6.extend_from_slice(b"\nendstream");
    put(&mut f, &mut ent, 6, &b6);
    put(&mut f, &mut ent, 7, b"9");
    if s.mode == Mode::Normal { put(&mut f, &mut ent, SHARED, b"33"); }
    let mut wide_owner: BTreeMap<u32, u32> = BTreeMap::new();
    for i in 0..s.k {
        let cid = 10 + i as u32;
        // (object number, text)
        let mut items: Vec<(u32, String)> = vec![];
        items.push((30 + 2 * i as u32, format!("<< /U {} /C {} >>", 30 + 2 * i, i)));
        items.push((SHARED, format!("{}", i + 1)));
        if i == 0 { items.push((TWICE, "100".into())); }
        items.push((31 + 2 * i as u32, format!("[{} /c{} (s{})]", i, i, i)));
        if i == 0 { items.push((TWICE, "200".into())); }
        let mut x: u32 = 12345 + 77 * i as u32;
        for j in 0..s.wide {
            x = x.wrapping_mul(1103515245).wrapping_add(12345);
            // few numbers early in the index, many late (and the other way round in odd containers): halves of different sizes
            let early = (j < s.wide / 2) == (i % 2 == 0);
            let n = 1000 + if early { (x >> 16) % 5 } else { (x >> 16) % 40 };
            items.push((n, format!("<< /W {} /At {} /In {} >>", n, j, i)));
            wide_owner.entry(n).or_insert(cid);
        }
        let mut index = String::new(); let mut body = String::new();
        for (n, text) in &items { index.push_str(&format!("{} {} ", n, body.len())); body.push_str(text); body.push(' '); }
        let content = format!("{}{}", index, body);
        let mut o = format!("<< /Type /ObjStm /N {} /First {} /Length {} >>\nstream\n", items.len(), index.len(), content.len()).into_bytes();
        o.extend_from_slice(content.as_bytes()); o.extend_from_slice(b"\nendstream");
        put(&mut f, &mut ent, cid, &o);
        ent.insert(30 + 2 * i as u32, Ent::Compressed(cid, 0));
        ent.insert(31 + 2 * i as u32, Ent::Compressed(cid, 3));
    }
    ent.insert(TWICE, Ent::Compressed(10, 2));
    for (n, c) in &wide_owner { let c = if n % 3 == 0 { 10 + (s.k as u32 - 1) } else { *c }; ent.insert(*n, Ent::Compressed(c, 0)); }   // a third designated to the last container
    match s.mode {
        Mode::Designated(d) => { ent.insert(SHARED, Ent::Compressed(10 + d as u32, 1)); }
        Mode::Free => { ent.insert(SHARED, Ent::Free); }
        Mode::Absent | Mode::Normal => {}
        Mode::Elsewhere => { ent.insert(SHARED, Ent::Compressed(2, 0)); }
    }
    // cross-reference stream, W [1 4 2], subsections for the runs of present entries
    let xpos = f.len();
    ent.insert(XREF_ID, Ent::Normal(xpos));
    let size = ent.keys().max().unwrap() + 1;
    let mut rows: Vec<u8> = vec![]; let mut index: Vec<(u32, u32)> = vec![];
    for n in 0..size {
        let Some(e) = ent.get(&n) else { continue };
        match index.last_mut() { Some((st, c)) if *st + *c == n => *c += 1, _ => index.push((n, 1)) }
        let (t, a, b) = match e { Ent::Free => (0u8, 0u32, 65535u16), Ent::Normal(o) => (1, *o as u32, 0), Ent::Compressed(c, i) => (2, *c, *i as u16) };
        rows.push(t); rows.extend_from_slice(&a.to_be_bytes()); rows.extend_from_slice(&b.to_be_bytes());
    }
    let idx: String = index.iter().map(|(a, b)| format!("{} {} ", a, b)).collect();
    f.extend_from_slice(format!("{} 0 obj\n<< /Type /XRef /Size {} /W [1 4 2] /Index [{}] /Root 1 0 R /Length {} >>\nstream\n", XREF_ID, size, idx.trim_end(), rows.len()).as_bytes());
    f.extend_from_slice(&rows); f.extend_from_slice(b"\nendstream\nendobj\n");
    f.extend_from_slice(format!("startxref\n{}\n%%EOF\n", xpos).as_bytes());
    f
}

fn canon(o: &Object, out: &mut String) {
    match o {
        Object::Stream(s) => { out.push_str(&format!("stream{{{:?}|{}|{:?}}}", s.dict, hex(&s.content), s.allows_compression)); }
        other => out.push_str(&format!("{:?}", other)),
    }
}

/// canonical rendering of everything the statement lists: objects with contents, trailer, maximum id, version
pub fn digest(d: &Document) -> String {
    let mut s = format!("version={} max_id={} trailer={:?}\n", d.version, d.max_id, d.trailer);
    for (id, o) in &d.objects { s.push_str(&format!("{} {}: ", id.0, id.1)); canon(o, &mut s); s.push('\n'); }
    s
}

fn set_order(k: usize) { lopdf::verif_hooks::MERGE_ORDER.store(k, Ordering::SeqCst); }
fn blocks() -> usize { lopdf::verif_hooks::LAST_BLOCKS.load(Ordering::SeqCst) }

fn load(bytes: &[u8]) -> Result<String, String> {
    match guarded(std::panic::AssertUnwindSafe(|| Document::load_mem(bytes))) {
        Err(p) => Err(format!("panic: {}", p)),
        Ok(Err(e)) => Ok(format!("load error: {}", e)),
        Ok(Ok(d)) => Ok(digest(&d)),
    }
}

pub fn specs(thorough: bool) -> Vec<Spec> {
    let mut v = vec![];
    let kmax = if thorough { 6 } else { 4 };
    for k in 1..=kmax {
        for d in 0..k { v.push(Spec { k, mode: Mode::Designated(d), wide: 0 }); }
        for m in [Mode::Free, Mode::Absent, Mode::Normal, Mode::Elsewhere] { v.push(Spec { k, mode: m, wide: 0 }); }
    }
    let mut wides = vec![(1usize, 64usize), (2, 64), (3, 37), (3, 200), (8, 300)];
    if thorough { wides.push((16, 300)); }
    for (k, wide) in wides { v.push(Spec { k, mode: Mode::Designated(k - 1), wide }); v.push(Spec { k, mode: Mode::Free, wide }); }
    v
}

fn factorial(n: usize) -> usize { (1..=n).product::<usize>().max(1) }

fn first_diff(a: &str, b: &str) -> String {
    for (x, y) in a.lines().zip(b.lines()) { if x != y { return format!("{:?} vs {:?}", x.chars().take(160).collect::<String>(), y.chars().take(160).collect::<String>()); } }
    format!("{} lines vs {} lines", a.lines().count(), b.lines().count())
}

/// digests computed by this very binary with the hook left alone; `c08-digests` prints them (used with the sequential build)
pub fn digests(thorough: bool) -> Value {
    set_order(usize::MAX);
    let mut m = serde_json::Map::new();
    for s in specs(thorough) { m.insert(spec_name(&s), json!(load(&build_file(&s)).unwrap_or_else(|e| e))); }
    Value::Object(m)
}

fn seq_digests(thorough: bool) -> Result<Value, String> {
    let bin = std::env::var("LOPDF_VERIF_SEQ_BIN").map_err(|_| "LOPDF_VERIF_SEQ_BIN is not set".to_string())?;
    let mut c = std::process::Command::new(bin);
    c.arg("c08-digests").arg("--tier").arg(if thorough { "thorough" } else { "quick" });
    let out = c.output().map_err(|e| format!("sequential build did not start: {}", e))?;
    let text = String::from_utf8_lossy(&out.stdout).to_string();
    let line = text.lines().find(|l| l.starts_with('{')).ok_or_else(|| format!("sequential build printed no digests: {}", String::from_utf8_lossy(&out.stderr)))?;
    serde_json::from_str(line).map_err(|e| e.to_string())
}

fn check_spec(s: &Spec, seq: &str, max_orders: usize, repeats: usize, rep: &mut Report) {
    let bytes = build_file(s);
    let input = |extra: Value| json!({"spec": spec_json(s), "at": extra});
    // the unhooked load in the calling thread's pool
    set_order(usize::MAX);
    let base = match load(&bytes) { Ok(d) => d, Err(p) => { rep.fail("no-panic", format!("{}: {}", spec_name(s), p), input(json!("plain")), p.clone()); return; } };
    rep.case(true);
    if base != seq { rep.fail("equals-sequential-build", format!("{}: parallel load differs from the sequential build: {}", spec_name(s), first_diff(&base, seq)), input(json!("plain")), first_diff(&base, seq)); }
    let b = blocks();
    if b != s.k { rep.fail("hook-sees-every-container", format!("{}: {} object streams in the file, hook H1 recorded {} blocks", spec_name(s), s.k, b), input(json!("plain")), format!("{}", b)); }
    // every merge order
    let n = factorial(b).min(max_orders);
    for k in 0..n {
        set_order(k);
        let r = load(&bytes);
        rep.case(true);
        match r {
            Err(p) => { rep.fail("no-panic", format!("{} order {}: {}", spec_name(s), k, p), input(json!({"order": k})), p.clone()); }
            Ok(d) => if d != seq { rep.fail("every-merge-order-gives-the-same-document", format!("{}: merge order {} of {} gives a different document: {}", spec_name(s), k, factorial(b), first_diff(&d, seq)), input(json!({"order": k})), first_diff(&d, seq)); break; }
        }
    }
    set_order(usize::MAX);
    // real schedules
    for threads in [1usize, 2, 3, 4, 8, 16] {
        let pool = rayon::ThreadPoolBuilder::new().num_threads(threads).build().expect("pool");
        for r in 0..repeats {
            let d = pool.install(|| load(&bytes));
            rep.case(true);
            match d {
                Err(p) => { rep.fail("no-panic", format!("{} pool {}: {}", spec_name(s), threads, p), input(json!({"threads": threads})), p.clone()); }
                Ok(d) => if d != seq { rep.fail("every-pool-size-gives-the-same-document", format!("{}: load number {} on a pool of {} threads differs from the sequential build: {}", spec_name(s), r, threads, first_diff(&d, seq)), input(json!({"threads": threads, "repeats": repeats})), first_diff(&d, seq)); break; }
            }
        }
    }
}

pub fn run(thorough: bool) -> Report {
    let mut rep = Report::new("files with k = 1..4 (thorough 6) object streams; one object number present in every stream with a different value and used as the /Length of a stream, its cross-reference entry designating each container in turn / free / absent / an ordinary object / a container that does not list it; an object listed twice in one index; zero-length and indirect-length streams; wide files (up to 8, thorough 16, containers x 300 index entries over a pool of few numbers). Per file: all k! merge orders through hook H1 (capped at 720), 6 pool sizes {1,2,3,4,8,16} x 3 (thorough 25) repeated loads, all compared with the --no-default-features build of the same harness", false);
    let seq = match seq_digests(thorough) { Ok(v) => v, Err(e) => { eprintln!("c08: {}", e); std::process::exit(3); } };
    for s in specs(thorough) {
        let Some(sd) = seq.get(spec_name(&s)).and_then(|x| x.as_str()) else { eprintln!("c08: no sequential digest for {}", spec_name(&s)); std::process::exit(3); };
        if sd.starts_with("load error") || sd.starts_with("panic") { rep.fail("generated-file-loads", format!("{}: sequential build: {}", spec_name(&s), sd), json!({"spec": spec_json(&s)}), sd.to_string()); continue; }
        check_spec(&s, sd, 720, if thorough { 25 } else { 3 }, &mut rep);
    }
    set_order(usize::MAX);
    let s0 = Spec { k: 3, mode: Mode::Free, wide: 0 };
    rep.sample(format!("{}: {}", spec_name(&s0), String::from_utf8_lossy(&build_file(&s0)).chars().filter(|c| c.is_ascii() && !c.is_control() || *c == '\n').skip(520).take(300).collect::<String>()));
    rep
}

pub fn replay(v: &Value) -> Result<(), String> {
    let s = spec_from(&v["spec"]);
    let seq = seq_digests(true).or_else(|_| seq_digests(false))?;
    let sd = seq.get(spec_name(&s)).and_then(|x| x.as_str()).ok_or("no sequential digest for this file")?.to_string();
    let mut rep = Report::new("replay", false);
    check_spec(&s, &sd, 720, 10, &mut rep);
    set_order(usize::MAX);
    match rep.failures.first() { None => Ok(()), Some(f) => Err(format!("{}: {}", f.obligation, f.detail)) }
}
