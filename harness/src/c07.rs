//! C07: incremental updates -- latest revision wins, history preserved (bounded histories through the real loader).
#![allow(dead_code)]
use crate::common::{Report};
use crate::gen::*;
use lopdf::{Document, IncrementalDocument, Object};
use rayon::prelude::*;
use serde_json::{json, Value};
use std::collections::{BTreeMap, BTreeSet};

thread_local! { static PANIC_AT: std::cell::RefCell<String> = std::cell::RefCell::new(String::new()); }
/// catch a panic without touching the process-global panic hook (`common::guarded` swaps it on every call, which races
/// between rayon workers); `quiet` installs one hook around the whole run that records the location per thread
fn guarded<T>(f: impl FnOnce() -> T) -> Result<T, String> {
    std::panic::catch_unwind(std::panic::AssertUnwindSafe(f)).map_err(|e| {
        let msg = if let Some(s) = e.downcast_ref::<String>() { s.clone() } else if let Some(s) = e.downcast_ref::<&str>() { s.to_string() } else { "panic".to_string() };
        format!("{} at {}", msg, PANIC_AT.with(|p| p.borrow().clone()))
    })
}
fn quiet<T>(f: impl FnOnce() -> T) -> T {
    let prev = std::panic::take_hook();
    std::panic::set_hook(Box::new(|info| { if let Some(l) = info.location() { PANIC_AT.with(|p| *p.borrow_mut() = format!("{}:{}", l.file(), l.line())); } }));
    let r = f();
    std::panic::set_hook(prev);
    r
}

/// minimal independent serializer for the value alphabet used here
fn ser(o: &Object, out: &mut Vec<u8>) {
    match o {
        Object::Null => out.extend_from_slice(b"null"),
        Object::Boolean(b) => out.extend_from_slice(if *b { b"true" } else { b"false" }),
        Object::Integer(i) => out.extend_from_slice(i.to_string().as_bytes()),
        Object::Name(n) => { out.push(b'/'); out.extend_from_slice(n); }
        Object::String(s, _) => { out.push(b'<'); for b in s { out.extend_from_slice(format!("{:02x}", b).as_bytes()); } out.push(b'>'); }
        Object::Array(a) => { out.push(b'['); for (i, x) in a.iter().enumerate() { if i > 0 { out.push(b' '); } ser(x, out); } out.push(b']'); }
        Object::Dictionary(d) => { out.extend_from_slice(b"<<"); for (k, v) in d.iter() { out.push(b'/'); out.extend_from_slice(k); out.push(b' '); ser(v, out); out.push(b' '); } out.extend_from_slice(b">>"); }
        Object::Reference(id) => out.extend_from_slice(format!("{} {} R", id.0, id.1).as_bytes()),
        Object::Stream(s) => { let mut d = s.dict.clone(); d.set("Length", s.content.len() as i64); ser(&Object::Dictionary(d), out); out.extend_from_slice(b"\nstream\n"); out.extend_from_slice(&s.content); out.extend_from_slice(b"\nendstream"); }
        Object::Real(r) => out.extend_from_slice(format!("{:.3}", r).as_bytes()),
    }
}

#[derive(Clone, Copy, Debug, PartialEq)]
pub enum Style { Table, XStream, ObjStm }

/// who writes one revision of a history: the reference writer (in one cross-reference style) or lopdf's IncrementalDocument
#[derive(Clone, Copy, Debug, PartialEq)]
pub enum Producer { Ref(Style), Lopdf }

/// one edit of an update revision
#[derive(Clone, Copy, Debug, PartialEq)]
pub enum Op {
    /// replace an object of the base document
    Replace(u32),
    /// add an object under a number the caller chose (leaves a hole below it)
    At(u32),
    /// add an object and let the PRODUCER choose the number: lopdf through `new_document.add_object()`, the reference
    /// writer takes the highest number defined so far plus one
    New,
}

/// what the objects of a history hold (the catalog, object 1, is a dictionary in every kind)
#[derive(Clone, Copy, Debug, PartialEq)]
pub enum Kind {
    /// arrays
    Values,
    /// stream objects (dictionary + data whose length differs from object to object and from revision to revision); every
    /// producer states /Length directly
    Streams,
    /// stream objects; the REFERENCE writers state the length of every stream they write as `/Length n 0 R`, where n is
    /// an integer object that the same revision adds: written right after the stream (table / xref-stream writer) or kept
    /// with the other non-stream objects in the revision's object stream (object-stream writer; streams themselves are
    /// always written plainly, ISO 32000-1 7.5.7). lopdf revisions write their streams the way lopdf does.
    StreamsIndirectLength,
}
pub const KINDS: [Kind; 3] = [Kind::Values, Kind::Streams, Kind::StreamsIndirectLength];
fn kind_name(k: Kind) -> &'static str { match k { Kind::Values => "Values", Kind::Streams => "Streams", Kind::StreamsIndirectLength => "StreamsIndirectLength" } }
fn kind_from(s: &str) -> Kind { match s { "Streams" => Kind::Streams, "StreamsIndirectLength" => Kind::StreamsIndirectLength, _ => Kind::Values } }

/// the field widths /W with which the reference writers encode the rows of their cross-reference streams (ISO 32000-1
/// 7.5.8.2: any non-negative widths; width 0 = field absent, default type 1 / generation 0)
#[derive(Clone, Copy, Debug, PartialEq)]
pub enum Widths {
    /// [1 4 2], what lopdf itself writes
    W142,
    /// the narrowest legal row for the section at hand: offsets in as few bytes as the largest one needs; type and third
    /// field absent (width 0) when every row is of type 1 with generation 0, else 1 byte each (or what the largest index needs)
    Minimal,
    /// [1 8 2]: 64-bit offsets, as written by producers prepared for files beyond 4 GiB
    W182,
    /// [2 5 3]: every field one byte wider than lopdf writes it
    W253,
}
pub const WIDTHS: [Widths; 4] = [Widths::W142, Widths::Minimal, Widths::W182, Widths::W253];
fn widths_name(w: Widths) -> &'static str { match w { Widths::W142 => "W142", Widths::Minimal => "Minimal", Widths::W182 => "W182", Widths::W253 => "W253" } }
fn widths_from(s: &str) -> Widths { match s { "Minimal" => Widths::Minimal, "W182" => Widths::W182, "W253" => Widths::W253, _ => Widths::W142 } }
fn resolve_widths(w: Widths, rows: &BTreeMap<u32, (u8, u64, u64)>) -> [usize; 3] {
    let need = |v: u64| { let mut n = 1; while n < 8 && (v >> (8 * n)) != 0 { n += 1; } n };
    match w {
        Widths::W142 => [1, 4, 2],
        Widths::W182 => [1, 8, 2],
        Widths::W253 => [2, 5, 3],
        Widths::Minimal => {
            let all1 = rows.values().all(|r| r.0 == 1);
            let a = need(rows.values().map(|r| r.1).max().unwrap_or(0));
            let m3 = rows.values().map(|r| r.2).max().unwrap_or(0);
            [if all1 { 0 } else { 1 }, a, if all1 && m3 == 0 { 0 } else { need(m3) }]
        }
    }
}
/// big-endian field of `w` bytes
fn be(v: u64, w: usize) -> Vec<u8> { (0..w).map(|i| { let sh = 8 * (w - 1 - i); if sh >= 64 { 0 } else { (v >> sh) as u8 } }).collect() }

/// the object numbers defined anywhere in the file as plain indirect objects (`N 0 obj` at the start of a token), found
/// by a byte scan that knows nothing about cross-reference sections
fn numbers_defined(file: &[u8]) -> std::collections::BTreeSet<u32> {
    let pat = b" 0 obj";
    let mut out = std::collections::BTreeSet::new();
    if file.len() < pat.len() { return out; }
    for i in 0..=file.len() - pat.len() {
        if &file[i..i + pat.len()] != pat { continue; }
        let mut j = i;
        while j > 0 && file[j - 1].is_ascii_digit() { j -= 1; }
        if j == i || i - j > 9 { continue; }
        if j > 0 && !matches!(file[j - 1], b'\n' | b'\r' | b' ') { continue; }
        if let Ok(n) = std::str::from_utf8(&file[j..i]).unwrap_or("").parse::<u32>() { out.insert(n); }
    }
    out
}

/// how the reference TABLE writer groups the entries of one section into subsections (`first count` + count entries)
#[derive(Clone, Copy, Debug, PartialEq)]
pub enum TableForm {
    /// one subsection of count 1 per entry
    Singletons,
    /// one subsection per maximal run of consecutive numbers
    Runs,
    /// the free-list head `0 1` / `0000000000 65535 f` first (joined with a run that starts at 1), then the runs
    FreeHead,
    /// the head subsection with count 0 (`0 0`) first, then the runs
    EmptyHead,
}
pub const FORMS: [TableForm; 4] = [TableForm::Singletons, TableForm::Runs, TableForm::FreeHead, TableForm::EmptyHead];
fn form_name(f: TableForm) -> &'static str { match f { TableForm::Singletons => "Singletons", TableForm::Runs => "Runs", TableForm::FreeHead => "FreeHead", TableForm::EmptyHead => "EmptyHead" } }
fn form_from(s: &str) -> TableForm { match s { "Runs" => TableForm::Runs, "FreeHead" => TableForm::FreeHead, "EmptyHead" => TableForm::EmptyHead, _ => TableForm::Singletons } }

/// the body and the cross-reference section of one revision, written by the reference writer
#[derive(Clone, Debug)]
struct Plan {
    /// new or replaced objects, in the order they are written (an indirect stream length follows its stream)
    objs: Vec<(u32, Object)>,
    /// stream number -> number of the integer object (also in `objs`) that holds its length, for streams written with `/Length n 0 R`
    len_of: BTreeMap<u32, u32>,
    /// field widths of the cross-reference stream (where the style has one)
    widths: Widths,
    /// numbers of the object stream and of the cross-reference stream (where the style has them, else 0)
    container: u32,
    xid: u32,
    /// the /Size to announce (highest number of the whole file + 1)
    size: u32,
    style: Style,
    form: TableForm,
}

/// the bytes of one revision (objects, then cross-reference section with trailer; no startxref) when it is placed at
/// file offset `at`; `prev` = offset of the section it chains to (None: the first revision); `pad_prev`: the /Prev value
/// is followed by blanks up to 10 characters, so that the length of the block does not depend on `at` or `prev`.
/// Returns the bytes and the file offset of the cross-reference section.
/// A revision without objects has an empty table (the single subsection `0 0`, unless the form writes the free head) or a
/// cross-reference stream that lists only itself; no empty object stream is written.
fn render_revision(at: usize, p: &Plan, root: u32, prev: Option<usize>, pad_prev: bool) -> (Vec<u8>, usize) {
    let mut out: Vec<u8> = vec![];
    let objs = &p.objs;
    let mut offsets: BTreeMap<u32, (u8, u64, u64)> = BTreeMap::new(); // id -> (type, f2, f3)
    // streams are never members of an object stream; in the object-stream style every other object is
    let is_member = |o: &Object| p.style == Style::ObjStm && !matches!(o, Object::Stream(_));
    for (id, o) in objs.iter().filter(|(_, o)| !is_member(o)) {
        offsets.insert(*id, (1, (at + out.len()) as u64, 0));
        out.extend_from_slice(format!("{} 0 obj\n", id).as_bytes());
        match (o, p.len_of.get(id)) {
            (Object::Stream(st), Some(l)) => {
                let mut d = st.dict.clone();
                d.set("Length", Object::Reference((*l, 0)));
                ser(&Object::Dictionary(d), &mut out);
                out.extend_from_slice(b"\nstream\n"); out.extend_from_slice(&st.content); out.extend_from_slice(b"\nendstream");
            }
            _ => ser(o, &mut out),
        }
        out.extend_from_slice(b"\nendobj\n");
    }
    let members: Vec<&(u32, Object)> = objs.iter().filter(|(_, o)| is_member(o)).collect();
    if !members.is_empty() {
        let mut index = Vec::new();
        let mut body = Vec::new();
        for (k, (id, o)) in members.iter().enumerate() {
            index.extend_from_slice(format!("{} {} ", id, body.len()).as_bytes());
            ser(o, &mut body);
            body.push(b'\n');
            offsets.insert(*id, (2, p.container as u64, k as u64));
        }
        let mut content = index.clone();
        content.extend_from_slice(&body);
        offsets.insert(p.container, (1, (at + out.len()) as u64, 0));
        out.extend_from_slice(format!("{} 0 obj\n<</Type /ObjStm /N {} /First {} /Length {}>>\nstream\n", p.container, members.len(), index.len(), content.len()).as_bytes());
        out.extend_from_slice(&content);
        out.extend_from_slice(b"\nendstream\nendobj\n");
    }
    let xref_pos = at + out.len();
    let prev_txt = match prev { None => String::new(), Some(x) if pad_prev => format!(" /Prev {:<10}", x), Some(x) => format!(" /Prev {}", x) };
    match p.style {
        Style::Table => {
            out.extend_from_slice(b"xref\n");
            let entry = |out: &mut Vec<u8>, off: u64| out.extend_from_slice(format!("{:010} {:05} n \n", off, 0).as_bytes());
            if p.form == TableForm::Singletons {
                for (id, (_, off, _)) in &offsets { out.extend_from_slice(format!("{} 1\n", id).as_bytes()); entry(&mut out, *off); }
                if offsets.is_empty() { out.extend_from_slice(b"0 0\n"); }
            } else {
                // maximal runs of consecutive numbers
                let mut runs: Vec<Vec<(u32, u64)>> = vec![];
                for (id, (_, off, _)) in &offsets {
                    match runs.last_mut() { Some(r) if r.last().map(|(l, _)| l + 1) == Some(*id) => r.push((*id, *off)), _ => runs.push(vec![(*id, *off)]) }
                }
                let mut head_joined = false;
                match p.form {
                    TableForm::FreeHead => {
                        head_joined = runs.first().map(|r| r[0].0 == 1).unwrap_or(false);
                        out.extend_from_slice(format!("0 {}\n0000000000 65535 f \n", if head_joined { runs[0].len() + 1 } else { 1 }).as_bytes());
                    }
                    TableForm::EmptyHead => out.extend_from_slice(b"0 0\n"),
                    _ => if runs.is_empty() { out.extend_from_slice(b"0 0\n") },
                }
                for (k, r) in runs.iter().enumerate() {
                    if !(k == 0 && head_joined) { out.extend_from_slice(format!("{} {}\n", r[0].0, r.len()).as_bytes()); }
                    for (_, off) in r { entry(&mut out, *off); }
                }
            }
            out.extend_from_slice(format!("trailer\n<</Size {} /Root {} 0 R{}>>\n", p.size, root, prev_txt).as_bytes());
        }
        Style::XStream | Style::ObjStm => {
            offsets.insert(p.xid, (1, xref_pos as u64, 0));
            let mut rows = Vec::new();
            let mut index = String::new();
            let w = resolve_widths(p.widths, &offsets);
            for (id, (t, a, b)) in &offsets { index.push_str(&format!("{} 1 ", id)); rows.extend(be(*t as u64, w[0])); rows.extend(be(*a, w[1])); rows.extend(be(*b, w[2])); }
            out.extend_from_slice(format!("{} 0 obj\n<</Type /XRef /Size {} /Root {} 0 R{} /W [{} {} {}] /Index [{}] /Length {}>>\nstream\n", p.xid, p.size, root, prev_txt, w[0], w[1], w[2], index.trim(), rows.len()).as_bytes());
            out.extend_from_slice(&rows);
            out.extend_from_slice(b"\nendstream\nendobj\n");
        }
    }
    (out, xref_pos)
}

/// append one revision to `file` (after the bytes that are there, followed by its own startxref / %%EOF); returns the new startxref
fn append_revision(file: &mut Vec<u8>, p: &Plan, root: u32, prev: usize) -> usize {
    if !file.ends_with(b"\n") { file.push(b'\n'); }
    let (block, xref_pos) = render_revision(file.len(), p, root, Some(prev), false);
    file.extend_from_slice(&block);
    file.extend_from_slice(format!("startxref\n{}\n%%EOF", xref_pos).as_bytes());
    xref_pos
}

/// give every stream of `objs` an integer object holding its length, placed right after it (numbers from `fresh`)
fn with_lengths(objs: Vec<(u32, Object)>, kind: Kind, mut fresh: impl FnMut() -> u32) -> (Vec<(u32, Object)>, BTreeMap<u32, u32>) {
    let mut out = vec![];
    let mut len_of = BTreeMap::new();
    for (id, o) in objs {
        let n = match &o { Object::Stream(st) if kind == Kind::StreamsIndirectLength => Some(st.content.len() as i64), _ => None };
        out.push((id, o));
        if let Some(n) = n { let l = fresh(); len_of.insert(id, l); out.push((l, Object::Integer(n))); }
    }
    (out, len_of)
}

/// what the reference writer writes for update set `up` as revision `rev` + 1 when the numbers in `used` are taken:
/// the objects (with the length objects of its streams in kind StreamsIndirectLength), and the numbers of its object
/// stream / cross-reference stream
fn plan_ref(up: &[Op], rev: usize, used: &BTreeSet<u32>, low_numbers: bool, style: Style, form: TableForm, kind: Kind, widths: Widths) -> Plan {
    let mut used = used.clone();
    let mut objs: Vec<(u32, Object)> = vec![];
    let mut hi = used.iter().max().copied().unwrap_or(0);
    for (k, op) in up.iter().enumerate() {
        match op {
            Op::Replace(id) | Op::At(id) => objs.push((*id, payload(*id, rev + 1, 1, kind))),
            Op::New => { hi += 1; used.insert(hi); objs.push((hi, payload_new(rev + 1, k, kind))); }
        }
    }
    used.extend(objs.iter().map(|(i, _)| *i));
    hi = used.iter().max().copied().unwrap_or(0);
    // numbers for the object stream and the cross-reference stream, then for the length objects
    let mut next_low = 1;
    let mut next_fresh = (50 + 2 * rev as u32).max(hi + 1);   // fresh, above every number used so far
    let mut take = |used: &mut BTreeSet<u32>| -> u32 {
        if low_numbers { while used.contains(&next_low) { next_low += 1; } used.insert(next_low); next_low }
        else { let b = next_fresh; next_fresh += 1; used.insert(b); b }
    };
    let book = [take(&mut used), take(&mut used)];
    let (objs, len_of) = with_lengths(objs, kind, || take(&mut used));
    let has_members = objs.iter().any(|(_, o)| !matches!(o, Object::Stream(_)));
    let (container, xid) = match style { Style::Table => (0, 0), Style::XStream => (0, book[0]), Style::ObjStm if !has_members => (0, book[0]), Style::ObjStm => (book[0], book[1]) };
    let top = objs.iter().map(|(i, _)| *i).max().unwrap_or(0);
    let size = hi.max(top).max(container).max(xid) + 1;
    Plan { objs, len_of, widths, container, xid, size, style, form }
}

fn base_doc(n: u32, kind: Kind) -> (Document, BTreeMap<u32, Object>) {
    let mut model = BTreeMap::new();
    let mut d = Document::with_version("1.5");
    for id in 1..=n {
        let o = payload(id, 0, 0, kind);
        d.objects.insert((id, 0), o.clone());
        model.insert(id, o);
    }
    d.max_id = n;
    d.trailer.set("Root", Object::Reference((1, 0)));
    (d, model)
}

pub const N_UPDATES: usize = 9;
fn updates() -> Vec<Vec<Op>> {
    use Op::*;
    vec![
        vec![Replace(2)], vec![Replace(3), Replace(2)], vec![At(40)], vec![Replace(2), At(41), At(42)], vec![Replace(1)], vec![Replace(3)],
        // additions whose number the producer allocates
        vec![New], vec![Replace(2), New, New],
        // the empty subset: a revision that changes no object and only appends a new cross-reference section and trailer
        vec![],
    ]
}
/// a stream object whose data names its origin; the length of the data depends on `salt` (so that a length taken
/// from another revision or another object cannot fit by accident)
fn stream_payload(label: Object, tag: String, salt: usize) -> Object {
    let data = format!("BT ({}) Tj\n{}ET", tag, "0 -12 Td (more) Tj\n".repeat(salt % 4));
    Object::Stream(lopdf::Stream::new(dict(vec![(b"Of", label), (b"Rev", Object::Name(tag.into_bytes()))]), data.into_bytes()))
}
/// what revision `rev` (0 = the base) writes as object `id`
fn payload(id: u32, rev: usize, tag: u8, kind: Kind) -> Object {
    if id == 1 { return Object::Dictionary(dict(vec![(b"Type", name(b"Catalog")), (b"V", Object::Integer(rev as i64))])); }
    let t = if rev == 0 { "rev0".to_string() } else { format!("rev{}t{}", rev, tag) };
    match kind {
        Kind::Values => Object::Array(vec![Object::Integer(id as i64), Object::Name(t.into_bytes())]),
        _ => stream_payload(Object::Integer(id as i64), t, id as usize + rev),
    }
}
/// content of the k-th edit of revision `rev` when it is an allocated addition (cannot mention its number: the producer picks it)
fn payload_new(rev: usize, k: usize, kind: Kind) -> Object {
    let t = format!("rev{}k{}", rev, k);
    match kind {
        Kind::Values => Object::Array(vec![name(b"added"), Object::Name(t.into_bytes())]),
        _ => stream_payload(name(b"added"), t, rev + 2 * k + 1),
    }
}

/// value equality as the property needs it: a stream is its dictionary (but for /Length, which only says where the data
/// ends and may be given directly or indirectly) and its data
fn same(want: &Object, got: &Object) -> bool {
    match (want, got) {
        (Object::Stream(a), Object::Stream(b)) => dict_eq(&a.dict, &b.dict, &[b"Length"]) && a.content == b.content,
        _ => obj_eq(want, got),
    }
}
fn show(o: &Object) -> String {
    match o { Object::Stream(s) => format!("stream {:?} with {} bytes of data {:?}", s.dict, s.content.len(), String::from_utf8_lossy(&s.content)), _ => format!("{:?}", o) }
}

fn check_model(file: &[u8], model: &BTreeMap<u32, Object>, what: &str) -> Result<Document, (String, String)> {
    let doc = match guarded(|| Document::load_mem(file)) { Ok(Ok(d)) => d, Ok(Err(e)) => return Err(("loads".into(), format!("{}: load failed: {}", what, e))), Err(p) => return Err(("loads".into(), format!("{}: load panicked: {}", what, p))) };
    for (id, want) in model {
        match doc.objects.get(&(*id, 0)) {
            None => { if std::env::var("C07_DUMP").is_ok() { let _ = std::fs::write("/tmp/c07_dump.pdf", file); } return Err(("latest-wins".into(), format!("{}: object {} is missing", what, id))) },
            Some(got) => if !same(want, got) { if std::env::var("C07_DUMP").is_ok() { let _ = std::fs::write("/tmp/c07_dump.pdf", file); } return Err(("latest-wins".into(), format!("{}: object {} should be {} (most recent revision), loaded {}", what, id, show(want), show(got)))); }
        }
    }
    Ok(doc)
}

/// One history: revision i applies update set `seq[i]` and is written by `producers[i]`.
/// `open_try_into`: lopdf revisions open the file with `TryInto<IncrementalDocument> for &[u8]` (the library's own
/// loader) instead of `IncrementalDocument::create_from(bytes, Document::load_mem(bytes))`.
/// `low_numbers`: the reference writer numbers its object-stream / cross-reference-stream objects with the lowest
/// unused numbers (so they are not the highest numbers of the file) instead of fresh numbers above everything.
/// `form`: how the reference table writer groups entries into subsections.
/// `layout`: None = the base is saved by lopdf and every revision is appended after the previous one. Some(perm) = the
/// base and the first perm.len()-1 revisions (all by the reference writer) are PLACED in the file in the physical order
/// `perm` (a permutation of 0..perm.len(), 0 = the base), each section chained by /Prev to its predecessor in revision
/// order wherever that one lies (so /Prev may point forward in the file, as in every linearized file), one startxref
/// at the end pointing to the section of the newest placed revision; the remaining revisions are appended as usual.
/// `kind`: what the objects hold (arrays | streams | streams whose reference-written /Length is indirect).
/// `widths`: the /W of the cross-reference streams the reference writers write.
pub fn check_history(base_stream: bool, base_n: u32, producers: &[Producer], seq: &[usize], open_try_into: bool, low_numbers: bool, form: TableForm, layout: Option<&[usize]>, kind: Kind, widths: Widths) -> Result<(), (String, String)> {
    let (mut d, mut model) = base_doc(base_n, kind);
    let how = |style: Style| -> String {
        let mut t = String::new();
        match kind { Kind::Values => {}, Kind::Streams => t.push_str(", objects are streams with direct /Length"), Kind::StreamsIndirectLength => t.push_str(&format!(", objects are streams with /Length n 0 R, n an integer object of the same revision stored {}", if style == Style::ObjStm { "in its object stream" } else { "plainly after the stream" })) }
        if style != Style::Table && widths != Widths::W142 { t.push_str(&format!(", cross-reference stream rows in /W {}", match widths { Widths::Minimal => "as narrow as the section allows (e.g. [0 2 0] / [1 2 1])", Widths::W182 => "[1 8 2]", Widths::W253 => "[2 5 3]", Widths::W142 => "[1 4 2]" })); }
        t
    };
    let ups = updates();
    let mut defined_in: BTreeMap<u32, usize> = model.keys().map(|k| (*k, 0usize)).collect(); // number -> revision that last defined it
    let mut file = vec![];
    let mut prev_doc;
    let mut placed = 0;   // update revisions that are part of the placed head
    match layout {
        None => {
            d.reference_table.cross_reference_type = if base_stream { lopdf::xref::XrefType::CrossReferenceStream } else { lopdf::xref::XrefType::CrossReferenceTable };
            d.save_to(&mut file).map_err(|e| ("base-save".to_string(), e.to_string()))?;
            prev_doc = check_model(&file, &model, "base")?;
        }
        Some(perm) => {
            let n = perm.len();
            let mut sorted = perm.to_vec(); sorted.sort();
            if n == 0 || n - 1 > seq.len() || sorted != (0..n).collect::<Vec<_>>() { return Err(("domain".into(), format!("layout {:?} is not a permutation of the base and the first revisions", perm))); }
            placed = n - 1;
            // the plans, in revision order
            let mut used: BTreeSet<u32> = model.keys().copied().collect();
            // the base: its objects, the length objects of its streams, then its cross-reference stream
            let mut next = base_n;
            let (bobjs, blen) = with_lengths(model.iter().map(|(k, v)| (*k, v.clone())).collect(), kind, || { next += 1; next });
            let bxid = if base_stream { next + 1 } else { 0 };
            for (id, o) in &bobjs { model.insert(*id, o.clone()); defined_in.insert(*id, 0); }
            used.extend(bobjs.iter().map(|(i, _)| *i));
            if base_stream { used.insert(bxid); }
            let mut plans = vec![Plan { objs: bobjs, len_of: blen, widths, container: 0, xid: bxid, size: next.max(bxid) + 1, style: if base_stream { Style::XStream } else { Style::Table }, form: TableForm::FreeHead }];
            for rev in 0..placed {
                let style = match producers.get(rev) { Some(Producer::Ref(s)) => *s, other => return Err(("domain".into(), format!("revision {} of the placed head must be written by the reference writer, not {:?}", rev + 1, other))) };
                let plan = plan_ref(&ups[seq[rev] % ups.len()], rev, &used, low_numbers, style, form, kind, widths);
                used.extend(plan.objs.iter().map(|(i, _)| *i));
                used.extend([plan.container, plan.xid].iter().filter(|x| **x != 0));
                for (id, o) in &plan.objs { model.insert(*id, o.clone()); defined_in.insert(*id, rev + 1); }
                plans.push(plan);
            }
            // the length of a block depends on its position only through the width of the narrowest offset field (offsets
            // in tables and /Prev have a fixed width): lay the blocks out in physical order until the positions are stable
            let header = b"%PDF-1.5\n".len();
            let mut at = vec![0usize; n];
            let mut lens: Vec<usize> = vec![0; n];
            for _round in 0..8 {
                lens = plans.iter().enumerate().map(|(i, p)| render_revision(at[i], p, 1, if i > 0 { Some(0) } else { None }, true).0.len()).collect();
                let mut pos = header;
                let mut next_at = vec![0usize; n];
                for &i in perm { next_at[i] = pos; pos += lens[i]; }
                if next_at == at { break; }
                at = next_at;
            }
            file.extend_from_slice(b"%PDF-1.5\n");
            let mut sections = vec![0usize; n];
            let mut blocks: Vec<Vec<u8>> = vec![];
            for i in 0..n {
                let (b, x) = render_revision(at[i], &plans[i], 1, if i > 0 { Some(sections[i - 1]) } else { None }, true);
                if b.len() != lens[i] { return Err(("domain".into(), "reference writer: block length depends on its position".into())); }
                sections[i] = x;
                blocks.push(b);
            }
            for &i in perm { file.extend_from_slice(&blocks[i]); }
            file.extend_from_slice(format!("startxref\n{}\n%%EOF", sections[n - 1]).as_bytes());
            let forward: Vec<String> = (1..n).filter(|i| sections[i - 1] > sections[*i]).map(|i| format!("revision {} at {} -> /Prev {}", i, sections[i], sections[i - 1])).collect();
            let what = format!("reference-written file holding the base and revisions 1..{} ({:?}) in the physical order {:?} (0 = base){}: cross-reference sections of revisions 0..{} at {:?}, startxref {}, /Prev pointing forward in the file: {}", placed, &producers[..placed], perm, how(if producers[..placed].contains(&Producer::Ref(Style::ObjStm)) { Style::ObjStm } else if base_stream { Style::XStream } else { Style::Table }), placed, sections, sections[n - 1], if forward.is_empty() { "none".to_string() } else { forward.join(", ") });
            prev_doc = check_model(&file, &model, &what)?;
        }
    }
    for (rev, u) in seq.iter().enumerate().skip(placed) {
        let up = &ups[*u % ups.len()];
        let producer = producers.get(rev).copied().unwrap_or(Producer::Lopdf);
        let what = format!("revision {} ({:?}{})", rev + 1, producer, match producer { Producer::Ref(style) => how(style), Producer::Lopdf => if kind == Kind::Values { String::new() } else { ", objects are streams".to_string() } });
        let mut objs: Vec<(u32, Object)> = vec![];
        match producer {
            Producer::Lopdf => {
                let before = file.clone();
                let mut inc = if open_try_into {
                    let r: Result<Result<IncrementalDocument, lopdf::Error>, String> = guarded(|| std::convert::TryInto::<IncrementalDocument>::try_into(file.as_slice()));
                    match r { Ok(Ok(i)) => i, other => return Err(("loads".into(), format!("{}: opening the file as IncrementalDocument failed: {:?}", what, other.map(|r| r.map(|_| ()).map_err(|e| e.to_string()))))) }
                } else {
                    IncrementalDocument::create_from(file.clone(), prev_doc.clone())
                };
                let prev_view = format!("{:?}", inc.get_prev_documents().objects);
                let opened_max_id = inc.new_document.max_id;   // quoted in the diagnosis only
                for (k, op) in up.iter().enumerate() {
                    match op {
                        Op::Replace(id) | Op::At(id) => {
                            let o = payload(*id, rev + 1, 1, kind);
                            inc.new_document.objects.insert((*id, 0), o.clone());
                            inc.new_document.max_id = inc.new_document.max_id.max(*id);
                            objs.push((*id, o));
                        }
                        Op::New => {
                            let o = payload_new(rev + 1, k, kind);
                            let got = match guarded(|| inc.new_document.add_object(o.clone())) { Ok(id) => id, Err(p) => return Err(("incremental-save".into(), format!("{}: new_document.add_object panicked: {}", what, p))) };
                            // an ADDED object must not take the number of an object that an earlier revision (or this one) defines:
                            // otherwise that untouched object no longer comes from its revision
                            if got.1 != 0 || model.contains_key(&got.0) || objs.iter().any(|(i, _)| *i == got.0) {
                                let owner = match defined_in.get(&got.0) { Some(r) if !objs.iter().any(|(i, _)| *i == got.0) => format!("revision {}{} defines as {:?}", r, if *r == 0 { " (the base)" } else { "" }, model.get(&got.0)), _ => "this revision already writes".to_string() };
                                return Err(("added-object-gets-unused-number".into(), format!("{}: new_document.add_object() allocated {:?} for an ADDED object, a number that {} (new_document.max_id was {} after opening the file; highest number defined in the file is {}); saving would replace that untouched object", what, got, owner, opened_max_id, numbers_defined(&file).iter().chain(model.keys()).max().copied().unwrap_or(0))));
                            }
                            objs.push((got.0, o));
                        }
                    }
                }
                for (id, o) in &objs { model.insert(*id, o.clone()); defined_in.insert(*id, rev + 1); }
                let mut out = vec![];
                match guarded(|| inc.save_to(&mut out)) { Ok(Ok(())) => {}, other => return Err(("incremental-save".into(), format!("{:?}", other.map(|r| r.map_err(|e| e.to_string()))))) }
                if !out.starts_with(&before) { return Err(("prefix-preserved".into(), format!("revision {}: the previously loaded bytes are not an unchanged prefix", rev + 1))); }
                if format!("{:?}", inc.get_prev_documents().objects) != prev_view { return Err(("previous-view-unmodified".into(), "saving changed the view of the previous revisions".into())); }
                // only new or replaced objects are appended
                let tail = &out[before.len()..];
                for (id, _) in model.iter() { if !objs.iter().any(|(u, _)| u == id) { let pat = format!("\n{} 0 obj", id); if tail.windows(pat.len()).any(|w| w == pat.as_bytes()) { return Err(("only-new-objects".into(), format!("untouched object {} was written again", id))); } } }
                file = out;
            }
            Producer::Ref(style) => {
                // every number in use so far: the model plus whatever bookkeeping objects earlier producers wrote (byte scan)
                let mut used = numbers_defined(&file);
                used.extend(model.keys().copied());
                let plan = plan_ref(up, rev, &used, low_numbers, style, form, kind, widths);
                for (id, o) in &plan.objs { model.insert(*id, o.clone()); defined_in.insert(*id, rev + 1); }
                let prev = prev_doc.xref_start;
                append_revision(&mut file, &plan, 1, prev);
            }
        }
        let shape = if up.is_empty() { ", no object changed" } else { "" };
        let table = if producer == Producer::Ref(Style::Table) { format!(", table subsections {:?}", form) } else { String::new() };
        prev_doc = check_model(&file, &model, &format!("after {}{}{}", what, shape, table))?;
    }
    Ok(())
}


// ----- family R: an object of the previous revisions is cloned into the update, edited there, and cloned again -----
/// what the object is edited into: values, and references whose target the update holds / only the previous revisions hold / nobody holds / itself
pub const N_EDITS: usize = 6;
fn edit_value(k: usize) -> Object {
    match k {
        0 => Object::Integer(7),
        1 => Object::Reference((3, 0)),      // target only in the previous revisions
        2 => Object::Reference((99, 0)),     // dangling
        3 => Object::Reference((2, 0)),      // itself
        4 => Object::Reference((40, 0)),     // target added to the update
        _ => Object::Array(vec![Object::Reference((3, 0)), Object::Null]),
    }
}
/// `calls` = how the second clone is asked for: 0 opt_clone_object_to_new_document, 1 get_or_create_resources (result ignored)
pub fn check_reclone(base_stream: bool, edit: usize, call: usize) -> Result<(), (String, String)> {
    let (mut d, _) = base_doc(3, Kind::Values);
    if base_stream { d.reference_table.cross_reference_type = lopdf::xref::XrefType::CrossReferenceStream; }
    let mut file = vec![];
    d.save_to(&mut file).map_err(|e| ("base-save".to_string(), e.to_string()))?;
    let prev = Document::load_mem(&file).map_err(|e| ("loads".to_string(), format!("base: {}", e)))?;
    let prev_objects = prev.objects.clone();
    let mut inc = lopdf::IncrementalDocument::create_from(file.clone(), prev);
    let a = (2u32, 0u16);
    let what = format!("[reclone edit {} call {}] ", edit, call);
    inc.opt_clone_object_to_new_document(a).map_err(|e| ("reclone-first-clone".to_string(), format!("{}first clone of {:?} failed: {}", what, a, e)))?;
    let edited = edit_value(edit);
    inc.new_document.objects.insert(a, edited.clone());
    if edit == 4 { inc.new_document.set_object((40, 0), Object::Integer(40)); }
    let r = guarded(|| match call { 0 => inc.opt_clone_object_to_new_document(a).map_err(|e| e.to_string()), _ => inc.get_or_create_resources(a).map(|_| ()).map_err(|e| e.to_string()) });
    if let Err(p) = &r { return Err(("reclone-no-panic".into(), format!("{}second clone panicked: {}", what, p))); }
    if call == 0 { if let Ok(Err(e)) = &r { return Err(("reclone-latest-wins".into(), format!("{}cloning an object the update already holds failed: {}", what, e))); } }
    match inc.new_document.objects.get(&a) {
        Some(o) if obj_eq(o, &edited) => {}
        other => return Err(("reclone-latest-wins".into(), format!("{}the update held {:?} = {:?}; after cloning {:?} again it holds {:?}: the older revision replaced the newer one", what, a, edited, a, other))),
    }
    if inc.get_prev_documents().objects.len() != prev_objects.len() || prev_objects.iter().any(|(k, v)| inc.get_prev_documents().objects.get(k).map(|o| !obj_eq(o, v)).unwrap_or(true)) {
        return Err(("reclone-history-preserved".into(), format!("{}the view of the previous revisions changed", what)));
    }
    let mut out = vec![];
    match guarded(|| inc.save_to(&mut out)) { Ok(Ok(())) => {}, other => return Err(("incremental-save".into(), format!("{}{:?}", what, other.map(|r| r.map_err(|e| e.to_string()))))) }
    if !out.starts_with(&file) { return Err(("reclone-history-preserved".into(), format!("{}the saved file does not start with the bytes loaded", what))); }
    let re = match guarded(|| Document::load_mem(&out)) { Ok(Ok(d)) => d, other => return Err(("loads".into(), format!("{}reload: {:?}", what, other.map(|r| r.map(|_| ()).map_err(|e| e.to_string())))))};
    match re.objects.get(&a) {
        Some(o) if obj_eq(o, &edited) => Ok(()),
        other => Err(("reclone-latest-wins".into(), format!("{}after save and reload {:?} is {:?}, the update had {:?}", what, a, other, edited))),
    }
}

fn producers_for(base_stream: bool) -> Vec<Producer> {
    // a table revision on top of an xref-stream file (or the reverse) would be a hybrid file: outside the domain
    if base_stream { vec![Producer::Ref(Style::XStream), Producer::Ref(Style::ObjStm), Producer::Lopdf] } else { vec![Producer::Ref(Style::Table), Producer::Lopdf] }
}
fn producer_name(p: &Producer) -> &'static str {
    match p { Producer::Ref(Style::Table) => "Table", Producer::Ref(Style::XStream) => "XStream", Producer::Ref(Style::ObjStm) => "ObjStm", Producer::Lopdf => "Lopdf" }
}
fn producer_from(s: &str) -> Producer {
    match s { "Table" => Producer::Ref(Style::Table), "XStream" => Producer::Ref(Style::XStream), "ObjStm" => Producer::Ref(Style::ObjStm), _ => Producer::Lopdf }
}

fn permutations(n: usize) -> Vec<Vec<usize>> {
    if n == 0 { return vec![vec![]]; }
    let mut out = vec![];
    for p in permutations(n - 1) { for k in 0..=p.len() { let mut q = p.clone(); q.insert(k, n - 1); out.push(q); } }
    out.sort();
    out
}

#[derive(Clone, Debug)]
struct Case { base_stream: bool, prods: Vec<Producer>, seq: Vec<usize>, open_try_into: bool, low_numbers: bool, form: TableForm, layout: Option<Vec<usize>>, kind: Kind, widths: Widths }
fn case_json(c: &Case) -> Value {
    let names: Vec<&str> = c.prods.iter().map(producer_name).collect();
    json!({"base_stream": c.base_stream, "producers": names, "seq": c.seq, "open_try_into": c.open_try_into, "low_numbers": c.low_numbers, "table_form": form_name(c.form), "layout": c.layout, "kind": kind_name(c.kind), "widths": widths_name(c.widths)})
}

pub fn run(thorough: bool) -> Report {
    let mut rep = Report::new("base documents of 3 objects (table / xref-stream) x histories of 1..2 (thorough: 3) revisions over 9 update sets (6 replacing / adding under caller-chosen numbers 40..42, 2 adding 1..2 objects whose number the PRODUCER allocates: lopdf by new_document.add_object(), the reference writer highest+1, 1 EMPTY: the revision changes no object and only appends a cross-reference section + trailer - reference table writer: `xref 0 0 trailer`, reference stream writers: an XRef stream listing only itself) x a producer PER REVISION (table base: reference table writer | lopdf IncrementalDocument; xref-stream base: reference xref-stream writer | reference object-stream writer | lopdf IncrementalDocument; all mixed sequences) x {lopdf revisions opened by create_from(bytes, load_mem(bytes)) | by TryInto<IncrementalDocument> for &[u8]} (when a lopdf revision occurs) x {reference ObjStm/XRef objects numbered above everything | with the lowest unused numbers, so the newest section need not hold the highest number} (thorough only, when a reference stream revision occurs) x subsection structure of the reference TABLE writer {one subsection per entry | one per maximal run of consecutive numbers | free head `0 1` + runs | zero-count head `0 0` + runs} (when a reference table revision occurs) x PLACEMENT of the revisions in the file {base saved by lopdf, every revision appended after the previous one | base (FreeHead table / XRef stream) and the maximal leading run of j reference-written revisions written by the reference writer in EVERY physical order (all (j+1)! permutations, identity included; /Prev always chains in revision order, so it points forward in the file whenever a revision lies before its predecessor - the layout of linearized files; fixed-width /Prev, positions iterated to a fixed point where the narrowest /W makes a block length depend on its position, one startxref at the end naming the newest placed section), remaining revisions appended by their producers} x WHAT THE OBJECTS HOLD {arrays | stream objects (dictionary + data of 15..74 bytes whose length differs between objects and revisions; base objects 2..3, every replaced and every added object; the catalog stays a dictionary), /Length direct | the same streams, every stream written by a REFERENCE writer (base included when placed) with `/Length n 0 R`, n an integer object added by the same revision: written plainly right after the stream (table / xref-stream writer) or kept in the revision's object stream with its other non-stream objects while the streams themselves are written plainly (object-stream writer); length objects are numbered like the ObjStm/XRef objects and are part of the expected document; lopdf revisions write streams as lopdf does; skipped when no reference writer takes part} x FIELD WIDTHS /W of every cross-reference stream the reference writers write (when there is one) {[1 4 2] as lopdf writes | the narrowest legal rows: offsets in as few bytes as the section's largest needs, type and third field of width 0 when all rows are type 1 / generation 0, i.e. [0 2 0] for the xref-stream writer, [1 2 1] with an object stream | [1 8 2] (64-bit offsets) | [2 5 3]}; these two dimensions in full product with all the others for histories of 1..2 revisions, for histories of 3 revisions (thorough) with placement = appended, create_from, fresh numbers, one subsection per entry; streams compare by dictionary without /Length and by data; /Size exact; reload after every appended revision and after the placed head; an allocated number must not be one an earlier revision defines; R: base (table / xref-stream) x object 2 cloned into the update by opt_clone_object_to_new_document, edited there into one of 6 values (integer, reference to an object only the previous revisions hold / to nothing / to itself / to an object added to the update, array) and asked for again by {opt_clone_object_to_new_document | get_or_create_resources}: the update keeps the edited value, the view of the previous revisions and the loaded bytes are unchanged, and the value survives save and reload", true);
    let maxlen = if thorough { 3 } else { 2 };
    let mut seqs: Vec<Vec<usize>> = vec![];
    for a in 0..N_UPDATES { seqs.push(vec![a]); for b in 0..N_UPDATES { seqs.push(vec![a, b]); if maxlen >= 3 { for c in 0..N_UPDATES { seqs.push(vec![a, b, c]); } } } }
    let perms: Vec<Vec<Vec<usize>>> = (0..=maxlen + 1).map(permutations).collect();
    let mut cases: Vec<Case> = vec![];
    for base_stream in [false, true] {
        let ps = producers_for(base_stream);
        for seq in &seqs {
            // every assignment of a producer to each revision
            let total = ps.len().pow(seq.len() as u32);
            for code in 0..total {
                let mut c = code;
                let prods: Vec<Producer> = (0..seq.len()).map(|_| { let p = ps[c % ps.len()]; c /= ps.len(); p }).collect();
                let has_lopdf = prods.iter().any(|p| *p == Producer::Lopdf);
                let has_ref_stream = prods.iter().any(|p| matches!(p, Producer::Ref(Style::XStream) | Producer::Ref(Style::ObjStm)));
                let has_ref_table = prods.iter().any(|p| *p == Producer::Ref(Style::Table));
                // the maximal leading run of reference-written revisions can be placed together with the base
                let lead = prods.iter().take_while(|p| matches!(p, Producer::Ref(_))).count();
                let mut layouts: Vec<Option<Vec<usize>>> = vec![None];
                layouts.extend(perms[lead + 1].iter().cloned().map(Some));
                for layout in &layouts {
                    for open_try_into in [false, true] {
                        if open_try_into && !has_lopdf { continue; }
                        for low_numbers in [false, true] {
                            // with a base of 3 contiguous numbers the lowest unused numbers ARE the highest until an earlier revision left a hole
                            // (At(40..42)) and a later one is written below it: needs 3 revisions to matter, so thorough only
                            if low_numbers && !(has_ref_stream && thorough) { continue; }
                            for form in FORMS {
                                if form != TableForm::Singletons && !has_ref_table { continue; }
                                // the two newest dimensions: in full for histories of 1..2 revisions; for 3 revisions with the other
                                // choices at their first value (appended, create_from, fresh numbers, one subsection per entry)
                                let full = seq.len() <= 2 || (layout.is_none() && !open_try_into && !low_numbers && form == TableForm::Singletons);
                                // a cross-reference stream by the reference writer: a revision of it, or the placed base
                                let ref_xstream = has_ref_stream || (base_stream && layout.is_some());
                                let any_ref = lead > 0 || prods.iter().any(|p| matches!(p, Producer::Ref(_))) || layout.is_some();
                                for kind in KINDS {
                                    if kind == Kind::StreamsIndirectLength && !any_ref { continue; }   // without a reference writer: same as Streams
                                    for widths in WIDTHS {
                                        let first = kind == Kind::Values && widths == Widths::W142;
                                        if !first && !full { continue; }
                                        if widths != Widths::W142 && !ref_xstream { continue; }
                                        cases.push(Case { base_stream, prods: prods.clone(), seq: seq.clone(), open_try_into, low_numbers, form, layout: layout.clone(), kind, widths });
                                    }
                                }
                            }
                        }
                    }
                }
            }
        }
    }
    let results: Vec<Option<(String, String)>> = quiet(|| cases.par_iter().map(|c| check_history(c.base_stream, 3, &c.prods, &c.seq, c.open_try_into, c.low_numbers, c.form, c.layout.as_deref(), c.kind, c.widths).err()).collect());
    for (c, r) in cases.iter().zip(results) {
        rep.case(true);
        if let Some((o, d)) = r { rep.fail(&o, d.clone(), case_json(c), d); }
    }
    for base_stream in [false, true] { for edit in 0..N_EDITS { for call in 0..2 {
        rep.case(true);
        if let Err((o, d)) = quiet(|| check_reclone(base_stream, edit, call)) { rep.fail(&o, d.clone(), json!({"family": "reclone", "base_stream": base_stream, "edit": edit, "call": call}), d); }
    } } }
    rep.sample("base(table,3 objects) ; rev1 replaces 2 ; rev2 replaces 3,2".into());
    rep.sample("base(xref stream,3 objects: catalog + 2 streams) ; rev1 by the reference object-stream writer replaces stream 2, written plainly with /Length 52 0 R, integer 52 inside ObjStm 50, XRef stream 51 with /W [1 2 1] ; rev2 by lopdf adds a stream through add_object()".into());
    rep.sample("base(xref stream,3 objects) ; rev1 by the reference object-stream writer adds object 40, ObjStm = 4, XRef = 5 ; rev2 by lopdf replaces 2 and adds two allocated objects".into());
    rep.sample("reference-written file in physical order [rev2, base, rev1] (startxref -> rev2 near the start -> /Prev forward to rev1 at the end -> /Prev back to the base) ; rev1 = table `0 0` + `2 1` replacing 2 ; rev2 changes no object (`xref 0 0 trailer`) ; rev3 appended by lopdf".into());
    rep
}

pub fn replay(v: &Value) -> Result<(), String> {
    if v["family"].as_str() == Some("reclone") {
        return quiet(|| check_reclone(v["base_stream"].as_bool().unwrap_or(false), v["edit"].as_u64().unwrap_or(0) as usize, v["call"].as_u64().unwrap_or(0) as usize)).map_err(|e| format!("{}: {}", e.0, e.1));
    }
    let seq: Vec<usize> = v["seq"].as_array().cloned().unwrap_or_default().iter().map(|x| x.as_u64().unwrap_or(0) as usize).collect();
    let prods: Vec<Producer> = match v["producers"].as_array() {
        Some(a) => a.iter().map(|x| producer_from(x.as_str().unwrap_or("Lopdf"))).collect(),
        None => {
            // records written before the per-revision producer existed: one style / via_lopdf for the whole history
            let p = if v["via_lopdf"].as_bool().unwrap_or(false) { Producer::Lopdf } else { producer_from(v["style"].as_str().unwrap_or("Table")) };
            vec![p; seq.len()]
        }
    };
    // records written before these dimensions existed: one subsection per entry, everything appended, arrays, /W [1 4 2]
    let form = form_from(v["table_form"].as_str().unwrap_or("Singletons"));
    let layout: Option<Vec<usize>> = v["layout"].as_array().map(|a| a.iter().map(|x| x.as_u64().unwrap_or(0) as usize).collect());
    quiet(|| check_history(v["base_stream"].as_bool().unwrap_or(false), 3, &prods, &seq, v["open_try_into"].as_bool().unwrap_or(false), v["low_numbers"].as_bool().unwrap_or(false), form, layout.as_deref(), kind_from(v["kind"].as_str().unwrap_or("Values")), widths_from(v["widths"].as_str().unwrap_or("W142")))).map_err(|e| format!("{}: {}", e.0, e.1))
}
