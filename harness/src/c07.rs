//! C07: incremental updates -- latest revision wins, history preserved (bounded histories through the real loader).
#![allow(dead_code)]
use crate::common::*;
use crate::gen::*;
use lopdf::{Document, IncrementalDocument, Object};
use serde_json::{json, Value};
use std::collections::BTreeMap;

/// minimal independent serializer for the value alphabet used here
fn ser(o: &Object, out: &mut Vec<u8>) {
    match o {
        Object::Null => out.extend_from_slice(b"null"),
        Object::Boolean(b) => out.extend_from_slice(if *b { b"true" } else { b"false" }),
        Object::Integer(i) => out.extend_from_slice(i.to_string().as_bytes()),
        Object::Name(n) => { out.push(b'/'); out.extend_from_slice(n); }
        Object::String(s, _) => { out.push(b'<'); for b in s { out.extend_from_slice(format!("{:02x}", b).as_bytes()); } out.push(b'>'); }
        Object::Array(a) => { out.push(b'['); for (i, x) in a.iter().enumerate() { if i > 0 { out.push(b' '); } ser(x, out); } out.push(b']'); }
        Object::Dictionary(d) => { out.extend_from_slice(b"<<"); for (k, v) in d.iter() { out.push(b'/'); out.extend_from_slice(k); out.push(b' '); ser(v, out); out.push(b' '); } out.extend_from_slice(b">>"); }
        Object::Reference(id) => out.extend_from_slice(format!("{} {} R", id.0, id.1).as_bytes()),
        Object::Stream(s) => { let mut d = s.dict.clone(); d.set("Length", s.content.len() as i64); ser(&Object::Dictionary(d), out); out.extend_from_slice(b"\nstream\n"); out.extend_from_slice(&s.content); out.extend_from_slice(b"\nendstream"); }
        Object::Real(r) => out.extend_from_slice(format!("{:.3}", r).as_bytes()),
    }
}

#[derive(Clone, Copy, Debug, PartialEq)]
pub enum Style { Table, XStream, ObjStm }

/// append one revision to `file`; `objs` = new or replaced objects; returns the new startxref
fn append_revision(file: &mut Vec<u8>, objs: &[(u32, Object)], size: u32, root: u32, prev: usize, style: Style) -> usize {
    if !file.ends_with(b"\n") { file.push(b'\n'); }
    let mut offsets: BTreeMap<u32, (u8, u64, u64)> = BTreeMap::new(); // id -> (type, f2, f3)
    match style {
        Style::Table | Style::XStream => {
            for (id, o) in objs {
                offsets.insert(*id, (1, file.len() as u64, 0));
                file.extend_from_slice(format!("{} 0 obj\n", id).as_bytes());
                ser(o, file);
                file.extend_from_slice(b"\nendobj\n");
            }
        }
        Style::ObjStm => {
            let container = size; // fresh id
            let mut index = Vec::new();
            let mut body = Vec::new();
            for (k, (id, o)) in objs.iter().enumerate() {
                index.extend_from_slice(format!("{} {} ", id, body.len()).as_bytes());
                ser(o, &mut body);
                body.push(b'\n');
                offsets.insert(*id, (2, container as u64, k as u64));
            }
            let mut content = index.clone();
            content.extend_from_slice(&body);
            offsets.insert(container, (1, file.len() as u64, 0));
            file.extend_from_slice(format!("{} 0 obj\n<</Type /ObjStm /N {} /First {} /Length {}>>\nstream\n", container, objs.len(), index.len(), content.len()).as_bytes());
            file.extend_from_slice(&content);
            file.extend_from_slice(b"\nendstream\nendobj\n");
        }
    }
    let xref_pos = file.len();
    match style {
        Style::Table => {
            file.extend_from_slice(b"xref\n");
            for (id, (_, off, _)) in &offsets { file.extend_from_slice(format!("{} 1\n{:010} {:05} n \n", id, off, 0).as_bytes()); }
            file.extend_from_slice(format!("trailer\n<</Size {} /Root {} 0 R /Prev {}>>\n", size + 1, root, prev).as_bytes());
        }
        Style::XStream | Style::ObjStm => {
            let xid = size + if style == Style::ObjStm { 1 } else { 0 };
            offsets.insert(xid, (1, xref_pos as u64, 0));
            let mut rows = Vec::new();
            let mut index = String::new();
            for (id, (t, a, b)) in &offsets { index.push_str(&format!("{} 1 ", id)); rows.push(*t); rows.extend_from_slice(&(*a as u32).to_be_bytes()); rows.extend_from_slice(&(*b as u16).to_be_bytes()); }
            file.extend_from_slice(format!("{} 0 obj\n<</Type /XRef /Size {} /Root {} 0 R /Prev {} /W [1 4 2] /Index [{}] /Length {}>>\nstream\n", xid, xid + 1, root, prev, index.trim(), rows.len()).as_bytes());
            file.extend_from_slice(&rows);
            file.extend_from_slice(b"\nendstream\nendobj\n");
        }
    }
    file.extend_from_slice(format!("startxref\n{}\n%%EOF", xref_pos).as_bytes());
    xref_pos
}

fn base_doc(n: u32) -> (Document, BTreeMap<u32, Object>) {
    let mut model = BTreeMap::new();
    let mut d = Document::with_version("1.5");
    for id in 1..=n {
        let o = if id == 1 { Object::Dictionary(dict(vec![(b"Type", name(b"Catalog")), (b"V", Object::Integer(0))])) } else { Object::Array(vec![Object::Integer(id as i64), name(b"rev0")]) };
        d.objects.insert((id, 0), o.clone());
        model.insert(id, o);
    }
    d.max_id = n;
    d.trailer.set("Root", Object::Reference((1, 0)));
    (d, model)
}

fn updates() -> Vec<Vec<(u32, u8)>> {
    // (object number, payload tag); numbers above the base are additions
    vec![vec![(2, 1)], vec![(3, 1), (2, 1)], vec![(40, 1)], vec![(2, 1), (41, 1), (42, 1)], vec![(1, 1)], vec![(3, 1)]]
}
fn payload(id: u32, rev: usize, tag: u8) -> Object {
    if id == 1 { Object::Dictionary(dict(vec![(b"Type", name(b"Catalog")), (b"V", Object::Integer(rev as i64))])) }
    else { Object::Array(vec![Object::Integer(id as i64), Object::Name(format!("rev{}t{}", rev, tag).into_bytes())]) }
}

fn check_model(file: &[u8], model: &BTreeMap<u32, Object>, what: &str) -> Result<Document, (String, String)> {
    let doc = match guarded(|| Document::load_mem(file)) { Ok(Ok(d)) => d, Ok(Err(e)) => return Err(("loads".into(), format!("{}: load failed: {}", what, e))), Err(p) => return Err(("loads".into(), format!("{}: load panicked: {}", what, p))) };
    for (id, want) in model {
        match doc.objects.get(&(*id, 0)) {
            None => { if std::env::var("C07_DUMP").is_ok() { let _ = std::fs::write("/tmp/c07_dump.pdf", file); } return Err(("latest-wins".into(), format!("{}: object {} is missing", what, id))) },
            Some(got) => if !obj_eq(want, got) { return Err(("latest-wins".into(), format!("{}: object {} should be {:?} (most recent revision), loaded {:?}", what, id, want, got))); }
        }
    }
    Ok(doc)
}

pub fn check_history(base_stream: bool, base_n: u32, style: Style, seq: &[usize], via_lopdf: bool) -> Result<(), (String, String)> {
    let (mut d, mut model) = base_doc(base_n);
    d.reference_table.cross_reference_type = if base_stream { lopdf::xref::XrefType::CrossReferenceStream } else { lopdf::xref::XrefType::CrossReferenceTable };
    let mut file = vec![];
    d.save_to(&mut file).map_err(|e| ("base-save".to_string(), e.to_string()))?;
    let ups = updates();
    let mut prev_doc = check_model(&file, &model, "base")?;
    for (rev, u) in seq.iter().enumerate() {
        let up = &ups[*u];
        let objs: Vec<(u32, Object)> = up.iter().map(|(id, t)| (*id, payload(*id, rev + 1, *t))).collect();
        for (id, o) in &objs { model.insert(*id, o.clone()); }
        if via_lopdf {
            let before = file.clone();
            let prev_view = format!("{:?}", prev_doc.objects);
            let mut inc = IncrementalDocument::create_from(file.clone(), prev_doc.clone());
            for (id, o) in &objs { inc.new_document.objects.insert((*id, 0), o.clone()); inc.new_document.max_id = inc.new_document.max_id.max(*id); }
            let mut out = vec![];
            match guarded(std::panic::AssertUnwindSafe(|| inc.save_to(&mut out))) { Ok(Ok(())) => {}, other => return Err(("incremental-save".into(), format!("{:?}", other.map(|r| r.map_err(|e| e.to_string()))))) }
            if !out.starts_with(&before) { return Err(("prefix-preserved".into(), format!("revision {}: the previously loaded bytes are not an unchanged prefix", rev + 1))); }
            if format!("{:?}", inc.get_prev_documents().objects) != prev_view { return Err(("previous-view-unmodified".into(), "saving changed the view of the previous revisions".into())); }
            // only new or replaced objects are appended
            let tail = &out[before.len()..];
            for (id, _) in model.iter() { if !up.iter().any(|(u, _)| u == id) { let pat = format!("\n{} 0 obj", id); if tail.windows(pat.len()).any(|w| w == pat.as_bytes()) { return Err(("only-new-objects".into(), format!("untouched object {} was written again", id))); } } }
            file = out;
        } else {
            // fresh numbers for the container / xref stream: above every number used so far (50 + 2 per revision)
            let size = 50 + 2 * rev as u32;
            let prev = prev_doc.xref_start;
            append_revision(&mut file, &objs, size, 1, prev, style);
        }
        prev_doc = check_model(&file, &model, &format!("after revision {}", rev + 1))?;
    }
    Ok(())
}

pub fn run(thorough: bool) -> Report {
    let mut rep = Report::new("base documents of 3 objects (table / xref-stream) x histories of 1..2 (thorough: 3) revisions over 6 update sets x {reference writer: table, xref stream, object stream; lopdf IncrementalDocument}; reload after every revision", true);
    let maxlen = if thorough { 3 } else { 2 };
    let mut seqs: Vec<Vec<usize>> = vec![];
    for a in 0..6 { seqs.push(vec![a]); for b in 0..6 { seqs.push(vec![a, b]); if maxlen >= 3 { for c in 0..6 { seqs.push(vec![a, b, c]); } } } }
    for base_stream in [false, true] {
        for seq in &seqs {
            for (style, via) in [(Style::Table, false), (Style::XStream, false), (Style::ObjStm, false), (Style::Table, true)] {
                if !via && style == Style::Table && base_stream { continue; }     // a table revision on top of an xref-stream file would be a hybrid file (outside the domain)
                if !via && style != Style::Table && !base_stream { continue; }
                rep.case(true);
                if let Err((o, d)) = check_history(base_stream, 3, style, seq, via) {
                    rep.fail(&o, d.clone(), json!({"base_stream": base_stream, "style": format!("{:?}", style), "seq": seq, "via_lopdf": via}), d);
                }
            }
        }
    }
    rep.sample("base(table,3 objects) ; rev1 replaces 2 ; rev2 replaces 3,2".into());
    rep
}

pub fn replay(v: &Value) -> Result<(), String> {
    let style = match v["style"].as_str() { Some("XStream") => Style::XStream, Some("ObjStm") => Style::ObjStm, _ => Style::Table };
    let seq: Vec<usize> = v["seq"].as_array().cloned().unwrap_or_default().iter().map(|x| x.as_u64().unwrap_or(0) as usize).collect();
    check_history(v["base_stream"].as_bool().unwrap_or(false), 3, style, &seq, v["via_lopdf"].as_bool().unwrap_or(false)).map_err(|e| format!("{}: {}", e.0, e.1))
}
