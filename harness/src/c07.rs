//! C07: incremental updates -- latest revision wins, history preserved (bounded histories through the real loader).
#![allow(dead_code)]
use crate::common::*;
use crate::gen::*;
use lopdf::{Document, IncrementalDocument, Object};
use serde_json::{json, Value};
use std::collections::BTreeMap;

/// minimal independent serializer for the value alphabet used here
fn ser(o: &Object, out: &mut Vec<u8>) {
    match o {
        Object::Null => out.extend_from_slice(b"null"),
        Object::Boolean(b) => out.extend_from_slice(if *b { b"true" } else { b"false" }),
        Object::Integer(i) => out.extend_from_slice(i.to_string().as_bytes()),
        Object::Name(n) => { out.push(b'/'); out.extend_from_slice(n); }
        Object::String(s, _) => { out.push(b'<'); for b in s { out.extend_from_slice(format!("{:02x}", b).as_bytes()); } out.push(b'>'); }
        Object::Array(a) => { out.push(b'['); for (i, x) in a.iter().enumerate() { if i > 0 { out.push(b' '); } ser(x, out); } out.push(b']'); }
        Object::Dictionary(d) => { out.extend_from_slice(b"<<"); for (k, v) in d.iter() { out.push(b'/'); out.extend_from_slice(k); out.push(b' '); ser(v, out); out.push(b' '); } out.extend_from_slice(b">>"); }
        Object::Reference(id) => out.extend_from_slice(format!("{} {} R", id.0, id.1).as_bytes()),
        Object::Stream(s) => { let mut d = s.dict.clone(); d.set("Length", s.content.len() as i64); ser(&Object::Dictionary(d), out); out.extend_from_slice(b"\nstream\n"); out.extend_from_slice(&s.content); out.extend_from_slice(b"\nendstream"); }
        Object::Real(r) => out.extend_from_slice(format!("{:.3}", r).as_bytes()),
    }
}

#[derive(Clone, Copy, Debug, PartialEq)]
pub enum Style { Table, XStream, ObjStm }

/// who writes one revision of a history: the reference writer (in one cross-reference style) or lopdf's IncrementalDocument
#[derive(Clone, Copy, Debug, PartialEq)]
pub enum Producer { Ref(Style), Lopdf }

/// one edit of an update revision
#[derive(Clone, Copy, Debug, PartialEq)]
pub enum Op {
    /// replace an object of the base document
    Replace(u32),
    /// add an object under a number the caller chose (leaves a hole below it)
    At(u32),
    /// add an object and let the PRODUCER choose the number: lopdf through `new_document.add_object()`, the reference
    /// writer takes the highest number defined so far plus one
    New,
}

/// the object numbers defined anywhere in the file as plain indirect objects (`N 0 obj` at the start of a token), found
/// by a byte scan that knows nothing about cross-reference sections
fn numbers_defined(file: &[u8]) -> std::collections::BTreeSet<u32> {
    let pat = b" 0 obj";
    let mut out = std::collections::BTreeSet::new();
    if file.len() < pat.len() { return out; }
    for i in 0..=file.len() - pat.len() {
        if &file[i..i + pat.len()] != pat { continue; }
        let mut j = i;
        while j > 0 && file[j - 1].is_ascii_digit() { j -= 1; }
        if j == i || i - j > 9 { continue; }
        if j > 0 && !matches!(file[j - 1], b'\n' | b'\r' | b' ') { continue; }
        if let Ok(n) = std::str::from_utf8(&file[j..i]).unwrap_or("").parse::<u32>() { out.insert(n); }
    }
    out
}

/// append one revision to `file`; `objs` = new or replaced objects; `container` / `xid` = the numbers of the object
/// stream and of the cross-reference stream (where the style has them); `size` = the /Size to announce (highest number
/// of the whole file + 1); returns the new startxref
fn append_revision(file: &mut Vec<u8>, objs: &[(u32, Object)], container: u32, xid: u32, size: u32, root: u32, prev: usize, style: Style) -> usize {
    if !file.ends_with(b"\n") { file.push(b'\n'); }
    let mut offsets: BTreeMap<u32, (u8, u64, u64)> = BTreeMap::new(); // id -> (type, f2, f3)
    match style {
        Style::Table | Style::XStream => {
            for (id, o) in objs {
                offsets.insert(*id, (1, file.len() as u64, 0));
                file.extend_from_slice(format!("{} 0 obj\n", id).as_bytes());
                ser(o, file);
                file.extend_from_slice(b"\nendobj\n");
            }
        }
        Style::ObjStm => {
            let mut index = Vec::new();
            let mut body = Vec::new();
            for (k, (id, o)) in objs.iter().enumerate() {
                index.extend_from_slice(format!("{} {} ", id, body.len()).as_bytes());
                ser(o, &mut body);
                body.push(b'\n');
                offsets.insert(*id, (2, container as u64, k as u64));
            }
            let mut content = index.clone();
            content.extend_from_slice(&body);
            offsets.insert(container, (1, file.len() as u64, 0));
            file.extend_from_slice(format!("{} 0 obj\n<</Type /ObjStm /N {} /First {} /Length {}>>\nstream\n", container, objs.len(), index.len(), content.len()).as_bytes());
            file.extend_from_slice(&content);
            file.extend_from_slice(b"\nendstream\nendobj\n");
        }
    }
    let xref_pos = file.len();
    match style {
        Style::Table => {
            file.extend_from_slice(b"xref\n");
            for (id, (_, off, _)) in &offsets { file.extend_from_slice(format!("{} 1\n{:010} {:05} n \n", id, off, 0).as_bytes()); }
            file.extend_from_slice(format!("trailer\n<</Size {} /Root {} 0 R /Prev {}>>\n", size, root, prev).as_bytes());
        }
        Style::XStream | Style::ObjStm => {
            offsets.insert(xid, (1, xref_pos as u64, 0));
            let mut rows = Vec::new();
            let mut index = String::new();
            for (id, (t, a, b)) in &offsets { index.push_str(&format!("{} 1 ", id)); rows.push(*t); rows.extend_from_slice(&(*a as u32).to_be_bytes()); rows.extend_from_slice(&(*b as u16).to_be_bytes()); }
            file.extend_from_slice(format!("{} 0 obj\n<</Type /XRef /Size {} /Root {} 0 R /Prev {} /W [1 4 2] /Index [{}] /Length {}>>\nstream\n", xid, size, root, prev, index.trim(), rows.len()).as_bytes());
            file.extend_from_slice(&rows);
            file.extend_from_slice(b"\nendstream\nendobj\n");
        }
    }
    file.extend_from_slice(format!("startxref\n{}\n%%EOF", xref_pos).as_bytes());
    xref_pos
}

fn base_doc(n: u32) -> (Document, BTreeMap<u32, Object>) {
    let mut model = BTreeMap::new();
    let mut d = Document::with_version("1.5");
    for id in 1..=n {
        let o = if id == 1 { Object::Dictionary(dict(vec![(b"Type", name(b"Catalog")), (b"V", Object::Integer(0))])) } else { Object::Array(vec![Object::Integer(id as i64), name(b"rev0")]) };
        d.objects.insert((id, 0), o.clone());
        model.insert(id, o);
    }
    d.max_id = n;
    d.trailer.set("Root", Object::Reference((1, 0)));
    (d, model)
}

pub const N_UPDATES: usize = 8;
fn updates() -> Vec<Vec<Op>> {
    use Op::*;
    vec![
        vec![Replace(2)], vec![Replace(3), Replace(2)], vec![At(40)], vec![Replace(2), At(41), At(42)], vec![Replace(1)], vec![Replace(3)],
        // additions whose number the producer allocates
        vec![New], vec![Replace(2), New, New],
    ]
}
fn payload(id: u32, rev: usize, tag: u8) -> Object {
    if id == 1 { Object::Dictionary(dict(vec![(b"Type", name(b"Catalog")), (b"V", Object::Integer(rev as i64))])) }
    else { Object::Array(vec![Object::Integer(id as i64), Object::Name(format!("rev{}t{}", rev, tag).into_bytes())]) }
}
/// content of the k-th edit of revision `rev` when it is an allocated addition (cannot mention its number: the producer picks it)
fn payload_new(rev: usize, k: usize) -> Object {
    Object::Array(vec![name(b"added"), Object::Name(format!("rev{}k{}", rev, k).into_bytes())])
}

fn check_model(file: &[u8], model: &BTreeMap<u32, Object>, what: &str) -> Result<Document, (String, String)> {
    let doc = match guarded(|| Document::load_mem(file)) { Ok(Ok(d)) => d, Ok(Err(e)) => return Err(("loads".into(), format!("{}: load failed: {}", what, e))), Err(p) => return Err(("loads".into(), format!("{}: load panicked: {}", what, p))) };
    for (id, want) in model {
        match doc.objects.get(&(*id, 0)) {
            None => { if std::env::var("C07_DUMP").is_ok() { let _ = std::fs::write("/tmp/c07_dump.pdf", file); } return Err(("latest-wins".into(), format!("{}: object {} is missing", what, id))) },
            Some(got) => if !obj_eq(want, got) { return Err(("latest-wins".into(), format!("{}: object {} should be {:?} (most recent revision), loaded {:?}", what, id, want, got))); }
        }
    }
    Ok(doc)
}

/// One history: revision i applies update set `seq[i]` and is written by `producers[i]`.
/// `open_try_into`: lopdf revisions open the file with `TryInto<IncrementalDocument> for &[u8]` (the library's own
/// loader) instead of `IncrementalDocument::create_from(bytes, Document::load_mem(bytes))`.
/// `low_numbers`: the reference writer numbers its object-stream / cross-reference-stream objects with the lowest
/// unused numbers (so they are not the highest numbers of the file) instead of fresh numbers above everything.
pub fn check_history(base_stream: bool, base_n: u32, producers: &[Producer], seq: &[usize], open_try_into: bool, low_numbers: bool) -> Result<(), (String, String)> {
    let (mut d, mut model) = base_doc(base_n);
    d.reference_table.cross_reference_type = if base_stream { lopdf::xref::XrefType::CrossReferenceStream } else { lopdf::xref::XrefType::CrossReferenceTable };
    let mut file = vec![];
    d.save_to(&mut file).map_err(|e| ("base-save".to_string(), e.to_string()))?;
    let ups = updates();
    let mut prev_doc = check_model(&file, &model, "base")?;
    let mut defined_in: BTreeMap<u32, usize> = model.keys().map(|k| (*k, 0usize)).collect(); // number -> revision that last defined it
    for (rev, u) in seq.iter().enumerate() {
        let up = &ups[*u % ups.len()];
        let producer = producers.get(rev).copied().unwrap_or(Producer::Lopdf);
        let what = format!("revision {} ({:?})", rev + 1, producer);
        let mut objs: Vec<(u32, Object)> = vec![];
        match producer {
            Producer::Lopdf => {
                let before = file.clone();
                let mut inc = if open_try_into {
                    let r: Result<Result<IncrementalDocument, lopdf::Error>, String> = guarded(|| std::convert::TryInto::<IncrementalDocument>::try_into(file.as_slice()));
                    match r { Ok(Ok(i)) => i, other => return Err(("loads".into(), format!("{}: opening the file as IncrementalDocument failed: {:?}", what, other.map(|r| r.map(|_| ()).map_err(|e| e.to_string()))))) }
                } else {
                    IncrementalDocument::create_from(file.clone(), prev_doc.clone())
                };
                let prev_view = format!("{:?}", inc.get_prev_documents().objects);
                let opened_max_id = inc.new_document.max_id;   // quoted in the diagnosis only
                for (k, op) in up.iter().enumerate() {
                    match op {
                        Op::Replace(id) | Op::At(id) => {
                            let o = payload(*id, rev + 1, 1);
                            inc.new_document.objects.insert((*id, 0), o.clone());
                            inc.new_document.max_id = inc.new_document.max_id.max(*id);
                            objs.push((*id, o));
                        }
                        Op::New => {
                            let o = payload_new(rev + 1, k);
                            let got = match guarded(std::panic::AssertUnwindSafe(|| inc.new_document.add_object(o.clone()))) { Ok(id) => id, Err(p) => return Err(("incremental-save".into(), format!("{}: new_document.add_object panicked: {}", what, p))) };
                            // an ADDED object must not take the number of an object that an earlier revision (or this one) defines:
                            // otherwise that untouched object no longer comes from its revision
                            if got.1 != 0 || model.contains_key(&got.0) || objs.iter().any(|(i, _)| *i == got.0) {
                                let owner = match defined_in.get(&got.0) { Some(r) if !objs.iter().any(|(i, _)| *i == got.0) => format!("revision {}{} defines as {:?}", r, if *r == 0 { " (the base)" } else { "" }, model.get(&got.0)), _ => "this revision already writes".to_string() };
                                return Err(("added-object-gets-unused-number".into(), format!("{}: new_document.add_object() allocated {:?} for an ADDED object, a number that {} (new_document.max_id was {} after opening the file; highest number defined in the file is {}); saving would replace that untouched object", what, got, owner, opened_max_id, numbers_defined(&file).iter().chain(model.keys()).max().copied().unwrap_or(0))));
                            }
                            objs.push((got.0, o));
                        }
                    }
                }
                for (id, o) in &objs { model.insert(*id, o.clone()); defined_in.insert(*id, rev + 1); }
                let mut out = vec![];
                match guarded(std::panic::AssertUnwindSafe(|| inc.save_to(&mut out))) { Ok(Ok(())) => {}, other => return Err(("incremental-save".into(), format!("{:?}", other.map(|r| r.map_err(|e| e.to_string()))))) }
                if !out.starts_with(&before) { return Err(("prefix-preserved".into(), format!("revision {}: the previously loaded bytes are not an unchanged prefix", rev + 1))); }
                if format!("{:?}", inc.get_prev_documents().objects) != prev_view { return Err(("previous-view-unmodified".into(), "saving changed the view of the previous revisions".into())); }
                // only new or replaced objects are appended
                let tail = &out[before.len()..];
                for (id, _) in model.iter() { if !objs.iter().any(|(u, _)| u == id) { let pat = format!("\n{} 0 obj", id); if tail.windows(pat.len()).any(|w| w == pat.as_bytes()) { return Err(("only-new-objects".into(), format!("untouched object {} was written again", id))); } } }
                file = out;
            }
            Producer::Ref(style) => {
                // every number in use so far: the model plus whatever bookkeeping objects earlier producers wrote (byte scan)
                let mut used = numbers_defined(&file);
                used.extend(model.keys().copied());
                let mut hi = used.iter().max().copied().unwrap_or(0);
                for (k, op) in up.iter().enumerate() {
                    match op {
                        Op::Replace(id) | Op::At(id) => objs.push((*id, payload(*id, rev + 1, 1))),
                        Op::New => { hi += 1; used.insert(hi); objs.push((hi, payload_new(rev + 1, k))); }
                    }
                }
                used.extend(objs.iter().map(|(i, _)| *i));
                hi = used.iter().max().copied().unwrap_or(0);
                // numbers for the object stream and the cross-reference stream
                let mut book = vec![];
                if low_numbers {
                    let mut n = 1;
                    while book.len() < 2 { if !used.contains(&n) { book.push(n); used.insert(n); } n += 1; }
                } else {
                    let b = (50 + 2 * rev as u32).max(hi + 1);   // fresh, above every number used so far
                    book = vec![b, b + 1];
                }
                let (container, xid) = match style { Style::Table => (0, 0), Style::XStream => (0, book[0]), Style::ObjStm => (book[0], book[1]) };
                let size = hi.max(container).max(xid) + 1;
                for (id, o) in &objs { model.insert(*id, o.clone()); defined_in.insert(*id, rev + 1); }
                let prev = prev_doc.xref_start;
                append_revision(&mut file, &objs, container, xid, size, 1, prev, style);
            }
        }
        prev_doc = check_model(&file, &model, &format!("after {}", what))?;
    }
    Ok(())
}

fn producers_for(base_stream: bool) -> Vec<Producer> {
    // a table revision on top of an xref-stream file (or the reverse) would be a hybrid file: outside the domain
    if base_stream { vec![Producer::Ref(Style::XStream), Producer::Ref(Style::ObjStm), Producer::Lopdf] } else { vec![Producer::Ref(Style::Table), Producer::Lopdf] }
}
fn producer_name(p: &Producer) -> &'static str {
    match p { Producer::Ref(Style::Table) => "Table", Producer::Ref(Style::XStream) => "XStream", Producer::Ref(Style::ObjStm) => "ObjStm", Producer::Lopdf => "Lopdf" }
}
fn producer_from(s: &str) -> Producer {
    match s { "Table" => Producer::Ref(Style::Table), "XStream" => Producer::Ref(Style::XStream), "ObjStm" => Producer::Ref(Style::ObjStm), _ => Producer::Lopdf }
}

pub fn run(thorough: bool) -> Report {
    let mut rep = Report::new("base documents of 3 objects (table / xref-stream) x histories of 1..2 (thorough: 3) revisions over 8 update sets (6 replacing / adding under caller-chosen numbers 40..42, 2 adding 1..2 objects whose number the PRODUCER allocates: lopdf by new_document.add_object(), the reference writer highest+1) x a producer PER REVISION (table base: reference table writer | lopdf IncrementalDocument; xref-stream base: reference xref-stream writer | reference object-stream writer | lopdf IncrementalDocument; all mixed sequences) x {lopdf revisions opened by create_from(bytes, load_mem(bytes)) | by TryInto<IncrementalDocument> for &[u8]} (when a lopdf revision occurs) x {reference ObjStm/XRef objects numbered above everything | with the lowest unused numbers, so the newest section need not hold the highest number} (thorough only, when a reference stream revision occurs); /Size exact; reload after every revision; an allocated number must not be one an earlier revision defines", true);
    let maxlen = if thorough { 3 } else { 2 };
    let mut seqs: Vec<Vec<usize>> = vec![];
    for a in 0..N_UPDATES { seqs.push(vec![a]); for b in 0..N_UPDATES { seqs.push(vec![a, b]); if maxlen >= 3 { for c in 0..N_UPDATES { seqs.push(vec![a, b, c]); } } } }
    for base_stream in [false, true] {
        let ps = producers_for(base_stream);
        for seq in &seqs {
            // every assignment of a producer to each revision
            let total = ps.len().pow(seq.len() as u32);
            for code in 0..total {
                let mut c = code;
                let prods: Vec<Producer> = (0..seq.len()).map(|_| { let p = ps[c % ps.len()]; c /= ps.len(); p }).collect();
                let has_lopdf = prods.iter().any(|p| *p == Producer::Lopdf);
                let has_ref_stream = prods.iter().any(|p| matches!(p, Producer::Ref(Style::XStream) | Producer::Ref(Style::ObjStm)));
                for open_try_into in [false, true] {
                    if open_try_into && !has_lopdf { continue; }
                    for low_numbers in [false, true] {
                        // with a base of 3 contiguous numbers the lowest unused numbers ARE the highest until an earlier revision left a hole
                        // (At(40..42)) and a later one is written below it: needs 3 revisions to matter, so thorough only
                        if low_numbers && !(has_ref_stream && thorough) { continue; }
                        rep.case(true);
                        if let Err((o, d)) = check_history(base_stream, 3, &prods, seq, open_try_into, low_numbers) {
                            let names: Vec<&str> = prods.iter().map(producer_name).collect();
                            rep.fail(&o, d.clone(), json!({"base_stream": base_stream, "producers": names, "seq": seq, "open_try_into": open_try_into, "low_numbers": low_numbers}), d);
                        }
                    }
                }
            }
        }
    }
    rep.sample("base(table,3 objects) ; rev1 replaces 2 ; rev2 replaces 3,2".into());
    rep.sample("base(table,3 objects) ; rev1 by lopdf replaces 2 ; rev2 by lopdf (opened with TryInto) adds one object through add_object()".into());
    rep.sample("base(xref stream,3 objects) ; rev1 by the reference object-stream writer adds object 40, ObjStm = 4, XRef = 5 ; rev2 by lopdf replaces 2 and adds two allocated objects".into());
    rep
}

pub fn replay(v: &Value) -> Result<(), String> {
    let seq: Vec<usize> = v["seq"].as_array().cloned().unwrap_or_default().iter().map(|x| x.as_u64().unwrap_or(0) as usize).collect();
    let prods: Vec<Producer> = match v["producers"].as_array() {
        Some(a) => a.iter().map(|x| producer_from(x.as_str().unwrap_or("Lopdf"))).collect(),
        None => {
            // records written before the per-revision producer existed: one style / via_lopdf for the whole history
            let p = if v["via_lopdf"].as_bool().unwrap_or(false) { Producer::Lopdf } else { producer_from(v["style"].as_str().unwrap_or("Table")) };
            vec![p; seq.len()]
        }
    };
    check_history(v["base_stream"].as_bool().unwrap_or(false), 3, &prods, &seq, v["open_try_into"].as_bool().unwrap_or(false), v["low_numbers"].as_bool().unwrap_or(false)).map_err(|e| format!("{}: {}", e.0, e.1))
}
