//! C17: bookmarks become a well-formed outline that reads back (E3, bounded-exhaustive).
//!
//! A case is: a base document (layout, page count), a sequence of `add_bookmark` calls (parent handle, title,
//! target page) and then `adjust_zero_pages`, `build_outline`, "install /Outlines in the catalog", `get_toc`,
//! `save_to`, `load_mem`, `get_toc`.
//! The oracle is an abstract forest (children lists in insertion order) written from the property statement:
//!   * the expected object graph is checked by a walk that is driven by the model (never by the library's walkers);
//!   * /Title is decoded by a PDF text-string decoder written here (UTF-16BE with BOM / UTF-8 with BOM / PDFDocEncoding);
//!   * the expected table of contents is the pre-order of the forest with level = depth + 1 and page = page number.
//! Families: A all small call sequences, B titles, C Unicode sweep, D 250-bookmark extremes, E non-existent parent handles,
//! F large level-regular forests (hundreds to thousands of bookmarks, of parents, of siblings; four call orders), G spines up to
//! the deepest nesting the reader accepts. Parent handles are 32 bits wide, so a case is not limited to 255 calls.
#![allow(dead_code)]
use crate::common::*;
use crate::gen::{dict, name, obj_eq};
use lopdf::xref::XrefType;
use lopdf::{Bookmark, Dictionary, Document, Object, ObjectId};
use rayon::prelude::*;
use serde_json::{json, Value};
use std::cell::Cell;
use std::collections::{BTreeMap, HashSet};
use std::sync::OnceLock;

/// parent handle that no `add_bookmark` call ever returned
const ORPHAN: u32 = u32::MAX;
/// how ORPHAN was written in failing inputs recorded while handles were 8 bits wide (see `case_from_json`)
const ORPHAN_LEGACY: u32 = 255;
const ORPHAN_HANDLE: u32 = 1_000_000_000;
const N_LAYOUTS: u8 = 4;

#[derive(Clone, Debug)]
pub struct Case {
    /// 0 dense ids + xref stream; 1 sparse ids, page ids descending, max_id slack, xref table;
    /// 2 nested page tree, non-zero generations, xref table; 3 = layout 0 saved and loaded before the bookmarks are added
    layout: u8,
    /// 1..=3 pages
    pages: u8,
    /// parents[k]: 0 = top level, j (1..=k) = the handle returned by the j-th add_bookmark call, ORPHAN = a handle that does not exist
    parents: Vec<u32>,
    /// targets[k]: 0 = zero page (0,g), t = page number t
    targets: Vec<u8>,
    titles: Vec<String>,
    /// family F/G: the generator parameters this case was expanded from (what a failure records instead of the expansion)
    origin: Option<Big>,
}

type Fail = (String, String);
fn fail<T>(ob: &str, d: String) -> Result<T, Fail> { Err((ob.to_string(), d)) }

// ---------------------------------------------------------------------------------------------------------------
// base documents
// ---------------------------------------------------------------------------------------------------------------

fn page_dict(parent: ObjectId) -> Object {
    Object::Dictionary(dict(vec![
        (b"Type", name(b"Page")),
        (b"Parent", Object::Reference(parent)),
        (b"MediaBox", Object::Array(vec![Object::Integer(0), Object::Integer(0), Object::Integer(10), Object::Integer(10)])),
    ]))
}

fn pages_dict(parent: Option<ObjectId>, kids: &[ObjectId], count: i64) -> Object {
    let mut d = dict(vec![
        (b"Type", name(b"Pages")),
        (b"Kids", Object::Array(kids.iter().map(|k| Object::Reference(*k)).collect())),
        (b"Count", Object::Integer(count)),
    ]);
    if let Some(p) = parent { d.set("Parent", Object::Reference(p)); }
    Object::Dictionary(d)
}

fn make_base(layout: u8, pages: u8) -> (Document, Vec<ObjectId>, ObjectId) {
    let p = pages as usize;
    let mut d = Document::with_version("1.5");
    let (cat, page_ids): (ObjectId, Vec<ObjectId>) = match layout {
        1 => {
            // sparse, page ids in the opposite order of the page numbers, an unrelated object above them, slack in max_id
            d.reference_table.cross_reference_type = XrefType::CrossReferenceTable;
            let cat = (5, 0);
            let root = (9, 0);
            let ids: Vec<ObjectId> = (1..=p).map(|k| (40 - 10 * k as u32, 0)).collect();
            d.objects.insert(cat, Object::Dictionary(dict(vec![(b"Type", name(b"Catalog")), (b"Pages", Object::Reference(root))])));
            d.objects.insert(root, pages_dict(None, &ids, p as i64));
            for id in &ids { d.objects.insert(*id, page_dict(root)); }
            d.objects.insert((33, 0), Object::Integer(7));
            d.max_id = 40;
            (cat, ids)
        }
        2 => {
            // nested page tree, generations != 0
            d.reference_table.cross_reference_type = XrefType::CrossReferenceTable;
            let cat = (1, 0);
            let root = (2, 0);
            let mid = (3, 0);
            let all = [(4u32, 2u16), (6, 1), (8, 0)];
            let ids: Vec<ObjectId> = all[..p].to_vec();
            d.objects.insert(cat, Object::Dictionary(dict(vec![(b"Type", name(b"Catalog")), (b"Pages", Object::Reference(root))])));
            let mut kids = vec![mid];
            kids.extend(ids.iter().skip(1).cloned());
            d.objects.insert(root, pages_dict(None, &kids, p as i64));
            d.objects.insert(mid, pages_dict(Some(root), &ids[..1], 1));
            d.objects.insert(ids[0], page_dict(mid));
            for id in ids.iter().skip(1) { d.objects.insert(*id, page_dict(root)); }
            d.max_id = 8;
            (cat, ids)
        }
        _ => {
            let cat = (1, 0);
            let root = (2, 0);
            let ids: Vec<ObjectId> = (1..=p).map(|k| (2 + k as u32, 0)).collect();
            d.objects.insert(cat, Object::Dictionary(dict(vec![(b"Type", name(b"Catalog")), (b"Pages", Object::Reference(root))])));
            d.objects.insert(root, pages_dict(None, &ids, p as i64));
            for id in &ids { d.objects.insert(*id, page_dict(root)); }
            d.max_id = 2 + p as u32;
            (cat, ids)
        }
    };
    d.trailer.set("Root", Object::Reference(cat));
    if layout == 3 {
        let mut out = vec![];
        d.save_to(&mut out).expect("base save");
        d = Document::load_mem(&out).expect("base load");
    }
    (d, page_ids, cat)
}

static BASES: OnceLock<Vec<(Document, Vec<ObjectId>, ObjectId)>> = OnceLock::new();

fn base(layout: u8, pages: u8) -> (Document, Vec<ObjectId>, ObjectId) {
    let l = layout.min(N_LAYOUTS - 1);
    let p = pages.clamp(1, 3);
    let t = BASES.get_or_init(|| {
        let mut v = vec![];
        for l in 0..N_LAYOUTS { for p in 1..=3u8 { v.push(make_base(l, p)); } }
        v
    });
    t[(l as usize) * 3 + (p as usize - 1)].clone()
}

// ---------------------------------------------------------------------------------------------------------------
// abstract model
// ---------------------------------------------------------------------------------------------------------------

struct Model {
    n: usize,
    roots: Vec<usize>,
    children: Vec<Vec<usize>>,
    reachable: Vec<bool>,
    /// expected destination page after the zero-page fix-up; None: a zero page that nothing in the statement resolves
    page: Vec<Option<usize>>,
    /// (level, bookmark index, page number) in pre-order
    toc: Vec<(usize, usize, usize)>,
    in_family: bool,
}

fn model(c: &Case) -> Result<Model, String> {
    let n = c.parents.len();
    if c.targets.len() != n || c.titles.len() != n { return Err("malformed case".into()); }
    let mut roots = vec![];
    let mut children = vec![vec![]; n];
    for k in 0..n {
        let p = c.parents[k];
        if p == 0 { roots.push(k); }
        else if p == ORPHAN { }
        else if (p as usize) <= k { children[p as usize - 1].push(k); }
        else { return Err("parent handle does not exist yet".into()); }
        if c.targets[k] > c.pages { return Err("target page out of range".into()); }
    }
    let mut reachable = vec![false; n];
    let mut page: Vec<Option<usize>> = vec![None; n];
    // a zero page is that of the first child (children have larger indices, so resolve from the back)
    for k in (0..n).rev() {
        page[k] = if c.targets[k] != 0 { Some(c.targets[k] as usize) } else { children[k].first().and_then(|&f| page[f]) };
    }
    let mut toc = vec![];
    let mut in_family = true;
    fn pre(k: usize, level: usize, ch: &Vec<Vec<usize>>, page: &Vec<Option<usize>>, reach: &mut Vec<bool>, toc: &mut Vec<(usize, usize, usize)>, ok: &mut bool) {
        reach[k] = true;
        match page[k] { Some(p) => toc.push((level, k, p)), None => *ok = false }
        for &c in &ch[k] { pre(c, level + 1, ch, page, reach, toc, ok); }
    }
    for &r in &roots { pre(r, 1, &children, &page, &mut reachable, &mut toc, &mut in_family); }
    // distinct titles among the reachable bookmarks
    let mut seen = HashSet::new();
    for k in 0..n { if reachable[k] && !seen.insert(c.titles[k].as_str()) { in_family = false; } }
    Ok(Model { n, roots, children, reachable, page, toc, in_family })
}

// ---------------------------------------------------------------------------------------------------------------
// independent text-string decoder (ISO 32000-1 7.9.2.2 and Annex D.2)
// ---------------------------------------------------------------------------------------------------------------

fn pdfdoc_char(b: u8) -> Option<char> {
    const LOW: [u32; 8] = [0x02D8, 0x02C7, 0x02C6, 0x02D9, 0x02DD, 0x02DB, 0x02DA, 0x02DC];
    const HIGH: [u32; 33] = [
        0x2022, 0x2020, 0x2021, 0x2026, 0x2014, 0x2013, 0x0192, 0x2044, 0x2039, 0x203A, 0x2212, 0x2030, 0x201E, 0x201C, 0x201D, 0x2018,
        0x2019, 0x201A, 0x2122, 0xFB01, 0xFB02, 0x0141, 0x0152, 0x0160, 0x0178, 0x017D, 0x0131, 0x0142, 0x0153, 0x0161, 0x017E, 0, 0x20AC,
    ];
    match b {
        0x18..=0x1F => char::from_u32(LOW[(b - 0x18) as usize]),
        // 0x00-0x17 and 0x7F are "undefined" in the table; read leniently as the control character of the same code
        0x00..=0x7F => Some(b as char),
        0x80..=0xA0 => { let u = HIGH[(b - 0x80) as usize]; if u == 0 { None } else { char::from_u32(u) } }
        0xAD => None,
        _ => Some(b as char),
    }
}

fn decode_text(b: &[u8]) -> Result<String, String> {
    if b.len() >= 2 && b[0] == 0xFE && b[1] == 0xFF {
        let body = &b[2..];
        if body.len() % 2 != 0 { return Err("odd number of bytes after the UTF-16BE byte order mark".into()); }
        let units: Vec<u16> = body.chunks(2).map(|c| ((c[0] as u16) << 8) | c[1] as u16).collect();
        String::from_utf16(&units).map_err(|_| "unpaired surrogate in UTF-16BE text string".to_string())
    } else if b.len() >= 3 && b[0] == 0xEF && b[1] == 0xBB && b[2] == 0xBF {
        String::from_utf8(b[3..].to_vec()).map_err(|_| "invalid UTF-8 text string".to_string())
    } else {
        let mut s = String::new();
        for &x in b { match pdfdoc_char(x) { Some(c) => s.push(c), None => return Err(format!("byte {:#04x} is undefined in PDFDocEncoding", x)) } }
        Ok(s)
    }
}

// ---------------------------------------------------------------------------------------------------------------
// the structural contract
// ---------------------------------------------------------------------------------------------------------------

fn dict_at<'a>(doc: &'a Document, id: ObjectId, what: &str) -> Result<&'a Dictionary, Fail> {
    match doc.objects.get(&id) {
        Some(Object::Dictionary(d)) => Ok(d),
        Some(o) => fail("object-kind", format!("{} {:?} is not a dictionary: {:?}", what, id, o)),
        None => fail("dangling-link", format!("{} {:?} does not exist", what, id)),
    }
}

fn opt_ref(d: &Dictionary, key: &[u8]) -> Result<Option<ObjectId>, String> {
    match d.get(key) {
        Err(_) => Ok(None),
        Ok(Object::Reference(id)) => Ok(Some(*id)),
        Ok(o) => Err(format!("/{} is not a reference: {:?}", String::from_utf8_lossy(key), o)),
    }
}

struct Walk<'a> {
    doc: &'a Document,
    case: &'a Case,
    m: &'a Model,
    page_ids: &'a [ObjectId],
    seen: HashSet<ObjectId>,
    /// every object that belongs to the outline (root, items, action dictionaries)
    parts: HashSet<ObjectId>,
    /// failures that do not stop the walk (the title of one item does not influence the rest of the contract)
    soft: Vec<Fail>,
}

impl<'a> Walk<'a> {
    fn esc(&self, k: usize) -> String { self.case.titles[k].escape_debug().to_string() }

    fn level(&mut self, parent: ObjectId, kids: &[usize], is_root: bool) -> Result<(), Fail> {
        let pd = dict_at(self.doc, parent, "outline node")?;
        let first = opt_ref(pd, b"First").map_err(|e| ("first-last".to_string(), e))?;
        let last = opt_ref(pd, b"Last").map_err(|e| ("first-last".to_string(), e))?;
        if kids.is_empty() {
            if first.is_some() || last.is_some() { return fail("first-last", format!("node {:?} has no children but First={:?} Last={:?}", parent, first, last)); }
            return Ok(());
        }
        let (first, last) = match (first, last) {
            (Some(f), Some(l)) => (f, l),
            _ => return fail("first-last", format!("node {:?} has {} children but First={:?} Last={:?}", parent, kids.len(), first, last)),
        };
        let _ = is_root;
        let mut cur = first;
        let mut prev: Option<ObjectId> = None;
        for (i, &b) in kids.iter().enumerate() {
            if !self.seen.insert(cur) { return fail("no-shared-items", format!("item {:?} is reached twice", cur)); }
            self.parts.insert(cur);
            let d = dict_at(self.doc, cur, "outline item")?;
            // Parent
            match opt_ref(d, b"Parent") {
                Ok(Some(p)) if p == parent => {}
                other => return fail("parent-link", format!("item {:?} (child {} of {:?}, title {:?}): Parent is {:?}", cur, i, parent, self.esc(b), other)),
            }
            // Prev
            match opt_ref(d, b"Prev") {
                Ok(p) if p == prev => {}
                other => return fail("prev-link", format!("item {:?} (child {} of {:?}): Prev is {:?}, expected {:?}", cur, i, parent, other, prev)),
            }
            // Title
            let tb = match d.get(b"Title") { Ok(Object::String(s, _)) => s.clone(), other => return fail("item-title", format!("item {:?}: Title is {:?}", cur, other.ok())) };
            let want = &self.case.titles[b];
            match decode_text(&tb) {
                Ok(ref s) if s == want => {}
                got => {
                    // is it another bookmark's title? then the order / parent is wrong, not the encoding
                    let raw = String::from_utf8(tb.clone()).ok();
                    for reading in [got.as_ref().ok(), raw.as_ref()].into_iter().flatten() {
                        if reading == want { continue; }
                        if let Some(o) = (0..self.m.n).find(|&o| &self.case.titles[o] == reading) {
                            return fail("sibling-order", format!("child {} of {:?} should be bookmark #{} {:?} but is bookmark #{} {:?}", i, parent, b + 1, self.esc(b), o + 1, self.esc(o)));
                        }
                    }
                    let raw_ok = raw.as_ref() == Some(want);
                    let own = lopdf::decode_text_string(&Object::String(tb.clone(), lopdf::StringFormat::Literal)).map(|s| s.escape_debug().to_string()).map_err(|e| e.to_string());
                    let detail = format!("item {:?}: /Title bytes {} read as a PDF text string give {:?} (lopdf::decode_text_string: {:?}), the bookmark title is {:?}", cur, hex(&tb), got.map(|s| s.escape_debug().to_string()), own, self.esc(b));
                    if raw_ok { self.soft.push(("item-title-pdfdocencoding".to_string(), detail)); } else { return fail("item-title", detail); }
                }
            }
            // destination
            let want_page = match self.m.page[b] { Some(p) => self.page_ids[p - 1], None => (0, 0) };
            let dest: Object = if d.has(b"A") {
                let a = match d.get(b"A") {
                    Ok(Object::Reference(id)) => { self.parts.insert(*id); dict_at(self.doc, *id, "action")? }
                    Ok(Object::Dictionary(a)) => a,
                    other => return fail("dest-page", format!("item {:?}: A is {:?}", cur, other.ok())),
                };
                match a.get(b"S") { Ok(Object::Name(n)) if n == b"GoTo" => {}, other => return fail("dest-page", format!("item {:?}: action type {:?}", cur, other.ok())) }
                match a.get(b"D") { Ok(o) => o.clone(), Err(_) => return fail("dest-page", format!("item {:?}: action without D", cur)) }
            } else {
                match d.get(b"Dest") { Ok(o) => o.clone(), Err(_) => return fail("dest-page", format!("item {:?} has neither A nor Dest", cur)) }
            };
            let dest = match dest { Object::Reference(id) => self.doc.objects.get(&id).cloned().unwrap_or(Object::Null), o => o };
            match &dest {
                Object::Array(a) if !a.is_empty() && a[0] == Object::Reference(want_page) && self.doc.objects.contains_key(&want_page) => {}
                other => return fail("dest-page", format!("item {:?} (bookmark #{} {:?}): destination {:?}, expected page {:?}", cur, b + 1, self.esc(b), other, want_page)),
            }
            // children
            let sub = self.m.children[b].clone();
            self.level(cur, &sub, false)?;
            // Next
            let next = opt_ref(d, b"Next");
            if i + 1 < kids.len() {
                match next {
                    Ok(Some(nx)) => { prev = Some(cur); cur = nx; }
                    other => return fail("next-link", format!("item {:?} is child {} of {} but Next is {:?}", cur, i, kids.len(), other)),
                }
            } else {
                if !matches!(next, Ok(None)) { return fail("next-link", format!("last item {:?} of {:?} has Next {:?}", cur, parent, next)); }
                if cur != last { return fail("first-last", format!("Last of {:?} is {:?} but the chain from First ends at {:?}", parent, last, cur)); }
            }
        }
        Ok(())
    }
}

fn check_structure(doc: &Document, root: ObjectId, case: &Case, m: &Model, page_ids: &[ObjectId], soft: &mut Vec<Fail>) -> Result<HashSet<ObjectId>, Fail> {
    let mut w = Walk { doc, case, m, page_ids, seen: HashSet::new(), parts: HashSet::new(), soft: vec![] };
    w.parts.insert(root);
    let rd = dict_at(doc, root, "outline root")?;
    if rd.has(b"Parent") || rd.has(b"Prev") || rd.has(b"Next") { return fail("first-last", format!("outline root has sibling/parent links: {:?}", rd)); }
    let roots = m.roots.clone();
    let r = w.level(root, &roots, true);
    soft.append(&mut w.soft);
    r?;
    Ok(w.parts)
}

fn check_toc(doc: &Document, case: &Case, m: &Model, ob: &str) -> Result<(), Fail> {
    let toc = match doc.get_toc() {
        Ok(t) => t,
        Err(e) => return fail(ob, format!("get_toc failed: {} (the forest has {} bookmarks in {} levels, {} of them top-level, {} with children, at most {} under one parent)", e, m.toc.len(),
            m.toc.iter().map(|t| t.0).max().unwrap_or(0), m.roots.len(), (0..m.n).filter(|&k| m.reachable[k] && !m.children[k].is_empty()).count(), m.children.iter().map(|c| c.len()).max().unwrap_or(0))),
    };
    if !toc.errors.is_empty() { return fail(ob, format!("get_toc reported errors: {:?}", toc.errors)); }
    let got: Vec<(usize, String, usize)> = toc.toc.iter().map(|t| (t.level, t.title.clone(), t.page)).collect();
    let want: Vec<(usize, String, usize)> = m.toc.iter().map(|&(l, k, p)| (l, case.titles[k].clone(), p)).collect();
    if got != want {
        let pos = got.iter().zip(want.iter()).position(|(a, b)| a != b).unwrap_or(got.len().min(want.len()));
        let show = |v: &Vec<(usize, String, usize)>| v.get(pos).map(|(l, t, p)| format!("(level {}, title {:?}, page {})", l, t.escape_debug().to_string(), p)).unwrap_or_else(|| "nothing".into());
        return fail(ob, format!("{} entries, expected {}; first difference at entry {}: got {}, expected {}", got.len(), want.len(), pos, show(&got), show(&want)));
    }
    Ok(())
}

fn objects_same(before: &BTreeMap<ObjectId, Object>, after: &BTreeMap<ObjectId, Object>) -> Result<(), String> {
    for (id, o) in before {
        match after.get(id) {
            None => return Err(format!("object {:?} disappeared", id)),
            Some(a) => if !obj_eq(o, a) { return Err(format!("object {:?} changed from {:?} to {:?}", id, o, a)); }
        }
    }
    Ok(())
}

/// the whole contract for one case; Ok(nontrivial)
fn check_case(c: &Case, stage: &Cell<&'static str>, soft: &mut Vec<Fail>) -> Result<bool, Fail> {
    let m = match model(c) { Ok(m) => m, Err(e) => return fail("malformed-input", e) };
    if !m.in_family { return Ok(false); }
    let (mut doc, page_ids, cat) = base(c.layout, c.pages);
    // 1. add the bookmarks
    stage.set("add_bookmark");
    let mut handles: Vec<u32> = vec![];
    let mut handle_set: HashSet<u32> = HashSet::new();
    for k in 0..m.n {
        let page = if c.targets[k] == 0 { (0, if k % 2 == 0 { 0 } else { 7 }) } else { page_ids[c.targets[k] as usize - 1] };
        let color = if k % 2 == 0 { [0.0, 0.0, 0.0] } else { [1.0, 0.5, 0.25] };
        let parent = match c.parents[k] { 0 => None, ORPHAN => Some(ORPHAN_HANDLE), j => Some(handles[j as usize - 1]) };
        let h = doc.add_bookmark(Bookmark::new(c.titles[k].clone(), color, (k % 4) as u32, page), parent);
        if h == 0 || h == ORPHAN_HANDLE || !handle_set.insert(h) { return fail("bookmark-ids", format!("add_bookmark call {} returned handle {} (the {} earlier handles end with {:?})", k + 1, h, handles.len(), &handles[handles.len().saturating_sub(8)..])); }
        handles.push(h);
    }
    let before = doc.objects.clone();
    let max_before = doc.max_id;
    // 2. zero-page fix-up
    stage.set("adjust_zero_pages");
    doc.adjust_zero_pages();
    for k in 0..m.n {
        if !m.reachable[k] { continue; }
        let want = page_ids[m.page[k].unwrap() - 1];
        let got = doc.bookmark_table.get(&handles[k]).map(|b| b.page);
        if got != Some(want) { return fail("zero-page-fixup", format!("bookmark #{} {:?}: page after adjust_zero_pages is {:?}, expected {:?} (that of its first child)", k + 1, c.titles[k].escape_debug().to_string(), got, want)); }
    }
    if doc.objects != before { return fail("old-objects-untouched", "adjust_zero_pages changed the object table".into()); }
    // 3. build
    stage.set("build_outline");
    let root = doc.build_outline();
    if m.roots.is_empty() {
        if root.is_some() { return fail("outline-returned", format!("no top-level bookmark but build_outline returned {:?}", root)); }
        if doc.objects.len() != before.len() || objects_same(&before, &doc.objects).is_err() || doc.max_id != max_before { return fail("old-objects-untouched", "build_outline without bookmarks changed the document".into()); }
        return Ok(false);
    }
    let root = match root { Some(r) => r, None => return fail("outline-returned", format!("{} top-level bookmarks but build_outline returned None", m.roots.len())) };
    // 4. fresh identifiers
    if let Err(e) = objects_same(&before, &doc.objects) { return fail("old-objects-untouched", e); }
    let old_top = before.keys().map(|k| k.0).max().unwrap_or(0).max(max_before);
    let new_ids: Vec<ObjectId> = doc.objects.keys().filter(|k| !before.contains_key(k)).cloned().collect();
    for id in &new_ids {
        if id.0 <= old_top || before.keys().any(|k| k.0 == id.0) { return fail("fresh-id", format!("new object {:?} is not above the old identifiers (max_id was {})", id, max_before)); }
        if id.0 > doc.max_id { return fail("max-id-covers", format!("new object {:?} is above max_id {} after build_outline", id, doc.max_id)); }
    }
    if before.contains_key(&root) || !doc.objects.contains_key(&root) { return fail("fresh-id", format!("outline root {:?} is not a new object", root)); }
    // 5. structure
    stage.set("structure walk");
    let parts = check_structure(&doc, root, c, &m, &page_ids, soft)?;
    for p in &parts { if before.contains_key(p) { return fail("fresh-id", format!("outline part {:?} reuses an old identifier", p)); } }
    // 6. read back
    stage.set("get_toc");
    match doc.objects.get_mut(&cat) { Some(Object::Dictionary(d)) => d.set("Outlines", Object::Reference(root)), _ => return fail("malformed-input", "no catalog".into()) }
    check_toc(&doc, c, &m, "toc-memory")?;
    // 7. save, reload, read back
    stage.set("save_to");
    let mut out = vec![];
    if let Err(e) = doc.save_to(&mut out) { return fail("save-ok", e.to_string()); }
    stage.set("load_mem");
    let re = match Document::load_mem(&out) { Ok(d) => d, Err(e) => return fail("load-ok", e.to_string()) };
    stage.set("reloaded structure walk");
    let root2 = match re.objects.get(&cat) {
        Some(Object::Dictionary(d)) => match d.get(b"Outlines") { Ok(Object::Reference(r)) => *r, other => return fail("reloaded:outline-returned", format!("catalog Outlines after reload: {:?}", other.ok())) },
        _ => return fail("reloaded:outline-returned", "catalog missing after reload".into()),
    };
    if root2 != root { return fail("reloaded:outline-returned", format!("Outlines is {:?} after reload, was {:?}", root2, root)); }
    let mut again = vec![];
    check_structure(&re, root2, c, &m, &page_ids, &mut again).map_err(|(o, d)| (format!("reloaded:{}", o), d))?;
    if again.len() != soft.len() { return fail("reloaded:item-title", format!("{} titles differ from their PDF text-string reading after reload, {} before", again.len(), soft.len())); }
    stage.set("reloaded get_toc");
    check_toc(&re, c, &m, "toc-reloaded")?;
    Ok(true)
}

const OBLIGATIONS: &[&str] = &[
    "no-panic", "bookmark-ids", "zero-page-fixup", "outline-returned", "old-objects-untouched", "fresh-id", "max-id-covers", "first-last", "parent-link", "prev-link", "next-link",
    "no-shared-items", "dangling-link", "object-kind", "sibling-order", "item-title", "item-title-pdfdocencoding", "dest-page", "toc-memory", "save-ok", "load-ok", "reloaded:structure", "toc-reloaded",
];

/// (nontrivial, failures); at most one hard failure (it ends the case), any number of soft ones
fn run_case(c: &Case) -> (bool, Vec<Fail>) {
    let stage = Cell::new("model");
    let mut soft = vec![];
    let r = std::panic::catch_unwind(std::panic::AssertUnwindSafe(|| check_case(c, &stage, &mut soft)));
    let mut fails = soft;
    let nt = match r {
        Ok(Ok(nt)) => nt,
        Ok(Err(f)) => { fails.push(f); true }
        Err(e) => {
            let msg = if let Some(s) = e.downcast_ref::<String>() { s.clone() } else if let Some(s) = e.downcast_ref::<&str>() { s.to_string() } else { "panic".to_string() };
            fails.push(("no-panic".to_string(), format!("panic during {}: {}", stage.get(), msg)));
            true
        }
    };
    (nt, fails)
}

// ---------------------------------------------------------------------------------------------------------------
// the bounded family
// ---------------------------------------------------------------------------------------------------------------

/// 23 pairwise distinct titles: ASCII (also 0 and 1 character, delimiters, line ends, controls), Latin-1, BMP, astral,
/// and characters whose UTF-16BE bytes are the bytes that matter lexically inside a literal string
fn alphabet() -> Vec<String> {
    let v: Vec<String> = vec![
        "A".into(),
        "".into(),
        "Chapter 1".into(),
        "a(b\\c)d".into(),
        ")(".into(),
        "\u{18}\u{1f}".into(),                 // ASCII controls whose PDFDocEncoding meaning is a diacritic
        "line\r\nbreak\ttab\rcr\nlf".into(),
        "\\".into(),
        "\u{0}".into(),
        "~\u{7f}".into(),
        "\u{e9}".into(),                       // Latin-1
        "x\u{80}".into(),                      // first non-ASCII, mixed
        "\u{4e2d}\u{6587} title".into(),       // BMP
        "\u{1f600}".into(),                    // astral
        "\u{10ffff}\u{10000}".into(),          // last and first astral
        "\u{d7ff}\u{e000}".into(),             // around the surrogate block
        "\u{0d0a}\u{0a0d}".into(),             // UTF-16BE bytes CR LF LF CR
        "\u{5c28}\u{2929}\u{285c}".into(),     // UTF-16BE bytes \ ( ) ) ( \
        "\u{feff}bom".into(),                  // a BOM character inside the title
        "\u{fffe}\u{ffff}".into(),             // noncharacters, bytes FF FE
        "\u{fe}\u{ff}".into(),                 // Latin-1 thorn/ydieresis: the characters whose code is the BOM bytes
        "e\u{301}".into(),                     // combining sequence (must not be normalised)
        "T".repeat(300),                       // long
    ];
    let set: HashSet<&String> = v.iter().collect();
    assert_eq!(set.len(), v.len());
    assert_eq!(v.len(), 23);
    v
}

/// every sequence of parent choices: call k (0-based) may choose top level or any of the k earlier bookmarks (and ORPHAN)
fn parent_seqs(n: usize, with_orphan: bool) -> Vec<Vec<u32>> {
    let mut out: Vec<Vec<u32>> = vec![vec![]];
    for k in 0..n {
        let mut next = vec![];
        for s in &out {
            for p in 0..=k as u32 { let mut t = s.clone(); t.push(p); next.push(t); }
            if with_orphan { let mut t = s.clone(); t.push(ORPHAN); next.push(t); }
        }
        out = next;
    }
    out
}

/// every assignment of target pages: any page 1..=pages, and the zero page for bookmarks that end up with a child
fn target_assignments(parents: &[u32], pages: u8) -> Vec<Vec<u8>> {
    let n = parents.len();
    let mut has_child = vec![false; n];
    for &p in parents { if p != 0 && p != ORPHAN { has_child[p as usize - 1] = true; } }
    let mut out: Vec<Vec<u8>> = vec![vec![]];
    for k in 0..n {
        let mut next = vec![];
        for s in &out {
            for t in (if has_child[k] { 0 } else { 1 })..=pages { let mut v = s.clone(); v.push(t); next.push(v); }
        }
        out = next;
    }
    out
}

fn rotate_titles(alpha: &[String], idx: usize, n: usize) -> Vec<String> {
    // 5 is a unit modulo 23, so the n <= 23 titles of a case are distinct; idx moves every title through every position
    (0..n).map(|k| alpha[(idx + 5 * k) % alpha.len()].clone()).collect()
}

/// a case of family A without its titles (they are a function of idx)
#[derive(Clone, Copy)]
struct Skel { layout: u8, pages: u8, n: u8, parents: [u8; 8], targets: [u8; 8], idx: u32 }

fn skel_case(s: &Skel, alpha: &[String]) -> Case {
    let n = s.n as usize;
    Case { layout: s.layout, pages: s.pages, parents: s.parents[..n].iter().map(|&p| p as u32).collect(), targets: s.targets[..n].to_vec(), titles: rotate_titles(alpha, s.idx as usize, n), origin: None }
}

/// A: structure x pages x target assignment x layout
fn family_shapes(thorough: bool) -> Vec<Skel> {
    let mut cases = vec![];
    let mut idx = 0u32;
    let max_n = if thorough { 6 } else { 5 };
    for n in 0..=max_n {
        for parents in parent_seqs(n, false) {
            for pages in 1..=3u8 {
                if n == max_n && n >= 5 && pages == 3 { continue; }
                let all_layouts = n <= 4 || thorough;
                for targets in target_assignments(&parents, pages) {
                    let layouts: Vec<u8> = if all_layouts { (0..N_LAYOUTS).collect() } else { vec![(idx % N_LAYOUTS as u32) as u8] };
                    for &layout in &layouts {
                        let mut s = Skel { layout, pages, n: n as u8, parents: [0; 8], targets: [0; 8], idx };
                        for (k, &p) in parents.iter().enumerate() { s.parents[k] = p as u8; }
                        s.targets[..n].copy_from_slice(&targets);
                        cases.push(s);
                        idx += 1;
                    }
                }
            }
        }
    }
    cases
}

/// D: depth and fan-out far beyond A: 250 bookmarks as a chain, a star, a flat list, a binary tree and a comb
fn family_extremes() -> Vec<Case> {
    let alpha = alphabet();
    let n = 250usize;
    let shapes: Vec<Vec<u32>> = vec![
        (0..n).map(|k| k as u32).collect(),                                        // chain: bookmark k+1 under bookmark k
        (0..n).map(|k| if k == 0 { 0 } else { 1 }).collect(),                       // star
        vec![0; n],                                                                // flat
        (0..n).map(|k| ((k + 1) / 2) as u32).collect(),                            // binary tree (heap numbering)
        (0..n).map(|k| if k % 2 == 0 { (k as u32).saturating_sub(1) } else { k as u32 }).collect(), // comb: spine 1,3,5,.. each with one leaf
    ];
    let mut cases = vec![];
    for parents in &shapes {
        let mut has_child = vec![false; n];
        for &p in parents { if p != 0 { has_child[p as usize - 1] = true; } }
        for zero in [false, true] {
            for layout in 0..N_LAYOUTS {
                let targets: Vec<u8> = (0..n).map(|k| if zero && has_child[k] { 0 } else { (k % 3) as u8 + 1 }).collect();
                let titles: Vec<String> = (0..n).map(|k| { let a: String = alpha[k % alpha.len()].chars().take(12).collect(); format!("{}#{}", a, k) }).collect();
                cases.push(Case { layout, pages: 3, parents: parents.clone(), targets, titles, origin: None });
            }
        }
    }
    cases
}

/// B: every ordered tuple of distinct alphabet titles on every forest of up to 3 bookmarks: (parents, title indices, idx)
fn family_titles() -> Vec<(Vec<u32>, Vec<u8>, u32)> {
    let a = alphabet().len() as u8;
    let mut cases = vec![];
    let mut idx = 0u32;
    for n in 1..=3usize {
        for parents in parent_seqs(n, false) {
            let mut tuple = vec![0u8; n];
            'tuples: loop {
                let distinct = (0..n).all(|i| (0..i).all(|j| tuple[i] != tuple[j]));
                if distinct {
                    cases.push((parents.clone(), tuple.clone(), idx));
                    idx += 1;
                }
                let mut i = 0;
                loop {
                    if i == n { break 'tuples; }
                    tuple[i] += 1;
                    if tuple[i] < a { break; }
                    tuple[i] = 0;
                    i += 1;
                }
            }
        }
    }
    cases
}

fn titles_case(t: &(Vec<u32>, Vec<u8>, u32), alpha: &[String]) -> Case {
    let (parents, tuple, idx) = t;
    let n = parents.len();
    let pages = 2u8;
    let targets: Vec<u8> = (0..n).map(|k| ((*idx as usize + k) % pages as usize) as u8 + 1).collect();
    Case { layout: (idx % N_LAYOUTS as u32) as u8, pages, parents: parents.clone(), targets, titles: tuple.iter().map(|&t| alpha[t as usize].clone()).collect(), origin: None }
}

fn family_orphans() -> Vec<Case> {
    // E: parent handles that do not exist: the bookmark (and what is attached below it) is not part of the forest
    let alpha = alphabet();
    let mut cases = vec![];
    let mut idx = 0usize;
    for n in 1..=4usize {
        for parents in parent_seqs(n, true) {
            if !parents.contains(&ORPHAN) { continue; }
            for targets in target_assignments(&parents, 2) {
                cases.push(Case { layout: (idx % N_LAYOUTS as usize) as u8, pages: 2, parents: parents.clone(), targets, titles: rotate_titles(&alpha, idx, n), origin: None });
                idx += 1;
            }
        }
    }
    cases
}

fn scalar_at(i: u32) -> char { char::from_u32(if i < 0xD800 { i } else { i + 0x800 }).unwrap() }
const N_SCALARS: u32 = 0x110000 - 0x800;
const N_BMP: u32 = 0x10000 - 0x800;

/// C: one document of 128 bookmarks (depth 3, zero-page parents) per block of consecutive Unicode scalar values
#[derive(Clone, Copy)]
enum Sweep {
    /// 64 scalar values starting at 64*block (index without the surrogates); each value c gives the titles "c" and "[c]"
    Pair(u32),
    /// 512 astral scalar values starting at N_BMP + 512*block; each title is 4 consecutive values
    Quad(u32),
}

fn sweep_case(sw: &Sweep) -> Case {
    let mut titles = vec![];
    let block = match *sw {
        Sweep::Pair(block) => {
            for i in 0..64 {
                let c = scalar_at(block * 64 + i);
                titles.push(c.to_string());
                titles.push(format!("[{}]", c));
            }
            block
        }
        Sweep::Quad(block) => {
            for i in 0..128 {
                let s0 = N_BMP + block * 512 + i * 4;
                titles.push((0..4).map(|j| scalar_at(s0 + j)).collect::<String>());
            }
            block
        }
    };
    let n = titles.len();
    let pages = 3u8;
    let mut parents = vec![];
    let mut targets = vec![];
    for j in 0..n {
        let head = j - j % 8;
        parents.push(match j % 8 { 0 => 0u32, 4 | 5 => j as u32, _ => head as u32 + 1 });
        // the heads of every other group of 8 are zero-page parents; within a group bookmarks 1, 4 and 5 have children
        targets.push(if j % 16 == 0 { 0 } else { (j % pages as usize) as u8 + 1 });
    }
    Case { layout: (block % N_LAYOUTS as u32) as u8, pages, parents, targets, titles, origin: None }
}

fn sweep_items(thorough: bool) -> Vec<Sweep> {
    let mut v = vec![];
    if thorough {
        for b in 0..N_SCALARS / 64 { v.push(Sweep::Pair(b)); }
    } else {
        for b in 0..N_BMP / 64 { v.push(Sweep::Pair(b)); }
        for b in 0..(N_SCALARS - N_BMP) / 512 { v.push(Sweep::Quad(b)); }
    }
    v
}

// ---------------------------------------------------------------------------------------------------------------
// F, G: large forests (the statement bounds neither the number of bookmarks nor the number of bookmarks with children,
// of siblings, of top-level bookmarks; families A-E stop at 250 bookmarks)
// ---------------------------------------------------------------------------------------------------------------

/// the parameters of one large forest; a failure records these, `big_case` expands them
#[derive(Clone, Debug, PartialEq)]
pub enum Big {
    /// F: level-regular forest: `fan[0]` top-level bookmarks; a bookmark of level i (1-based, i < fan.len()) whose position among its
    /// siblings (0-based) is a multiple of `stride` has `fan[i]` children, every other bookmark is a leaf.
    /// `order`: the order of the add_bookmark calls. 0 depth-first (a bookmark, then its whole subtree); 1 breadth-first (level by level,
    /// parents in order); 2 level by level, the parents of a level taken from the last to the first; 3 level by level, round-robin over
    /// the parents (the first child of every parent, then the second child of every parent, ...: siblings are not attached consecutively)
    Regular { fan: Vec<u32>, stride: u32, order: u8, zero: bool, layout: u8 },
    /// G: `levels` nested bookmarks (the spine); the siblings of the spine bookmark of each level are `before` leaves in front of it and
    /// `after` leaves behind it; the calls go level by level
    Spine { levels: u32, before: u32, after: u32, zero: bool, layout: u8 },
}

const N_ORDERS: u8 = 4;
const NONE: usize = usize::MAX;

/// number of bookmarks of a level-regular forest (None: more than `cap`)
fn regular_size(fan: &[u32], stride: u32, cap: u64) -> Option<u64> {
    let mut groups = 1u64;            // number of sibling lists in the current level
    let mut len = fan[0] as u64;      // their common length
    let mut total = len;
    for &f in &fan[1..] {
        if total > cap { return None; }
        groups *= (len + stride as u64 - 1) / stride as u64;
        len = f as u64;
        total += groups * len;
    }
    if total > cap { None } else { Some(total) }
}

/// the add_bookmark calls of a level-regular forest: parents[k] as in `Case`
fn regular_calls(fan: &[u32], stride: u32, order: u8) -> Vec<u32> {
    // nodes are numbered level by level; levels[i] = the node range of level i
    let mut parent: Vec<usize> = vec![NONE; fan[0] as usize];
    let mut children: Vec<Vec<usize>> = vec![vec![]; fan[0] as usize];
    let mut sib: Vec<u32> = (0..fan[0]).collect();
    let mut levels: Vec<std::ops::Range<usize>> = vec![0..fan[0] as usize];
    for &f in &fan[1..] {
        let prev = levels.last().unwrap().clone();
        let start = parent.len();
        for p in prev {
            if sib[p] % stride != 0 { continue; }
            for j in 0..f {
                let id = parent.len();
                parent.push(p);
                children.push(vec![]);
                sib.push(j);
                children[p].push(id);
            }
        }
        levels.push(start..parent.len());
    }
    let n = parent.len();
    let mut seq: Vec<usize> = Vec::with_capacity(n);
    match order {
        0 => {
            let mut stack: Vec<usize> = levels[0].clone().rev().collect();
            while let Some(x) = stack.pop() {
                seq.push(x);
                for &c in children[x].iter().rev() { stack.push(c); }
            }
        }
        1 => seq.extend(0..n),
        2 => {
            seq.extend(levels[0].clone());
            for i in 1..levels.len() { for p in levels[i - 1].clone().rev() { seq.extend(children[p].iter().cloned()); } }
        }
        _ => {
            seq.extend(levels[0].clone());
            for i in 1..levels.len() {
                for r in 0..fan[i] as usize { for p in levels[i - 1].clone() { if let Some(&c) = children[p].get(r) { seq.push(c); } } }
            }
        }
    }
    assert_eq!(seq.len(), n);
    let mut pos = vec![NONE; n];
    for (k, &x) in seq.iter().enumerate() { pos[x] = k; }
    seq.iter().enumerate().map(|(k, &x)| if parent[x] == NONE { 0 } else { assert!(pos[parent[x]] < k); pos[parent[x]] as u32 + 1 }).collect()
}

fn spine_calls(levels: u32, before: u32, after: u32) -> Vec<u32> {
    let mut parents = vec![];
    let mut up = 0u32;
    for _ in 0..levels {
        for _ in 0..before { parents.push(up); }
        parents.push(up);
        let spine = parents.len() as u32;
        for _ in 0..after { parents.push(up); }
        up = spine;
    }
    parents
}

fn big_case(b: &Big, alpha: &[String]) -> Case {
    let (parents, zero, layout) = match b {
        Big::Regular { fan, stride, order, zero, layout } => (regular_calls(fan, (*stride).max(1), *order), *zero, *layout),
        Big::Spine { levels, before, after, zero, layout } => (spine_calls(*levels, *before, *after), *zero, *layout),
    };
    let n = parents.len();
    let pages = 3u8;
    let mut has_child = vec![false; n];
    for &p in &parents { if p != 0 { has_child[p as usize - 1] = true; } }
    let targets: Vec<u8> = (0..n).map(|k| if zero && has_child[k] { 0 } else { (k % pages as usize) as u8 + 1 }).collect();
    // pairwise distinct because of the call number; the alphabet prefix keeps every kind of title in play
    let titles: Vec<String> = (0..n).map(|k| { let a: String = alpha[k % alpha.len()].chars().take(12).collect(); format!("{}#{}", a, k) }).collect();
    Case { layout, pages, parents, targets, titles, origin: Some(b.clone()) }
}

/// fan-out values: small ones, and the neighbourhood of 2^8 (the reader's nesting limit is 2^8 levels below the top one, so this is where a
/// count that is confused with the nesting level shows), thorough also 2^10
fn fan_values(thorough: bool) -> Vec<u32> {
    if thorough { vec![1, 2, 3, 17, 256, 257, 300, 1024] } else { vec![1, 2, 3, 17, 256, 257, 300] }
}

/// F: every fan-out profile over `fan_values` with at most `max_levels` levels and at most `cap` bookmarks x stride 1, 2 x the 4 call orders
/// x {all real pages, every parent a zero page}; layouts in rotation
fn family_regular(thorough: bool) -> Vec<Big> {
    let vals = fan_values(thorough);
    let (max_levels, cap) = if thorough { (4usize, 2100u64) } else { (3usize, 1300u64) };
    let mut profiles: Vec<Vec<u32>> = vec![];
    let mut frontier: Vec<Vec<u32>> = vals.iter().map(|&v| vec![v]).collect();
    for _ in 0..max_levels {
        let mut next = vec![];
        for f in frontier {
            // stride 1 is the larger forest: a profile that is too large with stride 2 is too large with stride 1
            if regular_size(&f, 2, cap).is_none() { continue; }
            for &v in &vals { let mut g = f.clone(); g.push(v); next.push(g); }
            profiles.push(f);
        }
        frontier = next;
    }
    let mut out = vec![];
    let mut idx = 0u32;
    for fan in &profiles {
        for stride in [1u32, 2] {
            if regular_size(fan, stride, cap).is_none() { continue; }
            // in a sibling list of length 1 the strides do not differ
            if stride == 2 && fan[..fan.len() - 1].iter().all(|&f| f == 1) { continue; }
            for order in 0..N_ORDERS {
                // a flat list has one call order
                if fan.len() == 1 && order != 0 { continue; }
                for zero in [false, true] {
                    if fan.len() == 1 && zero { continue; }
                    out.push(Big::Regular { fan: fan.clone(), stride, order, zero, layout: (idx % N_LAYOUTS as u32) as u8 });
                    idx += 1;
                }
            }
        }
    }
    out
}

/// F (thorough): three forests beyond 2^16 bookmarks: 65,537 top-level bookmarks; 65,537 siblings under one zero-page parent; 257 parents of
/// 256 children each attached round-robin. (Loading a saved file of this size takes seconds, so this is a handful of cases.)
fn family_regular_huge() -> Vec<Big> {
    vec![
        Big::Regular { fan: vec![65_537], stride: 1, order: 0, zero: false, layout: 0 },
        Big::Regular { fan: vec![1, 65_537], stride: 1, order: 0, zero: true, layout: 1 },
        Big::Regular { fan: vec![257, 256], stride: 1, order: 3, zero: true, layout: 2 },
    ]
}

/// the deepest nesting the reader accepts: the top level and OUTLINE_DEPTH_LIMIT = 256 levels below it
const MAX_LEVELS: u32 = 257;

/// G: spines of 2, 17, 256 and 257 levels x 0..2 leaves in front of and behind the spine bookmark of every level x zero pages x 4 layouts
fn family_spines() -> Vec<Big> {
    let mut out = vec![];
    for levels in [2u32, 17, 256, MAX_LEVELS] {
        for before in 0..=2u32 { for after in 0..=2u32 { for zero in [false, true] { for layout in 0..N_LAYOUTS {
            out.push(Big::Spine { levels, before, after, zero, layout });
        } } } }
    }
    out
}

fn big_json(b: &Big) -> Value {
    match b {
        Big::Regular { fan, stride, order, zero, layout } => json!({"family": "F", "fan": fan, "stride": stride, "order": order, "zero": zero, "layout": layout}),
        Big::Spine { levels, before, after, zero, layout } => json!({"family": "G", "levels": levels, "before": before, "after": after, "zero": zero, "layout": layout}),
    }
}

fn big_from_json(g: &Value) -> Result<Big, String> {
    let num = |k: &str| -> Result<u32, String> { g[k].as_u64().map(|x| x as u32).ok_or(format!("gen: missing {}", k)) };
    let zero = g["zero"].as_bool().unwrap_or(false);
    let layout = num("layout")? as u8;
    match g["family"].as_str() {
        Some("F") => {
            let fan: Vec<u32> = g["fan"].as_array().ok_or("gen: missing fan")?.iter().map(|x| x.as_u64().map(|x| x as u32).ok_or("gen: bad fan".to_string())).collect::<Result<_, _>>()?;
            if fan.is_empty() { return Err("gen: empty fan".into()); }
            let stride = num("stride")?.max(1);
            if regular_size(&fan, stride, 1 << 22).is_none() { return Err("gen: forest too large".into()); }
            Ok(Big::Regular { fan, stride, order: num("order")? as u8, zero, layout })
        }
        Some("G") => Ok(Big::Spine { levels: num("levels")?, before: num("before")?, after: num("after")?, zero, layout }),
        _ => Err("gen: unknown family".into()),
    }
}

pub fn case_json(c: &Case) -> Value {
    if let Some(b) = &c.origin {
        // the expansion is a function of the parameters (big_case); record the parameters and enough of the expansion to read the failure
        let n = c.parents.len();
        let interior = { let mut h = vec![false; n]; for &p in &c.parents { if p != 0 && p != ORPHAN { h[p as usize - 1] = true; } } h.iter().filter(|&&x| x).count() };
        return json!({"gen": big_json(b), "pages": c.pages, "bookmarks": n, "bookmarks_with_children": interior,
                      "top_level_bookmarks": c.parents.iter().filter(|&&p| p == 0).count(),
                      "first_parents": &c.parents[..n.min(24)], "first_targets": &c.targets[..n.min(24)],
                      "first_titles_readable": c.titles.iter().take(6).map(|t| t.escape_debug().to_string()).collect::<Vec<_>>()});
    }
    json!({"layout": c.layout, "pages": c.pages, "parents": c.parents, "targets": c.targets,
           "titles": c.titles.iter().map(|t| hex(t.as_bytes())).collect::<Vec<_>>(),
           "titles_readable": c.titles.iter().map(|t| { let mut s = t.escape_debug().to_string(); if s.len() > 40 { s = format!("{}...({} chars)", s.chars().take(20).collect::<String>(), t.chars().count()); } s }).collect::<Vec<_>>()})
}

pub fn case_from_json(v: &Value) -> Result<Case, String> {
    if v.get("gen").map(|g| g.is_object()).unwrap_or(false) { return Ok(big_case(&big_from_json(&v["gen"])?, &alphabet())); }
    let nums = |k: &str| -> Result<Vec<u64>, String> { v[k].as_array().ok_or(format!("missing {}", k))?.iter().map(|x| x.as_u64().ok_or(format!("bad {}", k))).collect() };
    let titles = v["titles"].as_array().ok_or("missing titles")?.iter().map(|t| String::from_utf8(unhex(t.as_str().unwrap_or(""))).map_err(|_| "title is not UTF-8".to_string())).collect::<Result<Vec<_>, _>>()?;
    // 255 at a call k < 255 cannot be the handle of an earlier call: it is how the non-existent handle was recorded while handles were 8 bits wide
    let parents: Vec<u32> = nums("parents")?.iter().enumerate().map(|(k, &p)| if p >= ORPHAN as u64 || (p == ORPHAN_LEGACY as u64 && k < ORPHAN_LEGACY as usize) { ORPHAN } else { p as u32 }).collect();
    let targets: Vec<u8> = nums("targets")?.iter().map(|&t| t.min(255) as u8).collect();
    Ok(Case { layout: v["layout"].as_u64().unwrap_or(0) as u8, pages: v["pages"].as_u64().unwrap_or(1) as u8, parents, targets, titles, origin: None })
}

fn describe(c: &Case) -> String {
    if let Some(b) = &c.origin { return format!("{} -> {} bookmarks, pages={}", big_json(b), c.parents.len(), c.pages); }
    let t: Vec<String> = c.titles.iter().take(6).map(|t| t.escape_debug().to_string().chars().take(16).collect()).collect();
    format!("layout={} pages={} parents={:?} targets={:?} titles={:?}{}", c.layout, c.pages, c.parents.iter().take(12).map(|&p| if p == ORPHAN { -1 } else { p as i64 }).collect::<Vec<_>>(), &c.targets[..c.targets.len().min(12)], t, if c.titles.len() > 6 { " ..." } else { "" })
}

fn evaluate<T: Sync>(rep: &mut Report, items: &[T], make: impl Fn(&T) -> Case + Sync, sample_every: usize) {
    for chunk in items.chunks(1 << 16) {
        let res: Vec<(bool, Vec<Fail>, Option<Value>, Option<String>)> = chunk.par_iter().enumerate().map(|(i, t)| {
            let c = make(t);
            let (nt, fails) = run_case(&c);
            let input = if fails.is_empty() { None } else { Some(case_json(&c)) };
            let sample = if fails.is_empty() && i % sample_every == sample_every / 2 { Some(describe(&c)) } else { None };
            (nt, fails, input, sample)
        }).collect();
        for (nt, fails, input, sample) in res {
            rep.case(nt);
            if let Some(s) = sample { rep.sample(s); }
            for (ob, d) in fails { rep.fail(&ob, d.clone(), input.clone().unwrap_or(Value::Null), d); }
        }
    }
}

const BOUND_COMMON: &str = "B: every ordered tuple of distinct titles from a 23-title alphabet (empty, 1 character, delimiters, CR/LF, control characters, Latin-1, BMP, astral, noncharacters, characters whose UTF-16BE bytes are ( ) \\ CR LF, BOM character, combining sequence, 300 characters) on every forest of <=3 bookmarks; D: 250 bookmarks as chain / star / flat list / binary tree / comb x {all real pages, every parent a zero page} x 4 layouts; E: n<=4 calls where any call may name a parent handle that was never returned (the bookmark and everything below it is not part of the forest) x every target assignment, 2 pages; G: spines of 2 / 17 / 256 / 257 nested bookmarks (257 levels = the deepest outline get_outlines accepts: its nesting limit is 256 levels below the top one) x 0..2 leaf siblings in front of and 0..2 behind the spine bookmark of every level x {all real pages, every parent a zero page} x 4 layouts, up to 1285 bookmarks. Layouts: dense ids + xref stream / sparse ids with page ids opposite to page order and max_id slack / nested page tree with non-zero generations / base document loaded from a file. Each case: add_bookmark calls, adjust_zero_pages, build_outline, model-driven walk of the object graph (First Last Next Prev Parent Title A/D, fresh ids), /Outlines installed, get_toc, save_to, load_mem, walk and get_toc again. Not covered: children lists written directly into Bookmark.children (cycles, shared nodes), max_id below an existing object id, duplicate titles, zero-page leaves, outlines nested deeper than 257 levels (get_outlines refuses them by design), large forests that are not level-regular or spines";

const BOUND_F_QUICK: &str = "F (large forests; sizes, numbers of bookmarks with children, of siblings and of top-level bookmarks on both sides of 256): every level-regular forest with a fan-out profile (f1..fd), d<=3, fi in {1,2,3,17,256,257,300}, at most 1300 bookmarks (f1 top-level bookmarks; a bookmark of level i has f(i+1) children if its position among its siblings is a multiple of the stride, else none) x stride 1 (every bookmark above the last level has children) and 2 (leaves and parents alternate) x 4 orders of the add_bookmark calls (depth-first / level by level / level by level with the parents taken last to first / level by level round-robin over the parents, so that siblings are not attached consecutively) x {all real pages, every parent a zero page}, 3 pages, layouts in rotation, titles = alphabet of B in rotation + call number;";
const BOUND_F_THOROUGH: &str = "F (large forests; sizes, numbers of bookmarks with children, of siblings and of top-level bookmarks on both sides of 256 and 1024): every level-regular forest with a fan-out profile (f1..fd), d<=4, fi in {1,2,3,17,256,257,300,1024}, at most 2100 bookmarks (f1 top-level bookmarks; a bookmark of level i has f(i+1) children if its position among its siblings is a multiple of the stride, else none) x stride 1 (every bookmark above the last level has children) and 2 (leaves and parents alternate) x 4 orders of the add_bookmark calls (depth-first / level by level / level by level with the parents taken last to first / level by level round-robin over the parents, so that siblings are not attached consecutively) x {all real pages, every parent a zero page}, 3 pages, layouts in rotation, titles = alphabet of B in rotation + call number; and three forests beyond 2^16 bookmarks: profile (65537) = 65,537 top-level bookmarks; (1,65537) = 65,537 siblings under one zero-page parent; (257,256) = 66,049 bookmarks attached round-robin, zero-page parents;";

pub fn run(thorough: bool) -> Report {
    let bound = if thorough {
        format!("A: every sequence of n<=6 add_bookmark calls (call k attaches to the top level or to any of the k-1 earlier bookmarks: n! sequences = every ordered forest in every attachment order) x documents of 1..3 pages (n=6: 1..2) x every target assignment (each bookmark: any page, or the zero page if it has a child) x 4 document layouts, titles rotated through the alphabet of B; C: every Unicode scalar value c (1,112,064) as the titles \"c\" and \"[c]\", 64 values per document of 128 bookmarks (depth 3, zero-page parents); {} {}", BOUND_F_THOROUGH, BOUND_COMMON)
    } else {
        format!("A: every sequence of n<=5 add_bookmark calls (call k attaches to the top level or to any of the k-1 earlier bookmarks: n! sequences = every ordered forest in every attachment order) x documents of 1..3 pages (n=5: 1..2) x every target assignment (each bookmark: any page, or the zero page if it has a child) x 4 document layouts (n=5: one layout per case in rotation), titles rotated through the alphabet of B; C: every BMP scalar value c (63,488) as the titles \"c\" and \"[c]\", 64 values per document of 128 bookmarks (depth 3, zero-page parents), and every astral scalar value (1,048,576) inside a title of 4 consecutive values, 512 values per document; {} {}", BOUND_F_QUICK, BOUND_COMMON)
    };
    let mut rep = Report::new(&bound, true);
    rep.obligations = OBLIGATIONS.len() as u64;
    let _ = base(0, 1);
    let alpha = alphabet();
    let prev = std::panic::take_hook();
    std::panic::set_hook(Box::new(|_| {}));
    let timing = std::env::var("C17_TIMING").is_ok();
    // development aid: C17_ONLY=FG runs only the named families
    let only = std::env::var("C17_ONLY").ok();
    let want = |f: char| only.as_ref().map(|o| o.contains(f)).unwrap_or(true);
    let t0 = std::time::Instant::now();
    let a = if want('A') { family_shapes(thorough) } else { vec![] };
    evaluate(&mut rep, &a, |s| skel_case(s, &alpha), 20_001);
    if timing { eprintln!("A {} {:?}", a.len(), t0.elapsed()); }
    drop(a);
    let b = if want('B') { family_titles() } else { vec![] };
    evaluate(&mut rep, &b, |t| titles_case(t, &alpha), 30_001);
    if timing { eprintln!("B {} {:?}", b.len(), t0.elapsed()); }
    drop(b);
    let d = if want('D') { family_extremes() } else { vec![] };
    evaluate(&mut rep, &d, |c| c.clone(), 1_000_000);
    if timing { eprintln!("D {} {:?}", d.len(), t0.elapsed()); }
    drop(d);
    let e = if want('E') { family_orphans() } else { vec![] };
    evaluate(&mut rep, &e, |c| c.clone(), 2_001);
    if timing { eprintln!("E {} {:?}", e.len(), t0.elapsed()); }
    drop(e);
    let c = if want('C') { sweep_items(thorough) } else { vec![] };
    evaluate(&mut rep, &c, sweep_case, 5_001);
    if timing { eprintln!("C {} {:?}", c.len(), t0.elapsed()); }
    drop(c);
    let mut f = if thorough && want('H') { family_regular_huge() } else { vec![] };
    if want('F') { f.extend(family_regular(thorough)); }
    evaluate(&mut rep, &f, |b| big_case(b, &alpha), 1_001);
    if timing { eprintln!("F {} {:?}", f.len(), t0.elapsed()); }
    drop(f);
    let g = if want('G') { family_spines() } else { vec![] };
    evaluate(&mut rep, &g, |b| big_case(b, &alpha), 101);
    if timing { eprintln!("G {} {:?}", g.len(), t0.elapsed()); }
    std::panic::set_hook(prev);
    rep
}

pub fn replay(v: &Value) -> Result<(), String> {
    let c = case_from_json(v)?;
    match guarded(std::panic::AssertUnwindSafe(|| run_case(&c))) {
        Ok((_, fails)) if fails.is_empty() => Ok(()),
        Ok((_, fails)) => Err(fails.iter().map(|(ob, d)| format!("{}: {}", ob, d)).collect::<Vec<_>>().join(" ;; ")),
        Err(p) => Err(format!("no-panic: {}", p)),
    }
}
