//! C09: stream filters decode as specified; compression is lossless (bounded: reference encoders generate the inputs).
//! Two families of byte strings: 8 small hand-picked payloads through every parameter combination, and the generated
//! size x redundancy family (`Gen`: kind x length up to several MiB) that walks the decoders' expansion ratio from 1:1 up to
//! the maximum the formats allow (deflate 1032:1, LZW above 1000:1), where output buffering / growth / limits matter.
//! With a PNG predictor the reference encoder's choice of the filter type of each row (`Case::tags`) is a dimension of its
//! own, independent of the value of /Predictor: PNG (and ISO 32000-1 7.4.4.4) let the tag byte in front of a row name the
//! filter of that row whatever Predictor >= 10 says, so every (Predictor, tag sequence) pair is a legal encoding.
#![allow(dead_code)]
use crate::common::*;
use crate::gen::*;
use lopdf::{Dictionary, Object, Stream};
use serde_json::{json, Value};
use std::io::Write as _;

fn zlib(data: &[u8], level: u32) -> Vec<u8> { let mut e = flate2::write::ZlibEncoder::new(Vec::new(), flate2::Compression::new(level)); e.write_all(data).unwrap(); e.finish().unwrap() }
fn lzw(data: &[u8], early: bool) -> Vec<u8> {
    let mut enc = if early { weezl::encode::Encoder::with_tiff_size_switch(weezl::BitOrder::Msb, 8) } else { weezl::encode::Encoder::new(weezl::BitOrder::Msb, 8) };
    enc.encode(data).unwrap()
}
fn a85(data: &[u8], with_ws: bool, use_z: bool) -> Vec<u8> {
    let mut out = vec![];
    for (gi, chunk) in data.chunks(4).enumerate() {
        let mut v: u32 = 0;
        for i in 0..4 { v = (v << 8) | *chunk.get(i).unwrap_or(&0) as u32; }
        if chunk.len() == 4 && v == 0 && use_z { out.push(b'z'); } else {
            let mut digits = [0u8; 5];
            let mut t = v;
            for i in (0..5).rev() { digits[i] = (t % 85) as u8 + b'!'; t /= 85; }
            out.extend_from_slice(&digits[..chunk.len() + 1]);
        }
        if with_ws && gi % 3 == 2 { out.extend_from_slice(b"\n "); }
    }
    out.extend_from_slice(b"~>");
    out
}
fn paeth(a: u8, b: u8, c: u8) -> u8 { let (a1, b1, c1) = (a as i32, b as i32, c as i32); let p = a1 + b1 - c1; let (pa, pb, pc) = ((p - a1).abs(), (p - b1).abs(), (p - c1).abs()); if pa <= pb && pa <= pc { a } else if pb <= pc { b } else { c } }
/// PNG filtering of one row (encoder side, PNG 1.2 chapter 6): `out` receives cur - prediction(filter type f)
fn png_filter_row(f: u8, cur: &[u8], prev: &[u8], bpp: usize, out: &mut Vec<u8>) {
    for i in 0..cur.len() {
        let a = if i >= bpp { cur[i - bpp] } else { 0 };
        let b = prev[i];
        let c = if i >= bpp { prev[i - bpp] } else { 0 };
        let pred = match f { 0 => 0, 1 => a, 2 => b, 3 => ((a as u16 + b as u16) / 2) as u8, _ => paeth(a, b, c) };
        out.push(cur[i].wrapping_sub(pred));
    }
}
/// PNG prediction (encoder side), one filter type per row chosen by `pick` (row index, row, previous row)
fn png_predict(data: &[u8], bpp: usize, row: usize, pick: impl Fn(usize, &[u8], &[u8]) -> u8) -> Vec<u8> {
    let mut out = Vec::with_capacity(data.len() + data.len() / row.max(1) + 1);
    let mut prev = vec![0u8; row];
    for (r, cur) in data.chunks(row).enumerate() {
        let f = pick(r, cur, &prev);
        out.push(f);
        png_filter_row(f, cur, &prev, bpp, &mut out);
        prev = cur.to_vec();
        prev.resize(row, 0);
    }
    out
}
/// The filter type a reference encoder with row-filter policy `tags` gives row `r` when the stream says /Predictor `predictor`:
///   ""        the type the Predictor value hints at: Predictor-10 on every row, and r mod 5 for Predictor 15 ("optimum")
///   digits    an explicit sequence over 0..4, used cyclically: "2" = Up on every row, "12340" = a rotation of all five
///   "minsum"  the heuristic PNG 1.2 (9.6) recommends and most encoders use: per row, the type whose filtered row has
///             the smallest sum of absolute values (bytes read as signed); ties go to the lower type
/// Every policy is legal under every Predictor 10..15: the tag byte of the row governs, the Predictor value is a hint.
fn row_tag(tags: &str, predictor: i64, bpp: usize, r: usize, cur: &[u8], prev: &[u8]) -> u8 {
    match tags {
        "" => if predictor == 15 { (r % 5) as u8 } else { (predictor - 10) as u8 },
        "minsum" => {
            let mut best = (u64::MAX, 0u8);
            let mut buf = Vec::with_capacity(cur.len());
            for f in 0..5u8 { buf.clear(); png_filter_row(f, cur, prev, bpp, &mut buf); let sum: u64 = buf.iter().map(|&x| (x as i8).unsigned_abs() as u64).sum(); if sum < best.0 { best = (sum, f); } }
            best.1
        }
        seq => { let b = seq.as_bytes(); (b[r % b.len()] - b'0').min(4) }
    }
}
fn tags_describe(tags: &str) -> String { match tags { "" => "the type Predictor hints at (Predictor-10; r mod 5 for 15)".into(), "minsum" => "chosen per row by PNG's minimum-sum-of-absolute-differences heuristic".into(), seq => format!("the sequence {} (cyclic)", seq) } }
const FILTER_NAMES: [&str; 5] = ["None", "Sub", "Up", "Average", "Paeth"];

#[derive(Clone, Debug)]
pub struct Case { pub data: Vec<u8>, pub chain: Vec<u8>, pub predictor: i64, pub colors: usize, pub bits: usize, pub columns: usize, pub early: i64, pub parms_array: bool, pub a85_ws: bool,
    /// level of the reference deflate encoder (0 = stored blocks .. 9 = best): different legal encodings of the same bytes
    pub level: u32,
    /// the reference PNG encoder's row-filter policy (see `row_tag`); "" = the type the Predictor value hints at
    pub tags: String,
    /// how `data` was generated, when it is a member of the size x redundancy family (so that a multi-megabyte input replays from three numbers)
    pub gen: Option<Gen> }

/// The size x redundancy dimension of "all byte strings": a payload is (kind, length, parameter). The kinds span the
/// whole range of expansion ratios a decoder can meet, from 1:1 (noise: deflate falls back to stored blocks, LZW to 9..12-bit
/// literals) to the maximum of the formats (a run of one byte value: deflate codes 258 bytes in 2 bits = 1032:1, LZW
/// codes up to ~3800 bytes in 12 bits); the ratio only approaches the maximum when the length is large, because the
/// stream framing (zlib header, block header, end-of-block, Adler-32) is a constant ~20 bytes.
#[derive(Clone, Debug, PartialEq)]
pub struct Gen { pub kind: String, pub len: usize, pub p: usize }
pub const KINDS: [&str; 6] = ["const", "period", "runs", "sparse", "text", "noise"];
impl Gen {
    pub fn data(&self) -> Vec<u8> {
        let (n, p) = (self.len, self.p.max(1));
        let mut x: u64 = 0x9e3779b97f4a7c15 ^ (p as u64).wrapping_mul(0xbf58476d1ce4e5b9);
        let mut rnd = move || { x ^= x << 13; x ^= x >> 7; x ^= x << 17; (x >> 24) as u8 };
        match self.kind.as_str() {
            // a run of the one byte value p (blank raster, zero-filled table)
            "const" => vec![self.p as u8; n],
            // a pattern of period p
            "period" => (0..n).map(|i| ((i % p) as u8).wrapping_mul(37).wrapping_add(11)).collect(),
            // runs of length p of changing values
            "runs" => (0..n).map(|i| ((i / p) as u8).wrapping_mul(101)).collect(),
            // zeros with one non-zero byte every p bytes
            "sparse" => (0..n).map(|i| if i % p == p - 1 { ((i / p) as u8) | 1 } else { 0 }).collect(),
            // pseudo-random over an alphabet of 16 symbols (about 2:1)
            "text" => (0..n).map(|_| b"etaoin shrdlu\n()"[(rnd() & 15) as usize]).collect(),
            // pseudo-random bytes (incompressible)
            _ => (0..n).map(|_| rnd()).collect(),
        }
    }
    fn json(&self) -> Value { json!({"kind": self.kind, "len": self.len, "p": self.p}) }
    fn from(v: &Value) -> Option<Gen> { Some(Gen { kind: v.get("kind")?.as_str()?.to_string(), len: v.get("len")?.as_u64()? as usize, p: v.get("p")?.as_u64()? as usize }) }
    fn describe(&self) -> String { format!("{} bytes of kind {:?} (parameter {})", self.len, self.kind, self.p) }
}
/// the payloads of the size x redundancy family: lengths on a geometric ladder x kinds (x 2 parameters per kind in the thorough tier)
fn gens(thorough: bool) -> Vec<Gen> {
    let lens: Vec<usize> = if thorough { (10..=23).flat_map(|k| if k < 23 { vec![1usize << k, 3usize << (k - 1)] } else { vec![1usize << k] }).collect() } else { vec![1 << 10, 1 << 13, 1 << 16, 1 << 18, 1 << 20, 1 << 21, 1 << 22] };
    let mut v = vec![];
    for len in lens { for kind in KINDS {
        let ps: Vec<usize> = match kind { "const" => vec![0, 255], "period" => vec![3, 1000], "runs" => vec![4096, 300], "sparse" => vec![512, 40000], "text" => vec![1, 2], _ => vec![1, 2] };
        for (j, p) in ps.into_iter().enumerate() { if j == 0 || thorough { v.push(Gen { kind: kind.into(), len, p }); } }
    } }
    v
}

fn payloads() -> Vec<Vec<u8>> {
    vec![vec![], vec![0], b"abc".to_vec(), vec![0, 0, 0, 0, 1, 2, 3, 4, 0, 0, 0, 0], (0..=255u8).collect(), (0..96u8).map(|i| i.wrapping_mul(73) ^ 0x5a).collect(), vec![255; 40], (0..64u8).map(|i| if i % 2 == 0 { 1 } else { 255 }).collect()]
}

pub fn build(c: &Case) -> Stream {
    let bpp = (c.colors * c.bits / 8).max(1);
    let row = bpp * c.columns;
    let mut cur = c.data.clone();
    let mut names = vec![];
    let mut parms: Vec<Object> = vec![];
    // encode in reverse of decoding order: the LAST filter in `chain` is applied first when encoding
    for (k, f) in c.chain.iter().enumerate().rev() {
        let innermost = k == c.chain.len() - 1;
        match f {
            b'F' | b'L' => {
                let mut d = Dictionary::new();
                if innermost && c.predictor >= 10 {
                    cur = png_predict(&cur, bpp, row, |r, cu, pv| row_tag(&c.tags, c.predictor, bpp, r, cu, pv));
                    d.set("Predictor", c.predictor); d.set("Columns", c.columns as i64); if c.colors != 1 { d.set("Colors", c.colors as i64); } if c.bits != 8 { d.set("BitsPerComponent", c.bits as i64); }
                }
                if *f == b'L' { if c.early == 0 { d.set("EarlyChange", 0i64); } cur = lzw(&cur, c.early != 0); names.push(b"LZWDecode".to_vec()); } else { cur = zlib(&cur, c.level); names.push(b"FlateDecode".to_vec()); }
                parms.push(if d.is_empty() { Object::Null } else { Object::Dictionary(d) });
            }
            _ => { cur = a85(&cur, c.a85_ws, true); names.push(b"ASCII85Decode".to_vec()); parms.push(Object::Null); }
        }
    }
    names.reverse(); parms.reverse();
    let mut dict = Dictionary::new();
    if names.len() == 1 && !c.parms_array { dict.set("Filter", Object::Name(names[0].clone())); } else { dict.set("Filter", Object::Array(names.into_iter().map(Object::Name).collect())); }
    if parms.iter().any(|p| !matches!(p, Object::Null)) {
        if c.parms_array || parms.len() > 1 { dict.set("DecodeParms", Object::Array(parms)); } else { dict.set("DecodeParms", parms[0].clone()); }
    }
    Stream::new(dict, cur)
}

pub fn check(c: &Case) -> Result<(), (String, String)> { check_len(c).1 }
/// as `check`; also says how long the encoded stream was (to report the expansion ratios the family reached)
pub fn check_len(c: &Case) -> (usize, Result<(), (String, String)>) {
    let bpp = (c.colors * c.bits / 8).max(1);
    if c.predictor >= 10 && (c.data.len() % (bpp * c.columns) != 0) { return (0, Ok(())); }
    let st = build(c);
    (st.content.len(), match guarded(std::panic::AssertUnwindSafe(|| st.decompressed_content())) {
        Err(p) => Err(("no-panic".into(), p)),
        Ok(Err(e)) => Err(("decodes".into(), format!("{}{:?}: {}", rows_note(c, None), st.dict, e))),
        Ok(Ok(d)) => if d == c.data { Ok(()) } else {
            // a frame whose row tags are not the ones the Predictor value hints at gets an obligation of its own: by PNG
            // and ISO 32000-1 7.4.4.4 the tag byte in front of a row names the filter of that row under every Predictor >= 10
            let obl = if c.predictor >= 10 && !c.tags.is_empty() { "row-tag-governs-under-every-png-predictor" } else { "decode-equals-reference" };
            Err((obl.into(), format!("{}{}dict {:?}: decoded {} bytes {:02x?}.., expected {} bytes {:02x?}..{}", c.gen.as_ref().map(|g| format!("payload {}, ", g.describe())).unwrap_or_default(), rows_note(c, Some(&d)), st.dict, d.len(), &d[..d.len().min(12)], c.data.len(), &c.data[..c.data.len().min(12)], differ(&d, &c.data, st.content.len()))))
        },
    })
}

/// for a predictor case: which filter types the reference encoder put in front of the rows, and (given the decoded bytes)
/// the first row that came back wrong together with the tag it carries
fn rows_note(c: &Case, got: Option<&[u8]>) -> String {
    if c.predictor < 10 { return String::new(); }
    let bpp = (c.colors * c.bits / 8).max(1);
    let row = bpp * c.columns;
    let mut tags: Vec<u8> = vec![];
    let mut prev = vec![0u8; row];
    for (r, cur) in c.data.chunks(row).enumerate() { tags.push(row_tag(&c.tags, c.predictor, bpp, r, cur, &prev)); prev = cur.to_vec(); prev.resize(row, 0); }
    let shown: String = tags.iter().take(16).map(|t| (b'0' + t) as char).collect();
    let mut s = format!("{} rows of {} bytes under /Predictor {}, row filter tags {}: {}{}; ", tags.len(), row, c.predictor, tags_describe(&c.tags), shown, if tags.len() > 16 { ".." } else { "" });
    if let Some(d) = got {
        let at = d.iter().zip(c.data.iter()).position(|(a, b)| a != b).unwrap_or(d.len().min(c.data.len()));
        if let Some(&t) = tags.get(at / row.max(1)) {
            s += &format!("the first wrong row is row {}, which carries tag {} ({}){}; ", at / row, t, FILTER_NAMES[t as usize], if c.predictor < 15 && t as i64 != c.predictor - 10 { format!(" while Predictor-10 = {} ({}): the tag of the row governs", c.predictor - 10, FILTER_NAMES[(c.predictor - 10) as usize]) } else { String::new() });
        }
    }
    s
}

/// where two byte strings first differ, and the expansion of the encoded stream (for the failure text)
fn differ(got: &[u8], want: &[u8], encoded: usize) -> String {
    let at = got.iter().zip(want.iter()).position(|(a, b)| a != b).unwrap_or(got.len().min(want.len()));
    format!(" (first difference at offset {}{}; the encoded stream has {} bytes, so the expected expansion is {:.1}:1)", at, if at == got.len() && got.len() < want.len() { ": the decoded content is a proper prefix of the expected content" } else { "" }, encoded, want.len() as f64 / encoded.max(1) as f64)
}

/// compress -> decode is the identity, never longer, Length maintained; decompress then compress again is still decodable
pub fn check_compress(data: &[u8]) -> Result<(), (String, String)> {
    let mut s = Stream::new(Dictionary::new(), data.to_vec());
    s.compress().map_err(|e| ("compress".to_string(), e.to_string()))?;
    let len_ok = |s: &Stream| s.dict.get(b"Length").and_then(|o| o.as_i64()).ok() == Some(s.content.len() as i64);
    if !len_ok(&s) { return Err(("length-invariant".into(), "Length != content length after compress".into())); }
    if s.content.len() > data.len() { return Err(("never-longer".into(), format!("{} bytes became {}", data.len(), s.content.len()))); }
    let back = if s.dict.has(b"Filter") { s.decompressed_content().map_err(|e| ("lossless".to_string(), e.to_string()))? } else { s.content.clone() };
    if back != data { return Err(("lossless".into(), format!("compress() then decompressed_content() differs from the original: {} bytes came back as {} bytes{}", data.len(), back.len(), differ(&back, data, s.content.len())))); }
    let mut t = s.clone();
    if t.dict.has(b"Filter") { t.decompress().map_err(|e| ("decompress".to_string(), e.to_string()))?; }
    if !len_ok(&t) || t.dict.has(b"Filter") || t.dict.has(b"DecodeParms") { return Err(("length-invariant".into(), format!("after decompress: {:?}", t.dict))); }
    if t.content != data { return Err(("lossless".into(), format!("compress() then decompress() differs from the original: {} bytes came back as {} bytes{}", data.len(), t.content.len(), differ(&t.content, data, s.content.len())))); }
    Ok(())
}

/// a predictor stream that is decompressed and compressed again must still decode to the same bytes
pub fn check_recompress(c: &Case) -> Result<(), (String, String)> {
    let bpp = (c.colors * c.bits / 8).max(1);
    if c.predictor >= 10 && (c.data.len() % (bpp * c.columns) != 0) { return Ok(()); }
    let mut st = build(c);
    if st.decompress().is_err() { return Ok(()); }
    st.compress().map_err(|e| ("compress".to_string(), e.to_string()))?;
    let back = if st.dict.has(b"Filter") { st.decompressed_content().map_err(|e| ("recompress-decodes".to_string(), format!("{:?}: {}", st.dict, e)))? } else { st.content.clone() };
    if back != c.data { return Err(("recompress-decodes".into(), format!("{}{}after decompress + compress the stream {:?} decodes to different bytes: {} bytes instead of {}{}", c.gen.as_ref().map(|g| format!("payload {}, ", g.describe())).unwrap_or_default(), rows_note(c, Some(&back)), st.dict, back.len(), c.data.len(), differ(&back, &c.data, st.content.len())))); }
    Ok(())
}

fn case_json(c: &Case) -> Value { json!({"data": if c.gen.is_some() { String::new() } else { hex(&c.data) }, "gen": c.gen.as_ref().map(|g| g.json()), "level": c.level, "tags": c.tags, "chain": String::from_utf8_lossy(&c.chain), "predictor": c.predictor, "colors": c.colors, "bits": c.bits, "columns": c.columns, "early": c.early, "parms_array": c.parms_array, "a85_ws": c.a85_ws}) }
fn case_from(v: &Value) -> Case { let gen = Gen::from(&v["gen"]); Case { data: match &gen { Some(g) => g.data(), None => unhex(v["data"].as_str().unwrap_or("")) }, gen, level: v["level"].as_u64().unwrap_or(6) as u32, tags: v["tags"].as_str().unwrap_or("").to_string(), chain: v["chain"].as_str().unwrap_or("F").as_bytes().to_vec(), predictor: v["predictor"].as_i64().unwrap_or(1), colors: v["colors"].as_u64().unwrap_or(1) as usize, bits: v["bits"].as_u64().unwrap_or(8) as usize, columns: v["columns"].as_u64().unwrap_or(1) as usize, early: v["early"].as_i64().unwrap_or(1), parms_array: v["parms_array"].as_bool().unwrap_or(false), a85_ws: v["a85_ws"].as_bool().unwrap_or(false) } }

pub fn run(thorough: bool) -> Report {
    let small = "8 small payloads x all filter chains of length 1..3 over {Flate, LZW, ASCII85} x predictor {1,10..15} x (Colors,BitsPerComponent) in {(1,8),(3,8),(1,16),(4,8)} x Columns {1,2,4} x EarlyChange {0,1} x DecodeParms as dictionary / parallel array x ASCII85 white-space x (for Predictor 10..15, independently of its value) the filter type the reference PNG encoder tags each row with: {Predictor-10 on every row (r mod 5 for 15), each fixed type 0..4, the five rotations of 0,1,2,3,4 over the rows, PNG's minimum-sum-of-absolute-differences choice per row}".to_string() + if thorough { " (all twelve on chains of one and two filters; the hinted type, the heuristic and the rotation 3,4,0,1,2 on chains of three)" } else { " (all twelve on the single-filter chains; the hinted type, the heuristic and the rotation 3,4,0,1,2 on chains of two filters; the hinted type on chains of three)" } + "; plus every ASCII85 final partial group for lengths 0..16";
    let seqs = if thorough { "plus every sequence of row filter types in {None,Sub,Up,Average,Paeth}^n for frames of n = 1..5 pseudo-random rows (3905 sequences, 2 seeds) x every Predictor 10..15 x (Colors,BitsPerComponent,Columns) in {(1,8,3),(3,8,2),(1,16,2)} x {FlateDecode, LZWDecode}" } else { "plus every sequence of row filter types in {None,Sub,Up,Average,Paeth}^n for frames of n = 1..3 pseudo-random rows (155 sequences) x every Predictor 10..15 x (Colors,BitsPerComponent,Columns) in {(1,8,3),(3,8,2),(1,16,2)} x {FlateDecode, LZWDecode}" };
    let family = if thorough {
        "plus the size x redundancy family of byte strings: kind {const (one byte value p in {0,255}), period (p in {3,1000}), runs (of length p in {4096,300}), sparse (zeros, one non-zero byte every p in {512,40000}), text (pseudo-random over 16 symbols, 2 seeds), noise (pseudo-random bytes, 2 seeds)} x length {2^k for k=10..23, 3*2^(k-1) for k=10..22} (up to 8 MiB; FlateDecode expansion from 1:1 = stored blocks up to ~1028:1 of deflate's maximum 1032:1, LZWDecode up to ~1265:1; the exact figures are in the first sample) x all filter chains of length 1..2 x (Predictor,Colors,BitsPerComponent,Columns) in {none,(12,1,8,1024),(15,4,8,64),(11,1,16,2048),(14,3,8,512)} x level of the reference deflate encoder {0,1,6,9} x EarlyChange {0,1}, and on the single-filter chains each predictor geometry also with row filter types chosen by PNG's minimum-sum heuristic and by the rotation 3,4,0,1,2 (frames of up to 2^15 rows); every payload of the family also through compress() / decompressed_content() / decompress() (lossless, never longer, Length)"
    } else {
        "plus the size x redundancy family of byte strings: kind {const (byte value 0), period 3, runs of length 4096, sparse (zeros, one non-zero byte every 512), text (pseudo-random over 16 symbols), noise (pseudo-random bytes)} x length {2^10, 2^13, 2^16, 2^18, 2^20, 2^21, 2^22} (up to 4 MiB; FlateDecode expansion from 1:1 = stored blocks up to ~1026:1 of deflate's maximum 1032:1, LZWDecode up to ~1050:1; the exact figures are in the first sample) x all filter chains of length 1..2 x (Predictor,Colors,BitsPerComponent,Columns) in {none,(12,1,8,1024),(15,4,8,64)} x level of the reference deflate encoder {6,9} x EarlyChange {1; 0 for single-filter chains}, and on the single-filter chains each predictor geometry also with row filter types chosen by PNG's minimum-sum heuristic and by the rotation 3,4,0,1,2 (frames of up to 2^14 rows); every payload of the family also through compress() / decompressed_content() / decompress() (lossless, never longer, Length)"
    };
    let mut rep = Report::new(&format!("{}; {}; {}", small, seqs, family), true);
    let mut chains: Vec<Vec<u8>> = vec![];
    for a in b"FLA" { chains.push(vec![*a]); for b in b"FLA" { chains.push(vec![*a, *b]); for c in b"FLA" { chains.push(vec![*a, *b, *c]); } } }
    let mut cases: Vec<Case> = vec![];
    // the reference PNG encoder's row-filter policies (see `row_tag`): the hinted type, each fixed type, the five rotations of 0,1,2,3,4, PNG's heuristic
    let policies: Vec<&str> = vec!["", "0", "1", "2", "3", "4", "01234", "12340", "23401", "34012", "40123", "minsum"];
    let hinted = |predictor: i64| -> String { if predictor == 15 { "01234".into() } else { (predictor - 10).to_string() } };
    for data in payloads() { for chain in &chains { for predictor in [1i64, 10, 11, 12, 13, 14, 15] { for (colors, bits) in [(1usize, 8usize), (3, 8), (1, 16), (4, 8)] { for columns in [1usize, 2, 4] { for early in [0i64, 1] { for parms_array in [false, true] {
        let last = *chain.last().unwrap();
        if predictor >= 10 && last == b'A' { continue; }
        if predictor == 1 && (colors != 1 || columns != 1) { continue; }
        if early == 0 && !chain.contains(&b'L') { continue; }
        for tags in &policies {
            if tags.is_empty() { cases.push(Case { data: data.clone(), chain: chain.clone(), predictor, colors, bits, columns, early, parms_array, a85_ws: columns == 2, level: 6, tags: String::new(), gen: None }); continue; }
            // the other row-filter policies: only with a PNG predictor, only when they differ from the hinted one, and only on whole rows
            if predictor < 10 || *tags == hinted(predictor) || data.is_empty() || data.len() % ((colors * bits / 8) * columns) != 0 { continue; }
            // all policies on the single-filter chains (thorough: and on the chains of two filters); the heuristic and one rotation on
            // the chains of two filters (thorough: of three filters)
            if chain.len() > (if thorough { 2 } else { 1 }) && (chain.len() > (if thorough { 3 } else { 2 }) || !["minsum", "34012"].contains(tags)) { continue; }
            cases.push(Case { data: data.clone(), chain: chain.clone(), predictor, colors, bits, columns, early, parms_array, a85_ws: columns == 2, level: 6, tags: tags.to_string(), gen: None });
        }
    } } } } } } }
    // ---- every sequence of row filter types: {0..4}^n for frames of n rows x every Predictor 10..15 x geometry x {Flate, LZW},
    // on pseudo-random rows (so that any two filter types reconstruct a row differently)
    for n in 1..=(if thorough { 5usize } else { 3 }) { for seq in 0..5usize.pow(n as u32) {
        let tags: String = (0..n).map(|r| (b'0' + (seq / 5usize.pow(r as u32) % 5) as u8) as char).collect();
        for predictor in 10i64..=15 { for (colors, bits, columns) in [(1usize, 8usize, 3usize), (3, 8, 2), (1, 16, 2)] { for f in [b'F', b'L'] { for seed in if thorough { vec![1usize, 2] } else { vec![1] } {
            let g = Gen { kind: "noise".into(), len: n * (colors * bits / 8) * columns, p: seed + 2 * n };
            cases.push(Case { data: g.data(), chain: vec![f], predictor, colors, bits, columns, early: 1, parms_array: seq % 2 == 1, a85_ws: false, level: 6, tags: tags.clone(), gen: Some(g) });
        } } } }
    } }
    use rayon::prelude::*;
    let results: Vec<(usize, Vec<(String, String, Value)>)> = cases.par_iter().enumerate().map(|(i, c)| {
        let mut f = vec![];
        if let Err((o, d)) = check(c) { f.push((o, d, case_json(c))); }
        if c.chain.len() == 1 && c.predictor >= 10 { if let Err((o, d)) = check_recompress(c) { f.push((o, d, json!({"recompress": case_json(c)}))); } }
        (i, f)
    }).collect();
    for (i, f) in results { rep.case(!cases[i].data.is_empty()); for (o, d, inp) in f { rep.fail(&o, d.clone(), inp, d); } }
    for n in 0..=16usize { let data: Vec<u8> = (0..n as u8).map(|i| i.wrapping_mul(67).wrapping_add(200)).collect(); let c = Case { data, chain: vec![b'A'], predictor: 1, colors: 1, bits: 8, columns: 1, early: 1, parms_array: false, a85_ws: n % 2 == 0, level: 6, tags: String::new(), gen: None }; rep.case(true); if let Err((o, d)) = check(&c) { rep.fail(&o, d.clone(), case_json(&c), d); } }
    for data in payloads() { rep.case(true); if let Err((o, d)) = check_compress(&data) { rep.fail(&o, d.clone(), json!({"compress": hex(&data)}), d); } }
    let big: Vec<u8> = (0..5000u32).map(|i| (i % 7) as u8).collect();
    if let Err((o, d)) = check_compress(&big) { rep.fail(&o, d.clone(), json!({"compress": hex(&big)}), d); }
    // ---- the size x redundancy family (see `Gen`): every generated payload through every chain of length 1..2, with and
    // without a PNG predictor of realistic row width, at several levels of the reference deflate encoder, and through compress()
    #[derive(Clone)]
    struct Big { g: Gen, chain: Vec<u8>, predictor: i64, colors: usize, bits: usize, columns: usize, early: i64, level: u32, compress: bool, tags: &'static str }
    let geoms: Vec<(i64, usize, usize, usize)> = if thorough { vec![(1, 1, 8, 1), (12, 1, 8, 1024), (15, 4, 8, 64), (11, 1, 16, 2048), (14, 3, 8, 512)] } else { vec![(1, 1, 8, 1), (12, 1, 8, 1024), (15, 4, 8, 64)] };
    let levels: Vec<u32> = if thorough { vec![0, 1, 6, 9] } else { vec![6, 9] };
    let mut bigs: Vec<Big> = vec![];
    for g in gens(thorough) {
        bigs.push(Big { g: g.clone(), chain: vec![], predictor: 1, colors: 1, bits: 8, columns: 1, early: 1, level: 9, compress: true, tags: "" });
        for chain in chains.iter().filter(|c| c.len() <= 2) { for &(predictor, colors, bits, columns) in &geoms { for &level in &levels { for early in [1i64, 0] {
            if predictor >= 10 && (*chain.last().unwrap() == b'A' || g.len % ((colors * bits / 8) * columns) != 0) { continue; }
            if level != levels[0] && !chain.contains(&b'F') { continue; }
            if early == 0 && (!chain.contains(&b'L') || (!thorough && chain.len() > 1)) { continue; }
            bigs.push(Big { g: g.clone(), chain: chain.clone(), predictor, colors, bits, columns, early, level, compress: false, tags: "" });
            // long frames (up to 2^17 rows) whose row filter types are not the hinted ones: the heuristic choice and a rotation, under the
            // Predictor values of the geometries; once per geometry, on the single-filter chains
            if predictor >= 10 && chain.len() == 1 && level == levels[0] && early == 1 { for tags in ["minsum", "34012"] {
                bigs.push(Big { g: g.clone(), chain: chain.clone(), predictor, colors, bits, columns, early, level, compress: false, tags });
            } }
        } } } }
    }
    bigs.sort_by(|a, b| b.g.len.cmp(&a.g.len)); // longest first, so that the parallel schedule has no long tail
    // (failures, encoded length) per case
    let big_results: Vec<(Vec<(String, String, Value)>, usize)> = bigs.par_iter().map(|b| {
        let data = b.g.data();
        let mut f = vec![];
        if b.compress { if let Err((o, d)) = check_compress(&data) { f.push((o, format!("payload {}: {}", b.g.describe(), d), json!({"compress_gen": b.g.json()}))); } return (f, 0); }
        let c = Case { data, chain: b.chain.clone(), predictor: b.predictor, colors: b.colors, bits: b.bits, columns: b.columns, early: b.early, parms_array: false, a85_ws: b.g.len.trailing_zeros() % 2 == 0, level: b.level, tags: b.tags.to_string(), gen: Some(b.g.clone()) };
        let (enc, r) = check_len(&c);
        if let Err((o, d)) = r { f.push((o, d, case_json(&c))); }
        if c.chain.len() == 1 && c.predictor >= 10 { if let Err((o, d)) = check_recompress(&c) { f.push((o, d, json!({"recompress": case_json(&c)}))); } }
        (f, enc)
    }).collect();
    let (mut max_f, mut max_l, mut min_f) = ((0f64, String::new()), (0f64, String::new()), f64::MAX);
    for (b, (f, enc)) in bigs.iter().zip(big_results) {
        rep.case(true);
        for (o, d, inp) in f { rep.fail(&o, d.clone(), inp, d); }
        if !b.compress && b.chain.len() == 1 && b.predictor == 1 && enc > 0 {
            let ratio = b.g.len as f64 / enc as f64;
            let what = format!("{:.1}:1 for {} at {}", ratio, b.g.describe(), if b.chain[0] == b'F' { format!("deflate level {}", b.level) } else { format!("EarlyChange {}", b.early) });
            if b.chain[0] == b'F' { if ratio > max_f.0 { max_f = (ratio, what); } if ratio < min_f { min_f = ratio; } } else if b.chain[0] == b'L' && ratio > max_l.0 { max_l = (ratio, what); }
        }
    }
    rep.sample(format!("expansion ratios reached by the size x redundancy family: FlateDecode from {:.3}:1 up to {} (the format's maximum is 1032:1); LZWDecode up to {}", min_f, max_f.1, max_l.1));
    rep.sample("payload 0..=255, chain [ASCII85Decode FlateDecode], Predictor 15, Colors 3, Columns 4, DecodeParms [null <<...>>]".into());
    rep.sample("payload 0..=255, chain [FlateDecode], Predictor 12 (Up), Columns 4, rows tagged 3,4,0,1,2,3,.. (Average, Paeth, None, Sub, Up): the tag byte of each row governs".into());
    rep
}

pub fn replay(v: &Value) -> Result<(), String> {
    if let Some(g) = Gen::from(&v["compress_gen"]) { return check_compress(&g.data()).map_err(|e| format!("payload {}: {}: {}", g.describe(), e.0, e.1)); }
    if let Some(h) = v["compress"].as_str() { return check_compress(&unhex(h)).map_err(|e| format!("{}: {}", e.0, e.1)); }
    if v.get("recompress").is_some() { return check_recompress(&case_from(&v["recompress"])).map_err(|e| format!("{}: {}", e.0, e.1)); }
    check(&case_from(v)).map_err(|e| format!("{}: {}", e.0, e.1))
}
