//! C09: stream filters decode as specified; compression is lossless (bounded: reference encoders generate the inputs).
#![allow(dead_code)]
use crate::common::*;
use crate::gen::*;
use lopdf::{Dictionary, Object, Stream};
use serde_json::{json, Value};
use std::io::Write as _;

fn zlib(data: &[u8]) -> Vec<u8> { let mut e = flate2::write::ZlibEncoder::new(Vec::new(), flate2::Compression::default()); e.write_all(data).unwrap(); e.finish().unwrap() }
fn lzw(data: &[u8], early: bool) -> Vec<u8> {
    let mut enc = if early { weezl::encode::Encoder::with_tiff_size_switch(weezl::BitOrder::Msb, 8) } else { weezl::encode::Encoder::new(weezl::BitOrder::Msb, 8) };
    enc.encode(data).unwrap()
}
fn a85(data: &[u8], with_ws: bool, use_z: bool) -> Vec<u8> {
    let mut out = vec![];
    for (gi, chunk) in data.chunks(4).enumerate() {
        let mut v: u32 = 0;
        for i in 0..4 { v = (v << 8) | *chunk.get(i).unwrap_or(&0) as u32; }
        if chunk.len() == 4 && v == 0 && use_z { out.push(b'z'); } else {
            let mut digits = [0u8; 5];
            let mut t = v;
            for i in (0..5).rev() { digits[i] = (t % 85) as u8 + b'!'; t /= 85; }
            out.extend_from_slice(&digits[..chunk.len() + 1]);
        }
        if with_ws && gi % 3 == 2 { out.extend_from_slice(b"\n "); }
    }
    out.extend_from_slice(b"~>");
    out
}
fn paeth(a: u8, b: u8, c: u8) -> u8 { let (a1, b1, c1) = (a as i32, b as i32, c as i32); let p = a1 + b1 - c1; let (pa, pb, pc) = ((p - a1).abs(), (p - b1).abs(), (p - c1).abs()); if pa <= pb && pa <= pc { a } else if pb <= pc { b } else { c } }
/// PNG prediction (encoder side), one filter type per row chosen by `pick`
fn png_predict(data: &[u8], bpp: usize, row: usize, pick: impl Fn(usize) -> u8) -> Vec<u8> {
    let mut out = vec![];
    let mut prev = vec![0u8; row];
    for (r, cur) in data.chunks(row).enumerate() {
        let f = pick(r);
        out.push(f);
        for i in 0..cur.len() {
            let a = if i >= bpp { cur[i - bpp] } else { 0 };
            let b = prev[i];
            let c = if i >= bpp { prev[i - bpp] } else { 0 };
            let pred = match f { 0 => 0, 1 => a, 2 => b, 3 => ((a as u16 + b as u16) / 2) as u8, _ => paeth(a, b, c) };
            out.push(cur[i].wrapping_sub(pred));
        }
        prev = cur.to_vec();
        prev.resize(row, 0);
    }
    out
}

#[derive(Clone, Debug)]
pub struct Case { pub data: Vec<u8>, pub chain: Vec<u8>, pub predictor: i64, pub colors: usize, pub bits: usize, pub columns: usize, pub early: i64, pub parms_array: bool, pub a85_ws: bool }

fn payloads() -> Vec<Vec<u8>> {
    vec![vec![], vec![0], b"abc".to_vec(), vec![0, 0, 0, 0, 1, 2, 3, 4, 0, 0, 0, 0], (0..=255u8).collect(), (0..96u8).map(|i| i.wrapping_mul(73) ^ 0x5a).collect(), vec![255; 40], (0..64u8).map(|i| if i % 2 == 0 { 1 } else { 255 }).collect()]
}

pub fn build(c: &Case) -> Stream {
    let bpp = (c.colors * c.bits / 8).max(1);
    let row = bpp * c.columns;
    let mut cur = c.data.clone();
    let mut names = vec![];
    let mut parms: Vec<Object> = vec![];
    // encode in reverse of decoding order: the LAST filter in `chain` is applied first when encoding
    for (k, f) in c.chain.iter().enumerate().rev() {
        let innermost = k == c.chain.len() - 1;
        match f {
            b'F' | b'L' => {
                let mut d = Dictionary::new();
                if innermost && c.predictor >= 10 {
                    cur = png_predict(&cur, bpp, row, |r| if c.predictor == 15 { (r % 5) as u8 } else { (c.predictor - 10) as u8 });
                    d.set("Predictor", c.predictor); d.set("Columns", c.columns as i64); if c.colors != 1 { d.set("Colors", c.colors as i64); } if c.bits != 8 { d.set("BitsPerComponent", c.bits as i64); }
                }
                if *f == b'L' { if c.early == 0 { d.set("EarlyChange", 0i64); } cur = lzw(&cur, c.early != 0); names.push(b"LZWDecode".to_vec()); } else { cur = zlib(&cur); names.push(b"FlateDecode".to_vec()); }
                parms.push(if d.is_empty() { Object::Null } else { Object::Dictionary(d) });
            }
            _ => { cur = a85(&cur, c.a85_ws, true); names.push(b"ASCII85Decode".to_vec()); parms.push(Object::Null); }
        }
    }
    names.reverse(); parms.reverse();
    let mut dict = Dictionary::new();
    if names.len() == 1 && !c.parms_array { dict.set("Filter", Object::Name(names[0].clone())); } else { dict.set("Filter", Object::Array(names.into_iter().map(Object::Name).collect())); }
    if parms.iter().any(|p| !matches!(p, Object::Null)) {
        if c.parms_array || parms.len() > 1 { dict.set("DecodeParms", Object::Array(parms)); } else { dict.set("DecodeParms", parms[0].clone()); }
    }
    Stream::new(dict, cur)
}

pub fn check(c: &Case) -> Result<(), (String, String)> {
    let bpp = (c.colors * c.bits / 8).max(1);
    if c.predictor >= 10 && (c.data.len() % (bpp * c.columns) != 0) { return Ok(()); }
    let st = build(c);
    match guarded(std::panic::AssertUnwindSafe(|| st.decompressed_content())) {
        Err(p) => Err(("no-panic".into(), p)),
        Ok(Err(e)) => Err(("decodes".into(), format!("{:?}: {}", st.dict, e))),
        Ok(Ok(d)) => if d == c.data { Ok(()) } else { Err(("decode-equals-reference".into(), format!("dict {:?}: decoded {} bytes {:02x?}.., expected {} bytes {:02x?}..", st.dict, d.len(), &d[..d.len().min(12)], c.data.len(), &c.data[..c.data.len().min(12)]))) },
    }
}

/// compress -> decode is the identity, never longer, Length maintained; decompress then compress again is still decodable
pub fn check_compress(data: &[u8]) -> Result<(), (String, String)> {
    let mut s = Stream::new(Dictionary::new(), data.to_vec());
    s.compress().map_err(|e| ("compress".to_string(), e.to_string()))?;
    let len_ok = |s: &Stream| s.dict.get(b"Length").and_then(|o| o.as_i64()).ok() == Some(s.content.len() as i64);
    if !len_ok(&s) { return Err(("length-invariant".into(), "Length != content length after compress".into())); }
    if s.content.len() > data.len() { return Err(("never-longer".into(), format!("{} bytes became {}", data.len(), s.content.len()))); }
    let back = if s.dict.has(b"Filter") { s.decompressed_content().map_err(|e| ("lossless".to_string(), e.to_string()))? } else { s.content.clone() };
    if back != data { return Err(("lossless".into(), "compress then decode differs from the original".into())); }
    let mut t = s.clone();
    if t.dict.has(b"Filter") { t.decompress().map_err(|e| ("decompress".to_string(), e.to_string()))?; }
    if !len_ok(&t) || t.dict.has(b"Filter") || t.dict.has(b"DecodeParms") { return Err(("length-invariant".into(), format!("after decompress: {:?}", t.dict))); }
    if t.content != data { return Err(("lossless".into(), "decompress differs".into())); }
    Ok(())
}

/// a predictor stream that is decompressed and compressed again must still decode to the same bytes
pub fn check_recompress(c: &Case) -> Result<(), (String, String)> {
    let bpp = (c.colors * c.bits / 8).max(1);
    if c.predictor >= 10 && (c.data.len() % (bpp * c.columns) != 0) { return Ok(()); }
    let mut st = build(c);
    if st.decompress().is_err() { return Ok(()); }
    st.compress().map_err(|e| ("compress".to_string(), e.to_string()))?;
    let back = if st.dict.has(b"Filter") { st.decompressed_content().map_err(|e| ("recompress-decodes".to_string(), format!("{:?}: {}", st.dict, e)))? } else { st.content.clone() };
    if back != c.data { return Err(("recompress-decodes".into(), format!("after decompress + compress the stream {:?} decodes to different bytes", st.dict))); }
    Ok(())
}

fn case_json(c: &Case) -> Value { json!({"data": hex(&c.data), "chain": String::from_utf8_lossy(&c.chain), "predictor": c.predictor, "colors": c.colors, "bits": c.bits, "columns": c.columns, "early": c.early, "parms_array": c.parms_array, "a85_ws": c.a85_ws}) }
fn case_from(v: &Value) -> Case { Case { data: unhex(v["data"].as_str().unwrap_or("")), chain: v["chain"].as_str().unwrap_or("F").as_bytes().to_vec(), predictor: v["predictor"].as_i64().unwrap_or(1), colors: v["colors"].as_u64().unwrap_or(1) as usize, bits: v["bits"].as_u64().unwrap_or(8) as usize, columns: v["columns"].as_u64().unwrap_or(1) as usize, early: v["early"].as_i64().unwrap_or(1), parms_array: v["parms_array"].as_bool().unwrap_or(false), a85_ws: v["a85_ws"].as_bool().unwrap_or(false) } }

pub fn run(thorough: bool) -> Report {
    let mut rep = Report::new("8 payloads x all filter chains of length 1..3 over {Flate, LZW, ASCII85} x predictor {1,10..15} x (Colors,BitsPerComponent) in {(1,8),(3,8),(1,16),(4,8)} x Columns {1,2,4} x EarlyChange {0,1} x DecodeParms as dictionary / parallel array x ASCII85 white-space; plus every ASCII85 final partial group for lengths 0..16", true);
    let mut chains: Vec<Vec<u8>> = vec![];
    for a in b"FLA" { chains.push(vec![*a]); for b in b"FLA" { chains.push(vec![*a, *b]); for c in b"FLA" { chains.push(vec![*a, *b, *c]); } } }
    let _ = thorough;
    let mut cases: Vec<Case> = vec![];
    for data in payloads() { for chain in &chains { for predictor in [1i64, 10, 11, 12, 13, 14, 15] { for (colors, bits) in [(1usize, 8usize), (3, 8), (1, 16), (4, 8)] { for columns in [1usize, 2, 4] { for early in [0i64, 1] { for parms_array in [false, true] {
        let last = *chain.last().unwrap();
        if predictor >= 10 && last == b'A' { continue; }
        if predictor == 1 && (colors != 1 || columns != 1) { continue; }
        if early == 0 && !chain.contains(&b'L') { continue; }
        cases.push(Case { data: data.clone(), chain: chain.clone(), predictor, colors, bits, columns, early, parms_array, a85_ws: columns == 2 });
    } } } } } } }
    use rayon::prelude::*;
    let results: Vec<(usize, Vec<(String, String, Value)>)> = cases.par_iter().enumerate().map(|(i, c)| {
        let mut f = vec![];
        if let Err((o, d)) = check(c) { f.push((o, d, case_json(c))); }
        if c.chain.len() == 1 && c.predictor >= 10 { if let Err((o, d)) = check_recompress(c) { f.push((o, d, json!({"recompress": case_json(c)}))); } }
        (i, f)
    }).collect();
    for (i, f) in results { rep.case(!cases[i].data.is_empty()); for (o, d, inp) in f { rep.fail(&o, d.clone(), inp, d); } }
    for n in 0..=16usize { let data: Vec<u8> = (0..n as u8).map(|i| i.wrapping_mul(67).wrapping_add(200)).collect(); let c = Case { data, chain: vec![b'A'], predictor: 1, colors: 1, bits: 8, columns: 1, early: 1, parms_array: false, a85_ws: n % 2 == 0 }; rep.case(true); if let Err((o, d)) = check(&c) { rep.fail(&o, d.clone(), case_json(&c), d); } }
    for data in payloads() { rep.case(true); if let Err((o, d)) = check_compress(&data) { rep.fail(&o, d.clone(), json!({"compress": hex(&data)}), d); } }
    let big: Vec<u8> = (0..5000u32).map(|i| (i % 7) as u8).collect();
    if let Err((o, d)) = check_compress(&big) { rep.fail(&o, d.clone(), json!({"compress": hex(&big)}), d); }
    rep.sample("payload 0..=255, chain [ASCII85Decode FlateDecode], Predictor 15, Colors 3, Columns 4, DecodeParms [null <<...>>]".into());
    rep
}

pub fn replay(v: &Value) -> Result<(), String> {
    if let Some(h) = v["compress"].as_str() { return check_compress(&unhex(h)).map_err(|e| format!("{}: {}", e.0, e.1)); }
    if v.get("recompress").is_some() { return check_recompress(&case_from(&v["recompress"])).map_err(|e| format!("{}: {}", e.0, e.1)); }
    check(&case_from(v)).map_err(|e| format!("{}: {}", e.0, e.1))
}
