//! C11: editing operations keep the document sound (bounded-exhaustive, E3).
//!
//! Every sequence of at most N public editing calls (N = 2 quick, 3 thorough) over a fixed operation alphabet is
//! applied to each of 10 well-formed seed documents (one of them, whose steps are slow, with N = 2 in both tiers), once as generated and once as loaded from its own saved file.
//! After every call the real post-state is compared with what the property statement implies for the real
//! pre-state (a Hoare triple per step).  All observations of a state (reachability, page tree, page content,
//! stream decoding incl. inflate/LZW/ASCII85 and the decode parameters of ISO 32000-1 7.4.4.3-4 (PNG predictors,
//! DecodeParms as one dictionary or as an array parallel to the filters), usable resources) are re-implemented
//! here and do not call the library.  How a content stream is STORED (filter chain x decode parameters) is a
//! dimension of the start documents: "each page's decoded content is what the content edits imply" speaks about
//! the decoded data, so every editing call has to leave the stream dictionary (Filter, DecodeParms, Length) and
//! the stored bytes describing the same data, whatever the encoding the stream had before the call.
#![allow(dead_code)]
use crate::c03::{obj_from_json, obj_json};
use crate::common::*;
use crate::gen::{dict_eq, obj_eq, BOOKKEEPING};
use lopdf::content::{Content, Operation};
use lopdf::xref::XrefType;
use lopdf::{Bookmark, Dictionary, Document, Object, Stream, StringFormat};
use rayon::prelude::*;
use serde_json::{json, Value};
use std::collections::{BTreeMap, BTreeSet};
use std::panic::AssertUnwindSafe;

type Id = (u32, u16);
type ResSet = BTreeSet<(Vec<u8>, Vec<u8>)>;

fn quiet<T>(f: impl FnOnce() -> T) -> Result<T, String> {
    std::panic::catch_unwind(AssertUnwindSafe(f)).map_err(|e| {
        if let Some(s) = e.downcast_ref::<String>() { s.clone() } else if let Some(s) = e.downcast_ref::<&str>() { s.to_string() } else { "panic".to_string() }
    })
}

// ---------------------------------------------------------------------------------------------------------
// independent stream decoding: zlib/deflate (after RFC 1950/1951) and ASCII85
// ---------------------------------------------------------------------------------------------------------

struct Bits<'a> { data: &'a [u8], pos: usize, buf: u32, cnt: u32 }

impl<'a> Bits<'a> {
    fn bits(&mut self, need: u32) -> Result<u32, String> {
        let mut val = self.buf;
        while self.cnt < need {
            if self.pos >= self.data.len() { return Err("deflate: out of input".into()); }
            val |= (self.data[self.pos] as u32) << self.cnt;
            self.pos += 1;
            self.cnt += 8;
        }
        self.buf = val >> need;
        self.cnt -= need;
        Ok(val & ((1u32 << need) - 1))
    }
    fn decode(&mut self, h: &Huff) -> Result<u16, String> {
        let (mut code, mut first, mut index) = (0i32, 0i32, 0i32);
        for len in 1..=15usize {
            code |= self.bits(1)? as i32;
            let count = h.count[len] as i32;
            if code - count < first { return Ok(h.symbol[(index + (code - first)) as usize]); }
            index += count;
            first += count;
            first <<= 1;
            code <<= 1;
        }
        Err("deflate: bad code".into())
    }
}

struct Huff { count: [u16; 16], symbol: Vec<u16> }

fn huff(lengths: &[u8]) -> Huff {
    let mut count = [0u16; 16];
    for &l in lengths { count[l as usize] += 1; }
    let mut offs = [0u16; 16];
    for len in 1..15 { offs[len + 1] = offs[len] + count[len]; }
    let mut symbol = vec![0u16; lengths.len()];
    for (s, &l) in lengths.iter().enumerate() {
        if l != 0 { symbol[offs[l as usize] as usize] = s as u16; offs[l as usize] += 1; }
    }
    count[0] = 0;
    Huff { count, symbol }
}

const LENS: [u16; 29] = [3, 4, 5, 6, 7, 8, 9, 10, 11, 13, 15, 17, 19, 23, 27, 31, 35, 43, 51, 59, 67, 83, 99, 115, 131, 163, 195, 227, 258];
const LEXT: [u32; 29] = [0, 0, 0, 0, 0, 0, 0, 0, 1, 1, 1, 1, 2, 2, 2, 2, 3, 3, 3, 3, 4, 4, 4, 4, 5, 5, 5, 5, 0];
const DISTS: [u16; 30] = [1, 2, 3, 4, 5, 7, 9, 13, 17, 25, 33, 49, 65, 97, 129, 193, 257, 385, 513, 769, 1025, 1537, 2049, 3073, 4097, 6145, 8193, 12289, 16385, 24577];
const DEXT: [u32; 30] = [0, 0, 0, 0, 1, 1, 2, 2, 3, 3, 4, 4, 5, 5, 6, 6, 7, 7, 8, 8, 9, 9, 10, 10, 11, 11, 12, 12, 13, 13];

fn inflate_codes(b: &mut Bits, out: &mut Vec<u8>, lc: &Huff, dc: &Huff) -> Result<(), String> {
    loop {
        let sym = b.decode(lc)? as usize;
        if sym < 256 { out.push(sym as u8); }
        else if sym == 256 { return Ok(()); }
        else {
            let s = sym - 257;
            if s >= 29 { return Err("deflate: bad length symbol".into()); }
            let len = LENS[s] as usize + b.bits(LEXT[s])? as usize;
            let ds = b.decode(dc)? as usize;
            if ds >= 30 { return Err("deflate: bad distance symbol".into()); }
            let dist = DISTS[ds] as usize + b.bits(DEXT[ds])? as usize;
            if dist > out.len() { return Err("deflate: distance too far".into()); }
            for _ in 0..len { let c = out[out.len() - dist]; out.push(c); }
        }
        if out.len() > (1 << 22) { return Err("deflate: output too large".into()); }
    }
}

fn inflate(data: &[u8]) -> Result<Vec<u8>, String> {
    let mut b = Bits { data, pos: 0, buf: 0, cnt: 0 };
    let mut out = vec![];
    loop {
        let last = b.bits(1)?;
        let ty = b.bits(2)?;
        match ty {
            0 => {
                b.buf = 0; b.cnt = 0;
                if b.pos + 4 > data.len() { return Err("deflate: stored header".into()); }
                let len = data[b.pos] as usize | (data[b.pos + 1] as usize) << 8;
                let nlen = data[b.pos + 2] as usize | (data[b.pos + 3] as usize) << 8;
                if len != (!nlen & 0xffff) { return Err("deflate: stored length".into()); }
                b.pos += 4;
                if b.pos + len > data.len() { return Err("deflate: stored data".into()); }
                out.extend_from_slice(&data[b.pos..b.pos + len]);
                b.pos += len;
            }
            1 => {
                let mut l = [0u8; 288];
                for (i, x) in l.iter_mut().enumerate() { *x = if i < 144 { 8 } else if i < 256 { 9 } else if i < 280 { 7 } else { 8 }; }
                let lc = huff(&l);
                let dc = huff(&[5u8; 30]);
                inflate_codes(&mut b, &mut out, &lc, &dc)?;
            }
            2 => {
                let nlen = b.bits(5)? as usize + 257;
                let ndist = b.bits(5)? as usize + 1;
                let ncode = b.bits(4)? as usize + 4;
                if nlen > 286 || ndist > 30 { return Err("deflate: bad counts".into()); }
                const ORDER: [usize; 19] = [16, 17, 18, 0, 8, 7, 9, 6, 10, 5, 11, 4, 12, 3, 13, 2, 14, 1, 15];
                let mut cl = [0u8; 19];
                for &o in ORDER.iter().take(ncode) { cl[o] = b.bits(3)? as u8; }
                let clc = huff(&cl);
                let mut lengths = vec![0u8; nlen + ndist];
                let mut i = 0;
                while i < nlen + ndist {
                    let sym = b.decode(&clc)?;
                    if sym < 16 { lengths[i] = sym as u8; i += 1; }
                    else {
                        let (val, rep) = match sym {
                            16 => { if i == 0 { return Err("deflate: repeat without previous".into()); } (lengths[i - 1], 3 + b.bits(2)? as usize) }
                            17 => (0, 3 + b.bits(3)? as usize),
                            _ => (0, 11 + b.bits(7)? as usize),
                        };
                        if i + rep > nlen + ndist { return Err("deflate: too many lengths".into()); }
                        for _ in 0..rep { lengths[i] = val; i += 1; }
                    }
                }
                let lc = huff(&lengths[..nlen]);
                let dc = huff(&lengths[nlen..]);
                inflate_codes(&mut b, &mut out, &lc, &dc)?;
            }
            _ => return Err("deflate: bad block type".into()),
        }
        if last == 1 { break; }
    }
    Ok(out)
}

fn unzlib(data: &[u8]) -> Result<Vec<u8>, String> {
    if data.is_empty() { return Ok(vec![]); }
    if data.len() < 2 || data[0] & 0x0f != 8 || ((data[0] as u32) << 8 | data[1] as u32) % 31 != 0 { return Err("zlib: bad header".into()); }
    inflate(&data[2..])
}

fn a85_decode(input: &[u8]) -> Result<Vec<u8>, String> {
    let mut body = input;
    if let Some(p) = input.windows(2).position(|w| w == b"~>") { body = &input[..p]; }
    let mut out = vec![];
    let mut group: Vec<u64> = vec![];
    for &c in body {
        if c == b'z' && group.is_empty() { out.extend_from_slice(&[0, 0, 0, 0]); continue; }
        if matches!(c, b' ' | b'\t' | b'\r' | b'\n' | 0x0c | 0) { continue; }
        if !(b'!'..=b'u').contains(&c) { return Err("ascii85: bad character".into()); }
        group.push((c - b'!') as u64);
        if group.len() == 5 {
            let v = group.iter().fold(0u64, |a, d| a * 85 + d);
            if v > u32::MAX as u64 { return Err("ascii85: group overflow".into()); }
            out.extend_from_slice(&(v as u32).to_be_bytes());
            group.clear();
        }
    }
    if group.len() == 1 { return Err("ascii85: single trailing character".into()); }
    if !group.is_empty() {
        let n = group.len();
        while group.len() < 5 { group.push(84); }
        let v = group.iter().fold(0u64, |a, d| a * 85 + d);
        if v > u32::MAX as u64 { return Err("ascii85: group overflow".into()); }
        out.extend_from_slice(&(v as u32).to_be_bytes()[..n - 1]);
    }
    Ok(out)
}

fn a85_encode(data: &[u8]) -> Vec<u8> {
    let mut out = vec![];
    for ch in data.chunks(4) {
        let mut w = [0u8; 4];
        w[..ch.len()].copy_from_slice(ch);
        let mut v = u32::from_be_bytes(w) as u64;
        if ch.len() == 4 && v == 0 { out.push(b'z'); continue; }
        let mut d = [0u8; 5];
        for k in (0..5).rev() { d[k] = (v % 85) as u8 + b'!'; v /= 85; }
        out.extend_from_slice(&d[..ch.len() + 1]);
    }
    out.extend_from_slice(b"~>");
    out
}

/// LZW of ISO 32000-1 7.4.4.2 (codes 0-255 bytes, 256 clear table, 257 end of data, table entries from 258, codes packed
/// high-order bit first, 9 bits wide until the table holds 511 - EarlyChange entries; wider codes are not modelled because no
/// start document of this module holds that much LZW data and the library never writes LZW)
fn unlzw(data: &[u8], early: i64) -> Result<Vec<u8>, String> {
    let mut table: Vec<Vec<u8>> = vec![];
    let mut out: Vec<u8> = vec![];
    let mut prev: Option<Vec<u8>> = None;
    let (mut acc, mut nbits, mut pos) = (0u32, 0u32, 0usize);
    loop {
        while nbits < 9 {
            if pos >= data.len() { return Err("lzw: data ends without the end-of-data code".into()); }
            acc = (acc << 8) | data[pos] as u32;
            pos += 1;
            nbits += 8;
        }
        let code = ((acc >> (nbits - 9)) & 0x1ff) as usize;
        nbits -= 9;
        acc &= (1u32 << nbits) - 1;
        if code == 256 { table.clear(); prev = None; continue; }
        if code == 257 { return Ok(out); }
        let entry: Vec<u8> = if code < 256 { vec![code as u8] }
            else if let Some(e) = table.get(code - 258) { e.clone() }
            else if code - 258 == table.len() && prev.is_some() { let mut e = prev.clone().unwrap(); let f = e[0]; e.push(f); e }
            else { return Err(format!("lzw: code {} is not in the table", code)); };
        out.extend_from_slice(&entry);
        if let Some(mut p) = prev.take() { p.push(entry[0]); table.push(p); }
        prev = Some(entry);
        if 258 + table.len() as i64 + early >= 512 { return Err("lzw: codes wider than 9 bits not modelled".into()); }
    }
}

fn parm_int(d: Option<&Dictionary>, key: &[u8], default: i64) -> Result<i64, String> {
    match d.map(|d| d.get(key)) {
        None | Some(Err(_)) => Ok(default),
        Some(Ok(Object::Integer(i))) => Ok(*i),
        Some(Ok(_)) => Err(format!("decode parameter /{} is not a direct integer: not modelled", String::from_utf8_lossy(key))),
    }
}

fn paeth(a: u8, b: u8, c: u8) -> u8 {
    let (ia, ib, ic) = (a as i32, b as i32, c as i32);
    let p = ia + ib - ic;
    let (pa, pb, pc) = ((p - ia).abs(), (p - ib).abs(), (p - ic).abs());
    if pa <= pb && pa <= pc { a } else if pb <= pc { b } else { c }
}

/// what Predictor 10..15 undoes (ISO 32000-1 7.4.4.4, PNG specification section 6): every row is one tag byte 0..4 followed by
/// `row` bytes; Raw(x) = stored(x) + predicted(x) mod 256 from the byte `bpp` to the left (a), the byte above (b) and the byte above left (c)
fn png_unpredict(data: &[u8], bpp: usize, row: usize) -> Result<Vec<u8>, String> {
    if data.len() % (row + 1) != 0 { return Err(format!("predictor: {} bytes are not a whole number of rows of 1+{} bytes", data.len(), row)); }
    let mut out: Vec<u8> = Vec::with_capacity(data.len());
    let mut prev = vec![0u8; row];
    for (r, ch) in data.chunks(row + 1).enumerate() {
        let tag = ch[0];
        if tag > 4 { return Err(format!("predictor: row {} starts with tag byte {}, PNG defines the row filter types 0..4", r, tag)); }
        let mut cur = vec![0u8; row];
        for i in 0..row {
            let a = if i >= bpp { cur[i - bpp] } else { 0 };
            let b = prev[i];
            let c = if i >= bpp { prev[i - bpp] } else { 0 };
            let pred = match tag { 0 => 0, 1 => a, 2 => b, 3 => ((a as u16 + b as u16) / 2) as u8, _ => paeth(a, b, c) };
            cur[i] = ch[1 + i].wrapping_add(pred);
        }
        out.extend_from_slice(&cur);
        prev = cur;
    }
    Ok(out)
}

/// the encoder side of png_unpredict, for building start documents: row r is stored with filter type pick(r)
fn png_predict(data: &[u8], bpp: usize, row: usize, pick: impl Fn(usize) -> u8) -> Vec<u8> {
    assert!(row > 0 && data.len() % row == 0, "seed construction: the data must be whole rows");
    let mut out = vec![];
    let mut prev = vec![0u8; row];
    for (r, cur) in data.chunks(row).enumerate() {
        let tag = pick(r);
        out.push(tag);
        for i in 0..row {
            let a = if i >= bpp { cur[i - bpp] } else { 0 };
            let b = prev[i];
            let c = if i >= bpp { prev[i - bpp] } else { 0 };
            let pred = match tag { 0 => 0, 1 => a, 2 => b, 3 => ((a as u16 + b as u16) / 2) as u8, _ => paeth(a, b, c) };
            out.push(cur[i].wrapping_sub(pred));
        }
        prev = cur.to_vec();
    }
    out
}

/// the predictor step that follows FlateDecode / LZWDecode when the filter has decode parameters (ISO 32000-1 table 8)
fn unpredict(data: Vec<u8>, parms: Option<&Dictionary>) -> Result<Vec<u8>, String> {
    let predictor = parm_int(parms, b"Predictor", 1)?;
    match predictor {
        1 => Ok(data),
        2 => Err("TIFF predictor 2 not modelled".into()),
        10..=15 => {
            let colors = parm_int(parms, b"Colors", 1)?;
            let bits = parm_int(parms, b"BitsPerComponent", 8)?;
            let columns = parm_int(parms, b"Columns", 1)?;
            if !(1..=64).contains(&colors) || ![1, 2, 4, 8, 16].contains(&bits) || !(1..=(1 << 20)).contains(&columns) { return Err(format!("predictor geometry Colors {} BitsPerComponent {} Columns {} not modelled", colors, bits, columns)); }
            let bpp = (((colors * bits + 7) / 8) as usize).max(1);
            let row = ((colors * bits * columns + 7) / 8) as usize;
            png_unpredict(&data, bpp, row)
        }
        other => Err(format!("Predictor {} is not a value of ISO 32000-1 table 10", other)),
    }
}

/// how the stream says its data is stored (for messages)
fn stored_as(s: &Stream) -> String {
    format!("/Filter {} /DecodeParms {} /Length {}", s.dict.get(b"Filter").map(|o| format!("{:?}", o)).unwrap_or("absent".into()),
        s.dict.get(b"DecodeParms").map(|o| format!("{:?}", o)).unwrap_or("absent".into()), s.content.len())
}

/// decoded data of a stream, by the filter rules of ISO 32000-1 7.3.8.2 / 7.4 (Filter: a name or an array of zero or more names;
/// DecodeParms: absent, null, the parameter dictionary of the only filter, or an array with one dictionary or null per filter;
/// without a filter the parameters have nothing to apply to)
fn decode_stream(s: &Stream) -> Result<Vec<u8>, String> {
    let filters: Vec<Vec<u8>> = match s.dict.get(b"Filter") {
        Err(_) => vec![],
        Ok(Object::Name(n)) => vec![n.clone()],
        Ok(Object::Array(a)) => { let mut v = vec![]; for x in a { match x { Object::Name(n) => v.push(n.clone()), _ => return Err("filter array holds a non-name".into()) } } v }
        Ok(_) => return Err("unsupported Filter value".into()),
    };
    let parms: Vec<Option<&Dictionary>> = if filters.is_empty() { vec![] } else {
        match s.dict.get(b"DecodeParms") {
            Err(_) | Ok(Object::Null) => vec![None; filters.len()],
            Ok(Object::Dictionary(d)) if filters.len() == 1 => vec![Some(d)],
            Ok(Object::Dictionary(_)) => return Err("one DecodeParms dictionary for several filters: not modelled".into()),
            Ok(Object::Array(a)) if a.len() == filters.len() => {
                let mut v = vec![];
                for x in a { match x { Object::Null => v.push(None), Object::Dictionary(d) => v.push(Some(d)), _ => return Err("DecodeParms array entry is neither a direct dictionary nor null: not modelled".into()) } }
                v
            }
            Ok(_) => return Err("DecodeParms form not modelled".into()),
        }
    };
    let mut data = s.content.clone();
    for (f, p) in filters.iter().zip(parms) {
        data = match f.as_slice() {
            b"FlateDecode" => unpredict(unzlib(&data)?, p)?,
            b"LZWDecode" => unpredict(unlzw(&data, parm_int(p, b"EarlyChange", 1)?)?, p)?,
            b"ASCII85Decode" => a85_decode(&data)?,
            _ => return Err("filter not modelled".into()),
        };
    }
    Ok(data)
}

// ---------------------------------------------------------------------------------------------------------
// independent observers of a document state
// ---------------------------------------------------------------------------------------------------------

fn deref<'a>(d: &'a Document, mut o: &'a Object) -> Option<&'a Object> {
    for _ in 0..40 {
        match o { Object::Reference(id) => o = d.objects.get(id)?, _ => return Some(o) }
    }
    None
}

/// like deref, also records every object id passed through
fn deref_ids<'a>(d: &'a Document, mut o: &'a Object, ids: &mut BTreeSet<Id>) -> Option<&'a Object> {
    for _ in 0..40 {
        match o { Object::Reference(id) => { ids.insert(*id); o = d.objects.get(id)?; } _ => return Some(o) }
    }
    None
}

fn as_dict(o: &Object) -> Option<&Dictionary> {
    match o { Object::Dictionary(d) => Some(d), Object::Stream(s) => Some(&s.dict), _ => None }
}

fn dict_of(d: &Document, id: Id) -> Option<&Dictionary> {
    match deref(d, d.objects.get(&id)?)? { Object::Dictionary(x) => Some(x), _ => None }
}

fn collect_refs(o: &Object, out: &mut Vec<Id>) {
    match o {
        Object::Reference(id) => out.push(*id),
        Object::Array(a) => for x in a { collect_refs(x, out); },
        Object::Dictionary(d) => for (_, v) in d.iter() { collect_refs(v, out); },
        Object::Stream(s) => for (_, v) in s.dict.iter() { collect_refs(v, out); },
        _ => {}
    }
}

fn has_ref(o: &Object, ids: &BTreeSet<Id>) -> bool {
    let mut v = vec![];
    collect_refs(o, &mut v);
    v.iter().any(|x| ids.contains(x))
}

/// every id referenced, directly or through other objects, from the trailer (dangling ids included)
fn reach_ids(d: &Document) -> BTreeSet<Id> {
    let mut seen = BTreeSet::new();
    let mut stack = vec![];
    for (_, v) in d.trailer.iter() { collect_refs(v, &mut stack); }
    while let Some(id) = stack.pop() {
        if !seen.insert(id) { continue; }
        if let Some(o) = d.objects.get(&id) { collect_refs(o, &mut stack); }
    }
    seen
}

#[derive(Clone, Debug)]
struct PageObs {
    id: Id,
    content: Result<Vec<u8>, String>,
    /// tokens of the content, each stream tokenised on its own (ISO 32000-1 7.8.2: streams are divided only at token boundaries)
    toks: Vec<Vec<u8>>,
    lib_agrees: bool,
    lib_content: String,
    usable: ResSet,
    cdeps: BTreeSet<Id>,
    rdeps: BTreeSet<Id>,
}

#[derive(Clone, Debug, Default)]
struct Obs {
    pages: Vec<PageObs>,
    counts_bad: Vec<String>,
    tree_nodes: BTreeSet<Id>,
    reach: BTreeSet<Id>,
}

struct Walk<'a> { d: &'a Document, leaves: Vec<Id>, bad: Vec<String>, nodes: BTreeSet<Id>, stack: Vec<Id> }

impl<'a> Walk<'a> {
    fn node(&mut self, id: Id) -> usize {
        if self.stack.contains(&id) || self.stack.len() > 64 { return 0; }
        let dict = match dict_of(self.d, id) { Some(x) => x, None => return 0 };
        let ty = match dict.get(b"Type") { Ok(Object::Name(n)) => n.clone(), _ => return 0 };
        if ty == b"Page" { self.leaves.push(id); self.nodes.insert(id); return 1; }
        if ty != b"Pages" { return 0; }
        self.nodes.insert(id);
        self.stack.push(id);
        let mut n = 0;
        if let Some(Object::Array(kids)) = dict.get(b"Kids").ok().and_then(|k| deref(self.d, k)) {
            for k in kids { if let Object::Reference(kid) = k { n += self.node(*kid); } }
        }
        self.stack.pop();
        let count = dict.get(b"Count").ok().and_then(|c| deref(self.d, c)).and_then(|c| if let Object::Integer(i) = c { Some(*i) } else { None });
        if count != Some(n as i64) { self.bad.push(format!("Pages node {} {} has Count {:?} but {} leaf pages below it", id.0, id.1, count, n)); }
        n
    }
}

fn page_tree(d: &Document) -> (Vec<Id>, Vec<String>, BTreeSet<Id>) {
    let mut w = Walk { d, leaves: vec![], bad: vec![], nodes: BTreeSet::new(), stack: vec![] };
    let root = d.trailer.get(b"Root").ok().and_then(|r| deref(d, r)).and_then(as_dict);
    if let Some(Object::Reference(pid)) = root.and_then(|c| c.get(b"Pages").ok()) { w.node(*pid); }
    (w.leaves, w.bad, w.nodes)
}

/// decoded data of each content stream of the page, in order
fn page_content(d: &Document, page: Id, deps: &mut BTreeSet<Id>) -> Result<Vec<Vec<u8>>, String> {
    let pd = match dict_of(d, page) { Some(x) => x, None => return Err("page is not a dictionary".into()) };
    let c = match pd.get(b"Contents") { Ok(c) => c, Err(_) => return Ok(vec![]) };
    match deref_ids(d, c, deps) {
        Some(Object::Stream(s)) => Ok(vec![decode_stream(s).map_err(|e| format!("{} (the content stream is stored with {})", e, stored_as(s)))?]),
        Some(Object::Array(a)) => {
            let mut out = vec![];
            for e in a {
                if let Some(Object::Stream(s)) = deref_ids(d, e, deps) { out.push(decode_stream(s).map_err(|e| format!("{} (the content stream is stored with {})", e, stored_as(s)))?); }
            }
            Ok(out)
        }
        _ => Ok(vec![]),
    }
}

/// resource names a page can use: those of the nearest Resources entry on the way from the page up through Parent
/// (ISO 32000-1 7.7.3.4: an inheritable attribute is taken from the nearest node that has it)
fn usable(d: &Document, page: Id, deps: &mut BTreeSet<Id>) -> ResSet {
    let mut out = ResSet::new();
    let mut cur = page;
    for _ in 0..32 {
        deps.insert(cur);
        let dict = match dict_of(d, cur) { Some(x) => x, None => break };
        if let Ok(r) = dict.get(b"Resources") {
            if let Some(Object::Dictionary(rd)) = deref_ids(d, r, deps) {
                for (cat, v) in rd.iter() {
                    if let Some(Object::Dictionary(cd)) = deref_ids(d, v, deps) {
                        for (n, _) in cd.iter() { out.insert((cat.clone(), n.clone())); }
                    }
                }
            }
            break;
        }
        match dict.get(b"Parent") { Ok(Object::Reference(p)) => cur = *p, _ => break }
    }
    out
}

fn lookup_resource<'a>(d: &'a Document, page: Id, cat: &[u8], name: &[u8]) -> Option<&'a Object> {
    let mut cur = page;
    for _ in 0..32 {
        let dict = dict_of(d, cur)?;
        if let Ok(r) = dict.get(b"Resources") {
            let rd = match deref(d, r)? { Object::Dictionary(x) => x, _ => return None };
            let cd = match deref(d, rd.get(cat).ok()?)? { Object::Dictionary(x) => x, _ => return None };
            return deref(d, cd.get(name).ok()?);
        }
        match dict.get(b"Parent") { Ok(Object::Reference(p)) => cur = *p, _ => return None }
    }
    None
}

fn observe(d: &Document) -> Obs {
    let (leaves, bad, nodes) = page_tree(d);
    let reach: BTreeSet<Id> = reach_ids(d).into_iter().filter(|i| d.objects.contains_key(i)).collect();
    let mut pages = vec![];
    for id in leaves {
        let mut cdeps = BTreeSet::new();
        let chunks = page_content(d, id, &mut cdeps);
        let toks: Vec<Vec<u8>> = chunks.as_ref().map(|c| c.iter().flat_map(|x| tokens(x)).collect()).unwrap_or_default();
        // the streams of a page are divided at token boundaries (7.8.2): the reading API keeps them apart with a line feed
        let content = chunks.map(|c| { let mut out: Vec<u8> = Vec::new(); for x in c.iter() { if !out.is_empty() { out.push(b'\n'); } out.extend_from_slice(x); } out });
        let mut rdeps = BTreeSet::new();
        let us = usable(d, id, &mut rdeps);
        let lib = d.get_page_content(id);
        let (lib_agrees, lib_content) = match (&content, &lib) {
            (Ok(c), Ok(l)) => (c == l, String::from_utf8_lossy(l).chars().take(80).collect()),
            (Ok(_), Err(e)) => (false, format!("Err({})", e)),
            (Err(_), _) => (true, String::new()),
        };
        pages.push(PageObs { id, content, toks, lib_agrees, lib_content, usable: us, cdeps, rdeps });
    }
    Obs { pages, counts_bad: bad, tree_nodes: nodes, reach }
}

fn tokens(b: &[u8]) -> Vec<Vec<u8>> {
    b.split(|c| matches!(c, b' ' | b'\n' | b'\r' | b'\t' | 0x0c | 0)).filter(|t| !t.is_empty()).map(|t| t.to_vec()).collect()
}

fn show(b: &[u8]) -> String { String::from_utf8_lossy(b).chars().take(90).collect() }

// ---------------------------------------------------------------------------------------------------------
// seed documents (well-formed by construction; what each page holds is recorded while building)
// ---------------------------------------------------------------------------------------------------------

const C_A: &[u8] = b"BT /F1 12 Tf (A) Tj ET";
const C_A_NL: &[u8] = b"BT /F1 12 Tf (A) Tj ET\n";
const C_B: &[u8] = b"q 1 0 0 1 5 5 cm /Im0 Do Q";
const C_C: &[u8] = b"0 0 10 10 re f";

fn long(ch: u8) -> Vec<u8> {
    let mut v = b"BT /F1 9 Tf (".to_vec();
    v.extend(std::iter::repeat(ch).take(120));
    v.extend_from_slice(b") Tj ET");
    v
}

fn rf(n: u32) -> Object { Object::Reference((n, 0)) }
fn nm(s: &str) -> Object { Object::Name(s.as_bytes().to_vec()) }
fn int(i: i64) -> Object { Object::Integer(i) }
fn arr(v: Vec<Object>) -> Object { Object::Array(v) }
fn dct(e: Vec<(&str, Object)>) -> Dictionary { let mut d = Dictionary::new(); for (k, v) in e { d.set(k.as_bytes().to_vec(), v); } d }
fn dobj(e: Vec<(&str, Object)>) -> Object { Object::Dictionary(dct(e)) }
fn strm(e: Vec<(&str, Object)>, b: &[u8]) -> Object { Object::Stream(Stream::new(dct(e), b.to_vec())) }
fn page(parent: u32, mut e: Vec<(&str, Object)>) -> Object {
    let mut v = vec![("Type", nm("Page")), ("Parent", rf(parent))];
    v.append(&mut e);
    dobj(v)
}
fn font() -> Object { dobj(vec![("Type", nm("Font")), ("Subtype", nm("Type1")), ("BaseFont", nm("Courier"))]) }
fn gstate() -> Object { dobj(vec![("Type", nm("ExtGState")), ("LW", int(2))]) }
fn image() -> Object { strm(vec![("Type", nm("XObject")), ("Subtype", nm("Image")), ("Width", int(1)), ("Height", int(1)), ("ColorSpace", nm("DeviceGray")), ("BitsPerComponent", int(8))], &[0x55]) }
fn annot(p: u32) -> Object { dobj(vec![("Type", nm("Annot")), ("Subtype", nm("Text")), ("Rect", arr(vec![int(0), int(0), int(9), int(9)])), ("P", rf(p))]) }
fn rs(items: &[(&str, &str)]) -> ResSet { items.iter().map(|(c, n)| (c.as_bytes().to_vec(), n.as_bytes().to_vec())).collect() }

#[derive(Clone)]
struct BmSpec { title: String, page: Id, parent: Option<u32> }

#[derive(Clone)]
struct PageExp { id: Id, content: Vec<u8>, res: ResSet }

#[derive(Clone)]
struct Seed {
    name: &'static str,
    doc: Document,
    pages: Vec<PageExp>,
    del: Vec<Id>,
    rep: Vec<Id>,
    ann: Vec<Id>,
    res_target: Id,
    bookmarks: Vec<BmSpec>,
}

fn new_doc(version: &str, xref_stream: bool, objs: Vec<(Id, Object)>, root: Id, info: Option<Id>, slack: u32) -> Document {
    let mut d = Document::with_version(version);
    d.reference_table.cross_reference_type = if xref_stream { XrefType::CrossReferenceStream } else { XrefType::CrossReferenceTable };
    let mut m = 0;
    for (id, o) in objs { m = m.max(id.0); d.objects.insert(id, o); }
    d.max_id = m + slack;
    d.trailer.set("Root", Object::Reference(root));
    if let Some(i) = info { d.trailer.set("Info", Object::Reference(i)); }
    d
}

fn z(n: u32) -> Id { (n, 0) }

fn cat(a: &[u8], b: &[u8]) -> Vec<u8> { let mut v = a.to_vec(); if !v.is_empty() { v.push(b'\n'); } v.extend_from_slice(b); v }   // two streams of one page are read with a line feed between them

/// reference encoders for building start documents (the observers above never use them)
fn zlib_ref(data: &[u8]) -> Vec<u8> {
    use std::io::Write as _;
    let mut e = flate2::write::ZlibEncoder::new(Vec::new(), flate2::Compression::new(6));
    e.write_all(data).expect("seed zlib");
    e.finish().expect("seed zlib")
}
fn lzw_ref(data: &[u8], early: bool) -> Vec<u8> {
    let mut enc = if early { weezl::encode::Encoder::with_tiff_size_switch(weezl::BitOrder::Msb, 8) } else { weezl::encode::Encoder::new(weezl::BitOrder::Msb, 8) };
    enc.encode(data).expect("seed lzw")
}
/// content padded with line feeds (white space between tokens) to whole rows of `row` bytes
fn fit(content: &[u8], row: usize) -> Vec<u8> { let mut v = content.to_vec(); while v.len() % row != 0 { v.push(b'\n'); } v }

/// the seed whose call sequences stop at length 2 in both tiers (each of its steps reads three LZW streams through the library)
const SHALLOW: &str = "parms-lzw";

fn seeds() -> Vec<Seed> {
    let mut out = vec![];
    // S0 flat tree, inherited inline resources, Contents as one reference / as an array of one, Info, one unreachable object, bookmarks
    {
        let objs = vec![
            (z(1), dobj(vec![("Type", nm("Catalog")), ("Pages", rf(2))])),
            (z(2), dobj(vec![("Type", nm("Pages")), ("Kids", arr(vec![rf(3), rf(4)])), ("Count", int(2)), ("Resources", dobj(vec![("Font", dobj(vec![("F1", rf(5))]))])), ("MediaBox", arr(vec![int(0), int(0), int(595), int(842)]))])),
            (z(3), page(2, vec![("Contents", rf(6))])),
            (z(4), page(2, vec![("Contents", arr(vec![rf(7)]))])),
            (z(5), font()),
            (z(6), strm(vec![], C_A)),
            (z(7), strm(vec![], C_B)),
            (z(8), dobj(vec![("Title", Object::String(b"t".to_vec(), StringFormat::Literal))])),
            (z(9), dobj(vec![("Unused", Object::Boolean(true)), ("Ref", rf(3))])),
        ];
        out.push(Seed {
            name: "flat", doc: new_doc("1.4", false, objs, z(1), Some(z(8)), 0),
            pages: vec![PageExp { id: z(3), content: C_A.to_vec(), res: rs(&[("Font", "F1")]) }, PageExp { id: z(4), content: C_B.to_vec(), res: rs(&[("Font", "F1")]) }],
            del: vec![z(6), z(7), z(5), z(8), z(9), z(3), z(77)], rep: vec![z(9), z(6), z(5)], ann: vec![z(5)], res_target: z(5),
            bookmarks: vec![BmSpec { title: "One".into(), page: z(3), parent: None }, BmSpec { title: "Two".into(), page: z(4), parent: Some(1) }, BmSpec { title: "Three".into(), page: z(3), parent: None }],
        });
    }
    // S1 nested tree, sparse ids, max_id above the largest id; resources inherited from the grandparent, own by reference
    // (categories by reference), own inline; Contents as an array of two / absent / one reference
    {
        let objs = vec![
            (z(10), dobj(vec![("Type", nm("Catalog")), ("Pages", rf(2))])),
            (z(2), dobj(vec![("Type", nm("Pages")), ("Kids", arr(vec![rf(3), rf(20)])), ("Count", int(3)), ("Resources", rf(30))])),
            (z(3), dobj(vec![("Type", nm("Pages")), ("Parent", rf(2)), ("Kids", arr(vec![rf(4), rf(5)])), ("Count", int(2))])),
            (z(4), page(3, vec![("Contents", arr(vec![rf(41), rf(42)]))])),
            (z(5), page(3, vec![("Resources", rf(31))])),
            (z(20), dobj(vec![("Type", nm("Pages")), ("Parent", rf(2)), ("Kids", arr(vec![rf(21)])), ("Count", int(1))])),
            (z(21), page(20, vec![("Resources", dobj(vec![("ExtGState", dobj(vec![("GS0", rf(33))])), ("Font", dobj(vec![("F2", rf(34))]))])), ("Contents", rf(43))])),
            (z(30), dobj(vec![("Font", dobj(vec![("F1", rf(34))])), ("XObject", rf(35))])),
            (z(35), dobj(vec![("Im0", rf(32))])),
            (z(31), dobj(vec![("XObject", rf(36)), ("ExtGState", rf(37))])),
            (z(36), dobj(vec![("Im1", rf(32))])),
            (z(37), dobj(vec![("GS1", rf(33))])),
            (z(32), image()),
            (z(33), gstate()),
            (z(34), font()),
            (z(41), strm(vec![], C_A_NL)),
            (z(42), strm(vec![], C_B)),
            (z(43), strm(vec![], C_C)),
        ];
        out.push(Seed {
            name: "nested", doc: new_doc("1.5", true, objs, z(10), None, 3),
            pages: vec![
                PageExp { id: z(4), content: cat(C_A_NL, C_B), res: rs(&[("Font", "F1"), ("XObject", "Im0")]) },
                PageExp { id: z(5), content: vec![], res: rs(&[("XObject", "Im1"), ("ExtGState", "GS1")]) },
                PageExp { id: z(21), content: C_C.to_vec(), res: rs(&[("ExtGState", "GS0"), ("Font", "F2")]) },
            ],
            del: vec![z(42), z(30), z(32), z(36), z(21), z(33)], rep: vec![z(43), z(31), z(34)], ann: vec![z(33)], res_target: z(32),
            bookmarks: vec![],
        });
    }
    // S2 annotations: duplicate entry in one Annots array, one annotation on two pages, annotation -> page back references (cycles)
    {
        let objs = vec![
            (z(1), dobj(vec![("Type", nm("Catalog")), ("Pages", rf(2))])),
            (z(2), dobj(vec![("Type", nm("Pages")), ("Kids", arr(vec![rf(3), rf(4)])), ("Count", int(2))])),
            (z(3), page(2, vec![("Annots", arr(vec![rf(11), rf(12), rf(11)])), ("Contents", rf(6)), ("Resources", rf(9))])),
            (z(4), page(2, vec![("Annots", arr(vec![rf(12)])), ("Contents", arr(vec![rf(7)]))])),
            (z(5), font()),
            (z(6), strm(vec![], C_A)),
            (z(7), strm(vec![], C_C)),
            (z(9), dobj(vec![("Font", dobj(vec![("F1", rf(5))]))])),
            (z(11), annot(3)),
            (z(12), annot(4)),
        ];
        out.push(Seed {
            name: "annots", doc: new_doc("1.4", false, objs, z(1), None, 0),
            pages: vec![PageExp { id: z(3), content: C_A.to_vec(), res: rs(&[("Font", "F1")]) }, PageExp { id: z(4), content: C_C.to_vec(), res: rs(&[]) }],
            del: vec![z(11), z(12), z(9)], rep: vec![z(11), z(7)], ann: vec![z(11), z(12), z(6)], res_target: z(5),
            bookmarks: vec![],
        });
    }
    // S3 Contents forms: empty array, reference to an array object, long uncompressed stream; Annots absent / direct / by reference
    {
        let objs = vec![
            (z(1), dobj(vec![("Type", nm("Catalog")), ("Pages", rf(2))])),
            (z(2), dobj(vec![("Type", nm("Pages")), ("Kids", arr(vec![rf(3), rf(4), rf(5)])), ("Count", int(3)), ("Resources", dobj(vec![("Font", dobj(vec![("F1", rf(20))]))]))])),
            (z(3), page(2, vec![("Contents", arr(vec![]))])),
            (z(4), page(2, vec![("Contents", rf(8)), ("Annots", arr(vec![rf(11)]))])),
            (z(5), page(2, vec![("Contents", rf(9)), ("Annots", rf(13))])),
            (z(6), strm(vec![], C_A_NL)),
            (z(7), strm(vec![], C_B)),
            (z(8), arr(vec![rf(6), rf(7)])),
            (z(9), strm(vec![], &long(b'A'))),
            (z(11), annot(4)),
            (z(12), annot(5)),
            (z(13), arr(vec![rf(11), rf(12)])),
            (z(20), font()),
        ];
        let f1 = rs(&[("Font", "F1")]);
        out.push(Seed {
            name: "forms", doc: new_doc("1.6", true, objs, z(1), None, 1),
            pages: vec![PageExp { id: z(3), content: vec![], res: f1.clone() }, PageExp { id: z(4), content: cat(C_A_NL, C_B), res: f1.clone() }, PageExp { id: z(5), content: long(b'A'), res: f1 }],
            del: vec![z(8), z(7), z(13), z(11)], rep: vec![z(8), z(9)], ann: vec![z(11), z(12)], res_target: z(20),
            bookmarks: vec![],
        });
    }
    // S4 shared nodes: one content stream used by two pages and twice by one page, one resource dictionary shared by both pages
    {
        let objs = vec![
            (z(1), dobj(vec![("Type", nm("Catalog")), ("Pages", rf(2))])),
            (z(2), dobj(vec![("Type", nm("Pages")), ("Kids", arr(vec![rf(3), rf(4)])), ("Count", int(2))])),
            (z(3), page(2, vec![("Contents", arr(vec![rf(6), rf(6)])), ("Resources", rf(9))])),
            (z(4), page(2, vec![("Contents", rf(6)), ("Resources", rf(9))])),
            (z(5), font()),
            (z(6), strm(vec![], C_A_NL)),
            (z(9), dobj(vec![("Font", dobj(vec![("F1", rf(5))])), ("XObject", dobj(vec![("Im0", rf(32))])), ("ExtGState", rf(14))])),
            (z(14), dobj(vec![("GS0", rf(33))])),
            (z(32), image()),
            (z(33), gstate()),
        ];
        let r = rs(&[("Font", "F1"), ("XObject", "Im0"), ("ExtGState", "GS0")]);
        out.push(Seed {
            name: "shared", doc: new_doc("1.4", false, objs, z(1), None, 0),
            pages: vec![PageExp { id: z(3), content: cat(C_A_NL, C_A_NL), res: r.clone() }, PageExp { id: z(4), content: C_A_NL.to_vec(), res: r }],
            del: vec![z(6), z(9), z(14), z(32)], rep: vec![z(6), z(14)], ann: vec![], res_target: z(32),
            bookmarks: vec![],
        });
    }
    // S5 stream kinds: Flate, ASCII85, empty filter array, indirect Length, a filter that cannot be decoded (DCT)
    {
        let mut flate = Stream::new(Dictionary::new(), long(b'C'));
        flate.compress().expect("seed compress");
        let lenc = C_C.len() as i64;
        let mut s9 = Stream::new(Dictionary::new(), C_C.to_vec());
        s9.dict.set("Length", rf(50));
        let objs = vec![
            (z(1), dobj(vec![("Type", nm("Catalog")), ("Pages", rf(2))])),
            (z(2), dobj(vec![("Type", nm("Pages")), ("Kids", arr(vec![rf(3), rf(4), rf(5)])), ("Count", int(3)), ("Resources", dobj(vec![("Font", dobj(vec![("F1", rf(20))])), ("XObject", dobj(vec![("Im0", rf(32))]))]))])),
            (z(3), page(2, vec![("Contents", rf(6))])),
            (z(4), page(2, vec![("Contents", arr(vec![rf(7), rf(8)]))])),
            (z(5), page(2, vec![("Contents", rf(9))])),
            (z(6), Object::Stream(flate)),
            (z(7), strm(vec![("Filter", nm("ASCII85Decode"))], &a85_encode(C_A_NL))),
            (z(8), strm(vec![("Filter", arr(vec![]))], C_B)),
            (z(9), Object::Stream(s9)),
            (z(20), font()),
            (z(32), strm(vec![("Type", nm("XObject")), ("Subtype", nm("Image")), ("Width", int(1)), ("Height", int(1)), ("ColorSpace", nm("DeviceGray")), ("BitsPerComponent", int(8)), ("Filter", nm("DCTDecode"))], &[0xff, 0xd8, 0xff, 0xd9])),
            (z(50), int(lenc)),
        ];
        let r = rs(&[("Font", "F1"), ("XObject", "Im0")]);
        out.push(Seed {
            name: "filters", doc: new_doc("1.5", true, objs, z(1), None, 0),
            pages: vec![PageExp { id: z(3), content: long(b'C'), res: r.clone() }, PageExp { id: z(4), content: cat(C_A_NL, C_B), res: r.clone() }, PageExp { id: z(5), content: C_C.to_vec(), res: r }],
            del: vec![z(50), z(6), z(8)], rep: vec![z(7)], ann: vec![], res_target: z(32),
            bookmarks: vec![],
        });
    }
    // S6 graph corners: high sparse ids, max_id == largest id, generation 2, dangling references, self reference,
    // unreachable cycle that points into the reachable part, unreachable stream, bookmark
    {
        let objs = vec![
            (z(100), dobj(vec![("Type", nm("Catalog")), ("Pages", rf(200)), ("Names", rf(300)), ("Self", rf(100))])),
            (z(200), dobj(vec![("Type", nm("Pages")), ("Kids", arr(vec![rf(301)])), ("Count", int(1))])),
            (z(301), page(200, vec![("Contents", rf(400)), ("Resources", dobj(vec![("Font", dobj(vec![("F1", Object::Reference((500, 2)))]))])), ("Thumb", rf(999))])),
            (z(400), strm(vec![], C_A)),
            ((500, 2), font()),
            (z(600), dobj(vec![("Next", rf(601))])),
            (z(601), dobj(vec![("Prev", rf(600)), ("Page", rf(301))])),
            (z(602), strm(vec![], b"unused")),
        ];
        out.push(Seed {
            name: "graph", doc: new_doc("1.7", false, objs, z(100), None, 0),
            pages: vec![PageExp { id: z(301), content: C_A.to_vec(), res: rs(&[("Font", "F1")]) }],
            del: vec![z(601), (500, 2), z(999), z(400), z(100)], rep: vec![z(602), z(400)], ann: vec![], res_target: (500, 2),
            bookmarks: vec![BmSpec { title: "B".into(), page: z(301), parent: None }],
        });
    }
    // S7 three-level tree where the root and the intermediate node both carry Resources (the nearest one wins as a whole)
    {
        let objs = vec![
            (z(1), dobj(vec![("Type", nm("Catalog")), ("Pages", rf(2))])),
            (z(2), dobj(vec![("Type", nm("Pages")), ("Kids", arr(vec![rf(3), rf(6)])), ("Count", int(2)), ("Resources", dobj(vec![("Font", dobj(vec![("F1", rf(9))])), ("ExtGState", dobj(vec![("GS0", rf(11))]))]))])),
            (z(3), dobj(vec![("Type", nm("Pages")), ("Parent", rf(2)), ("Kids", arr(vec![rf(4)])), ("Count", int(1)), ("Resources", dobj(vec![("Font", dobj(vec![("F3", rf(9))])), ("XObject", dobj(vec![("Im0", rf(10))]))]))])),
            (z(4), page(3, vec![("Contents", rf(7))])),
            (z(6), page(2, vec![("Contents", rf(8))])),
            (z(7), strm(vec![], C_A)),
            (z(8), strm(vec![], C_B)),
            (z(9), font()),
            (z(10), image()),
            (z(11), gstate()),
        ];
        out.push(Seed {
            name: "deep", doc: new_doc("1.4", false, objs, z(1), None, 0),
            pages: vec![PageExp { id: z(4), content: C_A.to_vec(), res: rs(&[("Font", "F3"), ("XObject", "Im0")]) }, PageExp { id: z(6), content: C_B.to_vec(), res: rs(&[("Font", "F1"), ("ExtGState", "GS0")]) }],
            del: vec![z(7), z(9)], rep: vec![z(8)], ann: vec![], res_target: z(10),
            bookmarks: vec![],
        });
    }
    // S8 stored forms with decode parameters (ISO 32000-1 7.4.4.3-4), FlateDecode: the only stream of a page with PNG predictor 12
    // (140 bytes of data), an array of one stream with predictor 15, three colour components and all five row filter types, and an
    // array of three: ASCII85+Flate with DecodeParms as an array [null, predictor 11], the no-op predictor 1 under a filter array of
    // one, predictor 13
    {
        let c3 = fit(&long(b'D'), 14);
        let c4 = fit(&cat(&cat(C_B, C_C), C_B), 15);
        let (c5a, c5b, c5c) = (fit(C_A_NL, 11), fit(C_C, 9), fit(C_B, 13));
        let s6 = strm(vec![("Filter", nm("FlateDecode")), ("DecodeParms", dobj(vec![("Predictor", int(12)), ("Columns", int(14))]))], &zlib_ref(&png_predict(&c3, 1, 14, |_| 2)));
        let s7 = strm(vec![("Filter", nm("FlateDecode")), ("DecodeParms", dobj(vec![("Predictor", int(15)), ("Colors", int(3)), ("Columns", int(5))]))], &zlib_ref(&png_predict(&c4, 3, 15, |r| (r % 5) as u8)));
        let s8 = strm(vec![("Filter", arr(vec![nm("ASCII85Decode"), nm("FlateDecode")])), ("DecodeParms", arr(vec![Object::Null, dobj(vec![("Predictor", int(11)), ("Columns", int(11))])]))], &a85_encode(&zlib_ref(&png_predict(&c5a, 1, 11, |_| 1))));
        let s9 = strm(vec![("Filter", arr(vec![nm("FlateDecode")])), ("DecodeParms", dobj(vec![("Predictor", int(1)), ("Columns", int(9))]))], &zlib_ref(&c5b));
        let s10 = strm(vec![("Filter", nm("FlateDecode")), ("DecodeParms", dobj(vec![("Predictor", int(13)), ("Columns", int(13))]))], &zlib_ref(&png_predict(&c5c, 1, 13, |_| 3)));
        let objs = vec![
            (z(1), dobj(vec![("Type", nm("Catalog")), ("Pages", rf(2))])),
            (z(2), dobj(vec![("Type", nm("Pages")), ("Kids", arr(vec![rf(3), rf(4), rf(5)])), ("Count", int(3)), ("Resources", dobj(vec![("Font", dobj(vec![("F1", rf(20))])), ("XObject", dobj(vec![("Im0", rf(32))]))]))])),
            (z(3), page(2, vec![("Contents", rf(6))])),
            (z(4), page(2, vec![("Contents", arr(vec![rf(7)]))])),
            (z(5), page(2, vec![("Contents", arr(vec![rf(8), rf(9), rf(10)]))])),
            (z(6), s6),
            (z(7), s7),
            (z(8), s8),
            (z(9), s9),
            (z(10), s10),
            (z(20), font()),
            (z(32), image()),
        ];
        let r = rs(&[("Font", "F1"), ("XObject", "Im0")]);
        out.push(Seed {
            name: "parms", doc: new_doc("1.5", false, objs, z(1), None, 0),
            pages: vec![PageExp { id: z(3), content: c3, res: r.clone() }, PageExp { id: z(4), content: c4, res: r.clone() }, PageExp { id: z(5), content: cat(&cat(&c5a, &c5b), &c5c), res: r }],
            del: vec![z(6), z(9)], rep: vec![z(7)], ann: vec![], res_target: z(32),
            bookmarks: vec![],
        });
    }
    // S9 the same dimension under LZWDecode, the other filter that takes a predictor: the only stream of a page with predictor 15,
    // three colour components and all five row filter types (150 bytes of data); an array of two: EarlyChange 0 with predictor 14,
    // and LZW without parameters.  Reading one LZW stream costs the library about a millisecond (its decoder clears a 16 MiB
    // buffer per call), so this seed is explored to length 2 in both tiers (see SHALLOW)
    {
        let c3 = fit(&cat(&cat(&cat(C_B, C_C), &cat(C_A, C_B)), &cat(C_C, C_B)), 15);
        let (c4a, c4b) = (fit(C_C, 7), C_A.to_vec());
        let s6 = strm(vec![("Filter", nm("LZWDecode")), ("DecodeParms", dobj(vec![("Predictor", int(15)), ("Colors", int(3)), ("Columns", int(5))]))], &lzw_ref(&png_predict(&c3, 3, 15, |r| (r % 5) as u8), true));
        let s7 = strm(vec![("Filter", nm("LZWDecode")), ("DecodeParms", dobj(vec![("EarlyChange", int(0)), ("Predictor", int(14)), ("Columns", int(7))]))], &lzw_ref(&png_predict(&c4a, 1, 7, |_| 4), false));
        let s8 = strm(vec![("Filter", nm("LZWDecode"))], &lzw_ref(&c4b, true));
        let objs = vec![
            (z(1), dobj(vec![("Type", nm("Catalog")), ("Pages", rf(2))])),
            (z(2), dobj(vec![("Type", nm("Pages")), ("Kids", arr(vec![rf(3), rf(4)])), ("Count", int(2)), ("Resources", dobj(vec![("Font", dobj(vec![("F1", rf(20))])), ("XObject", dobj(vec![("Im0", rf(32))]))]))])),
            (z(3), page(2, vec![("Contents", rf(6))])),
            (z(4), page(2, vec![("Contents", arr(vec![rf(7), rf(8)]))])),
            (z(6), s6),
            (z(7), s7),
            (z(8), s8),
            (z(20), font()),
            (z(32), image()),
        ];
        let r = rs(&[("Font", "F1"), ("XObject", "Im0")]);
        out.push(Seed {
            name: SHALLOW, doc: new_doc("1.4", false, objs, z(1), None, 0),
            pages: vec![PageExp { id: z(3), content: c3, res: r.clone() }, PageExp { id: z(4), content: cat(&c4a, &c4b), res: r }],
            del: vec![z(6), z(7)], rep: vec![z(8)], ann: vec![], res_target: z(32),
            bookmarks: vec![],
        });
    }
    out
}

// ---------------------------------------------------------------------------------------------------------
// operations
// ---------------------------------------------------------------------------------------------------------

#[derive(Clone, Debug, PartialEq)]
enum Op {
    NewId,
    Add(u8),
    Replace(Id),
    AllocSet,
    SetBeyond,
    Delete(Id),
    RemoveAnnot(Id),
    Prune,
    DeletePages(Vec<u32>),
    Renumber,
    RenumberWith(u32),
    Compress,
    Decompress,
    ChangeContent(u32, u8),
    AddContents(u32, u8),
    AddToContent(u32),
    AddXObject(u32, String, Id),
    AddGState(u32, String, Id),
    InsertImage(u32),
    InsertForm(u32),
    AddBookmark(u8),
    BuildOutline,
    Save,
}

fn ops_for(s: &Seed) -> Vec<Op> {
    let np = s.pages.len() as u32;
    let mut v = vec![Op::NewId, Op::Add(0), Op::Add(1), Op::AllocSet, Op::SetBeyond];
    for t in &s.rep { v.push(Op::Replace(*t)); }
    for t in &s.del { v.push(Op::Delete(*t)); }
    for t in &s.ann { v.push(Op::RemoveAnnot(*t)); }
    v.push(Op::Prune);
    for p in [vec![1], vec![2], vec![1, 2], vec![1, 1], vec![0, 9]] { v.push(Op::DeletePages(p)); }
    if np >= 3 { v.push(Op::DeletePages(vec![3, 1])); }
    v.extend([Op::Renumber, Op::RenumberWith(4), Op::Compress, Op::Decompress]);
    for p in 1..=np { v.push(Op::ChangeContent(p, 0)); }
    for p in 1..=np { v.push(Op::ChangeContent(p, 1)); }
    v.push(Op::ChangeContent(9, 0));
    for p in 1..=np { v.push(Op::AddContents(p, 0)); }
    v.push(Op::AddContents(1, 1));
    v.push(Op::AddContents(9, 0));
    v.push(Op::AddToContent(np));
    for p in 1..=np { v.push(Op::AddXObject(p, "X9".into(), s.res_target)); }
    v.push(Op::AddXObject(1, "Im0".into(), s.res_target));
    v.push(Op::AddXObject(9, "X9".into(), s.res_target));
    for p in 1..=np { v.push(Op::AddGState(p, "GS9".into(), s.res_target)); }
    for p in 1..=np { v.push(Op::InsertImage(p)); }
    for p in 1..=np { v.push(Op::InsertForm(p)); }
    v.extend([Op::AddBookmark(0), Op::AddBookmark(1), Op::BuildOutline, Op::Save]);
    v
}

/// one concrete call per public editing function (used for the longer sequences of the thorough tier)
fn core_ops(s: &Seed) -> Vec<Op> {
    let np = s.pages.len() as u32;
    let mut v = vec![Op::NewId, Op::Add(1), Op::AllocSet, Op::Replace(s.rep[0]), Op::Delete(s.del[0])];
    if let Some(a) = s.ann.first() { v.push(Op::RemoveAnnot(*a)); }
    v.extend([Op::Prune, Op::DeletePages(vec![1]), Op::Renumber, Op::Compress, Op::Decompress, Op::ChangeContent(1, 1), Op::AddContents(1, 0), Op::AddToContent(np),
        Op::AddXObject(1, "X9".into(), s.res_target), Op::AddGState(1, "GS9".into(), s.res_target), Op::InsertImage(1), Op::InsertForm(1), Op::AddBookmark(0), Op::BuildOutline, Op::Save]);
    v
}

fn idj(i: Id) -> Value { json!([i.0, i.1]) }
fn idv(v: &Value) -> Id { (v[0].as_u64().unwrap_or(0) as u32, v[1].as_u64().unwrap_or(0) as u16) }

fn op_json(op: &Op) -> Value {
    match op {
        Op::NewId => json!({"op": "NewId"}),
        Op::Add(k) => json!({"op": "Add", "k": k}),
        Op::Replace(i) => json!({"op": "Replace", "id": idj(*i)}),
        Op::AllocSet => json!({"op": "AllocSet"}),
        Op::SetBeyond => json!({"op": "SetBeyond"}),
        Op::Delete(i) => json!({"op": "Delete", "id": idj(*i)}),
        Op::RemoveAnnot(i) => json!({"op": "RemoveAnnot", "id": idj(*i)}),
        Op::Prune => json!({"op": "Prune"}),
        Op::DeletePages(p) => json!({"op": "DeletePages", "pages": p}),
        Op::Renumber => json!({"op": "Renumber"}),
        Op::RenumberWith(k) => json!({"op": "RenumberWith", "k": k}),
        Op::Compress => json!({"op": "Compress"}),
        Op::Decompress => json!({"op": "Decompress"}),
        Op::ChangeContent(p, w) => json!({"op": "ChangeContent", "page": p, "k": w}),
        Op::AddContents(p, w) => json!({"op": "AddContents", "page": p, "k": w}),
        Op::AddToContent(p) => json!({"op": "AddToContent", "page": p}),
        Op::AddXObject(p, n, t) => json!({"op": "AddXObject", "page": p, "name": hex(n.as_bytes()), "id": idj(*t)}),
        Op::AddGState(p, n, t) => json!({"op": "AddGState", "page": p, "name": hex(n.as_bytes()), "id": idj(*t)}),
        Op::InsertImage(p) => json!({"op": "InsertImage", "page": p}),
        Op::InsertForm(p) => json!({"op": "InsertForm", "page": p}),
        Op::AddBookmark(k) => json!({"op": "AddBookmark", "k": k}),
        Op::BuildOutline => json!({"op": "BuildOutline"}),
        Op::Save => json!({"op": "Save"}),
    }
}

fn op_from_json(v: &Value) -> Option<Op> {
    let p = v["page"].as_u64().unwrap_or(0) as u32;
    let k = v["k"].as_u64().unwrap_or(0) as u8;
    Some(match v["op"].as_str()? {
        "NewId" => Op::NewId,
        "Add" => Op::Add(k),
        "Replace" => Op::Replace(idv(&v["id"])),
        "AllocSet" => Op::AllocSet,
        "SetBeyond" => Op::SetBeyond,
        "Delete" => Op::Delete(idv(&v["id"])),
        "RemoveAnnot" => Op::RemoveAnnot(idv(&v["id"])),
        "Prune" => Op::Prune,
        "DeletePages" => Op::DeletePages(v["pages"].as_array()?.iter().map(|x| x.as_u64().unwrap_or(0) as u32).collect()),
        "Renumber" => Op::Renumber,
        "RenumberWith" => Op::RenumberWith(v["k"].as_u64().unwrap_or(1) as u32),
        "Compress" => Op::Compress,
        "Decompress" => Op::Decompress,
        "ChangeContent" => Op::ChangeContent(p, k),
        "AddContents" => Op::AddContents(p, k),
        "AddToContent" => Op::AddToContent(p),
        "AddXObject" => Op::AddXObject(p, String::from_utf8_lossy(&unhex(v["name"].as_str()?)).to_string(), idv(&v["id"])),
        "AddGState" => Op::AddGState(p, String::from_utf8_lossy(&unhex(v["name"].as_str()?)).to_string(), idv(&v["id"])),
        "InsertImage" => Op::InsertImage(p),
        "InsertForm" => Op::InsertForm(p),
        "AddBookmark" => Op::AddBookmark(k),
        "BuildOutline" => Op::BuildOutline,
        "Save" => Op::Save,
        _ => return None,
    })
}

fn marker(s: &str) -> Object { dobj(vec![("Type", nm(s))]) }

fn add_obj(k: u8, pages: &[Id]) -> Object {
    if k == 0 {
        dobj(vec![("Type", nm("Added")), ("Ref", Object::Reference(pages.first().copied().unwrap_or((9999, 0)))), ("Dangling", rf(8888))])
    } else {
        strm(vec![], b"added stream")
    }
}

fn repl_obj(old: Option<&Object>) -> Object {
    match old { Some(Object::Stream(_)) => strm(vec![], b"0 g"), _ => marker("Replaced") }
}

fn content_arg(k: u8) -> Vec<u8> { if k == 0 { b"0 g".to_vec() } else { long(b'B') } }

fn append_arg(k: u8) -> Vec<u8> {
    if k == 0 { b"q 0 G Q".to_vec() } else { let mut v = vec![]; for _ in 0..12 { v.extend_from_slice(b"0 0 1 1 re f "); } v.extend_from_slice(b"n"); v }
}

fn image_stream() -> Stream {
    Stream::new(dct(vec![("Type", nm("XObject")), ("Subtype", nm("Image")), ("Width", int(1)), ("Height", int(1)), ("ColorSpace", nm("DeviceGray")), ("BitsPerComponent", int(8)), ("C11Marker", nm("Inserted"))]), vec![0x7f])
}

fn form_stream() -> Stream {
    Stream::new(dct(vec![("Type", nm("XObject")), ("Subtype", nm("Form")), ("BBox", arr(vec![int(0), int(0), int(1), int(1)])), ("C11Marker", nm("Inserted"))]), b"0 g".to_vec())
}

enum Out {
    Unit,
    Id(Id),
    Opt(Option<Object>),
    Res(Result<(), String>),
    Ids(Vec<Id>),
    OptId(Option<Id>),
    Bm(u32),
    Saved(Result<Vec<u8>, String>),
}

fn pg(pages: &[Id], n: u32) -> Id {
    if n == 0 { return (9999, 0); }
    pages.get(n as usize - 1).copied().unwrap_or((9999, 0))
}

fn apply(d: &mut Document, op: &Op, pages: &[Id]) -> Out {
    let es = |r: lopdf::Result<()>| Out::Res(r.map_err(|e| e.to_string()));
    match op {
        Op::NewId => Out::Id(d.new_object_id()),
        Op::Add(k) => Out::Id(d.add_object(add_obj(*k, pages))),
        Op::Replace(id) => { let o = repl_obj(d.objects.get(id)); d.set_object(*id, o); Out::Unit }
        Op::AllocSet => { let id = d.new_object_id(); d.set_object(id, marker("AllocSet")); Out::Id(id) }
        Op::SetBeyond => { let id = (d.max_id + 1, 0); d.set_object(id, marker("Beyond")); Out::Id(id) }
        Op::Delete(id) => Out::Opt(d.delete_object(*id)),
        Op::RemoveAnnot(id) => es(d.remove_object(id)),
        Op::Prune => Out::Ids(d.prune_objects()),
        Op::DeletePages(v) => { d.delete_pages(v); Out::Unit }
        Op::Renumber => { d.renumber_objects(); Out::Unit }
        Op::RenumberWith(k) => { d.renumber_objects_with(*k); Out::Unit }
        Op::Compress => { d.compress(); Out::Unit }
        Op::Decompress => { d.decompress(); Out::Unit }
        Op::ChangeContent(p, k) => es(d.change_page_content(pg(pages, *p), content_arg(*k))),
        Op::AddContents(p, k) => es(d.add_page_contents(pg(pages, *p), append_arg(*k))),
        Op::AddToContent(p) => es(d.add_to_page_content(pg(pages, *p), Content { operations: vec![Operation::new("q", vec![]), Operation::new("Q", vec![])] })),
        Op::AddXObject(p, n, t) => es(d.add_xobject(pg(pages, *p), n.as_bytes().to_vec(), *t)),
        Op::AddGState(p, n, t) => es(d.add_graphics_state(pg(pages, *p), n.as_bytes().to_vec(), *t)),
        Op::InsertImage(p) => es(d.insert_image(pg(pages, *p), image_stream(), (5.0, 5.0), (10.0, 10.0))),
        Op::InsertForm(p) => es(d.insert_form_object(pg(pages, *p), form_stream())),
        Op::AddBookmark(k) => {
            if *k == 0 { Out::Bm(d.add_bookmark(Bookmark::new("Chapter".into(), [0.0, 0.0, 1.0], 0, pg(pages, 1)), None)) }
            else { Out::Bm(d.add_bookmark(Bookmark::new("R\u{e9}sum\u{e9}".into(), [1.0, 0.0, 0.0], 2, pg(pages, 2)), Some(1))) }
        }
        Op::BuildOutline => Out::OptId(d.build_outline()),
        Op::Save => { let mut buf = vec![]; let r = d.save_to(&mut buf); Out::Saved(r.map(|_| buf).map_err(|e| e.to_string())) }
    }
}

// ---------------------------------------------------------------------------------------------------------
// one step: apply the call to the real document, compare the real post-state with what the statement implies
// ---------------------------------------------------------------------------------------------------------

#[derive(Clone)]
struct State {
    doc: Document,
    obs: Obs,
    /// identifiers handed out by new_object_id and not used yet
    allocated: BTreeSet<Id>,
    /// an earlier call stored an object above max_id with set_object
    beyond: bool,
}

struct StepResult { next: Option<State>, fails: Vec<(String, String)>, changed: bool }

fn is_ref_in(o: &Object, ids: &BTreeSet<Id>) -> bool { matches!(o, Object::Reference(r) if ids.contains(r)) }

fn strip_dict(d: &Dictionary, ids: &BTreeSet<Id>, drop_count: bool) -> Dictionary {
    let is_pages = matches!(d.get(b"Type"), Ok(Object::Name(n)) if n == b"Pages");
    let mut n = Dictionary::new();
    for (k, v) in d.iter() {
        if is_ref_in(v, ids) { continue; }
        if drop_count && is_pages && k == b"Count" { continue; }
        n.set(k.clone(), strip(v, ids, drop_count));
    }
    n
}

/// the object with every reference to one of `ids` taken out of arrays and dictionaries (and /Count of Pages nodes if asked)
fn strip(o: &Object, ids: &BTreeSet<Id>, drop_count: bool) -> Object {
    match o {
        Object::Array(a) => Object::Array(a.iter().filter(|x| !is_ref_in(x, ids)).map(|x| strip(x, ids, drop_count)).collect()),
        Object::Dictionary(d) => Object::Dictionary(strip_dict(d, ids, drop_count)),
        Object::Stream(s) => {
            let mut n = s.clone();
            n.dict = strip_dict(&s.dict, ids, drop_count);
            // a stream whose indirect Length was one of the deleted objects receives a direct Length (library fix 6f26179):
            // compare such streams modulo their Length entry
            if !ids.is_empty() && matches!(s.dict.get(b"Length"), Ok(Object::Integer(_))) | s.dict.get(b"Length").is_err() { n.dict.remove(b"Length"); }
            Object::Stream(n)
        }
        _ => o.clone(),
    }
}

fn without_keys(d: &Dictionary, keys: &[&[u8]]) -> Dictionary {
    let mut n = Dictionary::new();
    for (k, v) in d.iter() { if !keys.contains(&k.as_slice()) { n.set(k.clone(), v.clone()); } }
    n
}

fn stream_sem_eq(a: &Stream, b: &Stream) -> Result<(), String> {
    if a == b { return Ok(()); }
    let da = match decode_stream(a) { Ok(x) => x, Err(e) => return Err(format!("a stream whose data cannot be decoded ({}) was changed", e)) };
    let db = decode_stream(b).map_err(|e| format!("stream data can no longer be decoded: {}", e))?;
    if da != db { return Err(format!("decoded stream data changed from {:?} ({} bytes) to {:?} ({} bytes)", show(&da), da.len(), show(&db), db.len())); }
    let ig: &[&[u8]] = &[b"Filter", b"DecodeParms", b"Length"];
    if without_keys(&a.dict, ig) != without_keys(&b.dict, ig) { return Err("stream dictionary changed beyond Filter/DecodeParms/Length".into()); }
    match b.dict.get(b"Length") { Ok(Object::Integer(n)) if *n == b.content.len() as i64 => Ok(()), other => Err(format!("Length {:?} does not match {} content bytes", other.ok(), b.content.len())) }
}

/// an Annots holder (page dictionary or array object) with the references to `a` removed from the annotation array
fn strip_annots(o: &Object, a: Id) -> Object {
    let ids: BTreeSet<Id> = [a].into_iter().collect();
    match o {
        Object::Array(v) => Object::Array(v.iter().filter(|x| !is_ref_in(x, &ids)).cloned().collect()),
        Object::Dictionary(d) => {
            let mut n = d.clone();
            if let Ok(Object::Array(v)) = d.get(b"Annots") { n.set("Annots", Object::Array(v.iter().filter(|x| !is_ref_in(x, &ids)).cloned().collect())); }
            Object::Dictionary(n)
        }
        _ => o.clone(),
    }
}

fn count_bookmarks(d: &Document, ids: &[u32], depth: u32) -> usize {
    if depth > 16 { return 0; }
    ids.iter().map(|i| 1 + d.bookmark_table.get(i).map(|b| count_bookmarks(d, &b.children, depth + 1)).unwrap_or(0)).sum()
}

fn erase_refs(o: &Object) -> Object {
    match o {
        Object::Reference(_) => Object::Name(b"REF".to_vec()),
        Object::Array(a) => Object::Array(a.iter().map(erase_refs).collect()),
        Object::Dictionary(d) => { let mut n = Dictionary::new(); for (k, v) in d.iter() { n.set(k.clone(), erase_refs(v)); } Object::Dictionary(n) }
        Object::Stream(s) => { let mut n = s.clone(); let mut nd = Dictionary::new(); for (k, v) in s.dict.iter() { nd.set(k.clone(), erase_refs(v)); } n.dict = nd; Object::Stream(n) }
        _ => o.clone(),
    }
}

fn step(pre: &State, op: &Op) -> StepResult {
    let mut fails: Vec<(String, String)> = vec![];
    let predoc = &pre.doc;
    let mut post = pre.doc.clone();
    let pages: Vec<Id> = pre.obs.pages.iter().map(|p| p.id).collect();
    let out = match quiet(|| apply(&mut post, op, &pages)) {
        Ok(o) => o,
        Err(p) => return StepResult { next: None, fails: vec![("no-panic".into(), format!("{:?} panicked: {}", op, p))], changed: true },
    };
    let obs = match quiet(|| observe(&post)) {
        Ok(o) => o,
        Err(p) => return StepResult { next: None, fails: vec![("no-panic".into(), format!("get_page_content on the state after {:?} panicked: {}", op, p))], changed: true },
    };
    let reach = &pre.obs.reach;
    let sets_beyond = match op { Op::SetBeyond => true, Op::Replace(id) => !predoc.objects.contains_key(id) && id.0 > predoc.max_id, _ => false };
    let fresh_obl = if pre.beyond || sets_beyond { "fresh-id-after-set-object-above-max-id" } else { "fresh-id" };
    let mut allocated = pre.allocated.clone();
    let mut beyond = pre.beyond || sets_beyond;
    let new_keys: Vec<Id> = post.objects.keys().filter(|k| !predoc.objects.contains_key(k)).cloned().collect();
    let is_fresh = |id: &Id| !predoc.objects.contains_key(id) && !pre.allocated.contains(id);
    let pre_page = |id: Id| pre.obs.pages.iter().find(|p| p.id == id);
    let post_page = |id: Id| obs.pages.iter().find(|p| p.id == id);

    let mut expect_pages = pages.clone();
    let mut positional = false;
    let mut skip_c: BTreeSet<Id> = BTreeSet::new();
    let mut skip_r: BTreeSet<Id> = BTreeSet::new();
    let mut target_page: Option<Id> = None;
    let mut exempt: BTreeSet<Id> = BTreeSet::new();
    let mut removed: BTreeSet<Id> = BTreeSet::new();
    let mut strip_ids: BTreeSet<Id> = BTreeSet::new();
    let mut drop_count = false;
    let mut allocating = false;
    let mut frame = true;
    let mut stream_sem = false;
    let mut page_key: Option<(Id, &'static [u8])> = None;
    let mut annot: Option<Id> = None;
    let mut trailer_ignore: &[&[u8]] = &[];
    let mut count_obl = "count-leaves";
    let mut count_exempt = false;
    let touching = |id: Id, sc: &mut BTreeSet<Id>, sr: &mut BTreeSet<Id>| {
        for p in &pre.obs.pages { if p.cdeps.contains(&id) { sc.insert(p.id); } if p.rdeps.contains(&id) { sr.insert(p.id); } }
    };

    match op {
        Op::NewId => {
            allocating = true;
            if let Out::Id(id) = &out {
                if !is_fresh(id) { fails.push((fresh_obl.into(), format!("new_object_id returned {:?}, which is {}", id, if predoc.objects.contains_key(id) { "the id of an existing object" } else { "an id handed out before" }))); }
                allocated.insert(*id);
            }
        }
        Op::Add(_) | Op::AllocSet => {
            allocating = true;
            if let Out::Id(id) = &out {
                if !is_fresh(id) { fails.push((fresh_obl.into(), format!("{:?} stored its object under {:?}, which is {}", op, id, if predoc.objects.contains_key(id) { "the id of an existing object" } else { "an id handed out before" }))); }
                let want = if let Op::Add(k) = op { add_obj(*k, &pages) } else { marker("AllocSet") };
                if post.objects.get(id) != Some(&want) { fails.push(("add-stores-object".into(), format!("object under the returned id {:?} is {:?}", id, post.objects.get(id)))); }
                exempt.insert(*id);
            }
        }
        Op::SetBeyond => {
            if let Out::Id(id) = &out {
                if post.objects.get(id) != Some(&marker("Beyond")) { fails.push(("replace-stores-object".into(), format!("set_object({:?}) did not store the object", id))); }
                exempt.insert(*id);
            }
        }
        Op::Replace(id) => {
            exempt.insert(*id);
            allocated.remove(id);
            if post.objects.get(id) != Some(&repl_obj(predoc.objects.get(id))) { fails.push(("replace-stores-object".into(), format!("set_object({:?}) did not store the object", id))); }
            touching(*id, &mut skip_c, &mut skip_r);
            if pre.obs.tree_nodes.contains(id) {
                // the caller overwrote a page-tree node with something that is no page: the page list is that of the
                // model with the same overwrite, and the ancestors' Count is the caller's business (set_object is a raw store)
                let mut m = predoc.clone();
                m.objects.insert(*id, repl_obj(predoc.objects.get(id)));
                expect_pages = page_tree(&m).0;
                count_exempt = true;
            }
        }
        Op::Delete(id) => {
            removed.insert(*id);
            strip_ids.insert(*id);
            touching(*id, &mut skip_c, &mut skip_r);
            let mut m = predoc.clone();
            m.objects.remove(id);
            expect_pages = page_tree(&m).0;
            if pre.obs.tree_nodes.contains(id) {
                count_obl = "count-leaves-after-delete-object-of-page-tree-node";
                // the ancestors' Count has to change with the leaves that go: the count-leaves observer judges its value
                drop_count = true;
            }
        }
        Op::RemoveAnnot(id) => {
            annot = Some(*id);
            if let Out::Res(Ok(())) = &out {
                let ids: BTreeSet<Id> = [*id].into_iter().collect();
                for p in &obs.pages {
                    if let Some(Object::Array(a)) = dict_of(&post, p.id).and_then(|d| d.get(b"Annots").ok()).and_then(|a| deref(&post, a)) {
                        if a.iter().any(|x| is_ref_in(x, &ids)) { fails.push(("remove-annotation-effect".into(), format!("remove_object({:?}) returned Ok but page {:?} still lists the annotation", id, p.id))); }
                    }
                }
            }
        }
        Op::Prune => {
            let unreachable: BTreeSet<Id> = predoc.objects.keys().filter(|k| !reach.contains(k)).cloned().collect();
            removed = unreachable.clone();
            let kept: BTreeSet<Id> = post.objects.keys().cloned().collect();
            let want: BTreeSet<Id> = predoc.objects.keys().filter(|k| reach.contains(k)).cloned().collect();
            if kept != want {
                let lost: Vec<&Id> = want.difference(&kept).collect();
                let stay: Vec<&Id> = kept.difference(&want).collect();
                fails.push(("prune-exact".into(), format!("prune_objects removed reachable objects {:?} and/or kept unreachable objects {:?}", lost, stay)));
            }
            if let Out::Ids(v) = &out {
                let got: BTreeSet<Id> = v.iter().cloned().collect();
                if got != unreachable || got.len() != v.len() { fails.push(("prune-exact".into(), format!("prune_objects returned {:?}, the unreachable objects were {:?}", v, unreachable))); }
            }
        }
        Op::DeletePages(nums) => {
            let del: BTreeSet<Id> = nums.iter().filter(|n| **n >= 1 && (**n as usize) <= pages.len()).map(|n| pages[*n as usize - 1]).collect();
            expect_pages = pages.iter().filter(|p| !del.contains(p)).cloned().collect();
            removed = del.clone();
            strip_ids = del;
            drop_count = true;
        }
        Op::Renumber | Op::RenumberWith(_) => {
            frame = false;
            positional = true;
            allocated.clear();
            beyond = false;
            if post.objects.len() != predoc.objects.len() { fails.push(("renumber-preserves-objects".into(), format!("{} objects before, {} after", predoc.objects.len(), post.objects.len()))); }
            else {
                let shapes = |d: &Document| { let mut v: Vec<String> = d.objects.values().map(|o| format!("{:?}", erase_refs(o))).collect(); v.sort(); v };
                if shapes(predoc) != shapes(&post) { fails.push(("renumber-preserves-objects".into(), "the objects, references blanked, are not the same collection before and after".into())); }
            }
            if obs.pages.len() == pre.obs.pages.len() {
                let mut in_tree = vec![];
                let mut todo: Vec<u32> = predoc.bookmarks.clone();
                while let Some(x) = todo.pop() { if in_tree.len() > 64 { break; } if let Some(b) = predoc.bookmark_table.get(&x) { in_tree.push(x); todo.extend(b.children.iter().cloned()); } }
                for (k, b) in predoc.bookmark_table.iter().filter(|(k, _)| in_tree.contains(k)) {
                    if let Some(pos) = pages.iter().position(|p| *p == b.page) {
                        let now = post.bookmark_table.get(k).map(|x| x.page);
                        if now != Some(obs.pages[pos].id) { fails.push(("renumber-bookmark-page".into(), format!("bookmark {} pointed at page number {} ({:?}); afterwards it points at {:?}, page number {} is {:?}", k, pos + 1, b.page, now, pos + 1, obs.pages[pos].id))); }
                    }
                }
            }
        }
        Op::Compress | Op::Decompress => { stream_sem = true; }
        Op::ChangeContent(p, _) | Op::AddContents(p, _) | Op::AddToContent(p) | Op::InsertImage(p) | Op::InsertForm(p) => {
            allocating = true;
            let page = pg(&pages, *p);
            if let Some(pp) = pre_page(page) {
                target_page = Some(page);
                page_key = Some((page, b"Contents"));
                match op {
                    Op::ChangeContent(..) => { exempt.extend(pp.cdeps.iter().cloned()); }
                    Op::InsertImage(_) | Op::InsertForm(_) => { exempt.extend(pp.cdeps.iter().cloned()); exempt.extend(pp.rdeps.iter().cloned()); }
                    _ => {}
                }
                let ok = matches!(&out, Out::Res(Ok(())));
                if let (Ok(before), Some(qp)) = (&pp.content, post_page(page)) {
                    match &qp.content {
                        Err(e) => fails.push(("page-content".into(), format!("content of page {:?} cannot be decoded after {:?} -> {}: {}; before the call the page decoded to {:?} ({} bytes), so the stream dictionary (Filter, DecodeParms) no longer describes the stored bytes", page, op, res_str(&out), e, show(before), before.len()))),
                        Ok(after) => {
                            let verdict: Result<(), String> = if !ok {
                                if after == before { Ok(()) } else { Err(format!("the call returned {:?} but the content changed", res_str(&out))) }
                            } else {
                                match op {
                                    Op::ChangeContent(_, k) => if *after == content_arg(*k) { Ok(()) } else { Err(format!("expected the new content {:?}", show(&content_arg(*k)))) },
                                    Op::AddContents(_, k) => {
                                        let a = append_arg(*k);
                                        if after.starts_with(before) && (after[before.len()..] == a[..] || (after.len() == before.len() + a.len() + 1 && after[before.len() + 1..] == a[..] && tokens(&after[before.len()..before.len() + 1]).is_empty())) { Ok(()) }
                                        else { Err(format!("expected the old content followed by {:?}", show(&a))) }
                                    }
                                    Op::AddToContent(_) => {
                                        if after.starts_with(before) && tokens(&after[before.len()..]) == vec![b"q".to_vec(), b"Q".to_vec()] { Ok(()) } else { Err("expected the old content followed by the operations q and Q".into()) }
                                    }
                                    Op::InsertImage(_) => check_insert(&post, page, &pp.toks, &qp.toks, true),
                                    _ => check_insert(&post, page, &pp.toks, &qp.toks, false),
                                }
                            };
                            if let Err(e) = verdict { fails.push(("page-content".into(), format!("page {:?} after {:?} -> {}: {}; content before {:?}, after {:?}", page, op, res_str(&out), e, show(before), show(after)))); }
                        }
                    }
                }
            }
        }
        Op::AddXObject(p, _, _) | Op::AddGState(p, _, _) => {
            let page = pg(&pages, *p);
            if let Some(pp) = pre_page(page) { exempt.extend(pp.rdeps.iter().cloned()); }
        }
        Op::AddBookmark(_) => {}
        Op::BuildOutline => {
            allocating = true;
            let n = count_bookmarks(predoc, &predoc.bookmarks, 0);
            match &out {
                Out::OptId(None) => { if n > 0 { fails.push(("outline-built".into(), format!("{} bookmarks registered but build_outline returned None", n))); } }
                Out::OptId(Some(id)) => {
                    if !is_fresh(id) { fails.push((fresh_obl.into(), format!("build_outline put the outline root under {:?}, which is {}", id, if predoc.objects.contains_key(id) { "the id of an existing object" } else { "an id handed out before" }))); }
                    if !post.objects.contains_key(id) { fails.push(("outline-built".into(), format!("returned outline root {:?} is not in the document", id))); }
                    exempt.insert(*id);
                }
                _ => {}
            }
        }
        Op::Save => {
            trailer_ignore = BOOKKEEPING;
            match &out {
                Out::Saved(Err(e)) => fails.push(("save-ok".into(), format!("saving to memory failed: {}", e))),
                Out::Saved(Ok(bytes)) => {
                    match quiet(|| Document::load_mem(bytes)) {
                        Err(p) => fails.push(("no-panic".into(), format!("loading the saved file panicked: {}", p))),
                        Ok(Err(e)) => fails.push(("save-reload".into(), format!("the saved file does not load: {}", e))),
                        Ok(Ok(l)) => {
                            for (id, o) in predoc.objects.iter() {
                                if crate::gen::is_bookkeeping_object(o) || !reach.contains(id) { continue; }
                                let same = match (o, l.objects.get(id)) {
                                    (Object::Stream(a), Some(Object::Stream(b))) => a.content == b.content && dict_eq(&a.dict, &b.dict, &[b"Length"]),
                                    (a, Some(b)) => obj_eq(a, b),
                                    (_, None) => false,
                                };
                                if !same { fails.push((if pre.beyond { "save-reload-after-set-object-above-max-id" } else { "save-reload" }.into(), format!("object {:?} was {:?} when saved, the saved file gives {:?}", id, o, l.objects.get(id)))); break; }
                            }
                            if !dict_eq(&predoc.trailer, &l.trailer, BOOKKEEPING) { fails.push(("save-reload".into(), format!("trailer {:?} reloads as {:?}", predoc.trailer, l.trailer))); }
                        }
                    }
                }
                _ => {}
            }
        }
    }

    // identifiers: nothing new may land on an id that was handed out earlier
    if !matches!(op, Op::Renumber | Op::RenumberWith(_) | Op::Replace(_) | Op::SetBeyond) {
        for k in &new_keys {
            if pre.allocated.contains(k) { fails.push((fresh_obl.into(), format!("{:?} created object {:?}, an id new_object_id had handed out before", op, k))); }
        }
    }

    // explicit deletions: gone, and no reference left in the live document
    if !removed.is_empty() && *op != Op::Prune {
        for r in &removed { if post.objects.contains_key(r) { fails.push(("delete-removes".into(), format!("{:?} left object {:?} in the document", op, r))); } }
        let live = reach_ids(&post);
        let mut left = vec![];
        for (k, v) in post.trailer.iter() { if has_ref(v, &removed) { left.push(format!("trailer /{}", String::from_utf8_lossy(k))); } }
        for id in &live { if let Some(o) = post.objects.get(id) { if has_ref(o, &removed) { left.push(format!("object {} {}: {:?}", id.0, id.1, o)); } } }
        if !left.is_empty() { let mut t = left.join("; "); t.truncate(500); fails.push(("delete-no-leftover-reference".into(), format!("{:?} left references to {:?} in {}", op, removed, t))); }
    }

    // frame: every other object is what it was
    if frame {
        let annot_holders: BTreeSet<Id> = if annot.is_some() {
            let mut h = BTreeSet::new();
            for p in &pre.obs.pages { h.insert(p.id); if let Some(a) = dict_of(predoc, p.id).and_then(|d| d.get(b"Annots").ok()) { let mut ids = BTreeSet::new(); deref_ids(predoc, a, &mut ids); h.extend(ids); } }
            h
        } else { BTreeSet::new() };
        for (k, o) in predoc.objects.iter() {
            if removed.contains(k) { continue; }
            let reachable = reach.contains(k);
            if !reachable && !allocating { continue; }
            let verdict: Result<(), String> = match post.objects.get(k) {
                None => Err("was removed".into()),
                Some(p) if p == o => Ok(()),
                Some(_) if exempt.contains(k) && page_key.map(|x| x.0) != Some(*k) => Ok(()),
                Some(p) => {
                    if let Some((pid, key)) = page_key.filter(|x| x.0 == *k) {
                        let _ = pid;
                        match (o, p) {
                            (Object::Dictionary(a), Object::Dictionary(b)) if without_keys(a, &[key]) == without_keys(b, &[key]) => Ok(()),
                            _ if exempt.contains(k) => Ok(()),
                            _ => Err(format!("changed outside /{}: {:?} -> {:?}", String::from_utf8_lossy(key), o, p)),
                        }
                    } else if stream_sem {
                        match (o, p) { (Object::Stream(a), Object::Stream(b)) => stream_sem_eq(a, b), _ => Err(format!("changed: {:?} -> {:?}", o, p)) }
                    } else if let Some(a) = annot {
                        if annot_holders.contains(k) && strip_annots(o, a) == strip_annots(p, a) { Ok(()) } else { Err(format!("changed: {:?} -> {:?}", o, p)) }
                    } else if !strip_ids.is_empty() {
                        if strip(o, &strip_ids, drop_count) == strip(p, &strip_ids, drop_count) { Ok(()) } else { Err(format!("changed by more than losing references to {:?}: {:?} -> {:?}", strip_ids, o, p)) }
                    } else { Err(format!("changed: {:?} -> {:?}", o, p)) }
                }
            };
            if let Err(e) = verdict {
                let mut e = e; e.truncate(600);
                let obl = if reachable { if stream_sem { "stream-data-preserved" } else { "reachable-object-preserved" } } else { fresh_obl };
                fails.push((obl.into(), format!("{:?}: {} object {} {} {}", op, if reachable { "reachable" } else { "unreachable" }, k.0, k.1, e)));
            }
        }
        let ta = strip_dict(&without_keys(&predoc.trailer, trailer_ignore), &strip_ids, false);
        let tb = strip_dict(&without_keys(&post.trailer, trailer_ignore), &strip_ids, false);
        if ta != tb { fails.push(("reachable-object-preserved".into(), format!("{:?}: trailer changed: {:?} -> {:?}", op, predoc.trailer, post.trailer))); }
    }

    // page tree, contents, resources
    if pre.obs.counts_bad.is_empty() && !obs.counts_bad.is_empty() && !count_exempt { fails.push((count_obl.into(), format!("after {:?}: {}", op, obs.counts_bad.join("; ")))); }
    let post_ids: Vec<Id> = obs.pages.iter().map(|p| p.id).collect();
    if positional {
        if post_ids.len() != pages.len() { fails.push(("page-list".into(), format!("{} pages before {:?}, {} after", pages.len(), op, post_ids.len()))); }
    } else if post_ids != expect_pages {
        fails.push(("page-list".into(), format!("pages after {:?} are {:?}, expected {:?}", op, post_ids, expect_pages)));
    }
    let pairs: Vec<(&PageObs, &PageObs)> = if positional {
        if post_ids.len() == pages.len() { pre.obs.pages.iter().zip(obs.pages.iter()).collect() } else { vec![] }
    } else {
        obs.pages.iter().filter_map(|b| pre_page(b.id).map(|a| (a, b))).collect()
    };
    for (a, b) in pairs {
        if !skip_c.contains(&a.id) && Some(a.id) != target_page {
            if let Ok(ca) = &a.content {
                match &b.content {
                    Ok(cb) if cb == ca => {}
                    other => fails.push(("page-content-preserved".into(), format!("{:?} changed the content of page {:?}, which it does not edit, from {:?} to {:?}", op, a.id, show(ca), other.as_ref().map(|x| show(x))))),
                }
            }
        }
        if a.lib_agrees && !b.lib_agrees {
            fails.push(("page-content-read".into(), format!("after {:?} get_page_content({:?}) gives {:?}, the page's streams decode to {:?}", op, b.id, b.lib_content, b.content.as_ref().map(|x| show(x)))));
        }
        if !skip_r.contains(&a.id) && !matches!(op, Op::Delete(_) | Op::Replace(_)) {
            let lost: Vec<String> = a.usable.difference(&b.usable).map(|(c, n)| format!("/{} /{}", String::from_utf8_lossy(c), String::from_utf8_lossy(n))).collect();
            if !lost.is_empty() { fails.push(("resources-monotone".into(), format!("after {:?} page {:?} can no longer use {}", op, b.id, lost.join(", ")))); }
        }
    }

    // the next identifier is fresh in the state just reached
    let mut probe = post.clone();
    match quiet(|| probe.new_object_id()) {
        Err(p) => fails.push(("no-panic".into(), format!("new_object_id after {:?} panicked: {}", op, p))),
        Ok(nid) => {
            if post.objects.contains_key(&nid) || allocated.contains(&nid) {
                fails.push((fresh_obl.into(), format!("after {:?} the next new_object_id() returns {:?}, which is {}", op, nid, if post.objects.contains_key(&nid) { "the id of an existing object" } else { "an id handed out before" })));
            }
        }
    }

    let changed = post.objects != predoc.objects || post.trailer != predoc.trailer || post.max_id != predoc.max_id || post.bookmarks != predoc.bookmarks;
    StepResult { next: Some(State { doc: post, obs, allocated, beyond }), fails, changed }
}

fn res_str(o: &Out) -> String {
    match o { Out::Res(Ok(())) => "Ok".into(), Out::Res(Err(e)) => format!("Err({})", e), _ => "()".into() }
}

/// content after insert_image (image=true: old tokens, q, a b c d e f cm, /N Do, Q) or insert_form_object (q, old tokens, Q, /N Do);
/// /N must be an XObject name the page can use and must lead to the inserted stream
fn check_insert(post: &Document, page: Id, before: &[Vec<u8>], after: &[Vec<u8>], image: bool) -> Result<(), String> {
    let num = |t: &Vec<u8>| std::str::from_utf8(t).ok().and_then(|s| s.parse::<f64>().ok());
    let name_tok: &Vec<u8>;
    if image {
        if after.len() != before.len() + 11 || after[..before.len()] != before[..] { return Err("expected the old operations followed by q, cm, Do, Q".into()); }
        let t = &after[before.len()..];
        let want = [10.0, 0.0, 0.0, 10.0, 5.0, 5.0];
        let nums_ok = (0..6).all(|i| num(&t[1 + i]) == Some(want[i]));
        if t[0] != b"q" || !nums_ok || t[7] != b"cm" || t[9] != b"Do" || t[10] != b"Q" { return Err("expected q, 10 0 0 10 5 5 cm, /name Do, Q after the old operations".into()); }
        name_tok = &t[8];
    } else {
        if after.len() != before.len() + 4 || after[0] != b"q" || after[1..1 + before.len()] != before[..] { return Err("expected q, the old operations, Q, /name Do".into()); }
        let t = &after[1 + before.len()..];
        if t[0] != b"Q" || t[2] != b"Do" { return Err("expected Q, /name Do after the old operations".into()); }
        name_tok = &t[1];
    }
    if name_tok.first() != Some(&b'/') { return Err("operand of Do is not a name".into()); }
    match lookup_resource(post, page, b"XObject", &name_tok[1..]) {
        Some(Object::Stream(s)) if matches!(s.dict.get(b"C11Marker"), Ok(Object::Name(n)) if n == b"Inserted") => Ok(()),
        other => Err(format!("XObject name {:?} used by Do resolves to {:?} for this page, not to the inserted stream", show(name_tok), other)),
    }
}

// ---------------------------------------------------------------------------------------------------------
// start states, serialisation, enumeration
// ---------------------------------------------------------------------------------------------------------

fn add_bookmarks(d: &mut Document, b: &[BmSpec]) {
    for s in b { d.add_bookmark(Bookmark::new(s.title.clone(), [0.0, 0.5, 0.0], 1, s.page), s.parent); }
}

fn start_doc(gen_doc: &Document, bms: &[BmSpec], loaded: bool) -> Result<Document, String> {
    let mut d = gen_doc.clone();
    if loaded {
        let mut buf = vec![];
        gen_doc.clone().save_to(&mut buf).map_err(|e| format!("saving the seed failed: {}", e))?;
        d = Document::load_mem(&buf).map_err(|e| format!("loading the saved seed failed: {}", e))?;
    }
    add_bookmarks(&mut d, bms);
    Ok(d)
}

fn start_state(gen_doc: &Document, bms: &[BmSpec], loaded: bool) -> Result<State, String> {
    let doc = quiet(|| start_doc(gen_doc, bms, loaded)).map_err(|p| format!("panic while preparing the start document: {}", p))??;
    let obs = quiet(|| observe(&doc)).map_err(|p| format!("panic while observing the start document: {}", p))?;
    Ok(State { doc, obs, allocated: BTreeSet::new(), beyond: false })
}

fn doc_json(d: &Document, bms: &[BmSpec]) -> Value {
    json!({
        "version": d.version,
        "xref_stream": matches!(d.reference_table.cross_reference_type, XrefType::CrossReferenceStream),
        "max_id": d.max_id,
        "objects": d.objects.iter().map(|(id, o)| json!({"id": id.0, "gen": id.1, "obj": obj_json(o)})).collect::<Vec<_>>(),
        "trailer": obj_json(&Object::Dictionary(d.trailer.clone())),
        "bookmarks": bms.iter().map(|b| json!({"title": b.title, "page": idj(b.page), "parent": b.parent})).collect::<Vec<_>>(),
    })
}

fn doc_from_json(v: &Value) -> (Document, Vec<BmSpec>) {
    let mut d = Document::with_version(v["version"].as_str().unwrap_or("1.5"));
    d.reference_table.cross_reference_type = if v["xref_stream"].as_bool().unwrap_or(false) { XrefType::CrossReferenceStream } else { XrefType::CrossReferenceTable };
    for e in v["objects"].as_array().cloned().unwrap_or_default() {
        d.objects.insert((e["id"].as_u64().unwrap_or(0) as u32, e["gen"].as_u64().unwrap_or(0) as u16), obj_from_json(&e["obj"]));
    }
    d.max_id = v["max_id"].as_u64().unwrap_or(0) as u32;
    if let Object::Dictionary(t) = obj_from_json(&v["trailer"]) { d.trailer = t; }
    let bms = v["bookmarks"].as_array().cloned().unwrap_or_default().iter().map(|b| BmSpec { title: b["title"].as_str().unwrap_or("").to_string(), page: idv(&b["page"]), parent: b["parent"].as_u64().map(|x| x as u32) }).collect();
    (d, bms)
}

/// the start document shows exactly what it was built to show (validates the observers of this module against the construction,
/// and the library's own readers against both)
fn seed_check(s: &Seed, loaded: bool) -> Vec<(String, String)> {
    let mut f = vec![];
    let st = match start_state(&s.doc, &s.bookmarks, loaded) { Ok(x) => x, Err(e) => return vec![("seed-start".into(), e)] };
    if loaded {
        for (id, o) in s.doc.objects.iter() {
            let same = match (o, st.doc.objects.get(id)) {
                (Object::Stream(a), Some(Object::Stream(b))) => a.content == b.content && dict_eq(&a.dict, &b.dict, &[b"Length"]),
                (a, Some(b)) => obj_eq(a, b),
                _ => false,
            };
            if !same { f.push(("seed-loaded-equals-generated".into(), format!("object {:?}: generated {:?}, loaded {:?}", id, o, st.doc.objects.get(id)))); }
        }
        if st.doc.max_id < s.doc.max_id { f.push(("seed-loaded-equals-generated".into(), format!("max_id {} after loading, {} generated", st.doc.max_id, s.doc.max_id))); }
    }
    let ids: Vec<Id> = st.obs.pages.iter().map(|p| p.id).collect();
    let want: Vec<Id> = s.pages.iter().map(|p| p.id).collect();
    if ids != want { f.push(("seed-observer".into(), format!("page order {:?}, built as {:?}", ids, want))); return f; }
    if !st.obs.counts_bad.is_empty() { f.push(("seed-observer".into(), st.obs.counts_bad.join("; "))); }
    let lib_pages: Vec<Id> = st.doc.get_pages().values().cloned().collect();
    if lib_pages != want { f.push(("seed-page-list-read".into(), format!("get_pages gives {:?}, built as {:?}", lib_pages, want))); }
    for (e, o) in s.pages.iter().zip(st.obs.pages.iter()) {
        if o.content.as_ref().ok() != Some(&e.content) { f.push(("seed-observer".into(), format!("page {:?} content {:?}, built as {:?}", e.id, o.content.as_ref().map(|x| show(x)), show(&e.content)))); }
        if o.usable != e.res { f.push(("seed-observer".into(), format!("page {:?} resources {:?}, built as {:?}", e.id, o.usable, e.res))); }
        if !o.lib_agrees { f.push(("page-content-read".into(), format!("start document: get_page_content({:?}) gives {:?}, the page's streams hold {:?}", e.id, o.lib_content, show(&e.content)))); }
    }
    f
}

struct FailRec { key: (usize, usize, usize, Vec<usize>), obligation: String, detail: String, input: Value }

#[derive(Default)]
struct Local { evals: u64, nontrivial: u64, fails: BTreeMap<String, Vec<FailRec>>, counts: BTreeMap<String, u64>, samples: Vec<String>, sigs: BTreeMap<String, BTreeSet<String>> }

static DEBUG: std::sync::atomic::AtomicBool = std::sync::atomic::AtomicBool::new(false);

impl Local {
    fn add(&mut self, obligation: &str, detail: String, key: (usize, usize, usize, Vec<usize>), input: impl FnOnce() -> Value) {
        *self.counts.entry(obligation.to_string()).or_insert(0) += 1;
        let v = self.fails.entry(obligation.to_string()).or_default();
        if v.len() >= 3 && v.last().map(|l| l.key <= key).unwrap_or(false) { return; }
        v.push(FailRec { key, obligation: obligation.to_string(), detail, input: input() });
        v.sort_by(|a, b| a.key.cmp(&b.key));
        v.truncate(3);
    }
    fn merge(&mut self, o: Local) {
        self.evals += o.evals;
        self.nontrivial += o.nontrivial;
        for (k, c) in o.counts { *self.counts.entry(k).or_insert(0) += c; }
        for (k, recs) in o.fails {
            let v = self.fails.entry(k).or_default();
            v.extend(recs);
            v.sort_by(|a, b| a.key.cmp(&b.key));
            v.truncate(3);
        }
        for s in o.samples { if self.samples.len() < 4 { self.samples.push(s); } }
        for (k, v) in o.sigs { let e = self.sigs.entry(k).or_default(); for x in v { if e.len() < 400 { e.insert(x); } } }
    }
}

struct Ctx<'a> { seed: &'a Seed, loaded: bool, start_index: usize, ops: &'a [Op], docj: &'a Value, count_from: usize }

fn explore(st: &State, depth_left: usize, path: &mut Vec<usize>, prior: usize, ctx: &Ctx, loc: &mut Local) {
    for i in 0..ctx.ops.len() { node(st, i, depth_left, path, prior, ctx, loc); }
}

fn node(st: &State, i: usize, depth_left: usize, path: &mut Vec<usize>, prior: usize, ctx: &Ctx, loc: &mut Local) {
    path.push(i);
    let r = step(st, &ctx.ops[i]);
    let counted = path.len() >= ctx.count_from;
    if counted { loc.evals += 1; if r.changed { loc.nontrivial += 1; } }
    if loc.samples.is_empty() && path.len() >= 2 && r.changed && (path[0] * 31 + i * 7 + ctx.start_index) % 23 == 5 {
        loc.samples.push(format!("seed {} ({}): {:?}", ctx.seed.name, if ctx.loaded { "loaded from its saved file" } else { "generated" }, path.iter().map(|k| &ctx.ops[*k]).collect::<Vec<_>>()));
    }
    let failed = !r.fails.is_empty();
    for (ob, det) in r.fails {
        if !counted { continue; }
        if DEBUG.load(std::sync::atomic::Ordering::Relaxed) && prior == 0 {
            let e = loc.sigs.entry(ob.clone()).or_default();
            if e.len() < 400 { e.insert(format!("{} last={:?} :: {}", ctx.seed.name, ctx.ops[i], det.chars().take(260).collect::<String>())); }
        }
        let key = (prior, path.len(), ctx.start_index, path.clone());
        let seq: Vec<&Op> = path.iter().map(|k| &ctx.ops[*k]).collect();
        let detail = format!("seed '{}' ({}), calls {:?}{}: {}", ctx.seed.name, if ctx.loaded { "loaded" } else { "generated" }, seq,
            if prior > 0 { format!(" (after {} earlier violating step(s) in this sequence)", prior) } else { String::new() }, det);
        let p2 = path.clone();
        let obc = ob.clone();
        loc.add(&ob, detail, key, || json!({"doc": ctx.docj.clone(), "loaded": ctx.loaded, "ops": p2.iter().map(|k| op_json(&ctx.ops[*k])).collect::<Vec<_>>(), "obligation": obc}));
    }
    if depth_left > 1 {
        if let Some(n) = r.next { explore(&n, depth_left - 1, path, prior + failed as usize, ctx, loc); }
    }
    path.pop();
}

const LONG: usize = 4;

pub fn run(thorough: bool) -> Report {
    let depth = if thorough { 3 } else { 2 };
    let all = seeds();
    let nops: Vec<usize> = all.iter().map(|s| ops_for(s).len()).collect();
    let bound = format!(
        "{}all call sequences of length 1..={} over a per-seed alphabet of {}..{} concrete calls (new_object_id; add_object x2; renumber_objects; renumber_objects_with(4); new_object_id+set_object; set_object above max_id; set_object on 1-3 existing ids; \
delete_object on 2-7 ids incl. content streams, shared/duplicated entries, resource dictionaries, pages, the catalog, trailer- and stream-dictionary-referenced, unreachable and absent ids; remove_object on 0-3 ids; prune_objects; \
delete_pages [1],[2],[1,2],[1,1],[0,9],[3,1]; renumber_objects; compress; decompress; change_page_content per page with short data (stored plain) and with compressible data (the library compresses it again) and on an absent page; add_page_contents per page with short data, on page 1 with compressible data, and on an absent page; add_to_page_content; \
add_xobject / add_graphics_state per page with new and existing names and on an absent page; insert_image, insert_form_object per page; add_bookmark x2; build_outline; save_to + reload) \
on 10 seed documents of 8-18 objects (flat, nested and three-level page trees with Resources on two ancestors, sparse/high ids, generation 2, max_id slack, inherited/own/shared/indirect resources, Contents as reference/array/empty array/reference to array/absent, \
Flate/ASCII85/empty-filter-array/DCT/indirect-Length streams, content streams stored with decode parameters (seed 'parms': FlateDecode with /DecodeParms /Predictor 1, 11, 12, 13 and 15, PNG rows of all five filter types, Colors 1 and 3, Columns 5-14, \
DecodeParms as one dictionary and as an array [null, dictionary] parallel to an ASCII85+Flate chain, as the only stream of a page with 140 bytes of data, in a Contents array of one and of three; \
seed 'parms-lzw': LZWDecode with /Predictor 14 and 15, EarlyChange 0 and 1 and without parameters, as the only stream of a page with 135 bytes of data and in an array of two; this one seed with sequences of length 1..=2 only in both tiers), \
duplicate and shared annotations, Annots absent/direct/indirect, dangling and cyclic references, unreachable objects, registered bookmarks), \
each seed once as generated and once as loaded from its own saved file; every step of every sequence checked against the pre-state; structures are small and acyclic in depth, so no call can recurse unboundedly (no child process used)",
        if thorough { "all call sequences of length 4 over a reduced alphabet of 20-21 calls (one concrete call per editing function, without set_object above max_id; not for seed 'parms-lzw'), and " } else { "" },
        depth, nops.iter().min().unwrap(), nops.iter().max().unwrap());
    let mut rep = Report::new(&bound, true);
    let prev = std::panic::take_hook();
    std::panic::set_hook(Box::new(|_| {}));

    if std::env::var("C11_DEBUG").is_ok() { DEBUG.store(true, std::sync::atomic::Ordering::Relaxed); }
    let mut total = Local::default();
    // the start documents themselves
    let mut starts: Vec<(usize, bool)> = vec![];
    for (si, s) in all.iter().enumerate() {
        for loaded in [false, true] {
            total.evals += 1;
            total.nontrivial += 1;
            let f = quiet(|| seed_check(s, loaded)).unwrap_or_else(|p| vec![("no-panic".into(), format!("checking the start document panicked: {}", p))]);
            let usable_start = !f.iter().any(|(o, _)| o == "seed-start" || o == "seed-observer" || o == "no-panic");
            for (ob, det) in f {
                let name = s.name;
                total.add(&ob, format!("seed '{}' ({}): {}", s.name, if loaded { "loaded" } else { "generated" }, det), (0, 0, starts.len(), vec![]), || json!({"seed_check": name, "loaded": loaded, "obligation": ob.clone()}));
            }
            if usable_start { starts.push((si, loaded)); }
        }
    }
    let opsets: Vec<Vec<Op>> = all.iter().map(ops_for).collect();
    let docjs: Vec<Value> = all.iter().map(|s| doc_json(&s.doc, &s.bookmarks)).collect();
    let coresets: Vec<Vec<Op>> = all.iter().map(core_ops).collect();
    // (start, seed, loaded, first call, long phase)
    let mut tasks: Vec<(usize, usize, bool, usize, bool)> = vec![];
    for (k, (si, loaded)) in starts.iter().enumerate() {
        for i in 0..opsets[*si].len() { tasks.push((k, *si, *loaded, i, false)); }
        if thorough && all[*si].name != SHALLOW { for i in 0..coresets[*si].len() { tasks.push((k, *si, *loaded, i, true)); } }
    }
    let locals: Vec<Local> = tasks.par_iter().map(|(k, si, loaded, i, long_phase)| {
        let mut loc = Local::default();
        let s = &all[*si];
        match start_state(&s.doc, &s.bookmarks, *loaded) {
            Ok(st) => {
                let mut path = vec![];
                if *long_phase {
                    // sequences of exactly LONG calls over the reduced alphabet; shorter ones are part of the full-alphabet family
                    let ctx = Ctx { seed: s, loaded: *loaded, start_index: *k, ops: &coresets[*si], docj: &docjs[*si], count_from: LONG };
                    node(&st, *i, LONG, &mut path, 0, &ctx, &mut loc);
                } else {
                    let ctx = Ctx { seed: s, loaded: *loaded, start_index: *k, ops: &opsets[*si], docj: &docjs[*si], count_from: 1 };
                    node(&st, *i, if s.name == SHALLOW { 2 } else { depth }, &mut path, 0, &ctx, &mut loc);
                }
            }
            Err(e) => loc.add("seed-start", e, (0, 0, *k, vec![]), || json!({"seed_check": s.name, "loaded": loaded})),
        }
        loc
    }).collect();
    for l in locals { total.merge(l); }
    std::panic::set_hook(prev);

    rep.evaluations = total.evals;
    rep.nontrivial = total.nontrivial;
    rep.obligations = 28;
    for s in total.samples { rep.sample(s); }
    let mut recs: Vec<FailRec> = total.fails.into_values().flatten().collect();
    recs.sort_by(|a, b| (a.obligation.as_str(), &a.key).cmp(&(b.obligation.as_str(), &b.key)));
    for r in recs {
        let n = total.counts.get(&r.obligation).cloned().unwrap_or(0);
        rep.fail(&r.obligation, format!("[{} failing steps in total for this obligation] {}", n, r.detail), r.input, r.detail.clone());
    }
    for (k, c) in &total.counts { eprintln!("c11: obligation {} failed at {} steps", k, c); }
    for (k, v) in &total.sigs { for x in v { eprintln!("c11-debug {} :: {}", k, x); } }
    rep
}

pub fn replay(v: &Value) -> Result<(), String> {
    let want = v["obligation"].as_str().map(|s| s.to_string());
    let matches_want = |o: &str| want.as_deref().map(|w| w == o).unwrap_or(true);
    if let Some(name) = v["seed_check"].as_str() {
        let s = seeds().into_iter().find(|s| s.name == name).ok_or_else(|| format!("unknown seed {}", name))?;
        let f = guarded(AssertUnwindSafe(|| seed_check(&s, v["loaded"].as_bool().unwrap_or(false)))).map_err(|p| format!("no-panic: {}", p))?;
        return match f.into_iter().find(|(o, _)| matches_want(o)) { Some((o, d)) => Err(format!("{}: {}", o, d)), None => Ok(()) };
    }
    let (doc, bms) = doc_from_json(&v["doc"]);
    let ops: Vec<Op> = v["ops"].as_array().cloned().unwrap_or_default().iter().filter_map(op_from_json).collect();
    let r = guarded(AssertUnwindSafe(|| -> Result<(), String> {
        let mut st = start_state(&doc, &bms, v["loaded"].as_bool().unwrap_or(false)).map_err(|e| format!("seed-start: {}", e))?;
        for (k, op) in ops.iter().enumerate() {
            let r = step(&st, op);
            if let Some((o, d)) = r.fails.into_iter().find(|(o, _)| matches_want(o)) { return Err(format!("{} at call {} ({:?}): {}", o, k + 1, op, d)); }
            match r.next { Some(n) => st = n, None => break }
        }
        Ok(())
    }));
    match r { Ok(x) => x, Err(p) => Err(format!("no-panic: harness-level panic {}", p)) }
}
