//! E3: bounded-exhaustive evaluation of executable contracts on the real lopdf crate (built from /repo).
//! Every subcommand prints one line `{"e3": ...}` with what it covered; exit 0 always (the driver decides).
//! `replay <file>` re-runs a recorded failing input: exit 1 if it still fails, 0 if not.
mod common;
mod gen;
mod strict;
mod sinks;
/// lopdf's public root under the name the Kani harness bodies use (they are compiled inside lopdf under cfg(kani) as well)
mod verif_lp { pub use lopdf::*; }
#[path = "../../kani/harnesses.rs"]
mod verif_kani;
mod c01;
mod c03;
mod c19;
mod c02;
mod c04;
mod c05;
mod c06;
mod c07;
mod c08;
mod c09;
mod c10;
mod c11;
mod c12;
mod c13;
mod c14;
mod c15;
mod c16;
mod c17;

use common::*;

fn main() {
    let args: Vec<String> = std::env::args().collect();
    if args.len() < 2 {
        eprintln!("usage: harness <cmd> [--tier quick|thorough] [--seed n]");
        std::process::exit(2);
    }
    let cmd = args[1].as_str();
    let tier = arg_val(&args, "--tier").unwrap_or_else(|| "quick".into());
    let thorough = tier == "thorough";
    if cmd == "c04-worker" {
        c04::worker(args[2].parse().unwrap(), args[3].parse().unwrap(), args.get(4).map(|s| s == "thorough").unwrap_or(false));
        return;
    }
    if cmd == "c04-one" {
        c04::one(&args[2], &args[3]);
        return;
    }
    if cmd == "c08-digests" {
        println!("{}", c08::digests(thorough));
        return;
    }
    if cmd == "replay" {
        let path = &args[2];
        let txt = std::fs::read_to_string(path).expect("replay file");
        let v: serde_json::Value = serde_json::from_str(&txt).expect("json");
        let rc = replay(&v);
        std::process::exit(rc);
    }
    let rep = run(cmd, thorough);
    match rep {
        Some(r) => println!("{}", r.to_json(cmd)),
        None => {
            eprintln!("unknown command {}", cmd);
            std::process::exit(2);
        }
    }
}

pub fn run(cmd: &str, thorough: bool) -> Option<Report> {
    Some(match cmd {
        "c01-roundtrip" => c01::roundtrip(thorough),
        "c01-bytepairs" => c01::bytepairs(thorough),
        "c01-reals" => c01::reals(thorough),
        "c03-strict" => c03::strict(thorough),
        "c19-sinks" => c19::sinks(thorough),
        "c02-reader" => c02::run(thorough),
        "c04-hostile" => c04::run(thorough),
        "c04-depth" => c04::run_depth(thorough),
        "c05-encrypt" => c05::run(thorough),
        "c06-interop" => c06::run(thorough),
        "c07-histories" => c07::run(thorough),
        "c08-orders" => c08::run(thorough),
        "c09-filters" => c09::run(thorough),
        "c10-renumber" => c10::run(thorough),
        "c11-edits" => c11::run(thorough),
        "c12-pages" => c12::run(thorough),
        "c13-queries" => c13::run(thorough),
        "c14-content" => c14::run(thorough),
        "c15-cmap" => c15::run(thorough),
        "c16-text" => c16::run(thorough),
        "c16-strings" => c16::strings(thorough),
        "c17-outline" => c17::run(thorough),
        _ => return None,
    })
}

fn replay_kani(r: &serde_json::Value) -> Result<(), String> {
    use verif_kani::*;
    let values: Vec<Vec<u8>> = r["values"].as_array().cloned().unwrap_or_default().iter().map(|v| v.as_array().cloned().unwrap_or_default().iter().map(|b| b.as_u64().unwrap_or(0) as u8).collect()).collect();
    let mut src = Replayed { values, next: 0 };
    match r["kani_harness"].as_str().unwrap_or("") {
        "kani_png_row_of_two" => match png_row_of_two(&mut src) { None => Ok(()), Some((ft, prev, raw, got)) => Err(format!("decode_row(filter type {}, bpp 1, previous row {:?}, row {:?}) gave {:?}, which is not the PNG reconstruction", ft, prev, raw, got)) },
        "kani_permission_word" => match permission_word(&mut src) { None => Ok(()), Some((x, p)) => Err(format!("Permissions::from_bits_truncate({:#x}).p_value() = {:#x} violates ISO 32000-1 table 22", x, p)) },
        "kani_filter_type_byte" => match filter_type_byte(&mut src) { None => Ok(()), Some(b) => Err(format!("FilterType::try_from({}) is wrong", b)) },
        other => Err(format!("unknown Kani harness {:?}", other)),
    }
}

fn replay(v: &serde_json::Value) -> i32 {
    let r = &v["failing_input"];
    if v["step"].as_str().unwrap_or("").starts_with("kani:") {
        return match common::guarded(std::panic::AssertUnwindSafe(|| replay_kani(r))) {
            Ok(Ok(())) => { println!("replay: input no longer fails"); 0 }
            Ok(Err(e)) => { println!("replay: STILL FAILS: {}", e); 1 }
            Err(p) => { println!("replay: STILL FAILS: panic: {}", p); 1 }
        };
    }
    let cmd = v["step"].as_str().unwrap_or("").trim_start_matches("e3:").to_string();
    let res = match cmd.as_str() {
        "c01-roundtrip" | "c01-bytepairs" | "c01-reals" => c01::replay(r),
        "c03-strict" => c03::replay(r),
        "c19-sinks" => c19::replay(r),
        "c02-reader" => c02::replay(r),
        "c04-hostile" | "c04-depth" => c04::replay(r),
        "c05-encrypt" => c05::replay(r),
        "c06-interop" => c06::replay(r),
        "c07-histories" => c07::replay(r),
        "c08-orders" => c08::replay(r),
        "c09-filters" => c09::replay(r),
        "c10-renumber" => c10::replay(r),
        "c11-edits" => c11::replay(r),
        "c12-pages" => c12::replay(r),
        "c13-queries" => c13::replay(r),
        "c14-content" => c14::replay(r),
        "c15-cmap" => c15::replay(r),
        "c16-text" | "c16-strings" => c16::replay(r),
        "c17-outline" => c17::replay(r),
        _ => { eprintln!("no replay for {}", cmd); return 2; }
    };
    match res {
        Ok(()) => { println!("replay: input no longer fails"); 0 }
        Err(e) => { println!("replay: STILL FAILS: {}", e); 1 }
    }
}
