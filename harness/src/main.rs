//! E3: bounded-exhaustive evaluation of executable contracts on the real lopdf crate (built from /repo).
//! Every subcommand prints one line `{"e3": ...}` with what it covered; exit 0 always (the driver decides).
//! `replay <file>` re-runs a recorded failing input: exit 1 if it still fails, 0 if not.
mod common;
mod gen;
mod strict;
mod sinks;
mod c01;
mod c03;
mod c19;

use common::*;

fn main() {
    let args: Vec<String> = std::env::args().collect();
    if args.len() < 2 {
        eprintln!("usage: harness <cmd> [--tier quick|thorough] [--seed n]");
        std::process::exit(2);
    }
    let cmd = args[1].as_str();
    let tier = arg_val(&args, "--tier").unwrap_or_else(|| "quick".into());
    let thorough = tier == "thorough";
    if cmd == "replay" {
        let path = &args[2];
        let txt = std::fs::read_to_string(path).expect("replay file");
        let v: serde_json::Value = serde_json::from_str(&txt).expect("json");
        let rc = replay(&v);
        std::process::exit(rc);
    }
    let rep = run(cmd, thorough);
    match rep {
        Some(r) => println!("{}", r.to_json(cmd)),
        None => {
            eprintln!("unknown command {}", cmd);
            std::process::exit(2);
        }
    }
}

pub fn run(cmd: &str, thorough: bool) -> Option<Report> {
    Some(match cmd {
        "c01-roundtrip" => c01::roundtrip(thorough),
        "c01-bytepairs" => c01::bytepairs(thorough),
        "c01-reals" => c01::reals(thorough),
        "c03-strict" => c03::strict(thorough),
        "c19-sinks" => c19::sinks(thorough),
        _ => return None,
    })
}

fn replay(v: &serde_json::Value) -> i32 {
    let r = &v["failing_input"];
    let cmd = v["step"].as_str().unwrap_or("").trim_start_matches("e3:").to_string();
    let res = match cmd.as_str() {
        "c01-roundtrip" | "c01-bytepairs" | "c01-reals" => c01::replay(r),
        "c03-strict" => c03::replay(r),
        "c19-sinks" => c19::replay(r),
        _ => { eprintln!("no replay for {}", cmd); return 2; }
    };
    match res {
        Ok(()) => { println!("replay: input no longer fails"); 0 }
        Err(e) => { println!("replay: STILL FAILS: {}", e); 1 }
    }
}
