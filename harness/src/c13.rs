//! C13: read-only queries are total on arbitrary object graphs.
//!
//! Bounded family: "typed-chaos" documents. Each family is a small skeleton document (<= 12 objects, or a
//! reference chain of up to 300 objects) with a list of slots; a slot is one dictionary key that the query code
//! reads (or one whole object, or one trailer key) together with an alphabet of values of every kind: absent,
//! wrong kinds, direct values, references to every object of the skeleton (self, cycles, shared), dangling
//! references. A family is the FULL product of its slot alphabets, enumerated by a mixed-radix index. On every
//! document a fixed list of query instances (library function, argument) is evaluated.
//!
//! The property quantifies over ALL graphs, so besides the kind of every value the SIZE of the linked structure is
//! a dimension of its own: family "scale" takes each link kind that a query follows from node to node (page tree
//! /Kids with the /Parent links back up, outline /First, outline /Next, name tree /Kids) and enumerates the number
//! n of linked nodes from 1 up to 16000 (thorough: 262144; around every limit one would pick: 255..258), the
//! SHARING of nodes (a link array that lists the next node twice, an outline item whose /First and /Next are the
//! same item: an acyclic graph of n nodes with 2^n paths) and what the last link refers to (nothing, a dangling
//! id, the first node, itself). Legitimate work on these documents is linear in the number of objects, so the CPU
//! budget of an evaluation is CPU_MS_RUN plus 10 microseconds per object of the document.
//!
//! A page's content stream is part of the document value too, and text extraction and content decoding read it
//! operation by operation: which operator, how many operands, of which kinds, after which earlier operation, with
//! which font resource behind the selected font key. Family "content-ops" enumerates exactly that: every text
//! operator of ISO 32000-1 tables 105-109 with EVERY operand list of up to 3 operands over 8 operand kinds (so every
//! operator is seen with too few, exactly enough, too many and ill-kinded operands; plus longer lists of 4..7 equal
//! operands), after every one-operation history (nothing, each text operator in its well-formed form, a Tf that
//! selects a key the resources do not have), on 4 states of the font resource /F1 (one-byte encoding, ToUnicode
//! CMap, not there, there but without a resolvable encoding), inside BT .. ET or bare. The content bytes are
//! written here by hand, not by the library's encoder.
//!
//! Oracle (independent of the code under test): the property says every query "returns a value or an error";
//! so the observation is made from OUTSIDE the query: each evaluation runs in a worker process with a CPU-time
//! budget (ITIMER_PROF), a wall-clock backstop, an address-space limit and a 2 MiB stack, inside catch_unwind.
//!   no-panic:<q>          the call unwound with a panic
//!   terminates:<q>        the worker used up its CPU budget inside the call (loops forever)
//!   bounded-recursion:<q> the worker overflowed its stack inside the call
//!   no-abort:<q>          the worker aborted inside the call (allocation failure and the like)
//! For lookups a reference model written here (follow the chain of references in the object table with a
//! visited set) states what value must come back:
//!   lookup-model:<q>      Ok on a dangling/cyclic chain, Err on a short valid chain, or a value that is not
//!                         the object at the end of the chain
//!   pages-sound:<q>       enumerated pages are not numbered 1..n or are not dictionaries of /Type /Page
#![allow(dead_code)]
use crate::c03::{obj_from_json, obj_json};
use crate::common::*;
use lopdf::{dictionary, Dictionary, Document, Object, ObjectId, Stream, StringFormat};
use rayon::prelude::*;
use serde_json::{json, Value};
use std::collections::{BTreeMap, HashSet};
use std::io::Write;
use std::panic::AssertUnwindSafe;

// ------------------------------------------------------------------------------------------------ limits

const CPU_MS_RUN: u64 = 50; // CPU budget of one query evaluation (legitimate ones take microseconds)
const CPU_MS_REPLAY: u64 = 500;
const CPU_US_PER_OBJECT: u64 = 10; // added to the budget for every object of the document (queries are linear in the document)
fn cpu_budget(base_ms: u64, doc: &Document) -> u64 { base_ms + doc.objects.len() as u64 * CPU_US_PER_OBJECT / 1000 }
/// A run that used up its CPU budget is evaluated once more, alone, with CONFIRM_SCALE times the budget, before it is reported
/// as not terminating: a call that loops forever runs out again, a call that was merely slow on this machine at this moment
/// (cold caches, a busy or throttled host) finishes.
const CONFIRM_SCALE: u64 = 40;
fn budget_scale() -> u64 { std::env::var("LOPDF_VERIF_C13_BUDGET_SCALE").ok().and_then(|v| v.parse().ok()).unwrap_or(1) }
const WALL_S: i64 = 20; // wall-clock backstop for one evaluation
const STACK: usize = 2 << 20; // stack of the evaluating thread (Rust's default for spawned threads)
const AS_LIMIT: u64 = 4 << 30; // address space of a worker
const SHORT_CHAIN: usize = 8; // a chain of at most this many references must resolve (far below any sane limit)

#[repr(C)]
struct Timeval { sec: i64, usec: i64 }
#[repr(C)]
struct Itimerval { interval: Timeval, value: Timeval }
#[repr(C)]
struct Rlimit { cur: u64, max: u64 }
extern "C" {
    fn setitimer(which: i32, new: *const Itimerval, old: *mut Itimerval) -> i32;
    fn setrlimit(resource: i32, rlim: *const Rlimit) -> i32;
}
const ITIMER_REAL: i32 = 0;
const ITIMER_PROF: i32 = 2;
const RLIMIT_CORE: i32 = 4;
const RLIMIT_AS: i32 = 9;
const SIGABRT: i32 = 6;
const SIGSEGV: i32 = 11;
const SIGALRM: i32 = 14;
const SIGPROF: i32 = 27;

fn arm(which: i32, ms: u64) {
    let t = Itimerval { interval: Timeval { sec: 0, usec: 0 }, value: Timeval { sec: (ms / 1000) as i64, usec: ((ms % 1000) * 1000) as i64 } };
    unsafe { setitimer(which, &t, std::ptr::null_mut()); }
}

fn worker_limits() {
    unsafe {
        setrlimit(RLIMIT_CORE, &Rlimit { cur: 0, max: 0 });
        setrlimit(RLIMIT_AS, &Rlimit { cur: AS_LIMIT, max: AS_LIMIT });
    }
}

// ------------------------------------------------------------------------------------------------ queries

#[derive(Clone, Copy, PartialEq, Eq, Debug)]
enum Kind {
    GetObject, Dereference, GetDictionary, GetObjectMut, HasObject, GetDictInDict, Catalog, GetPages, PageIter,
    PageContents, PageContent, DecodeContent, PageResources, PageFonts, PageAnnots, PageImages, ObjectPage,
    ExtractText, ExtractChunks, Outlines, Toc, OutlineNode, NamedDests, FontEncoding,
    StreamFilters, StreamDecompress, StreamPlain, StreamDecode, Accessors,
}
use Kind::*;

const KINDS: &[(Kind, &str)] = &[
    (GetObject, "get_object"), (Dereference, "dereference"), (GetDictionary, "get_dictionary"), (GetObjectMut, "get_object_mut"),
    (HasObject, "has_object"), (GetDictInDict, "get_dict_in_dict"), (Catalog, "catalog"), (GetPages, "get_pages"), (PageIter, "page_iter"),
    (PageContents, "get_page_contents"), (PageContent, "get_page_content"), (DecodeContent, "get_and_decode_page_content"),
    (PageResources, "get_page_resources"), (PageFonts, "get_page_fonts"), (PageAnnots, "get_page_annotations"), (PageImages, "get_page_images"),
    (ObjectPage, "get_object_page"), (ExtractText, "extract_text"), (ExtractChunks, "extract_text_chunks"), (Outlines, "get_outlines"),
    (Toc, "get_toc"), (OutlineNode, "get_outline"), (NamedDests, "get_named_destinations"), (FontEncoding, "get_font_encoding"),
    (StreamFilters, "Stream::filters"), (StreamDecompress, "Stream::decompressed_content"), (StreamPlain, "Stream::get_plain_content"),
    (StreamDecode, "Stream::decode_content"), (Accessors, "Object::as_*"),
];

fn kind_name(k: Kind) -> &'static str { KINDS.iter().find(|(x, _)| *x == k).map(|(_, n)| *n).unwrap() }
fn kind_from(n: &str) -> Option<Kind> { KINDS.iter().find(|(_, x)| *x == n).map(|(k, _)| *k) }

/// result of one evaluation that came back: class v = Ok with content, e = Ok/empty or not applicable,
/// r = Err of the "not found" family, R = any other Err; model = violated model obligation
struct Res { class: u8, model: Option<(&'static str, String)>, note: String }

fn ok(nonempty: bool, note: String) -> Res { Res { class: if nonempty { b'v' } else { b'e' }, model: None, note } }
fn er(e: &lopdf::Error) -> Res {
    use lopdf::Error::*;
    let class = match e { DictKey(_) | ObjectNotFound(_) | PageNumberNotFound(_) | NoOutline => b'r', _ => b'R' };
    Res { class, model: None, note: format!("Err({:?})", e) }
}
fn from_result<T>(r: &Result<T, lopdf::Error>, nonempty: impl Fn(&T) -> bool, note: impl Fn(&T) -> String) -> Res {
    match r { Ok(v) => ok(nonempty(v), format!("Ok({})", note(v))), Err(e) => er(e) }
}

// ---- the reference model of a lookup: follow references in the object table, remembering what was visited
enum Chain { End { last: ObjectId, hops: usize }, Dangling(ObjectId), Cycle(ObjectId) }

fn model_chain(objects: &BTreeMap<ObjectId, Object>, start: ObjectId) -> Chain {
    let mut seen: HashSet<ObjectId> = HashSet::new();
    let mut id = start;
    let mut hops = 0;
    loop {
        if !seen.insert(id) { return Chain::Cycle(id); }
        match objects.iter().find(|(k, _)| **k == id).map(|(_, v)| v) {
            None => return Chain::Dangling(id),
            Some(Object::Reference(next)) => { id = *next; hops += 1; }
            Some(_) => return Chain::End { last: id, hops },
        }
    }
}

fn stored<'a>(doc: &'a Document, id: ObjectId) -> Option<&'a Object> { doc.objects.iter().find(|(k, _)| **k == id).map(|(_, v)| v) }

/// `got`: Ok(address of the returned object / dictionary) or Err(text). `want_dict`: the query returns a dictionary.
fn check_lookup(doc: &Document, start: ObjectId, got: Result<*const (), String>, want_dict: bool, what: &str) -> Option<(&'static str, String)> {
    match (model_chain(&doc.objects, start), got) {
        (Chain::Dangling(at), Ok(_)) => Some(("lookup-model", format!("{} returned a value although the chain from {:?} dangles at {:?}", what, start, at))),
        (Chain::Cycle(at), Ok(_)) => Some(("lookup-model", format!("{} returned a value although the chain from {:?} is cyclic (revisits {:?})", what, start, at))),
        (Chain::Dangling(_), Err(_)) | (Chain::Cycle(_), Err(_)) => None,
        (Chain::End { last, hops }, got) => {
            let end = stored(doc, last).unwrap();
            let expect: Option<*const ()> = if want_dict {
                match end { Object::Dictionary(d) => Some(d as *const Dictionary as *const ()), _ => None }
            } else { Some(end as *const Object as *const ()) };
            match (expect, got) {
                (Some(p), Ok(q)) => if p == q { None } else { Some(("lookup-model", format!("{} returned something else than the object {:?} at the end of the chain from {:?}", what, last, start))) },
                (None, Ok(_)) => Some(("lookup-model", format!("{} returned a dictionary although the chain from {:?} ends at {:?} which is {}", what, start, last, end.enum_variant()))),
                (Some(_), Err(e)) => if hops <= SHORT_CHAIN { Some(("lookup-model", format!("{} returned Err({}) although the chain from {:?} reaches {:?} after {} references", what, e, start, last, hops))) } else { None },
                (None, Err(_)) => None,
            }
        }
    }
}

fn is_page(doc: &Document, id: ObjectId) -> bool {
    match model_chain(&doc.objects, id) {
        Chain::End { last, .. } => match stored(doc, last) {
            Some(Object::Dictionary(d)) => matches!(d.as_hashmap().get(b"Type".as_slice()), Some(Object::Name(n)) if n == b"Page"),
            _ => false,
        },
        _ => false,
    }
}

fn run_inst(doc: &Document, kind: Kind, arg: ObjectId) -> Res {
    let p = |o: &Object| o as *const Object as *const ();
    let pd = |o: &Dictionary| o as *const Dictionary as *const ();
    match kind {
        GetObject => {
            let r = doc.get_object(arg);
            let mut res = from_result(&r, |_| true, |o| o.enum_variant().to_string());
            res.model = check_lookup(doc, arg, r.map(p).map_err(|e| e.to_string()), false, "get_object");
            res
        }
        Dereference => {
            let start = Object::Reference(arg);
            let r = doc.dereference(&start);
            let mut res = from_result(&r, |_| true, |(id, o)| format!("{:?}, {}", id, o.enum_variant()));
            let last_ok = match (&r, model_chain(&doc.objects, arg)) { (Ok((Some(l), _)), Chain::End { last, .. }) => *l == last, (Ok(_), _) => false, _ => true };
            res.model = check_lookup(doc, arg, r.map(|(_, o)| p(o)).map_err(|e| e.to_string()), false, "dereference");
            if res.model.is_none() && !last_ok { res.model = Some(("lookup-model", format!("dereference of a reference to {:?} did not report the last id of the chain", arg))); }
            // a non-reference comes back as it is, with no id
            let plain = Object::Integer(5);
            match doc.dereference(&plain) {
                Ok((None, o)) if std::ptr::eq(o, &plain) => {}
                other => if res.model.is_none() { res.model = Some(("lookup-model", format!("dereference of a non-reference returned {:?}", other.map(|(i, o)| (i, o.enum_variant())).map_err(|e| e.to_string())))); }
            }
            res
        }
        GetDictionary => {
            let r = doc.get_dictionary(arg);
            let mut res = from_result(&r, |d| !d.is_empty(), |d| format!("dict of {}", d.len()));
            res.model = check_lookup(doc, arg, r.map(pd).map_err(|e| e.to_string()), true, "get_dictionary");
            res
        }
        GetObjectMut => {
            let mut d2 = doc.clone();
            let r = d2.get_object_mut(arg).map(|o| p(&*o)).map_err(|e| e.to_string());
            let res0 = match &r { Ok(_) => ok(true, "Ok".into()), Err(e) => Res { class: b'r', model: None, note: format!("Err({})", e) } };
            Res { model: check_lookup(&d2, arg, r, false, "get_object_mut"), ..res0 }
        }
        HasObject => {
            let r = doc.has_object(arg);
            let m = doc.objects.keys().any(|k| *k == arg);
            Res { class: if r { b'v' } else { b'e' }, model: if r != m { Some(("lookup-model", format!("has_object({:?}) = {} but the object table says {}", arg, r, m))) } else { None }, note: r.to_string() }
        }
        GetDictInDict => {
            let node = dictionary! { "K" => Object::Reference(arg), "D" => Object::Dictionary(dictionary! { "X" => 1 }), "I" => 7 };
            let r = doc.get_dict_in_dict(&node, b"K");
            let mut res = from_result(&r, |d| !d.is_empty(), |d| format!("dict of {}", d.len()));
            res.model = check_lookup(doc, arg, r.map(pd).map_err(|e| e.to_string()), true, "get_dict_in_dict(<</K ref>>, K)");
            let direct = match node.as_hashmap().get(b"D".as_slice()) { Some(Object::Dictionary(d)) => pd(d), _ => std::ptr::null() };
            if res.model.is_none() {
                match doc.get_dict_in_dict(&node, b"D") { Ok(d) if pd(d) == direct => {}, other => res.model = Some(("lookup-model", format!("get_dict_in_dict on a direct dictionary value returned {:?}", other.map(|d| d.len()).map_err(|e| e.to_string())))) }
            }
            if res.model.is_none() && doc.get_dict_in_dict(&node, b"I").is_ok() { res.model = Some(("lookup-model", "get_dict_in_dict returned a dictionary for an integer value".into())); }
            if res.model.is_none() && doc.get_dict_in_dict(&node, b"Missing").is_ok() { res.model = Some(("lookup-model", "get_dict_in_dict returned a dictionary for an absent key".into())); }
            res
        }
        Catalog => {
            let r = doc.catalog();
            let mut res = from_result(&r, |d| !d.is_empty(), |d| format!("dict of {}", d.len()));
            let got = r.map(pd).map_err(|e| e.to_string());
            res.model = match doc.trailer.as_hashmap().get(b"Root".as_slice()) {
                Some(Object::Reference(id)) => check_lookup(doc, *id, got, true, "catalog"),
                other => if got.is_ok() { Some(("lookup-model", format!("catalog returned a dictionary although the trailer /Root is {:?}", other))) } else { None },
            };
            res
        }
        GetPages => {
            let pages = doc.get_pages();
            let mut res = ok(!pages.is_empty(), format!("{} pages", pages.len()));
            for (k, (num, id)) in pages.iter().enumerate() {
                if *num as usize != k + 1 { res.model = Some(("pages-sound", format!("page numbers are not 1..n: {:?}", pages.keys().collect::<Vec<_>>()))); break; }
                if !is_page(doc, *id) { res.model = Some(("pages-sound", format!("get_pages lists {:?}, which is not a dictionary of /Type /Page", id))); break; }
            }
            res
        }
        PageIter => {
            let mut it = doc.page_iter();
            let mut out = vec![];
            let mut model = None;
            loop {
                let (lo, hi) = it.size_hint();
                if let Some(h) = hi { if lo > h { model = Some(("pages-sound", format!("size_hint lower bound {} exceeds upper bound {}", lo, h))); } }
                match it.next() { Some(id) => out.push(id), None => break }
                if out.len() > 100_000 + doc.objects.len() { model = Some(("pages-sound", format!("page_iter yielded more than {} ids on a document of {} objects", 100_000 + doc.objects.len(), doc.objects.len()))); break; }
            }
            if model.is_none() { if let Some(bad) = out.iter().find(|id| !is_page(doc, **id)) { model = Some(("pages-sound", format!("page_iter yields {:?}, which is not a dictionary of /Type /Page", bad))); } }
            Res { model, ..ok(!out.is_empty(), format!("{} pages", out.len())) }
        }
        PageContents => { let v = doc.get_page_contents(arg); ok(!v.is_empty(), format!("{:?}", v)) }
        PageContent => from_result(&doc.get_page_content(arg), |v| !v.is_empty(), |v| format!("{} bytes", v.len())),
        DecodeContent => from_result(&doc.get_and_decode_page_content(arg), |c| !c.operations.is_empty(), |c| format!("{} operations", c.operations.len())),
        PageResources => from_result(&doc.get_page_resources(arg), |(d, ids)| d.is_some() || !ids.is_empty(), |(d, ids)| format!("direct={} ids={:?}", d.is_some(), ids)),
        PageFonts => from_result(&doc.get_page_fonts(arg), |m| !m.is_empty(), |m| format!("{} fonts", m.len())),
        PageAnnots => from_result(&doc.get_page_annotations(arg), |v| !v.is_empty(), |v| format!("{} annotations", v.len())),
        PageImages => from_result(&doc.get_page_images(arg), |v| !v.is_empty(), |v| format!("{} images", v.len())),
        ObjectPage => from_result(&doc.get_object_page(arg), |_| true, |id| format!("{:?}", id)),
        ExtractText => {
            let first = doc.extract_text(&[1]);
            let _ = doc.extract_text(&[1, 2]);
            let _ = doc.extract_text(&[2, 1, 1]);
            let _ = doc.extract_text(&[0]);
            let _ = doc.extract_text(&[]);
            let _ = doc.extract_text(&[u32::MAX]);
            from_result(&first, |s| !s.is_empty(), |s| format!("{:?}", s))
        }
        ExtractChunks => { let v = doc.extract_text_chunks(&[1, 2, 0]); ok(v.iter().any(|c| c.is_ok()), format!("{} chunks", v.len())) }
        Outlines => {
            let mut m = Default::default();
            let r = doc.get_outlines(None, None, &mut m);
            from_result(&r, |o| o.as_ref().map(|v| !v.is_empty()).unwrap_or(false), |o| format!("{:?} outlines, {} named destinations", o.as_ref().map(|v| v.len()), m.len()))
        }
        Toc => from_result(&doc.get_toc(), |t| !t.toc.is_empty() || !t.errors.is_empty(), |t| format!("{:?}", t)),
        OutlineNode => match stored(doc, arg) {
            Some(Object::Dictionary(d)) => { let mut m = Default::default(); from_result(&doc.get_outline(d, &mut m), |o| o.is_some(), |o| format!("some={}", o.is_some())) }
            _ => ok(false, "not applicable".into()),
        },
        NamedDests => match stored(doc, arg) {
            Some(Object::Dictionary(d)) => { let mut m = Default::default(); let r = doc.get_named_destinations(d, &mut m); from_result(&r, |_| !m.is_empty(), |_| format!("{} destinations", m.len())) }
            _ => ok(false, "not applicable".into()),
        },
        FontEncoding => match stored(doc, arg) {
            Some(Object::Dictionary(d)) => {
                let r = d.get_font_encoding(doc);
                if let Ok(enc) = &r { let _ = Document::decode_text(enc, b"AB\x00\xff\x80"); let _ = Document::decode_text(enc, b""); }
                from_result(&r, |_| true, |e| format!("{:?}", e))
            }
            _ => ok(false, "not applicable".into()),
        },
        Accessors => match stored(doc, arg) {
            None => ok(false, "not applicable".into()),
            Some(o) => {
                // model: exactly the accessor of the object's own variant answers Ok
                let got = [o.as_bool().is_ok(), o.as_i64().is_ok(), o.as_f32().is_ok(), o.as_name().is_ok(), o.as_str().is_ok(), o.as_array().is_ok(), o.as_dict().is_ok(), o.as_stream().is_ok(), o.as_reference().is_ok()];
                let want = [matches!(o, Object::Boolean(_)), matches!(o, Object::Integer(_)), matches!(o, Object::Real(_)), matches!(o, Object::Name(_)), matches!(o, Object::String(..)), matches!(o, Object::Array(_)),
                            matches!(o, Object::Dictionary(_)), matches!(o, Object::Stream(_)), matches!(o, Object::Reference(_))];
                let mut model = if got != want { Some(("lookup-model", format!("as_* accessors answer {:?} on a {} (expected {:?})", got, o.enum_variant(), want))) } else { None };
                if o.as_float().is_ok() != matches!(o, Object::Integer(_) | Object::Real(_)) { model = Some(("lookup-model", format!("as_float on a {}", o.enum_variant()))); }
                let _ = o.type_name();
                let _ = o.is_null();
                let dict = match o { Object::Dictionary(d) => Some(d), Object::Stream(s) => Some(&s.dict), _ => None };
                let mut n = 0;
                if let Some(d) = dict {
                    let _ = d.get_type();
                    let _ = d.has_type(b"Page");
                    if d.get(b"\0no such key").is_ok() || d.has(b"\0no such key") { model = Some(("lookup-model", "Dictionary::get found an absent key".into())); }
                    for (k, v) in d.iter() {
                        n += 1;
                        match d.get(k) { Ok(x) if std::ptr::eq(x, v) => {}, _ => model = Some(("lookup-model", format!("Dictionary::get({:?}) does not return the stored value", String::from_utf8_lossy(k)))) }
                        let r = d.get_deref(k, doc);
                        let m = match v { Object::Reference(id) => check_lookup(doc, *id, r.map(p).map_err(|e| e.to_string()), false, "get_deref"),
                                          _ => match r { Ok(x) if std::ptr::eq(x, v) => None, _ => Some(("lookup-model", "get_deref of a direct value does not return it".to_string())) } };
                        if m.is_some() { model = m; }
                    }
                }
                Res { model, ..ok(n > 0, format!("{} with {} keys", o.enum_variant(), n)) }
            }
        },
        StreamFilters | StreamDecompress | StreamPlain | StreamDecode => match stored(doc, arg) {
            Some(Object::Stream(s)) => match kind {
                StreamFilters => from_result(&s.filters(), |v| !v.is_empty(), |v| format!("{} filters", v.len())),
                StreamDecompress => from_result(&s.decompressed_content(), |v| !v.is_empty(), |v| format!("{} bytes", v.len())),
                StreamPlain => from_result(&s.get_plain_content(), |v| !v.is_empty(), |v| format!("{} bytes", v.len())),
                _ => from_result(&s.decode_content(), |c| !c.operations.is_empty(), |c| format!("{} operations", c.operations.len())),
            },
            _ => ok(false, "not applicable".into()),
        },
    }
}

// ------------------------------------------------------------------------------------------------ families

enum Tgt { Key(u32, &'static str), Whole(ObjectId), Trailer(&'static str) }
struct Slot { tgt: Tgt, vals: Vec<Option<Object>>, nq: usize }

struct Family {
    name: &'static str,
    what: &'static str,
    base: Vec<(ObjectId, Object)>,
    trailer: Dictionary,
    slots: Vec<Slot>,
    custom: Option<(fn(&[usize]) -> Document, Vec<usize>, Vec<usize>)>,
    /// words for one member of a generated family (its documents are too large to be printed in full)
    label: Option<fn(&[usize]) -> String>,
    /// the documents are large (thousands of objects): one document per worker process
    big: bool,
    insts: Vec<(Kind, ObjectId)>,
}

impl Family {
    fn radices(&self, thorough: bool) -> Vec<usize> {
        if let Some((_, full, quick)) = &self.custom { return if thorough { full.clone() } else { quick.clone() }; }
        self.slots.iter().map(|s| if thorough { s.vals.len() } else { s.nq.min(s.vals.len()) }).collect()
    }
    fn count(&self, thorough: bool) -> u64 { self.radices(thorough).iter().map(|r| *r as u64).product() }
    fn digits(&self, idx: u64, thorough: bool) -> Vec<usize> {
        let rad = self.radices(thorough);
        let mut d = vec![0; rad.len()];
        let mut x = idx;
        for j in (0..rad.len()).rev() { d[j] = (x % rad[j] as u64) as usize; x /= rad[j] as u64; }
        d
    }
    fn build(&self, idx: u64, thorough: bool) -> Document {
        let dg = self.digits(idx, thorough);
        if let Some((f, _, _)) = &self.custom { return f(&dg); }
        let mut objects: BTreeMap<ObjectId, Object> = self.base.iter().cloned().collect();
        let mut trailer = self.trailer.clone();
        for (s, &k) in self.slots.iter().zip(dg.iter()) {
            if let Tgt::Whole(id) = &s.tgt { match &s.vals[k] { Some(o) => { objects.insert(*id, o.clone()); } None => { objects.remove(id); } } }
        }
        for (s, &k) in self.slots.iter().zip(dg.iter()) {
            match &s.tgt {
                Tgt::Whole(_) => {}
                Tgt::Trailer(key) => match &s.vals[k] { Some(o) => trailer.set(*key, o.clone()), None => { trailer.remove(key.as_bytes()); } },
                Tgt::Key(n, key) => {
                    let d = match objects.get_mut(&(*n, 0)) { Some(Object::Dictionary(d)) => Some(d), Some(Object::Stream(s)) => Some(&mut s.dict), _ => None };
                    if let Some(d) = d { match &s.vals[k] { Some(o) => d.set(*key, o.clone()), None => { d.remove(key.as_bytes()); } } }
                }
            }
        }
        make_doc(objects, trailer)
    }
}

fn make_doc(objects: BTreeMap<ObjectId, Object>, trailer: Dictionary) -> Document {
    let mut d = Document::with_version("1.5");
    d.max_id = objects.keys().map(|k| k.0).max().unwrap_or(0);
    d.objects = objects;
    d.trailer = trailer;
    d
}

fn r(n: u32) -> Object { Object::Reference((n, 0)) }
fn i(v: i64) -> Object { Object::Integer(v) }
fn n(b: &str) -> Object { Object::Name(b.as_bytes().to_vec()) }
fn s(b: &[u8]) -> Object { Object::String(b.to_vec(), StringFormat::Literal) }
fn a(v: Vec<Object>) -> Object { Object::Array(v) }
fn d(x: Dictionary) -> Object { Object::Dictionary(x) }
fn st(x: Dictionary, content: &[u8]) -> Object { Object::Stream(Stream::new(x, content.to_vec())) }
/// marker for "key absent / object absent" inside an alphabet
fn ab() -> Object { Object::Name(b"\0absent\0".to_vec()) }
fn vals(v: Vec<Object>) -> Vec<Option<Object>> { let m = ab(); v.into_iter().map(|o| if o == m { None } else { Some(o) }).collect() }
fn key(obj: u32, k: &'static str, nq: usize, v: Vec<Object>) -> Slot { Slot { tgt: Tgt::Key(obj, k), vals: vals(v), nq } }
fn whole(obj: u32, nq: usize, v: Vec<Object>) -> Slot { Slot { tgt: Tgt::Whole((obj, 0)), vals: vals(v), nq } }
fn root_trailer() -> Dictionary { dictionary! { "Root" => r(1) } }
fn on(kinds: &[Kind], id: u32) -> Vec<(Kind, ObjectId)> { kinds.iter().map(|k| (*k, (id, 0))).collect() }

const CMAP: &[u8] = b"/CIDInit /ProcSet findresource begin\n12 dict begin\nbegincmap\n/CIDSystemInfo\n<< /Registry (Adobe)\n/Ordering (UCS)\n/Supplement 0\n>> def\n/CMapName /Adobe-Identity-UCS def\n/CMapType 2 def\n1 begincodespacerange\n<0000> <FFFF>\nendcodespacerange\n2 beginbfrange\n<0000> <005E> <0020>\n<005F> <0061> [<D83DDE00> <D83DDD27> <D83DDD28>]\nendbfrange\n1 beginbfchar\n<3A51> <D840DC3E>\nendbfchar\nendcmap\nCMapName currentdict /CMap defineresource pop\nend\nend";
const TEXT: &[u8] = b"BT /F1 12 Tf (AB) Tj <0041> Tj [(A) -200 (B)] TJ ET";

fn catalog() -> Object { d(dictionary! { "Type" => n("Catalog"), "Pages" => r(2) }) }
fn pages_node() -> Object { d(dictionary! { "Type" => n("Pages"), "Kids" => a(vec![r(3)]), "Count" => i(1) }) }
fn font() -> Object { d(dictionary! { "Type" => n("Font"), "Subtype" => n("Type1"), "BaseFont" => n("Helvetica"), "Encoding" => n("WinAnsiEncoding") }) }
fn zlib(data: &[u8]) -> Vec<u8> {
    let mut s = Stream::new(Dictionary::new(), data.repeat(8));
    let _ = s.compress();
    s.content
}

const CHAIN_LENS: [usize; 9] = [1, 2, 3, 6, 127, 128, 129, 130, 300];
const CHAIN_ENDS: usize = 7;
fn build_chain(dg: &[usize]) -> Document {
    let len = CHAIN_LENS[dg[0]] as u32;
    let mut o: BTreeMap<ObjectId, Object> = BTreeMap::new();
    o.insert((1, 0), d(dictionary! { "Type" => n("Catalog"), "Pages" => r(2), "Outlines" => r(4) }));
    o.insert((2, 0), pages_node());
    o.insert((3, 0), d(dictionary! { "Type" => n("Page"), "Parent" => r(2), "Contents" => r(10), "Resources" => r(10), "Annots" => r(10) }));
    o.insert((4, 0), d(dictionary! { "First" => r(5) }));
    o.insert((5, 0), d(dictionary! { "Title" => r(10), "Dest" => r(10) }));
    o.insert((8, 0), d(dictionary! { "Type" => n("Font"), "ToUnicode" => r(10) }));
    for j in 0..len - 1 { o.insert((10 + j, 0), r(10 + j + 1)); }
    let last = 10 + len - 1;
    let end = match dg[1] {
        0 => i(7),
        1 => r(9999),
        2 => r(10),
        3 => r(last),
        4 => d(dictionary! { "Type" => n("Font"), "Font" => d(dictionary! { "F1" => r(8) }) }),
        5 => st(Dictionary::new(), TEXT),
        _ => a(vec![r(3), n("Fit")]),
    };
    o.insert((last, 0), end);
    make_doc(o, root_trailer())
}

const UKEYS: &[&str] = &["Kids", "Parent", "Count", "Contents", "Resources", "Font", "XObject", "ColorSpace", "Annots", "Outlines", "Dests", "Names", "Pages", "Dest", "A", "D", "S", "Title",
                         "Encoding", "ToUnicode", "Filter", "DecodeParms", "Length", "F1", "Im1", "Subtype", "Width", "Height", "BitsPerComponent"];
/// three dictionaries; dictionary j binds every key of UKEYS to the same value v_j and has /Type t_j
fn build_uniform(dg: &[usize]) -> Document {
    let mut o: BTreeMap<ObjectId, Object> = BTreeMap::new();
    for j in 0..3 {
        let v = match dg[2 * j] { 0 => Some(r(1)), 1 => Some(r(2)), 2 => Some(a(vec![r(1), r(2), r(3)])), 3 => Some(r(99)), 4 => Some(r(3)), _ => None };
        let t = match dg[2 * j + 1] { 0 => Some(n("Pages")), 1 => Some(n("Page")), 2 => Some(n("Font")), _ => None };
        let mut dict = Dictionary::new();
        if let Some(t) = t { dict.set("Type", t); }
        if let Some(v) = v { for k in UKEYS { dict.set(*k, v.clone()); } }
        o.insert((j as u32 + 1, 0), Object::Dictionary(dict));
    }
    make_doc(o, root_trailer())
}

// ---- scale: n linked nodes of one link kind, with or without sharing; digits = [n, shape, end]
// there is deliberately no size between 12 and 40: 2^n steps are negligible up to 12 and never end from 40 on; in between a CPU
// budget could not tell "slow" from "forever"
const SCALE_NODES: [usize; 16] = [1, 2, 3, 8, 12, 40, 64, 255, 256, 257, 258, 1000, 4000, 16000, 65536, 262144];
const SCALE_NODES_QUICK: usize = 14;
const SCALE_SHAPES: [&str; 7] = [
    "page tree: n /Type /Pages nodes under the root, each the only kid of the one above and pointing back to it with /Parent",
    "page tree: as before but every /Kids array lists its kid twice (2^n paths to the page)",
    "outline: n items, each the /First of the one before",
    "outline: n items, each the /Next of the one before",
    "outline: n items, each both the /First and the /Next of the one before (2^n paths to the last item)",
    "name tree: n intermediate nodes under the /Dests root, each the only kid of the one above",
    "name tree: as before but every /Kids array lists its kid twice (2^n paths to the leaf)",
];
const SCALE_ENDS: [&str; 4] = ["the last link leads to a proper leaf (or is absent)", "the last link is a dangling reference", "the last link refers back to the first node", "the last link refers to the last node itself"];
const SCALE_DANGLING: u32 = 4_000_000;
const SCALE_FIRST: u32 = 10; // id of the first of the n nodes

fn build_scale(dg: &[usize]) -> Document {
    let (len, shape, end) = (SCALE_NODES[dg[0]] as u32, dg[1], dg[2]);
    let last = SCALE_FIRST + len - 1;
    let times = |o: Object, w: usize| a(vec![o; w]);
    let dest = || a(vec![r(3), n("Fit")]);
    let mut o: BTreeMap<ObjectId, Object> = BTreeMap::new();
    o.insert((1, 0), d(dictionary! { "Type" => n("Catalog"), "Pages" => r(2), "Outlines" => r(4), "Dests" => r(6) }));
    o.insert((2, 0), d(dictionary! { "Type" => n("Pages"), "Kids" => a(vec![r(3)]), "Count" => i(1), "Resources" => d(dictionary! { "Font" => d(dictionary! { "F1" => r(9) }) }) }));
    o.insert((3, 0), d(dictionary! { "Type" => n("Page"), "Parent" => r(2), "Contents" => r(7), "Annots" => a(vec![r(5)]) }));
    o.insert((4, 0), d(dictionary! { "Type" => n("Outlines"), "First" => r(5) }));
    o.insert((5, 0), d(dictionary! { "Title" => s(b"K"), "Dest" => s(b"k") }));
    o.insert((6, 0), d(dictionary! { "Names" => a(vec![s(b"k"), r(8)]) }));
    o.insert((7, 0), st(Dictionary::new(), TEXT));
    o.insert((8, 0), d(dictionary! { "D" => dest() }));
    o.insert((9, 0), font());
    // where the last link goes: Some(target) or None for "a proper leaf"
    let tail = |top: u32| match end { 0 => None, 1 => Some(r(SCALE_DANGLING)), 2 => Some(r(top)), _ => Some(r(last)) };
    let set = |o: &mut BTreeMap<ObjectId, Object>, id: u32, k: &str, v: Object| { if let Some(Object::Dictionary(x)) = o.get_mut(&(id, 0)) { x.set(k, v); } };
    match shape {
        0 | 1 => {
            let w = shape + 1;
            set(&mut o, 2, "Kids", times(r(SCALE_FIRST), w));
            for j in 0..len {
                let id = SCALE_FIRST + j;
                let kid = if id < last { r(id + 1) } else { tail(2).unwrap_or(r(3)) };
                o.insert((id, 0), d(dictionary! { "Type" => n("Pages"), "Parent" => r(if j == 0 { 2 } else { id - 1 }), "Kids" => times(kid, w), "Count" => i(1) }));
            }
            set(&mut o, 3, "Parent", r(last));
            // the /Parent links lead from the page up through the n nodes to the root; the root's own /Parent is the last link of that chain
            if let Some(t) = match end { 0 => None, 1 => Some(r(SCALE_DANGLING)), 2 => Some(r(last)), _ => Some(r(2)) } { set(&mut o, 2, "Parent", t); }
        }
        2..=4 => {
            set(&mut o, 4, "First", r(SCALE_FIRST));
            for j in 0..len {
                let id = SCALE_FIRST + j;
                let mut item = dictionary! { "Title" => s(format!("T{}", j).as_bytes()), "Dest" => dest(), "Parent" => r(if j == 0 { 4 } else { id - 1 }) };
                if let Some(next) = if id < last { Some(r(id + 1)) } else { tail(SCALE_FIRST) } {
                    if shape != 3 { item.set("First", next.clone()); }
                    if shape != 2 { item.set("Next", next); }
                }
                o.insert((id, 0), d(item));
            }
        }
        _ => {
            let w = shape - 4;
            o.insert((6, 0), d(dictionary! { "Kids" => times(r(SCALE_FIRST), w) }));
            for j in 0..len {
                let id = SCALE_FIRST + j;
                let node = if id < last { dictionary! { "Kids" => times(r(id + 1), w) } } else { match tail(6) { Some(t) => dictionary! { "Kids" => times(t, w) }, None => dictionary! { "Names" => a(vec![s(b"k"), r(8)]) } } };
                o.insert((id, 0), d(node));
            }
        }
    }
    make_doc(o, root_trailer())
}

fn label_scale(dg: &[usize]) -> String {
    format!("n = {} nodes (objects {} to {}); {}; {}", SCALE_NODES[dg[0]], SCALE_FIRST, SCALE_FIRST as usize + SCALE_NODES[dg[0]] - 1, SCALE_SHAPES[dg[1]], SCALE_ENDS[dg[2]])
}

// ---- content-ops: the operations of the page's content stream; digits = [font state, history, operator, operand list, bracket]
/// the text operators of ISO 32000-1 tables 105 to 109, each with its well-formed form (used as a history)
const CO_OPERATORS: [(&str, &str); 17] = [
    ("Tj", "(AB) Tj"), ("TJ", "[(A) -200 (B)] TJ"), ("'", "(AB) '"), ("\"", "1 2 (AB) \""), ("Tf", "/F1 12 Tf"), ("BT", "BT"), ("ET", "ET"), ("Tc", "1 Tc"), ("Tw", "1 Tw"),
    ("Tz", "100 Tz"), ("TL", "12 TL"), ("Tr", "0 Tr"), ("Ts", "0 Ts"), ("Td", "1 2 Td"), ("TD", "1 2 TD"), ("Tm", "1 0 0 1 0 0 Tm"), ("T*", "T*"),
];
/// operand kinds, as they are written in a content stream; the quick tier uses the first CO_KINDS_QUICK
const CO_KINDS: [&str; 8] = ["(AB)", "12", "/F1", "[(A) -200 (B)]", "<0041>", "-200", "1.5", "<</K 1>>"];
const CO_KINDS_QUICK: usize = 4;
const CO_LEN: usize = 3; // every operand list of up to this length (quick: one less)
const CO_LEN_UNIFORM: usize = 7; // and lists of CO_LEN + 1 ..= this many equal operands
const CO_FONTS: [&str; 4] = [
    "/F1 is a Type1 font with /Encoding /WinAnsiEncoding",
    "/F1 is a Type0 font with /Encoding /Identity-H and a /ToUnicode CMap stream",
    "the /Font resource dictionary has no /F1",
    "/F1 is a font dictionary without /Type (its encoding cannot be resolved)",
];
const CO_BRACKETS: [&str; 2] = ["inside BT .. ET", "bare"];

/// histories: the operation that precedes the probed one
fn co_histories() -> Vec<&'static str> {
    let mut h = vec!["/F1 12 Tf", "", "/F2 12 Tf"];
    for (op, form) in CO_OPERATORS { if op != "Tf" { h.push(form); } }
    h
}

/// all operand lists, the ones of the quick tier first
fn co_lists() -> &'static Vec<Vec<usize>> {
    static L: std::sync::OnceLock<Vec<Vec<usize>>> = std::sync::OnceLock::new();
    L.get_or_init(|| {
        let mut all: Vec<Vec<usize>> = vec![vec![]];
        let mut level: Vec<Vec<usize>> = vec![vec![]];
        for _ in 0..CO_LEN {
            let mut next = vec![];
            for l in &level { for k in 0..CO_KINDS.len() { let mut x = l.clone(); x.push(k); next.push(x); } }
            all.extend(next.iter().cloned());
            level = next;
        }
        let quick = |l: &Vec<usize>| l.len() < CO_LEN && l.iter().all(|k| *k < CO_KINDS_QUICK);
        all.sort_by_key(|l| !quick(l)); // stable: (length, lexicographic) within both halves
        for len in CO_LEN + 1..=CO_LEN_UNIFORM { for k in 0..CO_KINDS.len() { all.push(vec![k; len]); } }
        all
    })
}
fn co_lists_quick() -> usize { (0..CO_LEN).map(|l| CO_KINDS_QUICK.pow(l as u32)).sum() }

fn co_content(dg: &[usize]) -> String {
    let hist = co_histories()[dg[1]];
    let mut probe: Vec<&str> = co_lists()[dg[3]].iter().map(|k| CO_KINDS[*k]).collect();
    probe.push(CO_OPERATORS[dg[2]].0);
    let mut parts: Vec<String> = vec![];
    if dg[4] == 0 { parts.push("BT".into()); }
    if !hist.is_empty() { parts.push(hist.into()); }
    parts.push(probe.join(" "));
    if dg[4] == 0 { parts.push("ET".into()); }
    parts.join(" ")
}

fn build_content_ops(dg: &[usize]) -> Document {
    let mut o: BTreeMap<ObjectId, Object> = BTreeMap::new();
    o.insert((1, 0), catalog());
    o.insert((2, 0), pages_node());
    let fonts = if dg[0] == 2 { Dictionary::new() } else { dictionary! { "F1" => r(6) } };
    o.insert((3, 0), d(dictionary! { "Type" => n("Page"), "Parent" => r(2), "Contents" => r(4), "Resources" => d(dictionary! { "Font" => d(fonts) }) }));
    o.insert((4, 0), st(Dictionary::new(), co_content(dg).as_bytes()));
    match dg[0] {
        0 => { o.insert((6, 0), font()); }
        1 => {
            o.insert((6, 0), d(dictionary! { "Type" => n("Font"), "Subtype" => n("Type0"), "BaseFont" => n("F"), "Encoding" => n("Identity-H"), "ToUnicode" => r(7) }));
            o.insert((7, 0), st(Dictionary::new(), CMAP));
        }
        2 => {}
        _ => { o.insert((6, 0), d(dictionary! { "Subtype" => n("Type1"), "BaseFont" => n("Helvetica"), "Encoding" => n("WinAnsiEncoding") })); }
    }
    make_doc(o, root_trailer())
}

fn label_content_ops(dg: &[usize]) -> String {
    format!("{}; content stream of the page ({}): {}", CO_FONTS[dg[0]], CO_BRACKETS[dg[4]], co_content(dg))
}

/// documents larger than this are recorded as (family, index, tier) and regenerated on replay instead of being written out
const INLINE_OBJECTS: usize = 400;

fn families() -> Vec<Family> {
    let mut out = vec![];
    let plain = |name, what, base: Vec<(u32, Object)>, slots, insts| Family { name, what, base: base.into_iter().map(|(k, v)| ((k, 0), v)).collect(), trailer: root_trailer(), slots, custom: None, label: None, big: false, insts };

    // ---- lookup: 3 objects at sparse ids (a gap and a non-zero generation), every object one of 8 kinds
    {
        let w = || vals(vec![Object::Reference((1, 0)), Object::Reference((2, 0)), Object::Reference((5, 3)), Object::Reference((5, 0)), Object::Reference((9, 0)), i(7),
                             d(dictionary! { "K" => r(1) }), a(vec![r(2)])]);
        let ids = [(1, 0), (2, 0), (5, 3), (5, 0), (9, 0)];
        let mut insts = vec![];
        for id in ids { for k in [GetObject, Dereference, GetDictionary, GetObjectMut, HasObject, GetDictInDict, Accessors] { insts.push((k, id)); } }
        out.push(Family { name: "lookup", what: "objects 1 0, 2 0, 5 3 each one of {ref to each of the three, ref 5 0 (wrong generation), ref 9 0 (dangling), integer, dictionary, array}; lookups of the 3 ids and of 5 0 and 9 0",
            base: vec![], trailer: Dictionary::new(),
            slots: vec![Slot { tgt: Tgt::Whole((1, 0)), vals: w(), nq: 8 }, Slot { tgt: Tgt::Whole((2, 0)), vals: w(), nq: 8 }, Slot { tgt: Tgt::Whole((5, 3)), vals: w(), nq: 8 }],
            custom: None, label: None, big: false, insts });
    }
    // ---- chain: a chain of n references hanging under /Contents /Resources /Annots /Title /Dest /ToUnicode
    {
        let mut insts = on(&[GetObject, Dereference, GetDictionary, GetObjectMut, GetDictInDict], 10);
        insts.extend(on(&[PageContents, PageContent, PageResources, PageFonts, PageAnnots, PageImages, ExtractText], 3));
        insts.extend(on(&[Outlines, Toc], 0));
        insts.extend(on(&[OutlineNode], 5));
        insts.extend(on(&[FontEncoding], 8));
        out.push(Family { name: "chain", what: "a chain of n in {1,2,3,6,127,128,129,130,300} references starting at object 10 and ending in {integer, dangling ref, ref back to 10, ref to itself, dictionary, stream, array}, used as /Contents /Resources /Annots of the page, /Title /Dest of an outline item and /ToUnicode of a font",
            base: vec![], trailer: Dictionary::new(), slots: vec![], custom: Some((build_chain, vec![CHAIN_LENS.len(), CHAIN_ENDS], vec![CHAIN_LENS.len(), CHAIN_ENDS])), label: None, big: false, insts });
    }
    // ---- root: trailer /Root x kind of object 1 x catalog /Pages
    {
        let cat = || dictionary! { "Type" => n("Catalog"), "Pages" => r(2), "Outlines" => r(5) };
        let base = vec![(1, d(cat())), (2, pages_node()), (3, d(dictionary! { "Type" => n("Page"), "Parent" => r(2) })), (4, r(1)), (5, d(dictionary! { "First" => r(3) })), (6, r(6))];
        let slots = vec![
            Slot { tgt: Tgt::Trailer("Root"), nq: 9, vals: vals(vec![r(1), ab(), r(2), r(99), i(1), d(cat()), r(4), r(6), a(vec![r(1)])]) },
            whole(1, 6, vec![d(cat()), i(1), a(vec![r(2)]), st(cat(), b""), r(1), ab()]),
            key(1, "Pages", 8, vec![r(2), ab(), r(1), r(99), d(dictionary! { "Type" => n("Pages"), "Kids" => a(vec![r(3)]) }), i(1), r(3), r(6)]),
            key(1, "Outlines", 9, vec![r(5), ab(), d(dictionary! { "First" => r(3) }), r(1), r(99), i(1), r(4), r(6), a(vec![r(5)])]),
        ];
        out.push(plain("root", "trailer /Root in 9 values x object 1 in {catalog, integer, array, stream, ref to itself, absent} x catalog /Pages in 8 values x catalog /Outlines in 9 values", base, slots,
            on(&[Catalog, GetPages, PageIter, Outlines, Toc, ExtractText], 0)));
    }
    // ---- pagetree: Kids / Type / Count chaos with cycles, shared and dangling kids, indirect Kids arrays
    {
        let base = vec![(1, catalog()), (2, d(dictionary! { "Type" => n("Pages"), "Count" => i(2) })), (3, d(Dictionary::new())), (4, d(Dictionary::new())), (5, a(vec![r(3), r(4)])),
                        (6, d(dictionary! { "Type" => n("Page"), "Parent" => r(2) }))];
        let slots = vec![
            key(2, "Kids", 6, vec![a(vec![r(3), r(4)]), a(vec![r(4), r(3), r(3)]), a(vec![r(2)]), r(5), a(vec![r(6), r(3), i(1), r(99), r(4), r(3), r(3)]), ab(),
                                   i(1), a(vec![]), a(vec![r(3)]), r(2), r(99)]),
            key(3, "Type", 2, vec![n("Pages"), n("Page"), ab(), i(1), n("Other")]),
            key(3, "Kids", 4, vec![a(vec![r(4)]), a(vec![r(2)]), a(vec![r(3)]), ab(), a(vec![]), a(vec![r(4), r(6), r(4)]), r(5), i(1)]),
            key(3, "Count", 4, vec![i(1), i(1_000_000_000_000_000), i(i64::MAX), ab(), i(-1), n("N"), r(3), r(99)]),
            key(4, "Type", 2, vec![n("Page"), n("Pages"), ab()]),
            key(4, "Kids", 2, vec![ab(), a(vec![r(3)]), a(vec![r(2)]), a(vec![r(4), r(6)])]),
            key(4, "Count", 1, vec![ab(), i(i64::MAX)]),
        ];
        out.push(plain("pagetree", "root /Kids in 11 values (cycles, duplicates, dangling and non-reference kids, indirect array) x node 3 /Type(5) /Kids(8) /Count(8: huge, negative, ill-typed, self reference) x node 4 /Type(3) /Kids(4) /Count(2)", base, slots,
            on(&[GetPages, PageIter, ExtractText], 0)));
    }
    // ---- contents
    {
        let page = d(dictionary! { "Type" => n("Page"), "Parent" => r(2), "Resources" => d(dictionary! { "Font" => d(dictionary! { "F1" => r(6) }) }) });
        let base = vec![(1, catalog()), (2, pages_node()), (3, page), (4, i(0)), (5, i(0)), (6, font())];
        let slots = vec![
            key(3, "Contents", 6, vec![r(4), a(vec![r(4), r(5)]), r(3), r(99), a(vec![r(4), i(1), r(99), r(3), a(vec![r(4)])]), ab(), a(vec![]), i(1), r(5), st(Dictionary::new(), TEXT), d(Dictionary::new())]),
            whole(4, 5, vec![st(Dictionary::new(), TEXT), r(4), r(5), a(vec![r(4)]), st(dictionary! { "Filter" => n("FlateDecode") }, b"garbage"), a(vec![r(5), r(5)]), d(Dictionary::new()), i(1),
                             st(dictionary! { "Filter" => a(vec![n("ASCII85Decode"), n("Foo")]) }, b"87cURD]i,\"Ebo80~>"), ab()]),
            whole(5, 3, vec![st(Dictionary::new(), b"BT (Yo) Tj ET"), r(4), r(5), a(vec![r(4)]), i(1)]),
        ];
        out.push(plain("contents", "page /Contents in 11 values x object 4 in 10 kinds (streams, refs forming 4<->5 cycles, arrays containing themselves, absent) x object 5 in 5 kinds", base, slots,
            on(&[PageContents, PageContent, DecodeContent, ExtractText, ExtractChunks], 3)));
    }
    // ---- resources / Parent chains
    {
        let res = || d(dictionary! { "Font" => d(dictionary! { "F1" => r(6) }), "XObject" => d(dictionary! { "Im1" => r(7) }) });
        let base = vec![(1, catalog()), (2, pages_node()), (3, d(dictionary! { "Type" => n("Page"), "Contents" => r(8) })), (4, res()), (5, d(dictionary! { "Type" => n("Pages"), "Resources" => r(4) })),
                        (6, font()), (7, st(dictionary! { "Subtype" => n("Image"), "Width" => i(1), "Height" => i(1) }, b"x")), (8, st(Dictionary::new(), TEXT))];
        let slots = vec![
            key(3, "Resources", 4, vec![ab(), r(4), d(dictionary! { "Font" => d(dictionary! { "F1" => r(6) }) }), r(3), r(99), i(1), r(5)]),
            key(3, "Parent", 4, vec![r(2), r(3), r(5), ab(), r(99), i(1), d(dictionary! { "Resources" => r(4) })]),
            key(2, "Parent", 3, vec![ab(), r(3), r(5), r(2)]),
            key(2, "Resources", 2, vec![ab(), r(4), r(2), i(1)]),
            key(5, "Parent", 2, vec![ab(), r(2), r(5), r(3)]),
            whole(4, 3, vec![res(), r(4), i(1), r(3), a(vec![r(4)]), ab()]),
        ];
        let mut insts = on(&[PageResources, PageFonts, PageImages, ExtractText], 3);
        insts.extend(on(&[PageResources, PageFonts], 2));
        out.push(plain("resources", "page /Resources(7) /Parent(7) x node 2 /Parent(4: cycles 2->3->2, 2->2, 2->5) /Resources(4) x node 5 /Parent(4) x resources object 4 in 6 kinds", base, slots, insts));
    }
    // ---- fonts and encodings
    {
        let base = vec![(1, catalog()), (2, pages_node()), (3, d(dictionary! { "Type" => n("Page"), "Parent" => r(2), "Resources" => r(4), "Contents" => r(8) })),
                        (4, d(Dictionary::new())), (5, d(Dictionary::new())), (6, d(dictionary! { "Subtype" => n("Type0"), "BaseFont" => n("F") })), (7, i(0)), (8, st(Dictionary::new(), TEXT)), (9, r(9))];
        let slots = vec![
            key(4, "Font", 2, vec![r(5), d(dictionary! { "F1" => r(6) }), ab(), i(1), r(4), r(99), a(vec![r(5)])]),
            key(5, "F1", 2, vec![r(6), font(), i(1), r(99), r(5), ab()]),
            key(6, "Type", 2, vec![n("Font"), ab(), n("Other"), i(1)]),
            key(6, "Encoding", 5, vec![n("Identity-H"), ab(), n("WinAnsiEncoding"), n("Foo"), i(1), n("StandardEncoding"), n("MacRomanEncoding"), n("MacExpertEncoding"), n("PDFDocEncoding"),
                                       n("UniGB-UCS2-H"), r(6), d(Dictionary::new()), r(99)]),
            key(6, "ToUnicode", 4, vec![r(7), ab(), r(6), r(9), r(99), i(1), st(Dictionary::new(), CMAP)]),
            whole(7, 3, vec![st(Dictionary::new(), CMAP), st(Dictionary::new(), b"xyz"), r(7), st(Dictionary::new(), b""), st(dictionary! { "Filter" => n("FlateDecode") }, b"garbage"),
                             st(dictionary! { "Filter" => n("Foo") }, CMAP), i(1)]),
        ];
        let mut insts = on(&[PageFonts], 3);
        insts.extend(on(&[FontEncoding], 6));
        insts.extend(on(&[FontEncoding], 5));
        insts.extend(on(&[FontEncoding], 4));
        insts.extend(on(&[ExtractText, ExtractChunks], 3));
        out.push(plain("fonts", "resources /Font(7) x font collection /F1(6) x font /Type(4) /Encoding(13) /ToUnicode(7) x ToUnicode object 7 in 7 kinds", base, slots, insts));
    }
    // ---- annotations
    {
        let annot = || d(dictionary! { "Type" => n("Annot"), "Subtype" => n("Link"), "Rect" => a(vec![i(0), i(0), i(1), i(1)]) });
        let base = vec![(1, catalog()), (2, pages_node()), (3, d(dictionary! { "Type" => n("Page"), "Parent" => r(2) })), (4, annot()), (5, a(vec![r(4)])), (6, r(6))];
        let slots = vec![
            key(3, "Annots", 6, vec![a(vec![r(4)]), r(5), r(4), a(vec![r(4), i(1), r(99), r(3), r(5)]), r(3), ab(), a(vec![]), r(99), i(1), annot(), r(6)]),
            whole(4, 4, vec![annot(), a(vec![r(5), r(4)]), r(4), r(5), i(1), st(Dictionary::new(), b""), ab()]),
            whole(5, 4, vec![a(vec![r(4)]), a(vec![r(5)]), r(4), r(5), a(vec![i(1), r(99)]), annot(), i(1)]),
            key(2, "Kids", 1, vec![a(vec![r(3)]), a(vec![r(3), r(3)]), a(vec![r(3), r(4)])]),
        ];
        let mut insts = on(&[PageAnnots], 3);
        insts.extend(on(&[PageAnnots, ObjectPage], 4));
        insts.extend(on(&[ObjectPage], 5));
        insts.extend(on(&[ObjectPage], 99));
        out.push(plain("annots", "page /Annots(11) x object 4 in 7 kinds x object 5 in 7 kinds x root /Kids(3)", base, slots, insts));
    }
    // ---- images: the path to the image
    {
        let img = || st(dictionary! { "Type" => n("XObject"), "Subtype" => n("Image"), "Width" => i(1), "Height" => i(1), "ColorSpace" => n("DeviceGray"), "BitsPerComponent" => i(8) }, b"x");
        let base = vec![(1, catalog()), (2, pages_node()), (3, d(dictionary! { "Type" => n("Page"), "Parent" => r(2) })), (4, d(Dictionary::new())), (5, d(Dictionary::new())), (6, img()), (8, r(8))];
        let slots = vec![
            key(3, "Resources", 3, vec![r(4), d(dictionary! { "XObject" => r(5) }), r(3), ab(), i(1)]),
            key(4, "XObject", 3, vec![r(5), d(dictionary! { "Im1" => r(6) }), r(4), ab(), i(1)]),
            key(5, "Im1", 3, vec![r(6), i(1), r(5), img(), r(99), r(8)]),
            whole(6, 3, vec![img(), i(1), r(6), d(dictionary! { "Subtype" => n("Image") }), ab()]),
        ];
        let mut insts = on(&[PageImages], 3);
        insts.extend(on(&[PageImages], 2));
        out.push(plain("image-path", "page /Resources(5) x resources /XObject(5) x xobject entry /Im1(6) x image object in 5 kinds", base, slots, insts));
    }
    // ---- images: the image dictionary
    {
        let base = vec![(1, catalog()), (2, pages_node()), (3, d(dictionary! { "Type" => n("Page"), "Parent" => r(2), "Resources" => r(4) })), (4, d(dictionary! { "XObject" => d(dictionary! { "Im1" => r(6) }) })),
                        (6, st(dictionary! { "Type" => n("XObject") }, b"x")), (7, a(vec![n("ICCBased"), r(6)]))];
        let slots = vec![
            key(6, "Subtype", 2, vec![n("Image"), n("Form"), ab(), i(1)]),
            key(6, "Width", 2, vec![i(1), ab(), n("N"), r(6), Object::Real(1.0)]),
            key(6, "Height", 2, vec![i(1), ab(), Object::Real(1.5)]),
            key(6, "ColorSpace", 4, vec![n("DeviceRGB"), a(vec![]), a(vec![n("ICCBased"), r(7)]), a(vec![i(1)]), ab(), r(7), i(1), a(vec![a(vec![])])]),
            key(6, "BitsPerComponent", 2, vec![i(8), n("N"), ab()]),
            key(6, "Filter", 3, vec![ab(), n("DCTDecode"), a(vec![i(1)]), a(vec![]), a(vec![n("A"), n("B")]), i(1), r(7)]),
        ];
        out.push(plain("image-dict", "image /Subtype(4) /Width(5) /Height(3) /ColorSpace(8) /BitsPerComponent(3) /Filter(7)", base, slots, on(&[PageImages], 3)));
    }
    // ---- outline links: Next / First graphs
    {
        let dest = || a(vec![r(7), n("Fit")]);
        let direct = || d(dictionary! { "Title" => s(b"D"), "Dest" => dest() });
        let base = vec![(1, d(dictionary! { "Type" => n("Catalog"), "Pages" => r(6), "Outlines" => r(2) })), (2, d(dictionary! { "Type" => n("Outlines"), "Last" => r(4), "Count" => i(2) })),
                        (3, d(dictionary! { "Title" => s(b"A"), "Parent" => r(2), "Dest" => dest() })), (4, d(dictionary! { "Title" => s(b"B"), "Parent" => r(2), "Dest" => dest() })), (5, r(3)),
                        (6, d(dictionary! { "Type" => n("Pages"), "Kids" => a(vec![r(7)]), "Count" => i(1) })), (7, d(dictionary! { "Type" => n("Page"), "Parent" => r(6) }))];
        let slots = vec![
            key(2, "First", 1, vec![r(3), ab(), r(2), r(4), d(dictionary! { "Title" => s(b"D"), "Dest" => dest(), "Next" => r(3) })]),
            key(3, "Next", 4, vec![ab(), r(3), r(4), r(2), r(99), i(1), direct(), r(5)]),
            key(3, "First", 3, vec![ab(), r(3), r(4), r(2), r(99), i(1), direct(), r(5)]),
            key(4, "Next", 3, vec![ab(), r(3), r(4), r(2), r(99), direct()]),
            key(4, "First", 2, vec![ab(), r(3), r(4), r(2)]),
        ];
        let mut insts = on(&[Outlines, Toc], 0);
        insts.extend(on(&[OutlineNode], 3));
        insts.extend(on(&[OutlineNode], 4));
        out.push(plain("outline-links", "outline root /First(5) x item 3 /Next(8) /First(8) x item 4 /Next(6) /First(4): every value in {absent, ref to item 3, item 4, root, dangling, integer, direct dictionary, ref to a ref}", base, slots, insts));
    }
    // ---- outline item: Title / Dest / A / S / D chaos on an acyclic outline
    {
        let dest = || a(vec![r(7), n("Fit")]);
        let destv = || vec![dest(), a(vec![]), s(b"named1"), a(vec![r(7)]), r(8), ab(), s(b"unknown"), n("Name"), i(1), r(3), r(12), r(99), a(vec![i(1), i(2)])];
        let base = vec![(1, d(dictionary! { "Type" => n("Catalog"), "Pages" => r(6), "Outlines" => r(2), "Dests" => r(10) })), (2, d(dictionary! { "Type" => n("Outlines"), "First" => r(3) })),
                        (3, d(dictionary! { "Next" => r(4) })), (4, d(dictionary! { "Title" => s(b"B"), "Dest" => s(b"named1") })), (5, d(Dictionary::new())),
                        (6, d(dictionary! { "Type" => n("Pages"), "Kids" => a(vec![r(7)]), "Count" => i(1) })), (7, d(dictionary! { "Type" => n("Page"), "Parent" => r(6) })), (8, dest()), (9, s(b"T")),
                        (10, d(dictionary! { "Names" => a(vec![s(b"named1"), r(11)]) })), (11, d(dictionary! { "D" => a(vec![r(7), n("XYZ"), i(0), i(0), i(0)]) })), (12, r(12))];
        let slots = vec![
            key(3, "Title", 4, vec![s(b"A"), ab(), i(1), r(9), r(99), Object::String(vec![0xfe, 0xff, 0x00], StringFormat::Hexadecimal), r(3), n("Name")]),
            key(3, "A", 3, vec![ab(), r(5), d(dictionary! { "S" => n("GoTo"), "D" => a(vec![]) }), i(1), r(99), d(Dictionary::new())]),
            key(5, "S", 3, vec![n("GoTo"), n("Launch"), ab(), n("GoToR"), i(1), r(5)]),
            key(5, "D", 5, destv()),
            key(3, "Dest", 5, destv()),
            whole(8, 2, vec![dest(), a(vec![]), a(vec![r(7)]), i(1)]),
        ];
        let mut insts = on(&[Outlines, Toc], 0);
        insts.extend(on(&[OutlineNode], 3));
        insts.extend(on(&[OutlineNode], 4));
        out.push(plain("outline-item", "item /Title(8) /A(6) x action /S(6) /D(13) x item /Dest(13) x indirect destination array object in 4 kinds; destination values: arrays of 0, 1, 2 elements, known and unknown names, refs to array / dictionary / self-referencing ref / dangling", base, slots, insts));
    }
    // ---- toc titles
    {
        let hexs = |b: &[u8]| Object::String(b.to_vec(), StringFormat::Hexadecimal);
        let base = vec![(1, d(dictionary! { "Type" => n("Catalog"), "Pages" => r(6), "Outlines" => r(2) })), (2, d(dictionary! { "First" => r(3) })), (3, d(dictionary! { "Next" => r(4) })), (4, d(dictionary! { "Dest" => a(vec![r(7), n("Fit")]) })),
                        (6, d(dictionary! { "Type" => n("Pages"), "Kids" => a(vec![r(7)]), "Count" => i(1) })), (7, d(dictionary! { "Type" => n("Page"), "Parent" => r(6) }))];
        let slots = vec![
            key(3, "Title", 13, vec![s(b""), s(b"A"), s(b"AB"), hexs(&[0xfe, 0xff]), hexs(&[0xfe, 0xff, 0]), hexs(&[0xfe, 0xff, 0, 0x41]), hexs(&[0xfe, 0xff, 0, 0x41, 0]), hexs(&[0xff, 0xfe]), hexs(&[0xff, 0xfe, 0x41]),
                                     hexs(&[0xff, 0xfe, 0x41, 0]), hexs(&[0xff]), hexs(&[0xfe, 0xff, 0xd8, 0]), hexs(&[0xc3, 0x28])]),
            key(4, "Title", 3, vec![s(b"B"), s(b"A"), hexs(&[0xfe, 0xff, 0, 0x41])]),
            key(3, "Dest", 4, vec![a(vec![r(7), n("Fit")]), a(vec![r(6), n("Fit")]), a(vec![i(1), n("Fit")]), a(vec![r(99), n("Fit")])]),
        ];
        out.push(plain("toc-titles", "title bytes of item 3 in 13 strings (empty, 1 byte, UTF-16 BE/LE marks with even and odd lengths, lone surrogate, invalid UTF-8) x title of item 4 (3: distinct, colliding) x destination page (4: page, non-page, integer, dangling)", base, slots,
            on(&[Toc, Outlines], 0)));
    }
    // ---- named destinations: shape of the name tree
    let tree_base = || vec![(1, d(dictionary! { "Type" => n("Catalog"), "Pages" => r(6), "Outlines" => r(2), "Dests" => r(5) })), (2, d(dictionary! { "First" => r(3) })), (3, d(dictionary! { "Title" => s(b"A"), "Dest" => s(b"k") })),
                            (5, d(dictionary! { "Names" => a(vec![s(b"k"), r(10)]) })), (6, d(dictionary! { "Type" => n("Pages"), "Kids" => a(vec![r(7)]), "Count" => i(1) })), (7, d(dictionary! { "Type" => n("Page"), "Parent" => r(6) })),
                            (8, d(dictionary! { "Names" => a(vec![s(b"k2"), r(10)]) })), (9, d(dictionary! { "Dests" => r(5) })), (10, d(dictionary! { "D" => a(vec![r(7), n("Fit")]) }))];
    {
        let slots = vec![
            key(1, "Dests", 2, vec![r(5), ab(), d(dictionary! { "Names" => a(vec![s(b"k"), r(10)]) }), i(1), r(99)]),
            key(1, "Names", 2, vec![ab(), r(9), d(dictionary! { "Dests" => r(5) }), i(1), r(5)]),
            key(5, "Kids", 4, vec![ab(), a(vec![r(8)]), a(vec![r(5)]), a(vec![r(8), i(1), r(99), r(8)]), a(vec![]), i(1), r(8)]),
            key(8, "Kids", 2, vec![ab(), a(vec![r(5)]), a(vec![r(8)])]),
            key(5, "Names", 3, vec![a(vec![s(b"k"), r(10)]), ab(), i(1)]),
        ];
        let mut insts = on(&[Outlines, Toc], 0);
        insts.extend(on(&[NamedDests], 5));
        insts.extend(on(&[NamedDests], 8));
        out.push(plain("name-tree", "catalog /Dests(5) /Names(5) x tree /Kids(7: self cycle, 5->8->5 cycle, duplicates, dangling) x kid /Kids(3) x tree /Names(3)", tree_base(), slots, insts));
    }
    // ---- named destinations: entries of the /Names array
    {
        let good = || d(dictionary! { "D" => a(vec![r(7), n("Fit")]) });
        let slots = vec![
            key(1, "Dests", 2, vec![r(5), d(dictionary! { "Names" => a(vec![s(b"k"), r(10)]) })]),
            key(5, "Names", 8, vec![a(vec![s(b"k"), r(10)]), a(vec![s(b"k"), d(Dictionary::new())]), a(vec![n("k"), r(10)]), a(vec![s(b"k"), d(dictionary! { "D" => a(vec![]) })]), a(vec![s(b"k"), good()]),
                                    a(vec![s(b"k")]), a(vec![]), a(vec![s(b"k"), r(99)]), a(vec![s(b"k"), a(vec![r(7), n("Fit")])]), a(vec![s(b"k"), d(dictionary! { "D" => i(1) })]),
                                    a(vec![i(1), r(10)]), a(vec![s(b"k"), r(10), s(b"k2")]), a(vec![s(b"k"), d(dictionary! { "D" => a(vec![r(7)]) })]), a(vec![r(10), r(10)]), r(10)]),
            whole(10, 5, vec![good(), d(Dictionary::new()), a(vec![]), d(dictionary! { "D" => a(vec![]) }), a(vec![r(7), n("Fit")]), d(dictionary! { "D" => a(vec![r(7)]) }), a(vec![r(7)]), i(1), r(10),
                              st(dictionary! { "D" => a(vec![r(7), n("Fit")]) }, b""), d(dictionary! { "D" => r(7) })]),
            key(5, "Kids", 2, vec![ab(), a(vec![r(8)])]),
        ];
        let mut insts = on(&[Outlines, Toc], 0);
        insts.extend(on(&[NamedDests], 5));
        out.push(plain("name-entries", "catalog /Dests(2) x tree /Names(15: odd length, non-string keys, direct / indirect / dangling values, dictionaries without /D or with /D of 0, 1 elements or an integer) x destination object 10 in 11 kinds x tree /Kids(2)", tree_base(), slots, insts));
    }
    // ---- streams: Filter / DecodeParms / Length chaos
    {
        let z = zlib(b"BT (x) Tj ET ");
        let base = vec![(1, catalog()), (2, pages_node()), (3, d(dictionary! { "Type" => n("Page"), "Parent" => r(2), "Contents" => r(4), "Resources" => d(dictionary! { "Font" => d(dictionary! { "F1" => r(6) }) }) })),
                        (4, i(0)), (6, font()), (7, n("FlateDecode"))];
        let slots = vec![
            whole(4, 4, vec![st(Dictionary::new(), &z), st(Dictionary::new(), TEXT), st(Dictionary::new(), b""), st(Dictionary::new(), &z[..z.len() / 2]), st(Dictionary::new(), b"~>"),
                             st(Dictionary::new(), b"\x80\x0b\x60\x50\x22\x0c\x0c\x85\x01"), st(Dictionary::new(), b"87cURD]i,\"Ebo80~>")]),
            key(4, "Filter", 5, vec![n("FlateDecode"), ab(), a(vec![n("ASCII85Decode"), n("FlateDecode")]), n("LZWDecode"), i(1), n("ASCII85Decode"), n("Foo"), a(vec![]), a(vec![i(1)]), r(7), d(Dictionary::new())]),
            key(4, "DecodeParms", 3, vec![ab(), d(dictionary! { "Predictor" => i(12), "Columns" => i(4) }), i(1), d(dictionary! { "Predictor" => i(12), "Colors" => i(i64::MAX) }),
                                          d(dictionary! { "Predictor" => i(15), "Columns" => i(0) }), d(dictionary! { "Predictor" => i(12), "Columns" => i(34359738368) }),
                                          a(vec![d(dictionary! { "Predictor" => i(12) })]), d(dictionary! { "EarlyChange" => n("N"), "Predictor" => r(4) })]),
            key(4, "Length", 3, vec![i(3), ab(), r(4), i(-1), i(i64::MAX), r(99), n("N")]),
        ];
        let mut insts = on(&[StreamFilters, StreamDecompress, StreamPlain, StreamDecode], 4);
        insts.extend(on(&[PageContent, DecodeContent, ExtractText], 3));
        out.push(plain("streams", "content stream body in 7 byte strings x /Filter(11) x /DecodeParms(8) x /Length(7: wrong, negative, huge, self reference, dangling, name)", base, slots, insts));
    }
    // ---- uniform: every key the queries read (except First / Next, see outline-links) bound to the same reference on each of 3 dictionaries
    {
        let mut insts = on(&[Catalog, GetPages, PageIter, ExtractText, Outlines, Toc], 0);
        for id in 1..=3 { insts.extend(on(&[PageContents, PageContent, PageResources, PageFonts, PageAnnots, PageImages, ObjectPage, NamedDests, FontEncoding, OutlineNode, Accessors], id)); }
        out.push(Family { name: "uniform", what: "3 dictionaries, object 1 the trailer /Root; dictionary j has /Type t_j in {Pages, Page, Font, absent} and binds all of 29 keys (Kids Parent Count Contents Resources Font XObject ColorSpace Annots Outlines Dests Names Pages Dest A D S Title Encoding ToUnicode Filter DecodeParms Length F1 Im1 Subtype Width Height BitsPerComponent) to one value v_j in {ref 1, ref 2, [ref 1 ref 2 ref 3], dangling ref, ref 3, no keys}: all 24^3 graphs",
            base: vec![], trailer: Dictionary::new(), slots: vec![], custom: Some((build_uniform, vec![6, 4, 6, 4, 6, 4], vec![4, 3, 4, 3, 4, 3])), label: None, big: false, insts });
    }
    // ---- scale: the number of linked nodes and the sharing of nodes, per link kind
    {
        let mut insts = on(&[GetPages, PageIter, ExtractText, Outlines, Toc], 0);
        insts.extend(on(&[PageResources, PageFonts, PageImages, PageAnnots, ObjectPage], 3));
        insts.extend(on(&[NamedDests], 6));
        insts.extend(on(&[NamedDests, OutlineNode, PageResources], SCALE_FIRST));
        out.push(Family { name: "scale", what: "n linked nodes, n in {1,2,3,8,12,40,64,255,256,257,258,1000,4000,16000; thorough also 65536, 262144} x shape in 7 {page tree of n nested /Pages nodes with /Parent links back up and /Resources only on the root, its /Kids arrays listing the kid once | twice; outline of n items linked by /First | by /Next | by /First and /Next to the same item; name tree of n nested /Kids nodes listing the kid once | twice} x last link in 4 {proper leaf, dangling, back to the first node, to itself}; the doubled links make an acyclic graph of n nodes with 2^n paths; CPU budget grows by 10 us per object",
            base: vec![], trailer: Dictionary::new(), slots: vec![],
            custom: Some((build_scale, vec![SCALE_NODES.len(), SCALE_SHAPES.len(), SCALE_ENDS.len()], vec![SCALE_NODES_QUICK, SCALE_SHAPES.len(), SCALE_ENDS.len()])), label: Some(label_scale), big: true, insts });
    }
    // ---- content-ops: operator x operand list x preceding operation x font resource of the page's content stream
    {
        let mut insts = on(&[ExtractText, ExtractChunks, DecodeContent], 3);
        insts.extend(on(&[StreamDecode], 4));
        out.push(Family { name: "content-ops", what: "the page's content stream is [BT] history probe [ET], written out by hand: font resource /F1 in 4 {Type1 font with WinAnsiEncoding, Type0 font with Identity-H and a ToUnicode CMap, no /F1 in the /Font dictionary, a font dictionary without /Type whose encoding cannot be resolved} x history in 19 {/F1 12 Tf, nothing, /F2 12 Tf (a key the resources do not have), each of the other 16 text operators in its well-formed form} x probed operator in 17 {Tj TJ ' \" Tf BT ET Tc Tw Tz TL Tr Ts Td TD Tm T*: ISO 32000-1 tables 105 to 109} x operand list of the probed operator in 617 {every list of 0, 1, 2 or 3 operands over the 8 kinds (AB), 12, /F1, [(A) -200 (B)], <0041>, -200, 1.5, <</K 1>> (585), and 4, 5, 6 or 7 times the same operand of each kind (32); quick: the 21 lists of 0, 1 or 2 operands over the first 4 kinds} x bracket in 2 {inside BT .. ET, bare; quick: inside}; so every operator is met with fewer operands than it takes, exactly as many, more, and operands of the wrong kinds, with and without a decodable font selected before it",
            base: vec![], trailer: Dictionary::new(), slots: vec![],
            custom: Some((build_content_ops, vec![CO_FONTS.len(), co_histories().len(), CO_OPERATORS.len(), co_lists().len(), CO_BRACKETS.len()], vec![CO_FONTS.len(), co_histories().len(), CO_OPERATORS.len(), co_lists_quick(), 1])),
            label: Some(label_content_ops), big: false, insts });
    }
    out
}

// ------------------------------------------------------------------------------------------------ worker

static LAST_PANIC: std::sync::Mutex<String> = std::sync::Mutex::new(String::new());

fn raw_write(s: &str) {
    use std::os::unix::io::FromRawFd;
    let mut f = std::mem::ManuallyDrop::new(unsafe { std::fs::File::from_raw_fd(1) });
    let _ = f.write_all(s.as_bytes());
}

fn install_hook() {
    std::panic::set_hook(Box::new(|info| {
        let msg = if let Some(s) = info.payload().downcast_ref::<String>() { s.clone() } else if let Some(s) = info.payload().downcast_ref::<&str>() { s.to_string() } else { "panic".to_string() };
        let loc = info.location().map(|l| format!(" at {}:{}", l.file(), l.line())).unwrap_or_default();
        if let Ok(mut g) = LAST_PANIC.lock() { *g = format!("{}{}", msg, loc); }
    }));
}

/// evaluates one instance under the timers; returns the code that ends the protocol line
fn eval_code(doc: &Document, kind: Kind, arg: ObjectId, cpu_ms: u64, verbose: bool) -> String {
    arm(ITIMER_REAL, WALL_S as u64 * 1000);
    arm(ITIMER_PROF, cpu_ms);
    let r = std::panic::catch_unwind(AssertUnwindSafe(|| run_inst(doc, kind, arg)));
    arm(ITIMER_PROF, 0);
    arm(ITIMER_REAL, 0);
    match r {
        Ok(res) => match res.model {
            Some((ob, msg)) => format!("M{}|{}", ob, hex(msg.as_bytes())),
            None => if verbose { format!("{}{}", res.class as char, hex(res.note.as_bytes())) } else { (res.class as char).to_string() },
        },
        Err(_) => { let m = LAST_PANIC.lock().map(|g| g.clone()).unwrap_or_default(); format!("P{}", hex(m.as_bytes())) }
    }
}

fn in_thread(f: impl FnOnce() + Send) {
    std::thread::scope(|sc| {
        let h = std::thread::Builder::new().stack_size(STACK).spawn_scoped(sc, f).expect("spawn");
        let _ = h.join();
    });
}

fn worker_range(fam: &Family, thorough: bool, start_idx: u64, start_k: usize, end_idx: u64) -> ! {
    worker_limits();
    install_hook();
    let end_idx = end_idx.min(fam.count(thorough));
    in_thread(|| {
        let mut pending = String::new();
        for idx in start_idx..end_idx {
            let doc = fam.build(idx, thorough);
            let k0 = if idx == start_idx { start_k } else { 0 };
            for k in k0..fam.insts.len() {
                let (kind, arg) = fam.insts[k];
                pending.push_str(&format!("{} {} ", idx, k));
                raw_write(&pending);
                pending.clear();
                pending.push_str(&eval_code(&doc, kind, arg, cpu_budget(CPU_MS_RUN, &doc) * budget_scale(), false));
                pending.push('\n');
            }
        }
        pending.push_str("done\n");
        raw_write(&pending);
    });
    std::process::exit(0);
}

fn worker_json(path: &str) -> ! {
    worker_limits();
    install_hook();
    let txt = std::fs::read_to_string(path).expect("case file");
    let v: Value = serde_json::from_str(&txt).expect("json");
    let (doc, kind, arg) = case_from_json(&v).expect("case");
    in_thread(move || {
        raw_write("0 0 ");
        let code = eval_code(&doc, kind, arg, cpu_budget(CPU_MS_REPLAY, &doc), true);
        raw_write(&format!("{}\ndone\n", code));
    });
    std::process::exit(0);
}

// ------------------------------------------------------------------------------------------------ parent

struct RunOut { lines: Vec<(u64, usize, String)>, in_progress: Option<(u64, usize)>, done: bool, death: Option<(&'static str, String)> }

fn spawn_worker(args: &[String]) -> Result<RunOut, String> { spawn_worker_scaled(args, 1) }
fn spawn_worker_scaled(args: &[String], scale: u64) -> Result<RunOut, String> {
    let exe = std::env::current_exe().map_err(|e| e.to_string())?;
    let out = std::process::Command::new(exe).arg("c13-queries").args(args).env("RUST_BACKTRACE", "0").env("LOPDF_VERIF_C13_BUDGET_SCALE", scale.to_string()).stdin(std::process::Stdio::null()).output().map_err(|e| e.to_string())?;
    let text = String::from_utf8_lossy(&out.stdout).to_string();
    let mut lines = vec![];
    let mut in_progress = None;
    let mut done = false;
    for l in text.split('\n') {
        if l == "done" { done = true; continue; }
        let f: Vec<&str> = l.split(' ').collect();
        if f.len() == 3 && !f[2].is_empty() {
            lines.push((f[0].parse().map_err(|_| format!("bad line {:?}", l))?, f[1].parse().map_err(|_| format!("bad line {:?}", l))?, f[2].to_string()));
        } else if f.len() >= 2 && !f[0].is_empty() {
            in_progress = Some((f[0].parse().map_err(|_| format!("bad line {:?}", l))?, f[1].parse().map_err(|_| format!("bad line {:?}", l))?));
        }
    }
    let mut death = None;
    if !(done && out.status.success()) {
        use std::os::unix::process::ExitStatusExt;
        let err = String::from_utf8_lossy(&out.stderr).to_string();
        let errline = err.lines().filter(|l| !l.trim().is_empty()).last().unwrap_or("").to_string();
        death = Some(match out.status.signal() {
            Some(SIGPROF) => ("terminates", "still running when its CPU budget ran out (killed by SIGPROF)".to_string()),
            Some(SIGALRM) => ("terminates", format!("still running after {} s wall clock (killed by SIGALRM)", WALL_S)),
            Some(SIGABRT) | Some(SIGSEGV) if err.contains("overflowed its stack") => ("bounded-recursion", format!("stack overflow on a {} MiB stack: {}", STACK >> 20, errline)),
            Some(SIGABRT) => ("no-abort", format!("process aborted: {}", errline)),
            Some(sig) => ("no-abort", format!("process killed by signal {}: {}", sig, errline)),
            None => ("no-abort", format!("worker exited with {:?}: {}", out.status.code(), errline)),
        });
    }
    Ok(RunOut { lines, in_progress, done, death })
}

struct Fail { idx: u64, k: usize, obligation: String, observed: String }
#[derive(Default)]
struct ChunkOut { evals: u64, nontrivial: u64, fails: Vec<Fail>, harness_errors: Vec<String>, ok_sample: Option<(u64, usize, u8)> }

fn decode_line(code: &str) -> (Option<(String, String)>, u8) {
    let tail = |s: &str| String::from_utf8_lossy(&unhex(s)).to_string();
    match code.as_bytes()[0] {
        b'P' => (Some(("no-panic".to_string(), format!("panicked: {}", tail(&code[1..])))), b'P'),
        b'M' => { let (ob, m) = code[1..].split_once('|').unwrap_or(("model", "")); (Some((ob.to_string(), tail(m))), b'M') }
        c => (None, c),
    }
}

fn run_chunk(fam: &Family, thorough: bool, lo: u64, hi: u64) -> ChunkOut {
    let mut out = ChunkOut::default();
    let (mut idx, mut k) = (lo, 0usize);
    let ninst = fam.insts.len();
    while idx < hi {
        let args: Vec<String> = vec!["--c13-worker".into(), fam.name.into(), (thorough as u8).to_string(), idx.to_string(), k.to_string(), hi.to_string()];
        let run = match spawn_worker(&args) { Ok(r) => r, Err(e) => { out.harness_errors.push(format!("family {} at {} {}: {}", fam.name, idx, k, e)); break; } };
        for (li, lk, code) in &run.lines {
            out.evals += 1;
            let (fail, class) = decode_line(code);
            match fail {
                Some((ob, obs)) => { out.nontrivial += 1; out.fails.push(Fail { idx: *li, k: *lk, obligation: format!("{}:{}", ob, kind_name(fam.insts[*lk].0)), observed: obs }); }
                None => { if class == b'v' || class == b'R' { out.nontrivial += 1; if out.ok_sample.is_none() { out.ok_sample = Some((*li, *lk, class)); } } }
            }
        }
        match (run.death, run.in_progress) {
            (None, _) => break,
            (Some((ob, obs)), Some((di, dk))) => {
                out.evals += 1;
                out.nontrivial += 1;
                let mut confirmed = true;
                if ob == "terminates" {
                    // the same evaluation alone, with CONFIRM_SCALE times the budget
                    let cargs: Vec<String> = vec!["--c13-worker".into(), fam.name.into(), (thorough as u8).to_string(), di.to_string(), dk.to_string(), (di + 1).to_string()];
                    if let Ok(again) = spawn_worker_scaled(&cargs, CONFIRM_SCALE) {
                        let finished = again.lines.iter().any(|(li, lk, _)| *li == di && *lk == dk);
                        if finished { confirmed = false; }
                    }
                }
                if confirmed { out.fails.push(Fail { idx: di, k: dk, obligation: format!("{}:{}", ob, kind_name(fam.insts[dk].0)), observed: obs }); }
                if dk + 1 < ninst { idx = di; k = dk + 1; } else { idx = di + 1; k = 0; }
            }
            (Some((ob, obs)), None) => { out.harness_errors.push(format!("family {} worker from {} {} died outside an evaluation: {} {}", fam.name, idx, k, ob, obs)); break; }
        }
    }
    out
}

fn case_json(fam: &Family, thorough: bool, idx: u64, k: usize) -> Value {
    let doc = fam.build(idx, thorough);
    let (kind, arg) = fam.insts[k];
    if doc.objects.len() > INLINE_OBJECTS {
        // too large to write out: replay regenerates it from (family, index, tier)
        return json!({"family": fam.name, "index": idx, "thorough": thorough, "query": kind_name(kind), "arg": [arg.0, arg.1], "generated": true,
                      "object_count": doc.objects.len(), "document": fam.label.map(|l| l(&fam.digits(idx, thorough))).unwrap_or_default()});
    }
    json!({"family": fam.name, "index": idx, "thorough": thorough, "query": kind_name(kind), "arg": [arg.0, arg.1],
           "document": fam.label.map(|l| l(&fam.digits(idx, thorough))).unwrap_or_default(),
           "objects": doc.objects.iter().map(|(id, o)| json!({"id": id.0, "gen": id.1, "obj": obj_json(o)})).collect::<Vec<_>>(),
           "trailer": doc.trailer.iter().map(|(k, v)| json!([hex(k), obj_json(v)])).collect::<Vec<_>>()})
}

fn case_from_json(v: &Value) -> Result<(Document, Kind, ObjectId), String> {
    let kind = kind_from(v["query"].as_str().unwrap_or("")).ok_or("unknown query")?;
    let arg = (v["arg"][0].as_u64().unwrap_or(0) as u32, v["arg"][1].as_u64().unwrap_or(0) as u16);
    if v["generated"].as_bool() == Some(true) {
        let fams = families();
        let fam = fams.iter().find(|f| Some(f.name) == v["family"].as_str()).ok_or("unknown family")?;
        let (idx, thorough) = (v["index"].as_u64().ok_or("index")?, v["thorough"].as_bool().ok_or("thorough")?);
        if idx >= fam.count(thorough) { return Err("index outside the family".into()); }
        return Ok((fam.build(idx, thorough), kind, arg));
    }
    let mut objects = BTreeMap::new();
    for e in v["objects"].as_array().ok_or("objects")? {
        objects.insert((e["id"].as_u64().ok_or("id")? as u32, e["gen"].as_u64().ok_or("gen")? as u16), obj_from_json(&e["obj"]));
    }
    let mut trailer = Dictionary::new();
    for e in v["trailer"].as_array().ok_or("trailer")? { trailer.set(unhex(e[0].as_str().ok_or("key")?), obj_from_json(&e[1])); }
    Ok((make_doc(objects, trailer), kind, arg))
}

fn describe_doc(doc: &Document) -> String {
    let mut t = format!("trailer {:?}; ", doc.trailer);
    for (id, o) in &doc.objects { t.push_str(&format!("{} {}: {:?}; ", id.0, id.1, o)); }
    if t.len() > 900 { let mut cut = 900; while !t.is_char_boundary(cut) { cut -= 1; } t.truncate(cut); t.push_str("..."); }
    t
}

pub fn run(thorough: bool) -> Report {
    let args: Vec<String> = std::env::args().collect();
    if let Some(p) = args.iter().position(|a| a == "--c13-worker") {
        let fams = families();
        let fam = fams.iter().find(|f| f.name == args[p + 1]).expect("family");
        worker_range(fam, args[p + 2] == "1", args[p + 3].parse().unwrap(), args[p + 4].parse().unwrap(), args[p + 5].parse().unwrap());
    }
    if let Some(p) = args.iter().position(|a| a == "--c13-json") { worker_json(&args[p + 1]); }

    let fams = families();
    let mut bound = format!("typed-chaos documents, {} families, each the full product of its slot alphabets (alphabet sizes in parentheses; the quick tier uses a prefix of each alphabet), every listed query evaluated on every document in a worker process ({} ms + {} us per object of the document CPU budget - an evaluation that runs out of it is repeated alone with 40 times the budget and only reported if it runs out again -, {} MiB stack, {} GiB address space per evaluation): ", fams.len(), CPU_MS_RUN, CPU_US_PER_OBJECT, STACK >> 20, AS_LIMIT >> 30);
    for f in &fams {
        let mut q: Vec<String> = vec![];
        for (k, id) in &f.insts { let t = if id.0 == 0 { kind_name(*k).to_string() } else { format!("{}({})", kind_name(*k), id.0) }; if !q.contains(&t) { q.push(t); } }
        bound.push_str(&format!("[{}: {} = {} documents x {} queries ({})] ", f.name, f.what, f.count(thorough), f.insts.len(), q.join(", ")));
    }
    let mut rep = Report::new(bound.trim_end(), true);
    let mut obligations: HashSet<String> = HashSet::new();
    for f in &fams { for (k, _) in &f.insts { for ob in ["no-panic", "terminates", "bounded-recursion", "no-abort"] { obligations.insert(format!("{}:{}", ob, kind_name(*k))); } } }
    for k in [GetObject, Dereference, GetDictionary, GetObjectMut, HasObject, GetDictInDict, Catalog, Accessors] { obligations.insert(format!("lookup-model:{}", kind_name(k))); }
    for k in [GetPages, PageIter] { obligations.insert(format!("pages-sound:{}", kind_name(k))); }
    rep.obligations = obligations.len() as u64;

    // chunks of consecutive indices; results are merged in index order so the smallest failing input of an obligation is kept
    let mut chunks: Vec<(usize, u64, u64)> = vec![];
    for (fi, f) in fams.iter().enumerate() {
        let total = f.count(thorough);
        // the documents of family scale are large: one document per worker
        let size = if f.big { 1 } else { (total / 256).clamp(8, 1500) };
        let mut lo = 0;
        while lo < total { let hi = (lo + size).min(total); chunks.push((fi, lo, hi)); lo = hi; }
    }
    let results: Vec<ChunkOut> = chunks.par_iter().with_max_len(1).map(|(fi, lo, hi)| run_chunk(&fams[*fi], thorough, *lo, *hi)).collect(); // chunks differ widely in cost: every chunk is a job of its own

    // failures: per obligation keep the first input of up to 3 DISTINCT observations (panic sites), in index order
    let mut tally: BTreeMap<String, u64> = BTreeMap::new();
    let mut distinct: BTreeMap<(String, String), (u64, String)> = BTreeMap::new(); // (obligation, observed) -> (count, first input)
    let mut sampled: HashSet<usize> = HashSet::new();
    let mut pending: Vec<(usize, Fail)> = vec![];
    for ((fi, _, _), out) in chunks.iter().zip(results.into_iter()) {
        let fam = &fams[*fi];
        rep.evaluations += out.evals;
        rep.nontrivial += out.nontrivial;
        for e in out.harness_errors { rep.fail("harness", e.clone(), json!({"family": fam.name}), e); }
        for f in out.fails {
            *tally.entry(f.obligation.clone()).or_insert(0) += 1;
            let e = distinct.entry((f.obligation.clone(), f.observed.clone())).or_insert((0, format!("{} #{}", fam.name, f.idx)));
            e.0 += 1;
            if e.0 == 1 { pending.push((*fi, f)); }
        }
        if let Some((idx, k, class)) = out.ok_sample {
            if sampled.len() < 2 && sampled.insert(*fi) {
                rep.sample(format!("{} #{}: {} came back with {} on {}", fam.name, idx, kind_name(fam.insts[k].0), if class == b'v' { "a value" } else { "an error" }, describe_doc(&fam.build(idx, thorough))));
            }
        }
    }
    let mut kept: BTreeMap<String, u64> = BTreeMap::new();
    for (fi, f) in pending {
        let c = kept.entry(f.obligation.clone()).or_insert(0);
        *c += 1;
        if *c > 3 { continue; }
        let fam = &fams[fi];
        let input = case_json(fam, thorough, f.idx, f.k);
        let (kind, arg) = fam.insts[f.k];
        let doc = fam.build(f.idx, thorough);
        let label = fam.label.map(|l| format!(" ({}; {} objects, CPU budget {} ms)", l(&fam.digits(f.idx, thorough)), doc.objects.len(), cpu_budget(CPU_MS_RUN, &doc))).unwrap_or_default();
        let detail = format!("{} with argument {:?} on document #{} of family {}{}: {} -- document: {}", kind_name(kind), arg, f.idx, fam.name, label, f.observed, describe_doc(&doc));
        rep.fail(&f.obligation, detail, input, f.observed);
    }
    if !tally.is_empty() {
        let t: Vec<String> = tally.iter().map(|(k, v)| format!("{} x{}", k, v)).collect();
        rep.samples.insert(0, format!("failing evaluations per obligation: {}", t.join(", ")));
        let mut by_obs: BTreeMap<String, (Vec<String>, u64, String)> = BTreeMap::new();
        for ((ob, obs), (c, first)) in &distinct {
            let e = by_obs.entry(obs.clone()).or_insert((vec![], 0, first.clone()));
            e.0.push(ob.split(':').nth(1).unwrap_or(ob).to_string());
            e.1 += c;
        }
        let dd: Vec<String> = by_obs.iter().map(|(obs, (qs, c, first))| format!("[{}] in {} (x{}, first at {})", obs, qs.join("/"), c, first)).collect();
        rep.samples.insert(1, format!("distinct observations: {}", dd.join("; ")));
        rep.samples.truncate(4);
    }
    rep
}

pub fn replay(v: &Value) -> Result<(), String> {
    case_from_json(v)?;
    static SEQ: std::sync::atomic::AtomicU64 = std::sync::atomic::AtomicU64::new(0);
    let path = std::env::temp_dir().join(format!("c13-replay-{}-{}.json", std::process::id(), SEQ.fetch_add(1, std::sync::atomic::Ordering::Relaxed)));
    std::fs::write(&path, v.to_string()).map_err(|e| e.to_string())?;
    let run = spawn_worker(&["--c13-json".to_string(), path.to_string_lossy().to_string()]);
    let _ = std::fs::remove_file(&path);
    let run = run?;
    let q = v["query"].as_str().unwrap_or("?");
    if let Some((ob, obs)) = run.death { return Err(format!("{}:{}: {}", ob, q, obs)); }
    match run.lines.first() {
        Some((_, _, code)) => match decode_line(code) { (Some((ob, obs)), _) => Err(format!("{}:{}: {}", ob, q, obs)), (None, _) => Ok(()) },
        None => Err("worker produced no result".into()),
    }
}
