use serde_json::{json, Value};
use std::collections::HashSet;

pub fn arg_val(args: &[String], key: &str) -> Option<String> {
    args.iter().position(|a| a == key).and_then(|i| args.get(i + 1).cloned())
}

#[derive(Debug, Clone)]
pub struct Failure {
    pub obligation: String,
    pub detail: String,
    pub input: Value,
    pub observed: String,
}

#[derive(Debug, Default)]
pub struct Report {
    pub evaluations: u64,
    pub nontrivial: u64,
    pub obligations: u64,
    pub failures: Vec<Failure>,
    pub bound: String,
    pub exhaustive: bool,
    pub samples: Vec<String>,
    seen_obl: HashSet<String>,
}

impl Report {
    pub fn new(bound: &str, exhaustive: bool) -> Report {
        Report { bound: bound.to_string(), exhaustive, obligations: 1, ..Default::default() }
    }
    pub fn case(&mut self, nontrivial: bool) {
        self.evaluations += 1;
        if nontrivial { self.nontrivial += 1; }
    }
    pub fn sample(&mut self, s: String) {
        if self.samples.len() < 4 { self.samples.push(s); }
    }
    /// keep at most 3 failures per obligation and "signature" (the detail text with digits removed, first 48 chars after
    /// an optional "[.. in total ..]" prefix), so that a known failure family cannot crowd a new one out; at most 60 overall
    pub fn fail(&mut self, obligation: &str, detail: String, input: Value, observed: String) {
        let sig = |d: &str| -> String {
            let d = match d.find("] ") { Some(p) if d.starts_with('[') => &d[p + 2..], _ => d };
            d.chars().filter(|c| !c.is_ascii_digit()).take(48).collect()
        };
        let key = sig(&detail);
        let n = self.failures.iter().filter(|f| f.obligation == obligation && sig(&f.detail) == key).count();
        self.seen_obl.insert(obligation.to_string());
        if n < 3 && self.failures.len() < 60 {
            self.failures.push(Failure { obligation: obligation.to_string(), detail, input, observed });
        }
    }
    pub fn merge(&mut self, o: Report) {
        self.evaluations += o.evaluations;
        self.nontrivial += o.nontrivial;
        for f in o.failures { self.fail(&f.obligation.clone(), f.detail, f.input, f.observed); }
        for s in o.samples { self.sample(s); }
    }
    pub fn to_json(&self, cmd: &str) -> String {
        let fails: Vec<Value> = self.failures.iter().map(|f| json!({"obligation": f.obligation, "detail": f.detail, "input": f.input, "observed": f.observed})).collect();
        json!({"e3": cmd, "evaluations": self.evaluations, "nontrivial": self.nontrivial, "obligations": self.obligations, "failures": fails,
               "bound": self.bound, "exhaustive": self.exhaustive, "samples": self.samples}).to_string()
    }
}

pub fn hex(b: &[u8]) -> String { b.iter().map(|x| format!("{:02x}", x)).collect() }
pub fn unhex(s: &str) -> Vec<u8> { (0..s.len() / 2).map(|i| u8::from_str_radix(&s[2 * i..2 * i + 2], 16).unwrap()).collect() }

static LAST_PANIC_AT: std::sync::Mutex<String> = std::sync::Mutex::new(String::new());

/// run a closure, turning a panic into Err(message at file:line)
pub fn guarded<T>(f: impl FnOnce() -> T + std::panic::UnwindSafe) -> Result<T, String> {
    let prev = std::panic::take_hook();
    std::panic::set_hook(Box::new(|info| {
        if let Some(l) = info.location() { if let Ok(mut g) = LAST_PANIC_AT.lock() { *g = format!("{}:{}", l.file(), l.line()); } }
    }));
    let r = std::panic::catch_unwind(f);
    std::panic::set_hook(prev);
    r.map_err(|e| {
        let msg = if let Some(s) = e.downcast_ref::<String>() { s.clone() } else if let Some(s) = e.downcast_ref::<&str>() { s.to_string() } else { "panic".to_string() };
        let at = LAST_PANIC_AT.lock().map(|g| g.clone()).unwrap_or_default();
        format!("{} at {}", msg, at)
    })
}
