//! c06: bounded stand-in (E3) -- standard security handler against an independent reference implementation
#![allow(dead_code, unused_imports)]
use crate::common::*;
use crate::gen::*;
use serde_json::{json, Value};

pub fn run(_thorough: bool) -> Report {
    Report::new("not built yet", false)
}

pub fn replay(_v: &Value) -> Result<(), String> {
    Err("no replay".into())
}
