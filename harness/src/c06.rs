//! C06: the standard security handler agrees with ISO 32000 algorithms (bounded-exhaustive, E3).
//!
//! The oracle is an INDEPENDENT reference implementation of the standard security handler, written in this file from the
//! text of ISO 32000-1:2008 7.6 and ISO 32000-2:2020 7.6 (Algorithms 1, 1.A, 2, 2.A, 2.B, 3-13).  It shares no code with
//! the library: MD5 (RFC 1321), SHA-256/384/512 (FIPS 180-4), AES-128/256 with CBC and ECB (FIPS 197) and RC4 are
//! implemented below from their definitions (round constants and the S-box are DERIVED - sines, cube/square roots of primes,
//! GF(2^8) inverses - not copied) and are checked against published known-answer vectors before anything else runs; a
//! failing self-test is a defect of the harness: message on stderr and exit status 3 (inconclusive).
//!
//! Direction A: the reference encrypts a small document and serialises it with its own PDF writer (xref table, or xref
//!   stream + an object stream); lopdf must load it, accept the user and the owner password, derive the same file key,
//!   return every string and stream byte for byte, and reject wrong passwords.
//! Direction B: lopdf encrypts and saves; the reference reads the encryption dictionary, checks its entries, recomputes
//!   O / U (R2-4) or validates U, O, UE, OE, Perms (R5-6), authenticates with both passwords and decrypts every string and stream.
//!
//! Obligation names: `reference-encrypted-opens-in-lopdf`, `file-key`, `object-key`, `wrong-password-rejected`,
//! `objstm-strings`, `encrypt-ok`, `dict-V-R-Length`, `P-word`, `dict-crypt-filters`, `O-value`, `U-value`, `perms`,
//! `lopdf-encrypted-opens-in-reference`, `id-not-encrypted`, `no-panic`.  The obligations about opening, object keys, crypt
//! filter entries and object streams get an input-class suffix for the variants that are a class of their own: `-identity`
//! (StmF or StrF is the predefined /Identity filter), `-length-absent` / `-length-256` (top-level /Length toggled),
//! `-direct-dict` (/Encrypt is a direct dictionary), `-identity-in-cf`, and `-cf` followed by what the crypt filter dictionaries of the
//! file leave out or write differently (`-cf-notype`, `-cf-noauthevent`, `-cf-nolength`, `-cf-lengthbits` and their combinations, see
//! `CfShape`), and `-v1-r3` first of all suffixes for a document whose algorithm code V is not the one lopdf's own writer pairs with
//! the revision (V 1 with R 3: ISO 32000-1 table 21, the 40-bit algorithm with a revision 3 permission withdrawn); O-value, U-value, P-word, perms, dict-V-R-Length,
//! id-not-encrypted and (direction B) file-key never carry a suffix.  Detail texts start with a constant phrase of more than
//! 48 characters, because Report::fail groups failures by that prefix.
//!
//! Debugging aids (never set by the driver): `C06_PERTURB=<name>` deliberately breaks the REFERENCE in one place (see
//! `pt`) to demonstrate that the check is sensitive; the report is then labelled PERTURBED and not exhaustive.
//! `C06_STATS=1` prints failing-case counts per obligation on stderr.
#![allow(dead_code, unused_imports, deprecated, clippy::all)]
use crate::common::*;
use lopdf::encryption::crypt_filters::{Aes128CryptFilter, Aes256CryptFilter, CryptFilter, IdentityCryptFilter, Rc4CryptFilter};
use lopdf::xref::XrefType;
use lopdf::{Dictionary, Document, EncryptionState, EncryptionVersion, Object, Permissions, Stream, StringFormat};
use rayon::prelude::*;
use serde_json::{json, Value};
use std::collections::BTreeMap;
use std::panic::AssertUnwindSafe;
use std::sync::{Arc, OnceLock};

// ===============================================================================================================
// 1. primitives, from their definitions
// ===============================================================================================================

// ---- MD5 (RFC 1321) --------------------------------------------------------------------------------------------
fn md5_t() -> &'static [u32; 64] {
    static T: OnceLock<[u32; 64]> = OnceLock::new();
    T.get_or_init(|| {
        let mut t = [0u32; 64];
        for (i, v) in t.iter_mut().enumerate() { *v = (((i as f64) + 1.0).sin().abs() * 4294967296.0).floor() as u64 as u32; }
        t
    })
}

pub fn md5(data: &[u8]) -> [u8; 16] {
    let t = md5_t();
    const S: [u32; 16] = [7, 12, 17, 22, 5, 9, 14, 20, 4, 11, 16, 23, 6, 10, 15, 21];
    let mut h: [u32; 4] = [0x67452301, 0xefcdab89, 0x98badcfe, 0x10325476];
    let mut msg = data.to_vec();
    msg.push(0x80);
    while msg.len() % 64 != 56 { msg.push(0); }
    msg.extend_from_slice(&((data.len() as u64).wrapping_mul(8)).to_le_bytes());
    for chunk in msg.chunks(64) {
        let mut m = [0u32; 16];
        for (i, w) in m.iter_mut().enumerate() { *w = u32::from_le_bytes([chunk[4 * i], chunk[4 * i + 1], chunk[4 * i + 2], chunk[4 * i + 3]]); }
        let (mut a, mut b, mut c, mut d) = (h[0], h[1], h[2], h[3]);
        for i in 0..64usize {
            let (f, g) = match i / 16 {
                0 => ((b & c) | (!b & d), i),
                1 => ((d & b) | (!d & c), (5 * i + 1) % 16),
                2 => (b ^ c ^ d, (3 * i + 5) % 16),
                _ => (c ^ (b | !d), (7 * i) % 16),
            };
            let x = f.wrapping_add(a).wrapping_add(t[i]).wrapping_add(m[g]);
            a = d; d = c; c = b;
            b = b.wrapping_add(x.rotate_left(S[(i / 16) * 4 + i % 4]));
        }
        h[0] = h[0].wrapping_add(a); h[1] = h[1].wrapping_add(b); h[2] = h[2].wrapping_add(c); h[3] = h[3].wrapping_add(d);
    }
    let mut out = [0u8; 16];
    for i in 0..4 { out[4 * i..4 * i + 4].copy_from_slice(&h[i].to_le_bytes()); }
    out
}

// ---- SHA-2 (FIPS 180-4); constants derived: fractional parts of square / cube roots of the first primes -----------
fn bn_mul(a: &[u32], b: &[u32]) -> Vec<u32> {
    let mut r = vec![0u32; a.len() + b.len()];
    for i in 0..a.len() {
        let mut carry = 0u64;
        for j in 0..b.len() {
            let t = r[i + j] as u64 + (a[i] as u64) * (b[j] as u64) + carry;
            r[i + j] = t as u32;
            carry = t >> 32;
        }
        r[i + b.len()] = carry as u32;
    }
    r
}
fn bn_le(a: &[u32], b: &[u32]) -> bool {
    // a <= b
    let n = a.len().max(b.len());
    for i in (0..n).rev() {
        let x = a.get(i).copied().unwrap_or(0);
        let y = b.get(i).copied().unwrap_or(0);
        if x != y { return x < y; }
    }
    true
}
fn bn_from(x: u128) -> Vec<u32> { vec![x as u32, (x >> 32) as u32, (x >> 64) as u32, (x >> 96) as u32] }
/// floor((p * 2^shift)^(1/n)) for n = 2 or 3; shift a multiple of 32
fn iroot(p: u64, shift: usize, n: u32) -> u128 {
    let mut target = vec![0u32; shift / 32];
    target.push(p as u32);
    target.push((p >> 32) as u32);
    let (mut lo, mut hi) = (0u128, 1u128 << 72);
    while hi - lo > 1 {
        let mid = lo + (hi - lo) / 2;
        let m = bn_from(mid);
        let mut pw = bn_mul(&m, &m);
        if n == 3 { pw = bn_mul(&pw, &m); }
        if bn_le(&pw, &target) { lo = mid; } else { hi = mid; }
    }
    lo
}
fn first_primes(n: usize) -> Vec<u64> {
    let mut v: Vec<u64> = vec![];
    let mut c = 2u64;
    while v.len() < n {
        if v.iter().all(|p| c % p != 0) { v.push(c); }
        c += 1;
    }
    v
}
struct ShaConsts { k512: [u64; 80], h512: [u64; 8], h384: [u64; 8] }
fn sha_consts() -> &'static ShaConsts {
    static C: OnceLock<ShaConsts> = OnceLock::new();
    C.get_or_init(|| {
        let p = first_primes(80);
        let mut c = ShaConsts { k512: [0; 80], h512: [0; 8], h384: [0; 8] };
        for i in 0..80 { c.k512[i] = iroot(p[i], 192, 3) as u64; }
        for i in 0..8 { c.h512[i] = iroot(p[i], 128, 2) as u64; c.h384[i] = iroot(p[i + 8], 128, 2) as u64; }
        c
    })
}

pub fn sha256(data: &[u8]) -> [u8; 32] {
    let c = sha_consts();
    let mut h = [0u32; 8];
    for i in 0..8 { h[i] = (c.h512[i] >> 32) as u32; }
    let mut msg = data.to_vec();
    msg.push(0x80);
    while msg.len() % 64 != 56 { msg.push(0); }
    msg.extend_from_slice(&((data.len() as u64).wrapping_mul(8)).to_be_bytes());
    for chunk in msg.chunks(64) {
        let mut w = [0u32; 64];
        for i in 0..16 { w[i] = u32::from_be_bytes([chunk[4 * i], chunk[4 * i + 1], chunk[4 * i + 2], chunk[4 * i + 3]]); }
        for i in 16..64 {
            let s0 = w[i - 15].rotate_right(7) ^ w[i - 15].rotate_right(18) ^ (w[i - 15] >> 3);
            let s1 = w[i - 2].rotate_right(17) ^ w[i - 2].rotate_right(19) ^ (w[i - 2] >> 10);
            w[i] = w[i - 16].wrapping_add(s0).wrapping_add(w[i - 7]).wrapping_add(s1);
        }
        let mut v = h;
        for i in 0..64 {
            let s1 = v[4].rotate_right(6) ^ v[4].rotate_right(11) ^ v[4].rotate_right(25);
            let ch = (v[4] & v[5]) ^ (!v[4] & v[6]);
            let t1 = v[7].wrapping_add(s1).wrapping_add(ch).wrapping_add((c.k512[i] >> 32) as u32).wrapping_add(w[i]);
            let s0 = v[0].rotate_right(2) ^ v[0].rotate_right(13) ^ v[0].rotate_right(22);
            let maj = (v[0] & v[1]) ^ (v[0] & v[2]) ^ (v[1] & v[2]);
            let t2 = s0.wrapping_add(maj);
            v[7] = v[6]; v[6] = v[5]; v[5] = v[4]; v[4] = v[3].wrapping_add(t1); v[3] = v[2]; v[2] = v[1]; v[1] = v[0]; v[0] = t1.wrapping_add(t2);
        }
        for i in 0..8 { h[i] = h[i].wrapping_add(v[i]); }
    }
    let mut out = [0u8; 32];
    for i in 0..8 { out[4 * i..4 * i + 4].copy_from_slice(&h[i].to_be_bytes()); }
    out
}

fn sha512_core(data: &[u8], iv: &[u64; 8]) -> [u8; 64] {
    let c = sha_consts();
    let mut h = *iv;
    let mut msg = data.to_vec();
    msg.push(0x80);
    while msg.len() % 128 != 112 { msg.push(0); }
    msg.extend_from_slice(&((data.len() as u128).wrapping_mul(8)).to_be_bytes());
    for chunk in msg.chunks(128) {
        let mut w = [0u64; 80];
        for i in 0..16 { let mut b = [0u8; 8]; b.copy_from_slice(&chunk[8 * i..8 * i + 8]); w[i] = u64::from_be_bytes(b); }
        for i in 16..80 {
            let s0 = w[i - 15].rotate_right(1) ^ w[i - 15].rotate_right(8) ^ (w[i - 15] >> 7);
            let s1 = w[i - 2].rotate_right(19) ^ w[i - 2].rotate_right(61) ^ (w[i - 2] >> 6);
            w[i] = w[i - 16].wrapping_add(s0).wrapping_add(w[i - 7]).wrapping_add(s1);
        }
        let mut v = h;
        for i in 0..80 {
            let s1 = v[4].rotate_right(14) ^ v[4].rotate_right(18) ^ v[4].rotate_right(41);
            let ch = (v[4] & v[5]) ^ (!v[4] & v[6]);
            let t1 = v[7].wrapping_add(s1).wrapping_add(ch).wrapping_add(c.k512[i]).wrapping_add(w[i]);
            let s0 = v[0].rotate_right(28) ^ v[0].rotate_right(34) ^ v[0].rotate_right(39);
            let maj = (v[0] & v[1]) ^ (v[0] & v[2]) ^ (v[1] & v[2]);
            let t2 = s0.wrapping_add(maj);
            v[7] = v[6]; v[6] = v[5]; v[5] = v[4]; v[4] = v[3].wrapping_add(t1); v[3] = v[2]; v[2] = v[1]; v[1] = v[0]; v[0] = t1.wrapping_add(t2);
        }
        for i in 0..8 { h[i] = h[i].wrapping_add(v[i]); }
    }
    let mut out = [0u8; 64];
    for i in 0..8 { out[8 * i..8 * i + 8].copy_from_slice(&h[i].to_be_bytes()); }
    out
}
pub fn sha512(data: &[u8]) -> Vec<u8> { sha512_core(data, &sha_consts().h512).to_vec() }
pub fn sha384(data: &[u8]) -> Vec<u8> { sha512_core(data, &sha_consts().h384)[..48].to_vec() }

// ---- AES (FIPS 197) --------------------------------------------------------------------------------------------
fn gmul(mut a: u8, mut b: u8) -> u8 {
    let mut p = 0u8;
    for _ in 0..8 {
        if b & 1 != 0 { p ^= a; }
        let hi = a & 0x80;
        a <<= 1;
        if hi != 0 { a ^= 0x1b; }
        b >>= 1;
    }
    p
}
struct AesTables { sbox: [u8; 256], inv: [u8; 256], te: [[u32; 256]; 4], m9: [u8; 256], m11: [u8; 256], m13: [u8; 256], m14: [u8; 256] }
fn aes_tables() -> &'static AesTables {
    static T: OnceLock<Box<AesTables>> = OnceLock::new();
    T.get_or_init(|| {
        let mut t = Box::new(AesTables { sbox: [0; 256], inv: [0; 256], te: [[0; 256]; 4], m9: [0; 256], m11: [0; 256], m13: [0; 256], m14: [0; 256] });
        for x in 0..256usize {
            let mut inv = 0u8;
            if x != 0 { for y in 1..=255u8 { if gmul(x as u8, y) == 1 { inv = y; break; } } }
            let s = inv ^ inv.rotate_left(1) ^ inv.rotate_left(2) ^ inv.rotate_left(3) ^ inv.rotate_left(4) ^ 0x63;
            t.sbox[x] = s;
            t.inv[s as usize] = x as u8;
            let w = ((gmul(s, 2) as u32) << 24) | ((s as u32) << 16) | ((s as u32) << 8) | (gmul(s, 3) as u32);
            t.te[0][x] = w; t.te[1][x] = w.rotate_right(8); t.te[2][x] = w.rotate_right(16); t.te[3][x] = w.rotate_right(24);
            t.m9[x] = gmul(x as u8, 9); t.m11[x] = gmul(x as u8, 11); t.m13[x] = gmul(x as u8, 13); t.m14[x] = gmul(x as u8, 14);
        }
        t
    })
}
pub struct Aes { rk: Vec<u32>, nr: usize }
impl Aes {
    pub fn new(key: &[u8]) -> Aes {
        assert!(key.len() == 16 || key.len() == 32, "reference AES: key of {} bytes", key.len());
        let t = aes_tables();
        let nk = key.len() / 4;
        let nr = nk + 6;
        let sub = |w: u32| -> u32 { let b = w.to_be_bytes(); u32::from_be_bytes([t.sbox[b[0] as usize], t.sbox[b[1] as usize], t.sbox[b[2] as usize], t.sbox[b[3] as usize]]) };
        let mut rk = vec![0u32; 4 * (nr + 1)];
        for i in 0..nk { rk[i] = u32::from_be_bytes([key[4 * i], key[4 * i + 1], key[4 * i + 2], key[4 * i + 3]]); }
        let mut rc = 1u8;
        for i in nk..4 * (nr + 1) {
            let mut tmp = rk[i - 1];
            if i % nk == 0 { tmp = sub(tmp.rotate_left(8)) ^ ((rc as u32) << 24); rc = gmul(rc, 2); }
            else if nk > 6 && i % nk == 4 { tmp = sub(tmp); }
            rk[i] = rk[i - nk] ^ tmp;
        }
        Aes { rk, nr }
    }
    pub fn enc_block(&self, b: &mut [u8]) {
        let t = aes_tables();
        let rk = &self.rk;
        let ld = |b: &[u8], i: usize| u32::from_be_bytes([b[4 * i], b[4 * i + 1], b[4 * i + 2], b[4 * i + 3]]);
        let mut s = [ld(b, 0) ^ rk[0], ld(b, 1) ^ rk[1], ld(b, 2) ^ rk[2], ld(b, 3) ^ rk[3]];
        for r in 1..self.nr {
            let mut n = [0u32; 4];
            for c in 0..4 {
                n[c] = t.te[0][(s[c] >> 24) as usize] ^ t.te[1][((s[(c + 1) % 4] >> 16) & 255) as usize] ^ t.te[2][((s[(c + 2) % 4] >> 8) & 255) as usize] ^ t.te[3][(s[(c + 3) % 4] & 255) as usize] ^ rk[4 * r + c];
            }
            s = n;
        }
        for c in 0..4 {
            let w = ((t.sbox[(s[c] >> 24) as usize] as u32) << 24) | ((t.sbox[((s[(c + 1) % 4] >> 16) & 255) as usize] as u32) << 16)
                | ((t.sbox[((s[(c + 2) % 4] >> 8) & 255) as usize] as u32) << 8) | (t.sbox[(s[(c + 3) % 4] & 255) as usize] as u32);
            b[4 * c..4 * c + 4].copy_from_slice(&(w ^ rk[4 * self.nr + c]).to_be_bytes());
        }
    }
    /// the straightforward inverse cipher of FIPS 197 5.3 on a byte state (index = 4 * column + row)
    pub fn dec_block(&self, b: &mut [u8]) {
        let t = aes_tables();
        let mut s = [0u8; 16];
        s.copy_from_slice(&b[..16]);
        let ark = |s: &mut [u8; 16], r: usize| { for c in 0..4 { let w = self.rk[4 * r + c].to_be_bytes(); for i in 0..4 { s[4 * c + i] ^= w[i]; } } };
        let isr_isb = |s: &mut [u8; 16]| {
            let o = *s;
            for c in 0..4 { for i in 0..4 { s[4 * c + i] = t.inv[o[4 * ((c + 4 - i) % 4) + i] as usize]; } }
        };
        ark(&mut s, self.nr);
        for r in (1..self.nr).rev() {
            isr_isb(&mut s);
            ark(&mut s, r);
            for c in 0..4 {
                let a = [s[4 * c] as usize, s[4 * c + 1] as usize, s[4 * c + 2] as usize, s[4 * c + 3] as usize];
                s[4 * c] = t.m14[a[0]] ^ t.m11[a[1]] ^ t.m13[a[2]] ^ t.m9[a[3]];
                s[4 * c + 1] = t.m9[a[0]] ^ t.m14[a[1]] ^ t.m11[a[2]] ^ t.m13[a[3]];
                s[4 * c + 2] = t.m13[a[0]] ^ t.m9[a[1]] ^ t.m14[a[2]] ^ t.m11[a[3]];
                s[4 * c + 3] = t.m11[a[0]] ^ t.m13[a[1]] ^ t.m9[a[2]] ^ t.m14[a[3]];
            }
        }
        isr_isb(&mut s);
        ark(&mut s, 0);
        b[..16].copy_from_slice(&s);
    }
}
/// CBC without padding; `data.len()` must be a multiple of 16
pub fn aes_cbc_enc(key: &[u8], iv: &[u8], data: &[u8]) -> Vec<u8> {
    assert!(data.len() % 16 == 0 && iv.len() == 16);
    let a = Aes::new(key);
    let mut prev = [0u8; 16];
    prev.copy_from_slice(iv);
    let mut out = data.to_vec();
    for blk in out.chunks_mut(16) {
        for i in 0..16 { blk[i] ^= prev[i]; }
        a.enc_block(blk);
        prev.copy_from_slice(blk);
    }
    out
}
pub fn aes_cbc_dec(key: &[u8], iv: &[u8], data: &[u8]) -> Vec<u8> {
    assert!(data.len() % 16 == 0 && iv.len() == 16);
    let a = Aes::new(key);
    let mut prev = [0u8; 16];
    prev.copy_from_slice(iv);
    let mut out = data.to_vec();
    for blk in out.chunks_mut(16) {
        let mut c = [0u8; 16];
        c.copy_from_slice(blk);
        a.dec_block(blk);
        for i in 0..16 { blk[i] ^= prev[i]; }
        prev = c;
    }
    out
}
pub fn aes_ecb_enc(key: &[u8], block: &[u8]) -> Vec<u8> { let mut b = block.to_vec(); Aes::new(key).enc_block(&mut b); b }
pub fn aes_ecb_dec(key: &[u8], block: &[u8]) -> Vec<u8> { let mut b = block.to_vec(); Aes::new(key).dec_block(&mut b); b }

// ---- RC4 -------------------------------------------------------------------------------------------------------
pub fn rc4(key: &[u8], data: &[u8]) -> Vec<u8> {
    assert!(!key.is_empty());
    let mut s = [0u8; 256];
    for i in 0..256 { s[i] = i as u8; }
    let mut j = 0usize;
    for i in 0..256 {
        j = (j + s[i] as usize + key[i % key.len()] as usize) % 256;
        s.swap(i, j);
    }
    let (mut i, mut j) = (0usize, 0usize);
    let mut out = Vec::with_capacity(data.len());
    for &b in data {
        i = (i + 1) % 256;
        j = (j + s[i] as usize) % 256;
        s.swap(i, j);
        out.push(b ^ s[(s[i] as usize + s[j] as usize) % 256]);
    }
    out
}

// ---- known-answer self-test --------------------------------------------------------------------------------------
fn self_test() -> Result<(), String> {
    let ck = |name: &str, got: &[u8], want: &str| -> Result<(), String> { if hex(got) == want.to_lowercase() { Ok(()) } else { Err(format!("{}: got {}, published answer {}", name, hex(got), want)) } };
    // RFC 1321 A.5
    for (m, d) in [("", "d41d8cd98f00b204e9800998ecf8427e"), ("a", "0cc175b9c0f1b6a831c399e269772661"), ("abc", "900150983cd24fb0d6963f7d28e17f72"),
                   ("message digest", "f96b697d7cb7938d525a2f31aaf161d0"), ("abcdefghijklmnopqrstuvwxyz", "c3fcd3d76192e4007dfb496cca67e13b"),
                   ("ABCDEFGHIJKLMNOPQRSTUVWXYZabcdefghijklmnopqrstuvwxyz0123456789", "d174ab98d277d9f5a5611c2c9f419d9f"),
                   ("12345678901234567890123456789012345678901234567890123456789012345678901234567890", "57edf4a22be3c955ac49da2e2107b67a")] {
        ck(&format!("MD5({:?})", m), &md5(m.as_bytes()), d)?;
    }
    // FIPS 180 examples
    let m448 = "abcdbcdecdefdefgefghfghighijhijkijkljklmklmnlmnomnopnopq";
    let m896 = "abcdefghbcdefghicdefghijdefghijkefghijklfghijklmghijklmnhijklmnoijklmnopjklmnopqklmnopqrlmnopqrsmnopqrstnopqrstu";
    ck("SHA-256(abc)", &sha256(b"abc"), "ba7816bf8f01cfea414140de5dae2223b00361a396177a9cb410ff61f20015ad")?;
    ck("SHA-256()", &sha256(b""), "e3b0c44298fc1c149afbf4c8996fb92427ae41e4649b934ca495991b7852b855")?;
    ck("SHA-256(448 bits)", &sha256(m448.as_bytes()), "248d6a61d20638b8e5c026930c3e6039a33ce45964ff2167f6ecedd419db06c1")?;
    ck("SHA-512(abc)", &sha512(b"abc"), "ddaf35a193617abacc417349ae20413112e6fa4e89a97ea20a9eeee64b55d39a2192992a274fc1a836ba3c23a3feebbd454d4423643ce80e2a9ac94fa54ca49f")?;
    ck("SHA-512(896 bits)", &sha512(m896.as_bytes()), "8e959b75dae313da8cf4f72814fc143f8f7779c6eb9f7fa17299aeadb6889018501d289e4900f7e4331b99dec4b5433ac7d329eeb6dd26545e96e55b874be909")?;
    ck("SHA-384(abc)", &sha384(b"abc"), "cb00753f45a35e8bb5a03d699ac65007272c32ab0eded1631a8b605a43ff5bed8086072ba1e7cc2358baeca134c825a7")?;
    ck("SHA-384(896 bits)", &sha384(m896.as_bytes()), "09330c33f71147e83d192fc782cd1b4753111b173b3b05d22fa08086e3b0f712fcc7c71a557e2db966c3e9fa91746039")?;
    // FIPS 197 appendix B, C.1, C.3
    let pt = unhex("00112233445566778899aabbccddeeff");
    let k128 = unhex("000102030405060708090a0b0c0d0e0f");
    let k256 = unhex("000102030405060708090a0b0c0d0e0f101112131415161718191a1b1c1d1e1f");
    ck("AES-128 C.1 encrypt", &aes_ecb_enc(&k128, &pt), "69c4e0d86a7b0430d8cdb78070b4c55a")?;
    ck("AES-128 C.1 decrypt", &aes_ecb_dec(&k128, &unhex("69c4e0d86a7b0430d8cdb78070b4c55a")), "00112233445566778899aabbccddeeff")?;
    ck("AES-256 C.3 encrypt", &aes_ecb_enc(&k256, &pt), "8ea2b7ca516745bfeafc49904b496089")?;
    ck("AES-256 C.3 decrypt", &aes_ecb_dec(&k256, &unhex("8ea2b7ca516745bfeafc49904b496089")), "00112233445566778899aabbccddeeff")?;
    ck("AES-128 appendix B", &aes_ecb_enc(&unhex("2b7e151628aed2a6abf7158809cf4f3c"), &unhex("3243f6a8885a308d313198a2e0370734")), "3925841d02dc09fbdc118597196a0b32")?;
    // NIST SP 800-38A F.2.1 / F.2.5 (CBC), F.1.5 (ECB-AES256)
    let iv = unhex("000102030405060708090a0b0c0d0e0f");
    let p2 = unhex("6bc1bee22e409f96e93d7e117393172aae2d8a571e03ac9c9eb76fac45af8e51");
    let kc128 = unhex("2b7e151628aed2a6abf7158809cf4f3c");
    let kc256 = unhex("603deb1015ca71be2b73aef0857d77811f352c073b6108d72d9810a30914dff4");
    ck("CBC-AES128 F.2.1", &aes_cbc_enc(&kc128, &iv, &p2), "7649abac8119b246cee98e9b12e9197d5086cb9b507219ee95db113a917678b2")?;
    ck("CBC-AES128 F.2.2", &aes_cbc_dec(&kc128, &iv, &unhex("7649abac8119b246cee98e9b12e9197d5086cb9b507219ee95db113a917678b2")), &hex(&p2))?;
    ck("CBC-AES256 F.2.5", &aes_cbc_enc(&kc256, &iv, &p2), "f58c4c04d6e5f1ba779eabfb5f7bfbd69cfc4e967edb808d679f777bc6702c7d")?;
    ck("CBC-AES256 F.2.6", &aes_cbc_dec(&kc256, &iv, &unhex("f58c4c04d6e5f1ba779eabfb5f7bfbd69cfc4e967edb808d679f777bc6702c7d")), &hex(&p2))?;
    ck("ECB-AES256 F.1.5", &aes_ecb_enc(&kc256, &p2[..16]), "f3eed1bdb5d2a03c064b5a7e3db181f8")?;
    // RC4 (the vectors everybody quotes)
    ck("RC4 Key/Plaintext", &rc4(b"Key", b"Plaintext"), "BBF316E8D940AF0AD3")?;
    ck("RC4 Wiki/pedia", &rc4(b"Wiki", b"pedia"), "1021BF0420")?;
    ck("RC4 Secret/Attack at dawn", &rc4(b"Secret", b"Attack at dawn"), "45A01F645FC35B383552544B9BF5")?;
    // spot values of derived constants
    if md5_t()[0] != 0xd76aa478 || md5_t()[63] != 0xeb86d391 { return Err("MD5 sine table".into()); }
    if sha_consts().k512[0] != 0x428a2f98d728ae22 || sha_consts().h512[0] != 0x6a09e667f3bcc908 || sha_consts().h384[0] != 0xcbbb9d5dc1059ed8 { return Err("SHA-2 derived constants".into()); }
    if aes_tables().sbox[0] != 0x63 || aes_tables().sbox[0x53] != 0xed { return Err("AES S-box".into()); }
    Ok(())
}

// ===============================================================================================================
// 2. the reference standard security handler (ISO 32000-1 7.6.3 / 7.6.2, ISO 32000-2 7.6.4 / 7.6.3)
// ===============================================================================================================

/// deliberate defects of the REFERENCE, switched on by C06_PERTURB (sensitivity demonstration only)
fn perturb() -> &'static str {
    static P: OnceLock<String> = OnceLock::new();
    P.get_or_init(|| std::env::var("C06_PERTURB").unwrap_or_default()).as_str()
}
fn pt(name: &str) -> bool { perturb() == name }

/// ISO 32000-1 7.6.3.3, Algorithm 2 step (a)
const PAD: [u8; 32] = [0x28, 0xBF, 0x4E, 0x5E, 0x4E, 0x75, 0x8A, 0x41, 0x64, 0x00, 0x4E, 0x56, 0xFF, 0xFA, 0x01, 0x08,
                       0x2E, 0x2E, 0x00, 0xB6, 0xD0, 0x68, 0x3E, 0x80, 0x2F, 0x0C, 0xA9, 0xFE, 0x64, 0x53, 0x69, 0x7A];

fn pad32(pw: &[u8]) -> [u8; 32] {
    let n = pw.len().min(32);
    let mut out = [0u8; 32];
    out[..n].copy_from_slice(&pw[..n]);
    out[n..].copy_from_slice(&PAD[..32 - n]);
    out
}

/// PDFDocEncoding (ISO 32000-1 annex D.2) of the characters the password family uses; None = not representable
fn pdfdoc_byte(c: char) -> Option<u8> {
    let u = c as u32;
    match u {
        0x20..=0x7E => Some(u as u8),
        0xAD => None,
        0xA1..=0xFF => Some(u as u8),
        0x02D8 => Some(0x18), 0x02C7 => Some(0x19), 0x02C6 => Some(0x1A), 0x02D9 => Some(0x1B), 0x02DD => Some(0x1C), 0x02DB => Some(0x1D), 0x02DA => Some(0x1E), 0x02DC => Some(0x1F),
        0x2022 => Some(0x80), 0x2020 => Some(0x81), 0x2021 => Some(0x82), 0x2026 => Some(0x83), 0x2014 => Some(0x84), 0x2013 => Some(0x85), 0x0192 => Some(0x86), 0x2044 => Some(0x87),
        0x2039 => Some(0x88), 0x203A => Some(0x89), 0x2212 => Some(0x8A), 0x2030 => Some(0x8B), 0x201E => Some(0x8C), 0x201C => Some(0x8D), 0x201D => Some(0x8E), 0x2018 => Some(0x8F),
        0x2019 => Some(0x90), 0x201A => Some(0x91), 0x2122 => Some(0x92), 0xFB01 => Some(0x93), 0xFB02 => Some(0x94), 0x0141 => Some(0x95), 0x0152 => Some(0x96), 0x0160 => Some(0x97),
        0x0178 => Some(0x98), 0x017D => Some(0x99), 0x0131 => Some(0x9A), 0x0142 => Some(0x9B), 0x0153 => Some(0x9C), 0x0161 => Some(0x9D), 0x017E => Some(0x9E), 0x20AC => Some(0xA0),
        _ => None,
    }
}
/// password preparation: PDFDocEncoding for revisions 2-4; UTF-8 (the family holds only strings SASLprep leaves alone) cut to 127 bytes for 5-6
fn prep_password(r: u8, s: &str) -> Option<Vec<u8>> {
    if r <= 4 { s.chars().map(pdfdoc_byte).collect() } else { let b = s.as_bytes(); Some(b[..b.len().min(127)].to_vec()) }
}

/// Algorithm 2: file encryption key, revisions 2-4; `n` = key length in bytes
fn alg2(r: u8, n: usize, pw: &[u8], o: &[u8], p: i32, id0: &[u8], em: bool) -> Vec<u8> {
    let mut m = pad32(pw).to_vec();                                   // (a), (b)
    m.extend_from_slice(o);                                           // (c)
    if pt("p-be") { m.extend_from_slice(&(p as u32).to_be_bytes()); } else { m.extend_from_slice(&(p as u32).to_le_bytes()); } // (d) low-order byte first
    m.extend_from_slice(id0);                                         // (e)
    if r >= 4 && !em { m.extend_from_slice(&[0xff; 4]); }             // (f)
    let mut h = md5(&m);                                              // (g)
    if r >= 3 {                                                       // (h) 50 times, the first n bytes
        let rounds = if pt("md5-49") { 49 } else { 50 };
        for _ in 0..rounds { h = if pt("r3-hash16") { md5(&h) } else { md5(&h[..n]) }; }
    }
    h[..n].to_vec()                                                   // (i)
}
/// Algorithm 3 steps (a)-(d): RC4 key from the owner password
fn alg3_key(r: u8, n: usize, owner: &[u8]) -> Vec<u8> {
    let mut h = md5(&pad32(owner));
    if r >= 3 { for _ in 0..50 { h = md5(&h); } }
    h[..n].to_vec()
}
fn xor_key(k: &[u8], i: u8) -> Vec<u8> { k.iter().map(|b| b ^ i).collect() }
/// Algorithm 3: O value. `owner` is the owner password or, if there is none, the user password (step (a))
fn alg3(r: u8, n: usize, owner: &[u8], user: &[u8]) -> Vec<u8> {
    let k = alg3_key(r, n, owner);
    let mut x = rc4(&k, &pad32(user));                                // (e), (f)
    if r >= 3 { let last = if pt("alg3-18") { 18 } else { 19 }; for i in 1..=last { x = rc4(&xor_key(&k, i), &x); } } // (g)
    x
}
/// Algorithm 4: U value, revision 2
fn alg4(key: &[u8]) -> Vec<u8> { rc4(key, &PAD) }
/// Algorithm 5: first 16 bytes of the U value, revisions 3 and 4
fn alg5(key: &[u8], id0: &[u8]) -> Vec<u8> {
    let mut m = PAD.to_vec();
    m.extend_from_slice(id0);
    let mut x = rc4(key, &md5(&m));
    for i in 1..=19u8 { x = rc4(&xor_key(key, i), &x); }
    x
}
/// Algorithm 6: authenticate the user password; the file key if it is accepted
fn alg6(r: u8, n: usize, pw: &[u8], o: &[u8], u: &[u8], p: i32, id0: &[u8], em: bool) -> Option<Vec<u8>> {
    let key = alg2(r, n, pw, o, p, id0, em);
    let ok = if r == 2 { u.len() == 32 && alg4(&key) == u } else { u.len() >= 16 && alg5(&key, id0)[..] == u[..16] };
    if ok { Some(key) } else { None }
}
/// Algorithm 7: authenticate the owner password (decrypt O to the padded user password, then Algorithm 6)
fn alg7(r: u8, n: usize, pw: &[u8], o: &[u8], u: &[u8], p: i32, id0: &[u8], em: bool) -> Option<Vec<u8>> {
    let k = alg3_key(r, n, pw);
    let mut x = o.to_vec();
    if r == 2 { x = rc4(&k, &x); } else { for i in (0..=19u8).rev() { x = rc4(&xor_key(&k, i), &x); } }
    alg6(r, n, &x, o, u, p, id0, em)
}

/// Algorithm 2.B (revision 6; revision 5 is the plain SHA-256 of the input)
fn alg2b(r: u8, pw: &[u8], salt: &[u8], udata: &[u8]) -> Vec<u8> {
    let mut input = pw.to_vec();
    input.extend_from_slice(salt);
    input.extend_from_slice(udata);
    let mut k = sha256(&input).to_vec();
    if r == 5 { return k; }
    let min_rounds = if pt("2b-63") { 63 } else { 64 };
    let mut round = 0usize;
    loop {
        let mut k0 = pw.to_vec();                                     // (a)
        k0.extend_from_slice(&k);
        k0.extend_from_slice(udata);
        let mut k1 = Vec::with_capacity(k0.len() * 64);
        for _ in 0..64 { k1.extend_from_slice(&k0); }
        let e = aes_cbc_enc(&k[..16], &k[16..32], &k1);               // (b)
        let mut rem = 0u32;                                           // (c) first 16 bytes as a big-endian integer, modulo 3
        for &b in &e[..16] { rem = (rem * 256 + b as u32) % 3; }
        k = match rem { 0 => sha256(&e).to_vec(), 1 => sha384(&e), _ => sha512(&e) }; // (d)
        round += 1;                                                   // `round` rounds done; the last one had round number round - 1
        if round >= min_rounds && (*e.last().unwrap() as usize) + 32 <= round { break; } // (e), (f)
    }
    k[..32].to_vec()
}
/// Algorithm 8: (U, UE)
fn alg8(r: u8, pw: &[u8], fkey: &[u8], vsalt: &[u8], ksalt: &[u8]) -> (Vec<u8>, Vec<u8>) {
    let mut u = alg2b(r, pw, vsalt, &[]);
    u.extend_from_slice(vsalt);
    u.extend_from_slice(ksalt);
    let ue = aes_cbc_enc(&alg2b(r, pw, ksalt, &[]), &[0u8; 16], fkey);
    (u, ue)
}
/// Algorithm 9: (O, OE)
fn alg9(r: u8, pw: &[u8], fkey: &[u8], vsalt: &[u8], ksalt: &[u8], u48: &[u8]) -> (Vec<u8>, Vec<u8>) {
    let mut o = alg2b(r, pw, vsalt, u48);
    o.extend_from_slice(vsalt);
    o.extend_from_slice(ksalt);
    let oe = aes_cbc_enc(&alg2b(r, pw, ksalt, u48), &[0u8; 16], fkey);
    (o, oe)
}
/// Algorithm 10: Perms
fn alg10(p: i32, em: bool, fkey: &[u8], rnd4: &[u8]) -> Vec<u8> {
    let mut b = if pt("perms-be") { (p as u32).to_be_bytes().to_vec() } else { (p as u32).to_le_bytes().to_vec() };
    b.extend_from_slice(&[0xff; 4]);
    b.push(if em { b'T' } else { b'F' });
    b.extend_from_slice(b"adb");
    b.extend_from_slice(&rnd4[..4]);
    aes_ecb_enc(fkey, &b)
}
/// Algorithm 2.A with 11 / 12: (file key, "owner" | "user") if `pw` is accepted
fn alg2a(r: u8, pw: &[u8], o: &[u8], u: &[u8], oe: &[u8], ue: &[u8]) -> Option<(Vec<u8>, &'static str)> {
    if o.len() < 48 || u.len() < 48 || oe.len() != 32 || ue.len() != 32 { return None; }
    let pw = &pw[..pw.len().min(127)];
    if alg2b(r, pw, &o[32..40], &u[..48])[..] == o[..32] {
        return Some((aes_cbc_dec(&alg2b(r, pw, &o[40..48], &u[..48]), &[0u8; 16], oe), "owner"));
    }
    if alg2b(r, pw, &u[32..40], &[])[..] == u[..32] {
        return Some((aes_cbc_dec(&alg2b(r, pw, &u[40..48], &[]), &[0u8; 16], ue), "user"));
    }
    None
}
/// Algorithm 13: the decrypted Perms block must carry P, "adb" and the EncryptMetadata flag
fn alg13(fkey: &[u8], perms: &[u8], p: i32, em: bool) -> Result<(), String> {
    if perms.len() != 16 { return Err(format!("Perms has {} bytes", perms.len())); }
    let b = aes_ecb_dec(fkey, perms);
    if &b[9..12] != b"adb" { return Err(format!("bytes 9-11 of the decrypted Perms are {} instead of 'adb' (decrypted block {})", hex(&b[9..12]), hex(&b))); }
    if b[..4] != (p as u32).to_le_bytes() { return Err(format!("bytes 0-3 of the decrypted Perms are {} but P = {} is {} low-order byte first", hex(&b[..4]), p, hex(&(p as u32).to_le_bytes()))); }
    if b[4..8] != [0xff; 4] { return Err(format!("bytes 4-7 of the decrypted Perms are {} instead of ffffffff (Algorithm 10 step (b))", hex(&b[4..8]))); }
    let want = if em { b'T' } else { b'F' };
    if b[8] != want { return Err(format!("byte 8 of the decrypted Perms is {:?}, EncryptMetadata {} needs {:?}", b[8] as char, em, want as char)); }
    Ok(())
}

#[derive(Clone, Copy, Debug, PartialEq)]
pub enum Ciph { Rc4, AesV2, AesV3, Identity }
impl Ciph {
    fn s(&self) -> &'static str { match self { Ciph::Rc4 => "RC4", Ciph::AesV2 => "AESV2", Ciph::AesV3 => "AESV3", Ciph::Identity => "Identity" } }
    fn parse(s: &str) -> Ciph { match s { "AESV2" => Ciph::AesV2, "AESV3" => Ciph::AesV3, "Identity" => Ciph::Identity, _ => Ciph::Rc4 } }
}

/// Algorithm 1 (RC4, AESV2) and 1.A (AESV3): the key for one indirect object
fn alg1(fkey: &[u8], id: (u32, u16), c: Ciph) -> Vec<u8> {
    if c == Ciph::AesV3 { return fkey.to_vec(); }
    let mut m = fkey.to_vec();
    m.extend_from_slice(&id.0.to_le_bytes()[..3]);                    // low-order 3 bytes of the object number, low-order byte first
    if pt("gen-be") { m.extend_from_slice(&id.1.to_be_bytes()); } else { m.extend_from_slice(&id.1.to_le_bytes()); } // low-order 2 bytes of the generation
    if c == Ciph::AesV2 && !pt("no-salt") { m.extend_from_slice(b"sAlT"); }
    md5(&m)[..(fkey.len() + 5).min(16)].to_vec()
}

fn ref_encrypt_bytes(fkey: &[u8], id: (u32, u16), c: Ciph, data: &[u8], iv: &[u8]) -> Vec<u8> {
    match c {
        Ciph::Identity => data.to_vec(),
        Ciph::Rc4 => rc4(&alg1(fkey, id, c), data),
        Ciph::AesV2 | Ciph::AesV3 => {
            let padn = 16 - data.len() % 16;                          // PKCS#5: always 1..16 bytes
            let mut p = data.to_vec();
            p.extend(std::iter::repeat(padn as u8).take(padn));
            let mut out = iv.to_vec();
            out.extend_from_slice(&aes_cbc_enc(&alg1(fkey, id, c), iv, &p));
            out
        }
    }
}
fn ref_decrypt_bytes(fkey: &[u8], id: (u32, u16), c: Ciph, data: &[u8]) -> Result<Vec<u8>, String> {
    match c {
        Ciph::Identity => Ok(data.to_vec()),
        Ciph::Rc4 => Ok(rc4(&alg1(fkey, id, c), data)),
        Ciph::AesV2 | Ciph::AesV3 => {
            if data.len() < 32 || data.len() % 16 != 0 { return Err(format!("AES data of {} bytes is not a 16-byte IV plus a positive number of 16-byte blocks", data.len())); }
            let p = aes_cbc_dec(&alg1(fkey, id, c), &data[..16], &data[16..]);
            let n = *p.last().unwrap() as usize;
            if n == 0 || n > 16 || p[p.len() - n..].iter().any(|&b| b as usize != n) { return Err(format!("bad PKCS#5 padding: last block decrypts to {}", hex(&p[p.len() - 16..]))); }
            Ok(p[..p.len() - n].to_vec())
        }
    }
}

fn is_type(d: &Dictionary, t: &[u8]) -> bool { matches!(d.get(b"Type"), Ok(Object::Name(n)) if n.as_slice() == t) }

/// which strings and streams a document's security handler touches, and with what
struct RefCrypt<'a> { fkey: &'a [u8], stm: Ciph, strf: Ciph, em: bool, named: &'a BTreeMap<Vec<u8>, Ciph> }

impl<'a> RefCrypt<'a> {
    /// the cipher for the content of a stream: XRef streams are handled by the caller; the Metadata stream is exempt iff
    /// EncryptMetadata is false; a /Crypt filter with DecodeParms /Name overrides StmF (default /Identity)
    fn stream_cipher(&self, s: &Stream) -> Ciph {
        if is_type(&s.dict, b"Metadata") && !self.em { return Ciph::Identity; }
        let first_is_crypt = match s.dict.get(b"Filter") {
            Ok(Object::Name(n)) => n.as_slice() == b"Crypt",
            Ok(Object::Array(a)) => matches!(a.first(), Some(Object::Name(n)) if n.as_slice() == b"Crypt"),
            _ => false,
        };
        if first_is_crypt {
            let name = match s.dict.get(b"DecodeParms") { Ok(Object::Dictionary(p)) => match p.get(b"Name") { Ok(Object::Name(n)) => n.clone(), _ => b"Identity".to_vec() }, _ => b"Identity".to_vec() };
            return if name == b"Identity" { Ciph::Identity } else { self.named.get(&name).copied().unwrap_or(Ciph::Identity) };
        }
        self.stm
    }
    fn encrypt(&self, id: (u32, u16), o: &Object, rng: &mut Rng) -> Object {
        match o {
            Object::String(b, f) => Object::String(ref_encrypt_bytes(self.fkey, id, self.strf, b, &rng.bytes(16)), *f),
            Object::Array(a) => Object::Array(a.iter().map(|x| self.encrypt(id, x, rng)).collect()),
            Object::Dictionary(d) => { let mut n = Dictionary::new(); for (k, v) in d.iter() { n.set(k.clone(), self.encrypt(id, v, rng)); } Object::Dictionary(n) }
            Object::Stream(s) => {
                if is_type(&s.dict, b"XRef") { return o.clone(); }
                let mut n = Dictionary::new();
                for (k, v) in s.dict.iter() { n.set(k.clone(), self.encrypt(id, v, rng)); }
                let content = ref_encrypt_bytes(self.fkey, id, self.stream_cipher(s), &s.content, &rng.bytes(16));
                Object::Stream(Stream::new(n, content))
            }
            other => other.clone(),
        }
    }
    /// decrypt `o`; problems (bad padding ...) are appended to `errs` with their path
    fn decrypt(&self, id: (u32, u16), o: &Object, path: &str, errs: &mut Vec<String>) -> Object {
        match o {
            Object::String(b, f) => match ref_decrypt_bytes(self.fkey, id, self.strf, b) {
                Ok(p) => Object::String(p, *f),
                Err(e) => { errs.push(format!("string at {} ({}): {}", path, self.strf.s(), e)); o.clone() }
            },
            Object::Array(a) => Object::Array(a.iter().enumerate().map(|(i, x)| self.decrypt(id, x, &format!("{}[{}]", path, i), errs)).collect()),
            Object::Dictionary(d) => { let mut n = Dictionary::new(); for (k, v) in d.iter() { n.set(k.clone(), self.decrypt(id, v, &format!("{}/{}", path, String::from_utf8_lossy(k)), errs)); } Object::Dictionary(n) }
            Object::Stream(s) => {
                if is_type(&s.dict, b"XRef") { return o.clone(); }
                let mut n = Dictionary::new();
                for (k, v) in s.dict.iter() { n.set(k.clone(), self.decrypt(id, v, &format!("{}/{}", path, String::from_utf8_lossy(k)), errs)); }
                let c = self.stream_cipher(s);
                let content = match ref_decrypt_bytes(self.fkey, id, c, &s.content) {
                    Ok(p) => p,
                    Err(e) => { errs.push(format!("stream at {} ({}): {}", path, c.s(), e)); s.content.clone() }
                };
                Object::Stream(Stream::new(n, content))
            }
            other => other.clone(),
        }
    }
}

/// the conforming permission word (ISO 32000-1 table 22 / 32000-2 table 22): bits 1-2 zero, 7-8 one, 13-32 one, as a signed 32-bit integer
fn conforming_p(access_bits: u32) -> i32 { (0xFFFF_F0C0u32 | (access_bits & 0x0F3C)) as i32 }

// ---- deterministic pseudo-random bytes (file identifier, salts, IVs, U padding) ---------------------------------------
pub struct Rng(u64);
impl Rng {
    fn new(seed: u64) -> Rng { Rng(seed.wrapping_mul(0x9E37_79B9_7F4A_7C15) ^ 0xD1B5_4A32_D192_ED03) }
    fn next(&mut self) -> u64 {
        self.0 = self.0.wrapping_add(0x9E37_79B9_7F4A_7C15);
        let mut z = self.0;
        z = (z ^ (z >> 30)).wrapping_mul(0xBF58_476D_1CE4_E5B9);
        z = (z ^ (z >> 27)).wrapping_mul(0x94D0_49BB_1331_11EB);
        z ^ (z >> 31)
    }
    fn bytes(&mut self, n: usize) -> Vec<u8> { (0..n).map(|_| (self.next() >> 24) as u8).collect() }
}

// ===============================================================================================================
// 3. the case space
// ===============================================================================================================

/// How a producer writes a crypt filter dictionary (ISO 32000-1 / -2 table 25).  Only CFM carries information the standard security
/// handler needs; Type ("(Optional) If present, shall be CryptFilter"), AuthEvent ("(Optional) ... Default value: DocOpen") and Length
/// ("(Optional)"; the table says bits, the standard security handler of Acrobat writes bytes, both occur) may or may not be there.
/// None of them enters any key or ciphertext, so every shape is the SAME encrypted document as far as Algorithms 1-13 go.
#[derive(Clone, Copy, Debug, PartialEq)]
struct CfShape { ty: bool, auth_event: bool, length: CfLength }
#[derive(Clone, Copy, Debug, PartialEq)]
enum CfLength { Bytes, Bits, Absent }
impl CfShape {
    /// what the module has always written: all three entries, Length in bytes
    const BASE: CfShape = CfShape { ty: true, auth_event: true, length: CfLength::Bytes };
    /// all 2 x 2 x 3 shapes, BASE first
    fn all() -> Vec<CfShape> {
        let mut v = vec![];
        for ty in [true, false] { for auth_event in [true, false] { for length in [CfLength::Bytes, CfLength::Bits, CfLength::Absent] { v.push(CfShape { ty, auth_event, length }); } } }
        assert!(v[0] == CfShape::BASE && v.len() == 12);
        v
    }
    fn is_base(&self) -> bool { *self == CfShape::BASE }
    /// "base", or the deviations from BASE joined by '-': notype, noauthevent, nolength | lengthbits
    fn s(&self) -> String {
        let mut p: Vec<&str> = vec![];
        if !self.ty { p.push("notype"); }
        if !self.auth_event { p.push("noauthevent"); }
        match self.length { CfLength::Bytes => {}, CfLength::Bits => p.push("lengthbits"), CfLength::Absent => p.push("nolength") }
        if p.is_empty() { "base".into() } else { p.join("-") }
    }
    fn parse(s: &str) -> CfShape {
        let has = |w: &str| s.split('-').any(|x| x == w);
        CfShape { ty: !has("notype"), auth_event: !has("noauthevent"), length: if has("nolength") { CfLength::Absent } else if has("lengthbits") { CfLength::Bits } else { CfLength::Bytes } }
    }
    /// the crypt filter dictionary for cipher `x` in this shape
    fn dict(&self, x: Ciph) -> Dictionary {
        let mut e: Vec<(&[u8], Object)> = vec![];
        if self.ty { e.push((b"Type", nm(b"CryptFilter"))); }
        e.push((b"CFM", nm(cfm_name(x))));
        if self.auth_event { e.push((b"AuthEvent", nm(b"DocOpen"))); }
        let bytes: i64 = if x == Ciph::AesV3 { 32 } else { 16 };
        match self.length { CfLength::Bytes => e.push((b"Length", Object::Integer(bytes))), CfLength::Bits => e.push((b"Length", Object::Integer(bytes * 8))), CfLength::Absent => {} }
        dct(e)
    }
}

#[derive(Clone, Copy, Debug, PartialEq)]
enum Variant { Base, LengthToggled, DirectDict, IdentityInCf }
impl Variant {
    fn s(&self) -> &'static str { match self { Variant::Base => "base", Variant::LengthToggled => "length-toggled", Variant::DirectDict => "direct-dict", Variant::IdentityInCf => "identity-in-cf" } }
    fn parse(s: &str) -> Variant { match s { "length-toggled" => Variant::LengthToggled, "direct-dict" => Variant::DirectDict, "identity-in-cf" => Variant::IdentityInCf, _ => Variant::Base } }
}

#[derive(Clone, Debug)]
struct Case {
    dir: char,        // 'A' reference encrypts, lopdf opens; 'B' lopdf encrypts, reference opens
    r: u8,            // revision 2..6
    v: i64,           // the algorithm code V of the encryption dictionary: 1, 2, 4, 5 (ISO 32000-1 table 20); `default_v(r)` or, direction A, 1 with R 3
    bits: usize,      // file key length
    stm: Ciph,
    strf: Ciph,
    em: bool,         // EncryptMetadata
    perm: u32,        // user access bits (bit positions 3-6, 9-12 as a mask)
    user: String,
    owner: String,
    seed: u64,
    layout: u8,       // 0: cross-reference table; 1: cross-reference stream (A: plus two objects in an object stream)
    variant: Variant,
    cf: CfShape,      // direction A, R >= 4: which optional entries the crypt filter dictionaries carry
}

impl Case {
    fn to_json(&self, obligation: &str) -> Value {
        json!({"obligation": obligation, "dir": self.dir.to_string(), "r": self.r, "v": self.v, "bits": self.bits, "stm": self.stm.s(), "str": self.strf.s(), "em": self.em, "perm": self.perm,
               "user": self.user, "owner": self.owner, "seed": self.seed, "layout": self.layout, "variant": self.variant.s(), "cf": self.cf.s()})
    }
    fn from_json(v: &Value) -> Case {
        let r = v["r"].as_u64().unwrap_or(2) as u8;
        Case { dir: v["dir"].as_str().unwrap_or("A").chars().next().unwrap_or('A'), r, v: v["v"].as_i64().unwrap_or(default_v(r)), bits: v["bits"].as_u64().unwrap_or(40) as usize,
               stm: Ciph::parse(v["stm"].as_str().unwrap_or("RC4")), strf: Ciph::parse(v["str"].as_str().unwrap_or("RC4")), em: v["em"].as_bool().unwrap_or(true),
               perm: v["perm"].as_u64().unwrap_or(0) as u32, user: v["user"].as_str().unwrap_or("").into(), owner: v["owner"].as_str().unwrap_or("").into(),
               seed: v["seed"].as_u64().unwrap_or(0), layout: v["layout"].as_u64().unwrap_or(0) as u8, variant: Variant::parse(v["variant"].as_str().unwrap_or("base")), cf: CfShape::parse(v["cf"].as_str().unwrap_or("base")) }
    }
    fn v(&self) -> i64 { self.v }
    /// V is not the code lopdf's own writer pairs with the revision (today: V 1 with R 3)
    fn alt_v(&self) -> bool { self.v != default_v(self.r) }
    fn n(&self) -> usize { self.bits / 8 }
    fn p(&self) -> i32 { conforming_p(self.perm) }
    fn describe(&self) -> String {
        format!("{} R{}{} {} bits StmF={} StrF={} em={} P={} user={:?} owner={:?} seed={} layout={} {}{}", self.dir, self.r, if self.alt_v() { format!("/V{}", self.v) } else { String::new() }, self.bits, self.stm.s(), self.strf.s(), self.em, self.p(),
                short(&self.user), short(&self.owner), self.seed, if self.layout == 0 { "table" } else { "xref-stream" }, self.variant.s(), if self.cf.is_base() { String::new() } else { format!(" cf={}", self.cf.s()) })
    }
    /// input-class suffix of the obligation names
    fn suffix(&self) -> String {
        let mut s = String::new();
        if self.alt_v() { s.push_str(&format!("-v{}-r{}", self.v, self.r)); }
        if self.stm == Ciph::Identity || self.strf == Ciph::Identity { s.push_str(if self.variant == Variant::IdentityInCf { "-identity-in-cf" } else { "-identity" }); }
        match self.variant {
            Variant::LengthToggled => s.push_str(if self.r >= 5 { "-length-256" } else { "-length-absent" }),
            Variant::DirectDict => s.push_str("-direct-dict"),
            _ => {}
        }
        if !self.cf.is_base() { s.push_str("-cf-"); s.push_str(&self.cf.s()); }
        s
    }
    /// whether the encryption dictionary carries a top-level /Length (direction A)
    fn length_entry(&self) -> Option<i64> {
        let toggled = self.variant == Variant::LengthToggled;
        if self.v == 1 { return None; }                                  // V 1: Length is meaningful only for V 2 and 3 (the key has 40 bits)
        match self.r {
            2 => None,                                                   // V 1: Length is meaningful only for V 2 and 3
            3 => if toggled { None } else { Some(self.bits as i64) },    // toggled only for 40 bits (the default value)
            4 => if toggled { None } else { Some(128) },
            _ => if toggled { Some(256) } else { None },
        }
    }
}

/// the algorithm code lopdf's writer (and most producers) pair with a revision: R2 - V1, R3 - V2, R4 - V4, R5/R6 - V5
fn default_v(r: u8) -> i64 { match r { 2 => 1, 3 => 2, 4 => 4, _ => 5 } }

fn short(s: &str) -> String { if s.chars().count() > 24 { format!("{}..({} bytes)", s.chars().take(24).collect::<String>(), s.len()) } else { s.to_string() } }

const PERM_SETS: [u32; 3] = [0x0F3C, 0x0000, 0x0114]; // all; none; print + copy + fill forms (bits 3, 5, 9)
/// ISO 32000-1 table 21 (32000-2 table 21): with V 1 the revision is 3 exactly when one of the permissions "of revision 3 or greater"
/// (bits 9-12: fill forms, extract for accessibility, assemble, print in high quality) is withdrawn.  The words of the V 1 / R 3
/// handler: everything but high quality printing; none; print + copy + fill forms
const V1R3_PERM_SETS: [u32; 3] = [0x073C, 0x0000, 0x0114];
const REV3_BITS: u32 = 0x0F00;

const U32: &str = "exactly-thirty-two-bytes-long-pw";
const U40: &str = "common-prefix-of-32-bytes-------USERTAIL";
const O40: &str = "common-prefix-of-32-bytes-------OWNRTAIL";
const OWNER40: &str = "An-Owner-Password-Of-Forty-Bytes-In-All!";
const NONASCII_DOC: &str = "p\u{e4}\u{20ac}\u{141}\u{17e}\u{2022}";     // a-umlaut, Euro (0xA0), Lslash (0x95), zcaron (0x9E), bullet (0x80)
const NONASCII_DOC_OWNER: &str = "\u{f6}wn\u{20ac}r\u{2022}";
const NONASCII_UTF8: &str = "p\u{e9}-\u{3bb}-\u{5bc6}";                  // precomposed Latin, Greek, CJK: SASLprep is the identity on these
const NONASCII_UTF8_OWNER: &str = "\u{d6}wner-\u{3a9}-\u{7801}";

fn u127() -> String { format!("{}{}", "0123456789".repeat(12), "abcdefg") }
/// 130 bytes; the two-byte character e-acute occupies bytes 126-127 (0-based), so the cut at 127 bytes splits it
fn u130(tail: &str) -> String { format!("{}{}\u{e9}{}", "0123456789".repeat(12), "abcdef", tail) }

/// (user, owner) pairs of a revision: users {empty, ASCII, non-ASCII, boundary length, over the boundary} x owners {empty, different, equal to user},
/// plus pairs that differ only beyond the significant length
fn password_pairs(r: u8) -> Vec<(String, String)> {
    let users: Vec<String> = if r <= 4 { vec!["".into(), "user".into(), NONASCII_DOC.into(), U32.into(), U40.into()] }
                             else { vec!["".into(), "user".into(), NONASCII_UTF8.into(), u127(), u130("ab")] };
    let mut out: Vec<(String, String)> = vec![];
    for u in &users {
        let different: String = if u == "user" { if r <= 4 { NONASCII_DOC_OWNER.into() } else { NONASCII_UTF8_OWNER.into() } } else { "Owner-Pass".into() };
        for o in [String::new(), different, u.clone()] { if !out.contains(&(u.clone(), o.clone())) { out.push((u.clone(), o)); } }
    }
    if r <= 4 { out.push(("user".into(), OWNER40.into())); out.push((U40.into(), O40.into())); }
    else { out.push((u130("ab"), u130("cd"))); }
    assert!(U32.len() == 32 && U40.len() == 40 && O40.len() == 40 && OWNER40.len() == 40 && u127().len() == 127 && u130("ab").len() == 130);
    out
}

#[derive(Clone, Copy)]
struct Handler { r: u8, v: i64, bits: usize, stm: Ciph, strf: Ciph, em: bool }

fn handlers(thorough: bool) -> Vec<Handler> {
    let mut out = vec![Handler { r: 2, v: 1, bits: 40, stm: Ciph::Rc4, strf: Ciph::Rc4, em: true }];
    // V 1 with R 3: the 40-bit algorithm under the revision 3 computations (50 MD5 rounds, 19 RC4 rounds, Algorithm 5); direction A only
    out.push(Handler { r: 3, v: 1, bits: 40, stm: Ciph::Rc4, strf: Ciph::Rc4, em: true });
    let r3: Vec<usize> = if thorough { (40..=128).step_by(8).collect() } else { vec![40, 56, 64, 128] };
    for bits in r3 { out.push(Handler { r: 3, v: 2, bits, stm: Ciph::Rc4, strf: Ciph::Rc4, em: true }); }
    for em in [true, false] {
        for stm in [Ciph::Rc4, Ciph::AesV2, Ciph::Identity] { for strf in [Ciph::Rc4, Ciph::AesV2, Ciph::Identity] { out.push(Handler { r: 4, v: 4, bits: 128, stm, strf, em }); } }
    }
    for r in [5u8, 6] { for em in [true, false] { out.push(Handler { r, v: 5, bits: 256, stm: Ciph::AesV3, strf: Ciph::AesV3, em }); } }
    out
}

fn cases(thorough: bool) -> Vec<Case> {
    let mut out = vec![];
    let mk = |dir: char, h: &Handler, perm: u32, u: &str, o: &str, seed: u64, layout: u8, variant: Variant| Case {
        dir, r: h.r, v: h.v, bits: h.bits, stm: h.stm, strf: h.strf, em: h.em, perm, user: u.into(), owner: o.into(), seed, layout, variant, cf: CfShape::BASE };
    let three: [(&str, &str); 3] = [("user", "Owner-Pass"), ("", "Owner-Pass"), ("user", "")];
    let seeds: &[u64] = if thorough { &[0, 1, 2, 3] } else { &[0, 1] };
    for h in handlers(thorough) {
        // the full product, both directions (a V that lopdf's writer cannot be asked for: direction A only, and only the
        // permission words with which ISO 32000 table 21 prescribes that pair)
        let alt_v = h.v != default_v(h.r);
        let dirs: &[char] = if alt_v { &['A'] } else { &['A', 'B'] };
        let perm_sets: [u32; 3] = if alt_v { V1R3_PERM_SETS } else { PERM_SETS };
        for &dir in dirs {
            for perm in perm_sets { for (u, o) in password_pairs(h.r) { for &seed in seeds { for layout in [0u8, 1] {
                out.push(mk(dir, &h, perm, &u, &o, seed, layout, Variant::Base));
            } } } }
            // thorough: every combination of the eight access bits (3-6, 9-12), one password pair, one seed, cross-reference table
            if thorough {
                for k in 0u32..256 {
                    let perm = ((k & 0x0F) << 2) | ((k >> 4) << 8);
                    if perm_sets.contains(&perm) || (alt_v && perm & REV3_BITS == REV3_BITS) { continue; }
                    out.push(mk(dir, &h, perm, "user", "Owner-Pass", 0, 0, Variant::Base));
                }
            }
        }
        // variants: all permissions, three password pairs, both seeds, cross-reference table
        let toggles = match h.r { 2 => false, 3 => h.bits == 40 && !alt_v, _ => true };
        let direct = match h.r { 3 => h.bits == 128 || alt_v, 4 => h.stm == Ciph::AesV2 && h.strf == Ciph::AesV2 && h.em, _ => h.em };
        let id_in_cf = h.r == 4 && (h.stm == Ciph::Identity || h.strf == Ciph::Identity);
        for (u, o) in three { for seed in [0u64, 1] {
            if toggles { out.push(mk('A', &h, perm_sets[0], u, o, seed, 0, Variant::LengthToggled)); }
            if direct { out.push(mk('A', &h, perm_sets[0], u, o, seed, 0, Variant::DirectDict)); }
            if id_in_cf { out.push(mk('B', &h, PERM_SETS[0], u, o, seed, 0, Variant::IdentityInCf)); }
        } }
        // crypt filter dictionary shapes: every handler that has a crypt filter dictionary to write, every shape other than the base one
        // (which all cases above use), three password pairs, both layouts
        let has_cf = h.r >= 4 && (h.stm != Ciph::Identity || h.strf != Ciph::Identity);
        if has_cf {
            for shape in CfShape::all().into_iter().skip(1) { for (u, o) in three { for &seed in seeds { for layout in [0u8, 1] {
                out.push(Case { cf: shape, ..mk('A', &h, PERM_SETS[0], u, o, seed, layout, Variant::Base) });
            } } } }
        }
    }
    out
}

const BOUND: &str = "cases = (direction, handler = (algorithm code V, revision R, key length, filters, EncryptMetadata), permission word, (user, owner) password pair, seed, file layout, variant, crypt filter dictionary shape); every listed set is enumerated completely (no sampling). \
DIRECTIONS: A = the reference handler of this module (own MD5/SHA-2/AES/RC4, own PDF writer) encrypts, lopdf load_mem + authenticate_user_password / authenticate_owner_password / decrypt opens; \
B = lopdf EncryptionState::try_from + Document::encrypt + save_to produces, the reference reads the encryption dictionary, authenticates and decrypts. \
HANDLERS: R2 (V1, RC4 40); R3 (V2, RC4) with key length 40,48,..,128 (quick tier: 40,56,64,128); R3 under V1 (RC4, 40-bit key, no /Length; direction A only, see (V, R) PAIRS); R4 (V4, 128 bit) with StmF x StrF over {RC4 (/V2), AESV2, the predefined /Identity} x EncryptMetadata {true,false}; \
R5 and R6 (V5, AESV3, 256 bit) x EncryptMetadata {true,false}. \
(V, R) PAIRS: all pairs that ISO 32000-1 tables 20/21 and 32000-2 tables 20/21 define for the published algorithms: (1,2), (1,3), (2,3), (4,4), (5,5), (5,6); (1,3) is the 40-bit algorithm with the revision 3 computations \
(Algorithm 2 with 50 MD5 rounds over 5 bytes, Algorithms 3 and 5 with 19 further RC4 passes, 16 significant bytes of U), which table 21 prescribes when V is 1 and a permission 'of revision 3 or greater' (bits 9-12) is withdrawn; \
it is run in direction A only (lopdf's writer cannot be asked for it: EncryptionVersion::V1 always writes R 2) as a handler of its own in the FULL PRODUCT, with the 3 permission words that withdraw such a bit: all but high quality printing (-2052), none (-3904), print+copy+fill (-3628), \
all password pairs, seeds and layouts, plus the direct-dictionary variant; thorough tier additionally every access-bit combination with a bit 9-12 withdrawn (240 words in all, instead of the 256 of the other handlers), pair (user, Owner-Pass), seed 0, cross-reference table. \
PERMISSIONS: 3 conforming words (bits 1-2 zero, 7-8 and 13-32 one): all access bits (-4), none (-3904), print+copy+fill (-3628); \
thorough tier additionally: all 256 combinations of the access bits 3-6 and 9-12, each handler, both directions, with the pair (user, Owner-Pass), seed 0, cross-reference table. \
PASSWORDS: users {empty, 'user', non-ASCII (R2-4: a-umlaut, Euro, Lslash, zcaron, bullet = PDFDocEncoding E4 A0 95 9E 80; R5/6: e-acute, lambda, a CJK character, UTF-8), boundary length (R2-4: exactly 32 bytes; R5/6: exactly 127 bytes), \
over the boundary (R2-4: 40 bytes; R5/6: 130 bytes with a two-byte character split by the cut at 127)} x owners {empty (R2-4: Algorithm 3 then uses the user password), different (non-ASCII for user 'user'), equal to the user password}, \
plus (R2-4) owner of 40 bytes and a pair equal in the first 32 bytes only, (R5/6) a pair equal in the first 127 bytes only: 16 pairs for R2-4, 15 for R5/6. R5/6 passwords are restricted to strings on which SASLprep is the identity. \
SEEDS: 2 (thorough tier: 4) (file identifier of 16 / 21 bytes, R5/6 file key, and in A all salts, IVs, U padding; in B lopdf draws its own salts and IVs). \
LAYOUTS: cross-reference table; cross-reference stream (in A additionally two objects with strings inside an encrypted object stream). \
DOCUMENT (fixed): strings of 0,1,5,15,16,17,20,32,33 bytes (literal and hexadecimal, binary) directly, in arrays and dictionaries to depth 3 and in a stream dictionary; streams of 0,1,16,17,40,100 (binary) bytes; a Metadata stream; \
(R>=4) a stream with /Filter /Crypt /Name /Identity; ids 1..16 with generations 0,1,2, and 11 gen 300, 300 gen 0, 66051 gen 258, 70000 gen 0, 16909060 gen 5. \
FULL PRODUCT in both directions: handlers x permissions x pairs x seeds x layouts. \
VARIANTS (permission word -4, pairs {(user,Owner-Pass),('',Owner-Pass),(user,'')}, 2 seeds, table): A with the top-level /Length toggled (R3/40 and R4: absent; R5/R6: /Length 256 present; base is /Length present for R3/R4, absent for R2/R5/R6), \
A with /Encrypt as a direct dictionary in the trailer (one handler per (V, R) pair; permission word -2052 for (1,3)), B with Identity requested through a CF entry holding lopdf's IdentityCryptFilter (R4 handlers that use Identity; base requests the name /Identity without CF entry). \
CRYPT FILTER DICTIONARY SHAPES (direction A, every R4/R5/R6 handler with at least one non-Identity filter, i.e. 16 R4 handlers and the 4 R5/R6 handlers): the entries of ISO 32000 table 25 that a producer is free to write or not, \
/Type /CryptFilter {present, absent} x /AuthEvent /DocOpen {present, absent (DocOpen is the default)} x /Length {in bytes (16 / 32), in bits (128 / 256), absent} = 12 shapes of every dictionary in CF; /CFM is always present; \
all cases above use the shape (Type, AuthEvent, Length in bytes); the other 11 shapes are each run with permission word -4, the pairs {(user,Owner-Pass),('',Owner-Pass),(user,'')}, every seed of the tier (2 / 4) and both layouts, with the same checks as any A case (same keys, same ciphertext: the shape enters no algorithm). \
EACH A CASE: user password, owner password (effective: the user password if there is none), a wrong password, the user password with one character appended (if shorter than the significant length) and (if neither password is empty) the empty password; lopdf's file key is compared with the reference's. \
EACH B CASE: V, R, Length, P, CF/StmF/StrF/CFM/AuthEvent, EncryptMetadata, O and U recomputed (R2-4) or validated with UE/OE/Perms (R5/6), file key, every string and stream decrypted by the reference, /ID untouched. \
NOT COVERED: V 3 (unpublished algorithm) and V 0; V 1 together with a /Length entry; (V, R) pairs outside tables 20/21 (e.g. V 2 with R 2, V 1 with R 3 and all of bits 9-12 granted); V 1 / R 3 in direction B; crypt filter names other than StdCF / RC4CF; CF entries that StmF and StrF do not name; a CF entry without /CFM or with /CFM /None (direction A); /AuthEvent /EFOpen; passwords that SASLprep changes; non-conforming P words; R4 crypt filters with keys shorter than 128 bits; V5 with Identity or mixed filters; public-key handlers; /EFF; array-form DecodeParms of /Crypt; \
object streams in direction B (lopdf's writer produces none)";

// ===============================================================================================================
// 4. the document, and the reference's own PDF writer
// ===============================================================================================================

fn pat(n: usize, seed: u8) -> Vec<u8> { (0..n).map(|i| (i as u8).wrapping_mul(37).wrapping_add(seed)).collect() }
fn nm(b: &[u8]) -> Object { Object::Name(b.to_vec()) }
fn lit(b: &[u8]) -> Object { Object::String(b.to_vec(), StringFormat::Literal) }
fn hxs(b: &[u8]) -> Object { Object::String(b.to_vec(), StringFormat::Hexadecimal) }
fn dct(entries: Vec<(&[u8], Object)>) -> Dictionary { let mut d = Dictionary::new(); for (k, v) in entries { d.set(k.to_vec(), v); } d }
fn stm(entries: Vec<(&[u8], Object)>, content: Vec<u8>) -> Object { Object::Stream(Stream::new(dct(entries), content)) }

const ENC_ID: (u32, u16) = (20, 0);     // the encryption dictionary (direction A)
const OBJSTM_ID: (u32, u16) = (14, 0);  // the object stream (direction A, layout 1)
const XREF_ID: u32 = 21;                // the cross-reference stream (direction A, layout 1)

/// the plain objects stored as ordinary indirect objects
fn plain_objects(r: u8) -> Vec<((u32, u16), Object)> {
    let mut bin = pat(100, 201);
    bin[0] = 0; bin[1] = 0xff; bin[2] = b'\r'; bin[3] = b'\n'; bin[40..49].copy_from_slice(b"endstream");
    let mut v = vec![
        ((1, 0), Object::Dictionary(dct(vec![(b"Type", nm(b"Catalog")), (b"Pages", Object::Reference((2, 0))), (b"Metadata", Object::Reference((9, 0))), (b"Lang", lit(b"en-US"))]))),
        ((2, 0), Object::Dictionary(dct(vec![(b"Type", nm(b"Pages")), (b"Kids", Object::Array(vec![])), (b"Count", Object::Integer(0))]))),
        ((3, 0), Object::Dictionary(dct(vec![(b"Title", lit(b"T")), (b"Author", lit(b"")), (b"Subject", lit(b"fifteen bytes.!")), (b"Keywords", lit(b"0123456789abcdef")),
                                             (b"Creator", lit(b"seventeen bytes!!")), (b"Producer", hxs(&pat(32, 7)))]))),
        ((4, 1), Object::Array(vec![lit(b"in an array"), Object::Array(vec![lit(b"twenty bytes of text"), Object::Dictionary(dct(vec![(b"K", hxs(&pat(18, 250))), (b"E", hxs(b""))]))]),
                                    Object::Integer(7), nm(b"Name"), Object::Null, Object::Boolean(true), lit(b"(paren) \\ back\r\n")])),
        ((5, 0), stm(vec![], vec![])),
        ((6, 0), stm(vec![], vec![0x80])),
        ((7, 2), stm(vec![(b"Extra", lit(b"string in a stream dict"))], pat(16, 91))),
        ((8, 0), stm(vec![(b"Subtype", nm(b"Image")), (b"Width", Object::Integer(10))], bin)),
        ((9, 0), stm(vec![(b"Type", nm(b"Metadata")), (b"Subtype", nm(b"XML"))], b"<?xpacket begin=''?><x:xmpmeta/><?xpacket end='w'?>".to_vec())),
        ((11, 300), lit(b"thirty-three bytes of plain text!")),
        ((15, 0), stm(vec![], pat(17, 33))),
        ((300, 0), Object::Dictionary(dct(vec![(b"S", lit(b"object number above 255")), (b"N", Object::Integer(-5))]))),
        ((66051, 258), stm(vec![(b"Note", hxs(&pat(32, 99)))], pat(40, 5))),
        ((70000, 0), lit(b"object number above 65535")),
        ((16909060, 5), hxs(&pat(16, 131))),
    ];
    if r >= 4 {
        v.push(((10, 0), stm(vec![(b"Filter", nm(b"Crypt")), (b"DecodeParms", Object::Dictionary(dct(vec![(b"Type", nm(b"CryptFilterDecodeParms")), (b"Name", nm(b"Identity"))])))], pat(20, 77))));
    }
    v.sort_by_key(|x| x.0);
    v
}
/// the objects kept inside the object stream (direction A, layout 1); generation 0 by definition
fn compressed_objects() -> Vec<(u32, Object)> {
    vec![(12, Object::Dictionary(dct(vec![(b"S", lit(b"string in an objstm!")), (b"A", Object::Array(vec![lit(b"x"), hxs(&pat(16, 17))]))]))),
         (13, Object::Array(vec![lit(b"second compressed object"), Object::Integer(1)]))]
}

fn ser(o: &Object, out: &mut Vec<u8>) {
    match o {
        Object::Null => out.extend_from_slice(b"null"),
        Object::Boolean(b) => out.extend_from_slice(if *b { b"true" } else { b"false" }),
        Object::Integer(i) => out.extend_from_slice(i.to_string().as_bytes()),
        Object::Real(x) => out.extend_from_slice(format!("{}", x).as_bytes()),
        Object::Name(n) => {
            out.push(b'/');
            for &b in n { if b.is_ascii_alphanumeric() || b == b'-' || b == b'_' || b == b'.' { out.push(b); } else { out.extend_from_slice(format!("#{:02X}", b).as_bytes()); } }
        }
        Object::String(s, StringFormat::Hexadecimal) => { out.push(b'<'); out.extend_from_slice(hex(s).as_bytes()); out.push(b'>'); }
        Object::String(s, StringFormat::Literal) => {
            out.push(b'(');
            for &b in s {
                match b { b'\\' => out.extend_from_slice(b"\\\\"), b'(' => out.extend_from_slice(b"\\("), b')' => out.extend_from_slice(b"\\)"), b'\r' => out.extend_from_slice(b"\\r"), b'\n' => out.extend_from_slice(b"\\n"), _ => out.push(b) }
            }
            out.push(b')');
        }
        Object::Array(a) => { out.push(b'['); for (i, x) in a.iter().enumerate() { if i > 0 { out.push(b' '); } ser(x, out); } out.push(b']'); }
        Object::Dictionary(d) => ser_dict(d, out),
        Object::Reference(id) => out.extend_from_slice(format!("{} {} R", id.0, id.1).as_bytes()),
        Object::Stream(s) => {
            let mut d = s.dict.clone();
            d.set("Length", Object::Integer(s.content.len() as i64));
            ser_dict(&d, out);
            out.extend_from_slice(b"\nstream\n");
            out.extend_from_slice(&s.content);
            out.extend_from_slice(b"\nendstream");
        }
    }
}
fn ser_dict(d: &Dictionary, out: &mut Vec<u8>) {
    out.extend_from_slice(b"<<");
    for (k, v) in d.iter() { ser(&Object::Name(k.clone()), out); out.push(b' '); ser(v, out); out.push(b' '); }
    out.extend_from_slice(b">>");
}

/// write a complete PDF file: `objects` as they are (already encrypted), `compressed` = (id, container, index) entries for
/// the cross-reference stream (the container is among `objects`), trailer entries in `trailer`
fn write_pdf(objects: &[((u32, u16), Object)], compressed: &[(u32, u32, u16)], trailer: &Dictionary, xref_stream: bool) -> Vec<u8> {
    let mut out: Vec<u8> = b"%PDF-1.7\n%\xE2\xE3\xCF\xD3\n".to_vec();
    let mut offsets: Vec<((u32, u16), usize)> = vec![];
    for (id, o) in objects {
        offsets.push((*id, out.len()));
        out.extend_from_slice(format!("{} {} obj\n", id.0, id.1).as_bytes());
        ser(o, &mut out);
        out.extend_from_slice(b"\nendobj\n");
    }
    let mut max_id = objects.iter().map(|x| x.0 .0).max().unwrap_or(0);
    for c in compressed { max_id = max_id.max(c.0); }
    let start = out.len();
    if !xref_stream {
        out.extend_from_slice(b"xref\n0 1\n0000000000 65535 f \n");
        for (id, off) in &offsets { out.extend_from_slice(format!("{} 1\n{:010} {:05} n \n", id.0, off, id.1).as_bytes()); }
        let mut t = trailer.clone();
        t.set("Size", Object::Integer(max_id as i64 + 1));
        out.extend_from_slice(b"trailer\n");
        ser_dict(&t, &mut out);
        out.push(b'\n');
    } else {
        max_id = max_id.max(XREF_ID);
        let mut rows: BTreeMap<u32, (u8, u32, u16)> = BTreeMap::new();
        rows.insert(0, (0, 0, 65535));
        for (id, off) in &offsets { rows.insert(id.0, (1, *off as u32, id.1)); }
        for (id, container, index) in compressed { rows.insert(*id, (2, *container, *index)); }
        rows.insert(XREF_ID, (1, start as u32, 0));
        let mut index: Vec<Object> = vec![];
        let mut data: Vec<u8> = vec![];
        let ids: Vec<u32> = rows.keys().copied().collect();
        let mut i = 0;
        while i < ids.len() {
            let mut j = i;
            while j + 1 < ids.len() && ids[j + 1] == ids[j] + 1 { j += 1; }
            index.push(Object::Integer(ids[i] as i64));
            index.push(Object::Integer((j - i + 1) as i64));
            i = j + 1;
        }
        for (_, (t, a, b)) in &rows { data.push(*t); data.extend_from_slice(&a.to_be_bytes()); data.extend_from_slice(&b.to_be_bytes()); }
        let mut d = trailer.clone();
        d.set("Type", nm(b"XRef"));
        d.set("Size", Object::Integer(max_id as i64 + 1));
        d.set("W", Object::Array(vec![Object::Integer(1), Object::Integer(4), Object::Integer(2)]));
        d.set("Index", Object::Array(index));
        out.extend_from_slice(format!("{} 0 obj\n", XREF_ID).as_bytes());
        ser(&Object::Stream(Stream::new(d, data)), &mut out);
        out.extend_from_slice(b"\nendobj\n");
    }
    out.extend_from_slice(format!("startxref\n{}\n%%EOF\n", start).as_bytes());
    out
}

// ---- comparison of a plain object with what came back -------------------------------------------------------------
fn short_hex(b: &[u8]) -> String { if b.len() <= 24 { hex(b) } else { format!("{}..", hex(&b[..24])) } }

fn diff_obj(a: &Object, b: &Object, path: &str) -> Option<String> {
    match (a, b) {
        (Object::String(x, _), Object::String(y, _)) => if x != y { Some(format!("string at {}: expected {} bytes {}, got {} bytes {}", path, x.len(), short_hex(x), y.len(), short_hex(y))) } else { None },
        (Object::Array(x), Object::Array(y)) => {
            if x.len() != y.len() { return Some(format!("array at {}: {} elements instead of {}", path, y.len(), x.len())); }
            x.iter().zip(y.iter()).enumerate().find_map(|(i, (p, q))| diff_obj(p, q, &format!("{}[{}]", path, i)))
        }
        (Object::Dictionary(x), Object::Dictionary(y)) => diff_dict(x, y, path),
        (Object::Stream(x), Object::Stream(y)) => {
            if let Some(d) = diff_dict(&x.dict, &y.dict, path) { return Some(d); }
            if x.content != y.content { Some(format!("stream at {}: expected {} bytes {}, got {} bytes {}", path, x.content.len(), short_hex(&x.content), y.content.len(), short_hex(&y.content))) } else { None }
        }
        (x, y) => if x == y { None } else { Some(format!("{}: expected {:?}, got {:?}", path, x, y)) },
    }
}
fn diff_dict(x: &Dictionary, y: &Dictionary, path: &str) -> Option<String> {
    for (k, v) in x.iter() {
        if k.as_slice() == b"Length" { continue; }
        match y.get(k) {
            Ok(w) => if let Some(d) = diff_obj(v, w, &format!("{}/{}", path, String::from_utf8_lossy(k))) { return Some(d); },
            Err(_) => return Some(format!("{}: key {} missing", path, String::from_utf8_lossy(k))),
        }
    }
    for (k, _) in y.iter() { if k.as_slice() != b"Length" && x.get(k).is_err() { return Some(format!("{}: extra key {}", path, String::from_utf8_lossy(k))); } }
    None
}

type Fails = Vec<(String, String)>;
fn push(f: &mut Fails, ob: &str, detail: String) { if !f.iter().any(|x| x.0 == ob) { f.push((ob.to_string(), detail)); } }

fn lib<T>(f: impl FnOnce() -> T) -> Result<T, String> { guarded(AssertUnwindSafe(f)) }

// ===============================================================================================================
// 5. direction A: the reference encrypts, lopdf opens
// ===============================================================================================================

fn cf_name(c: Ciph) -> &'static [u8] { match c { Ciph::Rc4 => b"RC4CF", Ciph::AesV2 | Ciph::AesV3 => b"StdCF", Ciph::Identity => b"Identity" } }
fn cfm_name(c: Ciph) -> &'static [u8] { match c { Ciph::Rc4 => b"V2", Ciph::AesV2 => b"AESV2", Ciph::AesV3 => b"AESV3", Ciph::Identity => b"None" } }

struct RefEnc { fkey: Vec<u8>, dict: Dictionary, named: BTreeMap<Vec<u8>, Ciph> }

/// everything the reference handler puts into the encryption dictionary, and the file key
fn ref_encryption(c: &Case, upw: &[u8], opw: &[u8], id0: &[u8], rng: &mut Rng) -> RefEnc {
    let (r, n, p) = (c.r, c.n(), c.p());
    let mut d = Dictionary::new();
    d.set("Filter", nm(b"Standard"));
    d.set("V", Object::Integer(c.v()));
    d.set("R", Object::Integer(r as i64));
    if let Some(l) = c.length_entry() { d.set("Length", Object::Integer(l)); }
    d.set("P", Object::Integer(p as i64));
    let fkey;
    if r <= 4 {
        let eff_owner = if opw.is_empty() { upw } else { opw };                // Algorithm 3 (a): no owner password -> the user password
        let o = alg3(r, n, eff_owner, upw);
        fkey = alg2(r, n, upw, &o, p, id0, c.em);
        let u = if r == 2 { alg4(&fkey) } else { let mut u = alg5(&fkey, id0); u.extend_from_slice(&rng.bytes(16)); u }; // 16 bytes of arbitrary padding
        d.set("O", hxs(&o));
        d.set("U", lit(&u));
    } else {
        fkey = rng.bytes(32);
        let (u, ue) = alg8(r, upw, &fkey, &rng.bytes(8), &rng.bytes(8));
        let (o, oe) = alg9(r, opw, &fkey, &rng.bytes(8), &rng.bytes(8), &u);
        let perms = alg10(p, c.em, &fkey, &rng.bytes(4));
        d.set("O", hxs(&o)); d.set("U", hxs(&u)); d.set("OE", lit(&oe)); d.set("UE", lit(&ue)); d.set("Perms", hxs(&perms));
    }
    let mut named = BTreeMap::new();
    if r >= 4 {
        let mut cf = Dictionary::new();
        for x in [c.stm, c.strf] {
            if x == Ciph::Identity || named.contains_key(cf_name(x)) { continue; }
            // the standard security handler gives the crypt filter's Length in bytes (ISO 32000-2 table 25)
            // (base shape; the other shapes leave out optional entries or give the Length in bits, see CfShape)
            cf.set(cf_name(x).to_vec(), Object::Dictionary(c.cf.dict(x)));
            named.insert(cf_name(x).to_vec(), x);
        }
        d.set("CF", Object::Dictionary(cf));
        d.set("StmF", nm(cf_name(c.stm)));
        d.set("StrF", nm(cf_name(c.strf)));
        if !c.em || c.seed % 2 == 1 { d.set("EncryptMetadata", Object::Boolean(c.em)); } // absent means true
    }
    RefEnc { fkey, dict: d, named }
}

fn lib_filter(c: Ciph) -> Arc<dyn CryptFilter> {
    match c { Ciph::Rc4 => Arc::new(Rc4CryptFilter), Ciph::AesV2 => Arc::new(Aes128CryptFilter), Ciph::AesV3 => Arc::new(Aes256CryptFilter), Ciph::Identity => Arc::new(IdentityCryptFilter) }
}

/// where lopdf's key derivation leaves the reference's, as far as the public API shows it
fn diagnose_a(doc: &Document, pw_bytes: &[u8], fkey: &[u8], r: u8) -> String {
    let alg = if r <= 4 { "Algorithm 2 (with 6/7)" } else { "Algorithm 2.A" };
    match lib(|| EncryptionState::decode(doc, pw_bytes).map(|s| s.file_encryption_key().to_vec())) {
        Err(p) => format!("EncryptionState::decode panicked: {}", p),
        Ok(Err(e)) => format!("EncryptionState::decode fails: {}", e),
        Ok(Ok(k)) => if k == fkey { format!("lopdf derives the same file key as the reference ({}), so the deviation is after {}", hex(fkey), alg) }
                     else { format!("{}: lopdf derives the file key {} ({} bytes), the reference encrypted with {} ({} bytes)", alg, hex(&k), k.len(), hex(fkey), fkey.len()) },
    }
}

/// how lopdf reads the CF dictionary the reference wrote, as far as the public API shows it (diagnosis text only, never the oracle):
/// a probe document that holds nothing but the encryption dictionary is asked for its crypt filters
fn diagnose_cf(c: &Case, re: &RefEnc) -> String {
    if c.r < 4 || re.named.is_empty() { return String::new(); }
    let mut probe = Document::with_version("1.7");
    probe.objects.insert(ENC_ID, Object::Dictionary(re.dict.clone()));
    probe.trailer.set("Encrypt", Object::Reference(ENC_ID));
    let mut out = String::from("; crypt filters of this file:");
    for (name, x) in &re.named {
        let mut text = vec![];
        ser_dict(&c.cf.dict(*x), &mut text);
        out.push_str(&format!(" /{} {}", String::from_utf8_lossy(name), String::from_utf8_lossy(&text)));
    }
    if !c.cf.is_base() { out.push_str(" (ISO 32000 table 25: Type, AuthEvent [default DocOpen] and Length are optional in a crypt filter dictionary, only CFM selects the method)"); }
    match lib(|| probe.get_crypt_filters()) {
        Err(p) => out.push_str(&format!("; Document::get_crypt_filters panicked: {}", p)),
        Ok(m) => {
            let missing: Vec<String> = re.named.keys().filter(|k| !m.contains_key(*k)).map(|k| format!("/{}", String::from_utf8_lossy(k))).collect();
            if missing.is_empty() { out.push_str("; Document::get_crypt_filters() has an entry for each of them"); }
            else { out.push_str(&format!("; Document::get_crypt_filters() has NO entry for {} although CF defines it and StmF/StrF name it, so lopdf does not apply the method /CFM names to that data", missing.join(", "))); }
        }
    }
    out
}

fn run_a(c: &Case) -> Fails {
    let mut f: Fails = vec![];
    let sfx = c.suffix();
    let ob = |s: &str| format!("{}{}", s, sfx);
    let mut rng = Rng::new(c.seed);
    let id0 = rng.bytes(if c.seed % 2 == 0 { 16 } else { 21 });
    let id1 = rng.bytes(16);
    let (upw, opw) = match (prep_password(c.r, &c.user), prep_password(c.r, &c.owner)) { (Some(u), Some(o)) => (u, o), _ => { push(&mut f, "harness-password-family", "a generated password is outside PDFDocEncoding".into()); return f; } };
    let eff_owner_str: &str = if c.r <= 4 && opw.is_empty() { &c.user } else { &c.owner };
    let eff_owner: Vec<u8> = if c.r <= 4 && opw.is_empty() { upw.clone() } else { opw.clone() };
    let re = ref_encryption(c, &upw, &opw, &id0, &mut rng);
    let rc = RefCrypt { fkey: &re.fkey, stm: c.stm, strf: c.strf, em: c.em, named: &re.named };
    let plain = plain_objects(c.r);
    let comp = if c.layout == 1 { compressed_objects() } else { vec![] };
    let cf_cell: std::cell::OnceCell<String> = std::cell::OnceCell::new();   // computed only when some data does not come back
    let cf_note = || -> String { cf_cell.get_or_init(|| diagnose_cf(c, &re)).clone() };
    // what makes the (V, R) pair of this file conforming, for the cases where it is not the pair lopdf's own writer produces
    let vr_note: String = if c.alt_v() {
        format!("; the encryption dictionary has /V {} /R {} and no /Length (40-bit key): ISO 32000-1 table 21 prescribes R 3 with V 1 when a permission 'of revision 3 or greater' (bits 9-12) is withdrawn, here P = {} withdraws bit(s) {}; the keys follow Algorithms 2, 3, 5 for revision 3 with n = 5",
            c.v, c.r, c.p(), (9..=12).filter(|b| c.perm & (1 << (b - 1)) == 0).map(|b| b.to_string()).collect::<Vec<_>>().join(","))
    } else { String::new() };
    let mut objects: Vec<((u32, u16), Object)> = plain.iter().map(|(id, o)| (*id, rc.encrypt(*id, o, &mut rng))).collect();
    let mut compressed: Vec<(u32, u32, u16)> = vec![];
    if !comp.is_empty() {
        // strings inside an object stream are not encrypted individually: the stream as a whole is
        let mut body: Vec<u8> = vec![];
        let mut header = String::new();
        for (i, (id, o)) in comp.iter().enumerate() {
            header.push_str(&format!("{} {} ", id, body.len()));
            ser(o, &mut body);
            body.push(b'\n');
            compressed.push((*id, OBJSTM_ID.0, i as u16));
        }
        let mut content = header.clone().into_bytes();
        content.extend_from_slice(&body);
        let os = stm(vec![(b"Type", nm(b"ObjStm")), (b"N", Object::Integer(comp.len() as i64)), (b"First", Object::Integer(header.len() as i64))], content);
        objects.push((OBJSTM_ID, rc.encrypt(OBJSTM_ID, &os, &mut rng)));
    }
    let mut trailer = dct(vec![(b"Root", Object::Reference((1, 0))), (b"Info", Object::Reference((3, 0))), (b"ID", Object::Array(vec![hxs(&id0), hxs(&id1)]))]);
    if c.variant == Variant::DirectDict { trailer.set("Encrypt", Object::Dictionary(re.dict.clone())); }
    else { objects.push((ENC_ID, Object::Dictionary(re.dict.clone()))); trailer.set("Encrypt", Object::Reference(ENC_ID)); }
    objects.sort_by_key(|x| x.0);
    let bytes = write_pdf(&objects, &compressed, &trailer, c.layout == 1);

    let loaded = match lib(|| Document::load_mem(&bytes)) {
        Err(p) => { push(&mut f, "no-panic", format!("load_mem of the reference-encrypted file panicked: {}", p)); return f; }
        Ok(Err(e)) => {
            // load_mem tries the empty password; "incorrect password" as a LOAD error means it authenticated (else the file would have been left encrypted) and then failed deriving the key
            if c.r >= 5 && upw.is_empty() && format!("{}", e).contains("password is incorrect") {
                push(&mut f, "perms", format!("load_mem of the reference-encrypted file failed: {}: the empty user password passed authentication (Algorithm 11) and was then rejected while deriving the file key, i.e. by Algorithm 13, the validation of /Perms = AES-256-ECB(file key, P | ffffffff | T/F | 'adb' | random)", e));
            } else { push(&mut f, &ob("reference-encrypted-opens-in-lopdf"), format!("load_mem of the reference-encrypted file failed: {}{}", e, vr_note)); }
            return f;
        }
        Ok(Ok(d)) => d,
    };
    // a reader that tries the empty password opens the file iff the empty string is the user password (or, R5/6, the owner password)
    let expected_auto = upw.is_empty() || (c.r >= 5 && opw.is_empty());
    let still_encrypted = loaded.trailer.get(b"Encrypt").is_ok();

    let compare = |d: &Document, how: &str, key_ok: bool, f: &mut Fails| {
        for (id, o) in &plain {
            let df = match d.objects.get(id) { None => Some(format!("object {} {} is missing", id.0, id.1)), Some(g) => diff_obj(o, g, &format!("{} {}", id.0, id.1)) };
            if let Some(df) = df {
                // Algorithm 1: does lopdf's per-object key agree?
                let cipher = match o { Object::Stream(_) if df.starts_with("stream") => c.stm, _ => c.strf };
                let mut name = "reference-encrypted-opens-in-lopdf";
                let mut extra = String::new();
                if key_ok && cipher != Ciph::Identity {
                    if let Ok(Ok(k)) = lib(|| lib_filter(cipher).compute_key(&re.fkey, *id)) {
                        let want = alg1(&re.fkey, *id, cipher);
                        if k != want { name = "object-key"; extra = format!("; Algorithm 1: lopdf's key for object {} {} is {}, the reference's is {}", id.0, id.1, hex(&k), hex(&want)); }
                        else { extra = format!("; file key and object key ({}) agree: the deviation is in the {} data stage (IV / padding / cipher)", hex(&k), cipher.s()); }
                    }
                }
                push(f, &ob(name), format!("lopdf does not return the plaintext of the reference-encrypted document ({}): {}{}{}", how, df, extra, cf_note()));
                break;
            }
        }
        for (id, o) in &comp {
            let df = match d.objects.get(&(*id, 0)) { None => Some(format!("object {} 0 (kept in object stream {}) is missing", id, OBJSTM_ID.0)), Some(g) => diff_obj(o, g, &format!("{} 0", id)) };
            if let Some(df) = df { push(f, &ob("objstm-strings"), format!("objects kept in the encrypted object stream are not recovered by lopdf ({}): {}{}", how, df, cf_note())); break; }
        }
    };

    let open_checks = |enc: &Document, f: &mut Fails| {
        match lib(|| enc.authenticate_user_password(&c.user)) {
            Err(p) => push(f, "no-panic", format!("authenticate_user_password panicked: {}", p)),
            Ok(Err(e)) => push(f, &ob("reference-encrypted-opens-in-lopdf"), format!("Algorithm {}: authenticate_user_password rejects the user password {:?}: {}; {}{}", if c.r <= 4 { "6" } else { "11" }, short(&c.user), e, diagnose_a(enc, &upw, &re.fkey, c.r), vr_note)),
            Ok(Ok(())) => {}
        }
        match lib(|| enc.authenticate_owner_password(eff_owner_str)) {
            Err(p) => push(f, "no-panic", format!("authenticate_owner_password panicked: {}", p)),
            Ok(Err(e)) => push(f, &ob("reference-encrypted-opens-in-lopdf"), format!("Algorithm {}: authenticate_owner_password rejects the owner password {:?}: {}; {}{}", if c.r <= 4 { "7" } else { "12" }, short(eff_owner_str), e, diagnose_a(enc, &eff_owner, &re.fkey, c.r), vr_note)),
            Ok(Ok(())) => {}
        }
        let mut pws: Vec<(&str, &[u8], &str)> = vec![(c.user.as_str(), upw.as_slice(), "user")];
        if eff_owner != upw { pws.push((eff_owner_str, eff_owner.as_slice(), "owner")); }
        for (pw, pwb, label) in pws {
            let mut d = enc.clone();
            match lib(|| d.decrypt(pw)) {
                Err(p) => push(f, "no-panic", format!("decrypt with the {} password panicked: {}", label, p)),
                Ok(Err(e)) => {
                    // R5/6: the password hash is accepted (Algorithm 11) but the key derivation, which then runs Algorithm 13, says "incorrect password"
                    let perms_stage = c.r >= 5 && label == "user" && format!("{}", e).contains("password is incorrect") && matches!(lib(|| enc.authenticate_user_password(pw)), Ok(Ok(())));
                    if perms_stage { push(f, "perms", format!("decrypt with the user password failed although authenticate_user_password accepts it (Algorithms 2.B / 11 agree): the rejection comes from Algorithm 13, the validation of /Perms = AES-256-ECB(file key, P | ffffffff | T/F | 'adb' | 4 random bytes) written by the reference; password {:?}, error: {}", short(pw), e)); }
                    else { push(f, &ob("reference-encrypted-opens-in-lopdf"), format!("decrypt with the {} password {:?} failed: {}; {}{}", label, short(pw), e, diagnose_a(enc, pwb, &re.fkey, c.r), vr_note)); }
                }
                Ok(Ok(())) => {
                    let key_ok = match d.encryption_state.as_ref().map(|s| s.file_encryption_key().to_vec()) {
                        Some(k) if k != re.fkey => { push(f, &ob("file-key"), format!("lopdf derives another file key than the reference encrypted with ({}, the {} password {:?}): lopdf {} ({} bytes), reference {} ({} bytes)",
                            if c.r <= 4 { "Algorithm 2" } else { "Algorithm 2.A" }, label, short(pw), hex(&k), k.len(), hex(&re.fkey), re.fkey.len())); false }
                        _ => true,
                    };
                    compare(&d, &format!("after decrypt with the {} password", label), key_ok, f);
                }
            }
        }
        let near = format!("{}x", c.user);
        let mut wrong: Vec<&str> = vec!["Wrong#1"];
        if !expected_auto { wrong.push(""); }
        // the user password with one more character, where that character lies inside the significant length
        if upw.len() < (if c.r <= 4 { 32 } else { 127 }) && prep_password(c.r, &near).map(|b| b != eff_owner).unwrap_or(false) { wrong.push(&near); }
        for w in wrong {
            let mut d = enc.clone();
            match lib(|| d.decrypt(w)) {
                Err(p) => push(f, "no-panic", format!("decrypt with a wrong password panicked: {}", p)),
                Ok(Ok(())) => push(f, &ob("wrong-password-rejected"), format!("decrypt({:?}) returned Ok although the user password is {:?} and the owner password is {:?}", w, short(&c.user), short(eff_owner_str))),
                Ok(Err(_)) => {}
            }
        }
    };

    if still_encrypted {
        open_checks(&loaded, &mut f);
    } else {
        if !expected_auto { push(&mut f, &ob("wrong-password-rejected"), format!("load_mem opened the file with the empty password although the user password is {:?} and the owner password is {:?}", short(&c.user), short(eff_owner_str))); }
        compare(&loaded, "after load_mem (opened with the empty password)", true, &mut f);
        if c.layout == 0 {
            // the loader has consumed the encrypted form; exercise the explicit calls on the same encrypted objects held in memory
            let mut m = Document::with_version("1.7");
            for (id, o) in &objects { m.objects.insert(*id, o.clone()); }
            m.max_id = objects.iter().map(|x| x.0 .0).max().unwrap_or(0);
            m.trailer = trailer.clone();
            m.trailer.set("Size", Object::Integer(m.max_id as i64 + 1));
            open_checks(&m, &mut f);
        }
    }
    f
}

// ===============================================================================================================
// 6. direction B: lopdf encrypts, the reference opens
// ===============================================================================================================

fn lib_state(c: &Case, doc: &Document, fkey: &[u8]) -> Result<EncryptionState, lopdf::Error> {
    let permissions = Permissions::from_bits_truncate(c.perm as u64);
    let (owner_password, user_password) = (c.owner.as_str(), c.user.as_str());
    let mut crypt_filters: BTreeMap<Vec<u8>, Arc<dyn CryptFilter>> = BTreeMap::new();
    let mut fname = |x: Ciph| -> Vec<u8> {
        if x == Ciph::Identity {
            if c.variant == Variant::IdentityInCf { crypt_filters.insert(b"NoEnc".to_vec(), lib_filter(x)); return b"NoEnc".to_vec(); }
            return b"Identity".to_vec(); // the predefined filter: no CF entry (ISO 32000-1 7.6.5, table 26)
        }
        crypt_filters.insert(cf_name(x).to_vec(), lib_filter(x));
        cf_name(x).to_vec()
    };
    let stream_filter = fname(c.stm);
    let string_filter = fname(c.strf);
    let v = match c.r {
        2 => EncryptionVersion::V1 { document: doc, owner_password, user_password, permissions },
        3 => EncryptionVersion::V2 { document: doc, owner_password, user_password, key_length: c.bits, permissions },
        4 => EncryptionVersion::V4 { document: doc, encrypt_metadata: c.em, crypt_filters, stream_filter, string_filter, owner_password, user_password, permissions },
        5 => EncryptionVersion::R5 { encrypt_metadata: c.em, crypt_filters, file_encryption_key: fkey, stream_filter, string_filter, owner_password, user_password, permissions },
        _ => EncryptionVersion::V5 { encrypt_metadata: c.em, crypt_filters, file_encryption_key: fkey, stream_filter, string_filter, owner_password, user_password, permissions },
    };
    EncryptionState::try_from(v)
}

fn get_int(d: &Dictionary, k: &[u8]) -> Option<i64> { match d.get(k) { Ok(Object::Integer(i)) => Some(*i), _ => None } }
fn get_str(d: &Dictionary, k: &[u8]) -> Option<Vec<u8>> { match d.get(k) { Ok(Object::String(s, _)) => Some(s.clone()), _ => None } }
fn get_name(d: &Dictionary, k: &[u8]) -> Option<Vec<u8>> { match d.get(k) { Ok(Object::Name(s)) => Some(s.clone()), _ => None } }

/// the cipher an independent reader selects for a StmF / StrF value (ISO 32000-1 tables 20, 25, 26)
fn cipher_of(name: Option<&Vec<u8>>, cf: Option<&Dictionary>, v: i64) -> Result<Ciph, String> {
    let name = match name { None => return Ok(Ciph::Identity), Some(n) => n };
    if name.as_slice() == b"Identity" {
        if cf.map(|d| d.get(b"Identity").is_ok()).unwrap_or(false) { return Err("CF redefines the predefined crypt filter /Identity".into()); }
        return Ok(Ciph::Identity);
    }
    let entry = match cf.and_then(|d| d.get(name).ok()) { Some(Object::Dictionary(e)) => e, _ => return Err(format!("crypt filter /{} is not defined in CF", String::from_utf8_lossy(name))) };
    if let Ok(t) = entry.get(b"Type") { if !matches!(t, Object::Name(n) if n.as_slice() == b"CryptFilter") { return Err(format!("CF /{} has /Type {:?}", String::from_utf8_lossy(name), t)); } }
    if let Ok(a) = entry.get(b"AuthEvent") { if !matches!(a, Object::Name(n) if n.as_slice() == b"DocOpen") { return Err(format!("CF /{} has /AuthEvent {:?} (the standard security handler authenticates at DocOpen)", String::from_utf8_lossy(name), a)); } }
    let len = get_int(entry, b"Length");
    let len_ok = |allowed: &[i64]| len.map(|l| allowed.contains(&l)).unwrap_or(true);
    match get_name(entry, b"CFM").as_deref() {
        Some(b"V2") => if v == 4 && len_ok(&[16, 128]) { Ok(Ciph::Rc4) } else { Err(format!("CF /{}: /CFM /V2 with /Length {:?} under V {}", String::from_utf8_lossy(name), len, v)) },
        Some(b"AESV2") => if v == 4 && len_ok(&[16, 128]) { Ok(Ciph::AesV2) } else { Err(format!("CF /{}: /CFM /AESV2 with /Length {:?} under V {}", String::from_utf8_lossy(name), len, v)) },
        Some(b"AESV3") => if v == 5 && len_ok(&[32, 256]) { Ok(Ciph::AesV3) } else { Err(format!("CF /{}: /CFM /AESV3 with /Length {:?} under V {}", String::from_utf8_lossy(name), len, v)) },
        // /CFM /None (also the default): "the application shall not decrypt data"; under the standard security handler,
        // which has no decryption of its own for such data, independent readers (pdf.js, qpdf) leave it as it is
        Some(b"None") | None => Ok(Ciph::Identity),
        Some(other) => Err(format!("CF /{} has /CFM /{}, which is not one of None, V2, AESV2, AESV3 (ISO 32000 table 25)", String::from_utf8_lossy(name), String::from_utf8_lossy(other))),
    }
}

fn run_b(c: &Case) -> Fails {
    let mut f: Fails = vec![];
    let sfx = c.suffix();
    let ob = |s: &str| format!("{}{}", s, sfx);
    let mut rng = Rng::new(c.seed);
    let id0 = rng.bytes(if c.seed % 2 == 0 { 16 } else { 21 });
    let id1 = rng.bytes(16);
    let given_key = rng.bytes(32);
    let (upw, opw) = match (prep_password(c.r, &c.user), prep_password(c.r, &c.owner)) { (Some(u), Some(o)) => (u, o), _ => { push(&mut f, "harness-password-family", "a generated password is outside PDFDocEncoding".into()); return f; } };
    let eff_owner: Vec<u8> = if c.r <= 4 && opw.is_empty() { upw.clone() } else { opw.clone() };
    // lopdf's save_to takes time proportional to the largest object number: the object numbered above 2^24 is encrypted through
    // the public per-object entry point (encryption::encrypt_object) instead of travelling through the file
    let (big, plain): (Vec<_>, Vec<_>) = plain_objects(c.r).into_iter().partition(|x| x.0 .0 > 1_000_000);
    let mut doc = Document::with_version("1.7");
    for (id, o) in &plain { doc.objects.insert(*id, o.clone()); }
    doc.max_id = plain.iter().map(|x| x.0 .0).max().unwrap_or(0);
    doc.trailer.set("Root", Object::Reference((1, 0)));
    doc.trailer.set("Info", Object::Reference((3, 0)));
    doc.trailer.set("ID", Object::Array(vec![hxs(&id0), hxs(&id1)]));
    if c.layout == 1 { doc.reference_table.cross_reference_type = XrefType::CrossReferenceStream; }

    let state = match lib(|| lib_state(c, &doc, &given_key)) {
        Err(p) => { push(&mut f, "no-panic", format!("EncryptionState::try_from panicked: {}", p)); return f; }
        Ok(Err(e)) => { push(&mut f, &ob("encrypt-ok"), format!("EncryptionState::try_from refuses a configuration of the standard security handler: {}", e)); return f; }
        Ok(Ok(s)) => s,
    };
    let mut enc = doc.clone();
    match lib(|| enc.encrypt(&state)) {
        Err(p) => { push(&mut f, "no-panic", format!("encrypt panicked: {}", p)); return f; }
        Ok(Err(e)) => { push(&mut f, &ob("encrypt-ok"), format!("encrypt failed: {}", e)); return f; }
        Ok(Ok(())) => {}
    }
    // observe the saved file where the loader leaves the ciphertext alone; otherwise the encrypted objects in memory
    let mut bytes: Vec<u8> = vec![];
    let mut saver = enc.clone();
    let loaded: Option<Document> = match lib(|| saver.save_to(&mut bytes)) {
        Err(p) => { push(&mut f, "no-panic", format!("save_to of the encrypted document panicked: {}", p)); None }
        Ok(Err(_)) => None,
        Ok(Ok(())) => match lib(|| Document::load_mem(&bytes)) {
            Err(p) => { push(&mut f, "no-panic", format!("load_mem of the saved encrypted document panicked: {}", p)); None }
            Ok(Ok(d)) if d.trailer.get(b"Encrypt").is_ok() => Some(d),
            _ => None,
        },
    };
    let (src, via): (&Document, &str) = match &loaded { Some(d) => (d, "saved file"), None => (&enc, "document in memory") };

    // --- the encryption dictionary, read the way an independent reader does
    let ed: Dictionary = match src.trailer.get(b"Encrypt") {
        Ok(Object::Reference(id)) => match src.objects.get(id) { Some(Object::Dictionary(d)) => d.clone(), other => { push(&mut f, "dict-V-R-Length", format!("/Encrypt {} {} R is {:?}", id.0, id.1, other.map(|o| o.enum_variant()))); return f; } },
        Ok(Object::Dictionary(d)) => d.clone(),
        other => { push(&mut f, "dict-V-R-Length", format!("trailer /Encrypt is {:?}", other.ok())); return f; }
    };
    let (v, r) = (get_int(&ed, b"V"), get_int(&ed, b"R"));
    let length = get_int(&ed, b"Length");
    let length_ok = match c.r { 2 => length.is_none() || length == Some(40), 3 => length == Some(c.bits as i64) || (length.is_none() && c.bits == 40), 4 => length.is_none() || length == Some(128), _ => length.is_none() || length == Some(256) };
    if get_name(&ed, b"Filter").as_deref() != Some(b"Standard") || v != Some(c.v()) || r != Some(c.r as i64) || !length_ok || (ed.get(b"Length").is_ok() && length.is_none()) {
        push(&mut f, "dict-V-R-Length", format!("{}: /Filter {:?} /V {:?} /R {:?} /Length {:?}; revision {} with a {}-bit key needs /Filter /Standard /V {} /R {} and /Length {}",
            via, get_name(&ed, b"Filter").map(|n| String::from_utf8_lossy(&n).to_string()), v, r, ed.get(b"Length").ok(), c.r, c.bits, c.v(), c.r,
            match c.r { 2 => "absent or 40".to_string(), 3 => format!("{}", c.bits), 4 => "absent or 128".into(), _ => "absent or 256".into() }));
    }
    // P: the conforming word, as a signed 32-bit integer (ISO 32000-1 7.6.3.2, table 22)
    let p_dict = get_int(&ed, b"P");
    let want_p = c.p();
    if p_dict != Some(want_p as i64) {
        let how = match p_dict { Some(x) if x as u32 == want_p as u32 && x != want_p as i64 => " (the low 32 bits agree, but the integer is not the signed 32-bit value)", Some(x) if (x as u32) & 0xFFFF_F0C3 != 0xFFFF_F0C0 => " (reserved bits 1-2 must be 0, 7-8 and 13-32 must be 1)", _ => "" };
        push(&mut f, "P-word", format!("{}: /P is {:?}, the conforming permission word for access bits {:#06x} is {}{}", via, ed.get(b"P").ok(), c.perm, want_p, how));
    }
    let p_used: i32 = p_dict.map(|x| x as u32 as i32).unwrap_or(want_p);
    // EncryptMetadata and crypt filters
    let em_dict = match ed.get(b"EncryptMetadata") { Ok(Object::Boolean(b)) => Some(*b), Ok(_) => None, Err(_) => Some(true) };
    let (mut stm_c, mut str_c) = (c.stm, c.strf);
    let mut named: BTreeMap<Vec<u8>, Ciph> = BTreeMap::new();
    if c.r >= 4 {
        if em_dict != Some(c.em) { push(&mut f, &ob("dict-crypt-filters"), format!("the crypt filter entries do not select the requested ciphers per ISO 32000 tables 20/25/26 ({}): /EncryptMetadata is {:?} (absent means true), requested {}", via, ed.get(b"EncryptMetadata").ok(), c.em)); }
        let cf = match ed.get(b"CF") { Ok(Object::Dictionary(d)) => Some(d.clone()), _ => None };
        for (which, key, want) in [("StmF", &b"StmF"[..], c.stm), ("StrF", &b"StrF"[..], c.strf)] {
            let name = get_name(&ed, key);
            match cipher_of(name.as_ref(), cf.as_ref(), c.v()) {
                Ok(got) => {
                    if got != want { push(&mut f, &ob("dict-crypt-filters"), format!("the crypt filter entries do not select the requested ciphers per ISO 32000 tables 20/25/26 ({}): /{} /{} selects {} but {} was requested", via, which, name.map(|n| String::from_utf8_lossy(&n).to_string()).unwrap_or_default(), got.s(), want.s())); }
                    if which == "StmF" { stm_c = got; } else { str_c = got; }
                }
                Err(e) => push(&mut f, &ob("dict-crypt-filters"), format!("the crypt filter entries do not select the requested ciphers per ISO 32000 tables 20/25/26 ({}): /{}: {}", via, which, e)),
            }
        }
        if let Some(cf) = &cf { for (k, _) in cf.iter() { if let Ok(x) = cipher_of(Some(k), Some(cf), c.v()) { named.insert(k.clone(), x); } } }
    } else if ed.get(b"CF").is_ok() || ed.get(b"StmF").is_ok() || ed.get(b"StrF").is_ok() || ed.get(b"EncryptMetadata").is_ok() {
        // allowed but meaningless below V 4; not a failure
    }
    // /ID must not be encrypted
    match src.trailer.get(b"ID") {
        Ok(Object::Array(a)) if matches!(a.first(), Some(Object::String(s, _)) if *s == id0) && matches!(a.get(1), Some(Object::String(s, _)) if *s == id1) => {}
        other => push(&mut f, "id-not-encrypted", format!("{}: trailer /ID is {:?}, the document had [{} {}]", via, other.ok(), hex(&id0), hex(&id1))),
    }

    // --- keys and password hashes
    let o = get_str(&ed, b"O").unwrap_or_default();
    let u = get_str(&ed, b"U").unwrap_or_default();
    let lib_key = state.file_encryption_key().to_vec();
    let fkey: Vec<u8>;
    if c.r <= 4 {
        let n = c.n();
        if o.len() != 32 { push(&mut f, "O-value", format!("{}: /O has {} bytes instead of 32", via, o.len())); }
        if u.len() != 32 { push(&mut f, "U-value", format!("{}: /U has {} bytes instead of 32", via, u.len())); }
        // Algorithm 3
        let want_o = alg3(c.r, n, &eff_owner, &upw);
        let mut o_ok = true;
        if o != want_o {
            o_ok = false;
            let mut why = String::new();
            if opw.is_empty() && !upw.is_empty() && o == alg3(c.r, n, &[], &upw) {
                why = " - /O is what Algorithm 3 gives with the 32-byte padding string as owner password, but step (a) says: if there is no owner password, use the user password instead".into();
                if alg7(c.r, n, &[], &o, &u, p_used, &id0, em_dict.unwrap_or(true)).is_some() { why.push_str("; consequence: the empty password passes Algorithm 7 (owner authentication) and yields the file key although the user password is not empty"); }
            }
            push(&mut f, "O-value", format!("Algorithm 3: the O entry differs from the reference's computation ({}): /O is {}, the reference computes {} for owner password {:?} (effective {:?}) and user password {:?}{}", via, hex(&o), hex(&want_o), short(&c.owner), short(&String::from_utf8_lossy(&eff_owner)), short(&c.user), why));
        }
        // Algorithm 2 and 4/5
        let key2 = alg2(c.r, n, &upw, &o, p_used, &id0, em_dict.unwrap_or(true));
        if lib_key != key2 {
            push(&mut f, "file-key", format!("Algorithm 2: lopdf's file key differs from the reference's derivation ({}): lopdf holds {} ({} bytes), the reference derives {} ({} bytes) from the user password, /O, P = {}, ID[0] = {}{}", via, hex(&lib_key), lib_key.len(), hex(&key2), key2.len(), p_used, hex(&id0),
                if c.r >= 4 && !em_dict.unwrap_or(true) { ", ffffffff" } else { "" }));
        }
        let want_u = if c.r == 2 { alg4(&key2) } else { alg5(&key2, &id0) };
        let cmp = if c.r == 2 { 32 } else { 16 };
        if u.len() < cmp || u[..cmp] != want_u[..cmp] {
            push(&mut f, "U-value", format!("Algorithm 4/5: the U entry differs from the reference's computation ({}, Algorithm {}): the first {} bytes of /U are {}, the reference computes {}", via, if c.r == 2 { 4 } else { 5 }, cmp, hex(&u[..cmp.min(u.len())]), hex(&want_u[..cmp])));
        }
        // Algorithms 6 and 7 on the dictionary as written
        match alg6(c.r, n, &upw, &o, &u, p_used, &id0, em_dict.unwrap_or(true)) {
            Some(k) => fkey = k,
            None => { push(&mut f, &ob("lopdf-encrypted-opens-in-reference"), format!("Algorithm 6: the reference does not accept the user password ({}): {:?}", via, short(&c.user))); fkey = lib_key.clone(); }
        }
        if o_ok {
            match alg7(c.r, n, &eff_owner, &o, &u, p_used, &id0, em_dict.unwrap_or(true)) {
                Some(k) if k == fkey => {}
                other => push(&mut f, &ob("lopdf-encrypted-opens-in-reference"), format!("Algorithm 7: the owner password does not lead the reference to the file key ({}): {:?} gives {:?} instead of {}", via, short(&c.owner), other.map(|k| hex(&k)), hex(&fkey))),
            }
        }
    } else {
        let (oe, ue, perms) = (get_str(&ed, b"OE").unwrap_or_default(), get_str(&ed, b"UE").unwrap_or_default(), get_str(&ed, b"Perms").unwrap_or_default());
        let mut shape_ok = true;
        if u.len() != 48 || ue.len() != 32 { push(&mut f, "U-value", format!("{}: /U has {} bytes and /UE {} (48 and 32 required)", via, u.len(), ue.len())); shape_ok = false; }
        if o.len() != 48 || oe.len() != 32 { push(&mut f, "O-value", format!("{}: /O has {} bytes and /OE {} (48 and 32 required)", via, o.len(), oe.len())); shape_ok = false; }
        if lib_key != given_key { push(&mut f, "file-key", format!("the state does not hold the given file key ({}): {} instead of {}", via, hex(&lib_key), hex(&given_key))); }
        fkey = given_key.clone();
        if shape_ok {
            let hash_name = if c.r == 6 { "Algorithm 2.B" } else { "SHA-256" };
            // Algorithm 8 / 11
            let hu = alg2b(c.r, &upw, &u[32..40], &[]);
            if hu[..] != u[..32] { push(&mut f, "U-value", format!("Algorithm 8 (a): the hash in the U entry differs from the reference's ({}): /U[0..32] is {}, {} of the user password ({} bytes) and the validation salt {} is {}", via, hex(&u[..32]), hash_name, upw.len(), hex(&u[32..40]), hex(&hu))); }
            let ku = aes_cbc_dec(&alg2b(c.r, &upw, &u[40..48], &[]), &[0u8; 16], &ue);
            if ku != given_key { push(&mut f, "file-key", format!("Algorithm 8 (b) / 2.A: the UE entry does not unwrap to the file key ({}): /UE decrypts to {} with the key from the user password and the key salt {}, the file key is {}", via, hex(&ku), hex(&u[40..48]), hex(&given_key))); }
            // Algorithm 9 / 12
            let ho = alg2b(c.r, &opw, &o[32..40], &u);
            if ho[..] != o[..32] { push(&mut f, "O-value", format!("Algorithm 9 (a): the hash in the O entry differs from the reference's ({}): /O[0..32] is {}, {} of the owner password ({} bytes), the validation salt {} and the 48-byte /U is {}", via, hex(&o[..32]), hash_name, opw.len(), hex(&o[32..40]), hex(&ho))); }
            let ko = aes_cbc_dec(&alg2b(c.r, &opw, &o[40..48], &u), &[0u8; 16], &oe);
            if ko != given_key { push(&mut f, "file-key", format!("Algorithm 9 (b) / 2.A: the OE entry does not unwrap to the file key ({}): /OE decrypts to {} with the key from the owner password, the key salt {} and /U, the file key is {}", via, hex(&ko), hex(&o[40..48]), hex(&given_key))); }
            // Algorithm 2.A as a reader runs it
            for (pw, label) in [(&upw, "user"), (&opw, "owner")] {
                match alg2a(c.r, pw, &o, &u, &oe, &ue) {
                    Some((k, _)) if k == given_key => {}
                    other => push(&mut f, &ob("lopdf-encrypted-opens-in-reference"), format!("Algorithm 2.A: a password does not lead the reference to the file key ({}): the {} password gives {:?}", via, label, other.map(|(k, w)| format!("{} as {}", hex(&k), w)))),
                }
            }
        }
        // Algorithm 10 / 13
        if let Err(e) = alg13(&given_key, &perms, p_used, em_dict.unwrap_or(true)) {
            let raw = perms.len() == 16 && &perms[9..12] == b"adb" && perms[..4] == (p_used as u32).to_le_bytes() && (perms[8] == b'T' || perms[8] == b'F');
            push(&mut f, "perms", format!("Algorithm 10/13: the Perms entry does not decrypt to a valid block ({}): {}{}", via, e, if raw { format!("; the stored /Perms {} is the PLAINTEXT block (P, ffffffff, T/F, 'adb', 4 random bytes): Algorithm 10 step (f), AES-256 ECB encryption with the file key, was not applied", hex(&perms)) } else { String::new() }));
        }
    }

    // --- every string and stream
    let rc = RefCrypt { fkey: &fkey, stm: stm_c, strf: str_c, em: em_dict.unwrap_or(true), named: &named };
    let mut extra_objs: BTreeMap<(u32, u16), Object> = BTreeMap::new();
    for (id, po) in &big {
        let mut o = po.clone();
        match lib(|| lopdf::encryption::encrypt_object(&state, *id, &mut o)) {
            Err(p) => push(&mut f, "no-panic", format!("encrypt_object panicked: {}", p)),
            Ok(Err(e)) => push(&mut f, &ob("encrypt-ok"), format!("encrypt_object failed for object {} {}: {}", id.0, id.1, e)),
            Ok(Ok(())) => { extra_objs.insert(*id, o); }
        }
    }
    for (id, po) in plain.iter().chain(big.iter()) {
        let eo = match src.objects.get(id).or_else(|| extra_objs.get(id)) { Some(x) => x, None => { push(&mut f, &ob("lopdf-encrypted-opens-in-reference"), format!("{}: object {} {} is missing", via, id.0, id.1)); continue; } };
        let mut errs = vec![];
        let dec = rc.decrypt(*id, eo, &format!("{} {}", id.0, id.1), &mut errs);
        let problem = errs.into_iter().next().or_else(|| diff_obj(po, &dec, &format!("{} {}", id.0, id.1)));
        if let Some(pr) = problem {
            let cipher = if pr.starts_with("stream") { match eo { Object::Stream(s) => rc.stream_cipher(s), _ => stm_c } } else { str_c };
            let mut name = "lopdf-encrypted-opens-in-reference";
            let mut extra = String::new();
            if cipher != Ciph::Identity {
                if let Ok(Ok(k)) = lib(|| lib_filter(cipher).compute_key(&fkey, *id)) {
                    let want = alg1(&fkey, *id, cipher);
                    if k != want { name = "object-key"; extra = format!("; Algorithm 1: lopdf's key for object {} {} is {}, the reference's is {} (file key {})", id.0, id.1, hex(&k), hex(&want), hex(&fkey)); }
                    else { extra = format!("; the object keys agree ({})", hex(&k)); }
                }
            } else { extra = "; the dictionary selects /Identity for this item, so it has to be stored unencrypted".into(); }
            push(&mut f, &ob(name), format!("the reference, after authenticating, does not recover the plaintext ({}): {}{}; file key {}", via, pr, extra, hex(&fkey)));
            break;
        }
    }
    f
}

// ===============================================================================================================
// 7. the run
// ===============================================================================================================

fn run_case(c: &Case) -> Fails { if c.dir == 'A' { run_a(c) } else { run_b(c) } }

const OBLIGATIONS: u64 = 15;

pub fn run(thorough: bool) -> Report {
    if let Err(e) = self_test() {
        eprintln!("c06-interop: SELF-TEST FAILED, the reference primitives are wrong (harness defect, not a finding): {}", e);
        std::process::exit(3);
    }
    let perturbed = !perturb().is_empty();
    let bound = if perturbed { format!("PERTURBED REFERENCE ({}): sensitivity demonstration only. {}", perturb(), BOUND) } else { BOUND.to_string() };
    let mut rep = Report::new(&bound, !perturbed);
    rep.obligations = OBLIGATIONS;
    let mut cs = cases(thorough);
    if let Ok(only) = std::env::var("C06_ONLY") { cs.retain(|c| c.describe().contains(&only)); } // debugging aid; never set by the driver
    let results: Vec<Fails> = cs.par_iter().map(run_case).collect();
    let stats = std::env::var("C06_STATS").is_ok();
    let mut agg: BTreeMap<String, (u64, String)> = BTreeMap::new();
    let step = (cs.len() / 4).max(1);
    for (i, (c, fails)) in cs.iter().zip(results.into_iter()).enumerate() {
        rep.case(true);
        if i % step == step / 2 { rep.sample(c.describe()); }
        for (obl, det) in fails {
            if stats { let e = agg.entry(obl.clone()).or_insert((0, format!("{} :: {}", c.describe(), det))); e.0 += 1; }
            rep.fail(&obl, det, c.to_json(&obl), c.describe());
        }
    }
    if stats { eprintln!("{} cases", cs.len()); for (obl, (k, first)) in &agg { eprintln!("{:6} {} | first: {}", k, obl, first); } }
    rep
}

pub fn replay(v: &Value) -> Result<(), String> {
    if let Err(e) = self_test() {
        eprintln!("c06-interop: SELF-TEST FAILED (harness defect): {}", e);
        std::process::exit(3);
    }
    let c = Case::from_json(v);
    let fails = run_case(&c);
    let want = v["obligation"].as_str().unwrap_or("");
    match fails.iter().find(|x| want.is_empty() || x.0 == want) {
        Some((obl, det)) => Err(format!("{}: {} :: {}", obl, c.describe(), det)),
        None => Ok(()),
    }
}
