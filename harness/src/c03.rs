//! C03: every saved file is structurally valid for a strict independent reader, which recovers the saved objects.
use crate::common::*;
use crate::gen::*;
use crate::strict;
use lopdf::{Document, IncrementalDocument, Object};
use serde_json::{json, Value};

pub fn check_doc(spec: &DocSpec) -> Result<bool, (String, String)> {
    let mut d = build(spec);
    let mut out = vec![];
    let r = guarded(std::panic::AssertUnwindSafe(|| d.save_to(&mut out)));
    match r {
        Err(p) => return Err(("save-no-panic".into(), format!("save panicked: {}", p))),
        Ok(Err(e)) => return Err(("save-ok".into(), format!("save to a Vec failed: {}", e))),
        Ok(Ok(())) => {}
    }
    verify_file(&out, 0, &build(spec), spec.xref_stream).map_err(|e| ("strict-reader".to_string(), e))?;
    // the same document through a sink that accepts at most 7 bytes per call (a pipe, a socket): the statement is about
    // the file that reaches the sink, whatever the sink's write granularity, so the strict reader must accept that file too
    let mut d2 = build(spec);
    let mut sink = crate::sinks::Sink::new(crate::sinks::Mode::Chunk(7));
    match guarded(std::panic::AssertUnwindSafe(|| d2.save_to(&mut sink))) {
        Err(p) => return Err(("save-no-panic".into(), format!("save to a short-writing sink panicked: {}", p))),
        Ok(Err(e)) => return Err(("save-ok".into(), format!("save to a short-writing sink failed: {}", e))),
        Ok(Ok(())) => {}
    }
    verify_file(&sink.delivered, 0, &build(spec), spec.xref_stream).map_err(|e| ("strict-reader-short-writes".to_string(), format!("file delivered to a sink taking 7 bytes per call: {}", e)))?;
    Ok(!spec.objects.is_empty())
}

/// strict reading of the revision starting at `start` must give back exactly the objects of `orig` (minus bookkeeping objects)
pub fn verify_file(file: &[u8], start: usize, orig: &Document, want_stream: bool) -> Result<(), String> {
    let rec = strict::read_revision(file, start)?;
    if rec.xref_is_stream != want_stream { return Err("wrong cross-reference format".into()); }
    if rec.version != orig.version { return Err(format!("version {:?} != {:?}", rec.version, orig.version)); }
    let expected: Vec<(&(u32, u16), &Object)> = orig.objects.iter().filter(|(_, o)| !is_bookkeeping_object(o)).collect();
    if expected.len() != rec.objects.len() { return Err(format!("strict reader recovered {} objects, {} were saved", rec.objects.len(), expected.len())); }
    for (id, o) in expected {
        match rec.objects.get(id) {
            None => return Err(format!("object {} {} not recovered", id.0, id.1)),
            Some(r) => {
                let same = match (o, r) {
                    (Object::Stream(a), Object::Stream(b)) => a.content == b.content && dict_eq(&a.dict, &b.dict, &[]),
                    _ => obj_eq(o, r),
                };
                if !same { return Err(format!("object {} {}: saved {:?}, strict reader recovered {:?}", id.0, id.1, o, r)); }
            }
        }
    }
    if !dict_eq(&orig.trailer, &rec.trailer, BOOKKEEPING) { return Err(format!("trailer differs: {:?} vs {:?}", orig.trailer, rec.trailer)); }
    let size = rec.trailer.get(b"Size").and_then(|o| o.as_i64()).unwrap_or(-1);
    if size <= orig.max_id as i64 { return Err(format!("Size {} does not exceed max_id {}", size, orig.max_id)); }
    Ok(())
}

/// incremental save on top of `base` bytes: prefix preserved, appended revision strictly valid
pub fn check_incremental(spec: &DocSpec, base_spec: &DocSpec, strip_newline: bool) -> Result<bool, (String, String)> {
    let mut base_doc = build(base_spec);
    let mut base = vec![];
    base_doc.save_to(&mut base).map_err(|e| ("base-save".to_string(), e.to_string()))?;
    if !strip_newline { base.push(b'\n'); }
    let prev = match Document::load_mem(&base) { Ok(d) => d, Err(e) => return Err(("base-load".into(), format!("{}", e))) };
    let mut inc = IncrementalDocument::create_from(base.clone(), prev);
    for (id, o) in &spec.objects {
        inc.new_document.objects.insert(*id, o.clone());
        inc.new_document.max_id = inc.new_document.max_id.max(id.0);
    }
    let expect_doc = inc.new_document.clone();
    let want_stream = base_spec.xref_stream;
    let mut out = vec![];
    match guarded(std::panic::AssertUnwindSafe(|| inc.save_to(&mut out))) {
        Err(p) => return Err(("save-no-panic".into(), p)),
        Ok(Err(e)) => return Err(("save-ok".into(), e.to_string())),
        Ok(Ok(())) => {}
    }
    if !out.starts_with(&base) { return Err(("incremental-prefix".into(), "previous bytes are not an unchanged prefix".into())); }
    let mut start = base.len();
    if out.get(start) == Some(&b'\n') && !base.ends_with(b"\n") { start += 1; }
    // offsets in the appended revision are absolute file offsets
    verify_file(&out, start, &expect_doc, want_stream).map_err(|e| ("strict-reader-incremental".to_string(), e))?;
    Ok(true)
}

pub fn strict(thorough: bool) -> Report {
    let mut rep = Report::new("all documents of gen::docs (alphabet of 27 leaves + containers, 5 id layouts, both xref formats), each saved to a Vec and to a sink that takes at most 7 bytes per call; incremental: each over 2 bases x newline/no-newline", true);
    let specs = docs(thorough);
    for s in &specs {
        match check_doc(s) {
            Ok(nt) => { rep.case(nt); if rep.evaluations % 97 == 1 { rep.sample(describe(s)); } }
            Err((ob, d)) => { rep.case(true); rep.fail(&ob, d.clone(), json!({"kind": "plain", "spec": spec_json(s)}), d); }
        }
    }
    let bases: Vec<DocSpec> = specs.iter().filter(|s| s.objects.len() == 2).take(2).cloned().chain(specs.iter().filter(|s| s.xref_stream && s.objects.len() == 2).take(2).cloned()).collect();
    let step = if thorough { 1 } else { 5 };
    for (k, s) in specs.iter().enumerate() {
        if k % step != 0 || s.objects.is_empty() { continue; }
        for b in &bases {
            for strip in [true, false] {
                match check_incremental(s, b, strip) {
                    Ok(nt) => rep.case(nt),
                    Err((ob, d)) => { rep.case(true); rep.fail(&ob, d.clone(), json!({"kind": "incremental", "spec": spec_json(s), "base": spec_json(b), "strip_newline": strip}), d); }
                }
            }
        }
    }
    rep
}

pub fn spec_json(s: &DocSpec) -> Value {
    let mut d = build(s);
    let mut out = vec![];
    let _ = guarded(std::panic::AssertUnwindSafe(|| d.save_to(&mut out)));
    // a spec is recorded by its index-free description plus the reference serialisation of each object through Debug
    json!({"xref_stream": s.xref_stream, "version": s.version, "slack": s.max_id_slack, "extra_trailer": s.extra_trailer,
           "objects": s.objects.iter().map(|(id, o)| json!({"id": id.0, "gen": id.1, "obj": obj_json(o)})).collect::<Vec<_>>()})
}

pub fn obj_json(o: &Object) -> Value {
    use Object::*;
    match o {
        Null => json!({"t": "null"}),
        Boolean(b) => json!({"t": "bool", "v": b}),
        Integer(i) => json!({"t": "int", "v": i.to_string()}),
        Real(r) => json!({"t": "real", "bits": r.to_bits()}),
        Name(n) => json!({"t": "name", "v": hex(n)}),
        String(s, f) => json!({"t": "str", "v": hex(s), "hex": matches!(f, lopdf::StringFormat::Hexadecimal)}),
        Array(a) => json!({"t": "arr", "v": a.iter().map(obj_json).collect::<Vec<_>>()}),
        Dictionary(d) => json!({"t": "dict", "v": d.iter().map(|(k, v)| json!([hex(k), obj_json(v)])).collect::<Vec<_>>()}),
        Stream(s) => json!({"t": "stream", "dict": s.dict.iter().map(|(k, v)| json!([hex(k), obj_json(v)])).collect::<Vec<_>>(), "content": hex(&s.content)}),
        Reference(id) => json!({"t": "ref", "id": id.0, "gen": id.1}),
    }
}

pub fn obj_from_json(v: &Value) -> Object {
    let t = v["t"].as_str().unwrap_or("null");
    let dict_of = |a: &Value| { let mut d = lopdf::Dictionary::new(); for e in a.as_array().cloned().unwrap_or_default() { d.set(unhex(e[0].as_str().unwrap()), obj_from_json(&e[1])); } d };
    match t {
        "bool" => Object::Boolean(v["v"].as_bool().unwrap()),
        "int" => Object::Integer(v["v"].as_str().unwrap().parse().unwrap()),
        "real" => Object::Real(f32::from_bits(v["bits"].as_u64().unwrap() as u32)),
        "name" => Object::Name(unhex(v["v"].as_str().unwrap())),
        "str" => Object::String(unhex(v["v"].as_str().unwrap()), if v["hex"].as_bool().unwrap_or(false) { lopdf::StringFormat::Hexadecimal } else { lopdf::StringFormat::Literal }),
        "arr" => Object::Array(v["v"].as_array().unwrap().iter().map(obj_from_json).collect()),
        "dict" => Object::Dictionary(dict_of(&v["v"])),
        "stream" => { let d = dict_of(&v["dict"]); let mut s = lopdf::Stream::new(lopdf::Dictionary::new(), unhex(v["content"].as_str().unwrap())); s.dict = d; Object::Stream(s) }
        "ref" => Object::Reference((v["id"].as_u64().unwrap() as u32, v["gen"].as_u64().unwrap() as u16)),
        _ => Object::Null,
    }
}

pub fn spec_from_json(v: &Value) -> DocSpec {
    DocSpec {
        objects: v["objects"].as_array().cloned().unwrap_or_default().iter().map(|e| ((e["id"].as_u64().unwrap() as u32, e["gen"].as_u64().unwrap() as u16), obj_from_json(&e["obj"]))).collect(),
        xref_stream: v["xref_stream"].as_bool().unwrap_or(false),
        version: v["version"].as_str().unwrap_or("1.5").to_string(),
        extra_trailer: v["extra_trailer"].as_bool().unwrap_or(false),
        max_id_slack: v["slack"].as_u64().unwrap_or(0) as u32,
    }
}

pub fn replay(v: &Value) -> Result<(), String> {
    let s = spec_from_json(&v["spec"]);
    if v["kind"] == "incremental" {
        let b = spec_from_json(&v["base"]);
        check_incremental(&s, &b, v["strip_newline"].as_bool().unwrap_or(true)).map(|_| ()).map_err(|e| format!("{}: {}", e.0, e.1))
    } else {
        check_doc(&s).map(|_| ()).map_err(|e| format!("{}: {}", e.0, e.1))
    }
}
